(* Boolean checkers for the tables regenerated from the source (Gen/Tables.v) and
   their generic soundness lemmas (lifting the finite reflection over the 100
   two-digit transaction codes to all integers). *)
From Coq Require Import String.
From ACH Require Export ArithSpec.
Open Scope Z_scope.

Definition codes100 : list Z := map Z.of_nat (seq 0 100).
Definition in100 (l : list Z) : bool := forallb (fun c => (0 <=? c) && (c <? 100)) l.

(* an accepted transaction code that is not one of the ADV accounting codes *)
Definition std_code (T : tables) (c : Z) : bool := memz c (t_codes T) && negb (memz c (t_advcodes T)).

Definition direction_ok_kind (T : tables) (k : kind) : bool :=
  forallb (fun c => Bool.eqb (adds_credit T k c) (std_code T c && spec_is_credit k c)
                    && Bool.eqb (adds_debit T k c) (std_code T c && spec_is_debit k c)) codes100.

Definition direction_ok_adv (T : tables) : bool :=
  forallb (fun c => Bool.eqb (adds_credit T KADV c) (memz c (t_advcodes T) && spec_is_credit KADV c)
                    && Bool.eqb (adds_debit T KADV c) (memz c (t_advcodes T) && spec_is_debit KADV c)) codes100.

(* every accepted non-ADV code has a direction (its units digit is not 0) *)
Definition covered_ok (T : tables) : bool :=
  forallb (fun c => negb (std_code T c) || spec_is_credit KStd c || spec_is_debit KStd c) codes100.

Definition same_set (a b : list Z) : bool := forallb (fun x => memz x b) a && forallb (fun x => memz x a) b.

Definition constants_ok (T : tables) : bool :=
  (t_hash_digits T =? 10) && (t_amount_limit T =? 10 ^ 10 - 1) && (t_batch_limit T =? 10 ^ 12 - 1)
  && (t_file_limit T =? 10 ^ 12 - 1)
  && (t_mixed T =? 200) && (t_credits T =? 220) && (t_debits T =? 225) && (t_advclass T =? 280)
  && same_set (t_classes T) [200; 220; 225; 280].

Definition lists_in100 (T : tables) : bool :=
  in100 (t_std_credit T) && in100 (t_std_debit T) && in100 (t_iat_credit T) && in100 (t_iat_debit T)
  && in100 (t_adv_credit T) && in100 (t_adv_debit T) && in100 (t_codes T) && in100 (t_advcodes T).

Definition tables_ok (T : tables) : bool :=
  lists_in100 T && direction_ok_kind T KStd && direction_ok_kind T KIAT && direction_ok_adv T
  && covered_ok T && constants_ok T.

(* ---- call structure ------------------------------------------------------ *)

Definition chk_entry := (string * list string)%type.

Fixpoint strs_eqb (a b : list string) : bool :=
  match a, b with
  | [], [] => true
  | x :: a', y :: b' => String.eqb x y && strs_eqb a' b'
  | _, _ => false
  end.
Definition entry_eqb (a b : chk_entry) : bool := String.eqb (fst a) (fst b) && strs_eqb (snd a) (snd b).
Fixpoint entries_eqb (a b : list chk_entry) : bool :=
  match a, b with
  | [], [] => true
  | x :: a', y :: b' => entry_eqb x y && entries_eqb a' b'
  | _, _ => false
  end.

(* the required checks occur in the function, exactly once each, in this order,
   and under exactly these enclosing conditions *)
Definition calls_ok (req tbl : list chk_entry) : bool :=
  entries_eqb (filter (fun e => existsb (String.eqb (fst e)) (map fst req)) tbl) req.

Open Scope string_scope.

Definition custom_trace := "batch.validateOpts == nil || !batch.validateOpts.CustomTraceNumbers".
Definition unequal_class := "(batch.validateOpts == nil || !batch.validateOpts.UnequalServiceClassCode) && ".

Definition req_batch_verify : list chk_entry :=
  [ ("cond len(batch.Entries) <= 0 && len(batch.ADVEntries) <= 0", [])
  ; ("call batch.isFieldInclusion()", [])
  ; ("cond " ++ unequal_class ++ "batch.Header.ServiceClassCode != batch.Control.ServiceClassCode", ["!batch.IsADV()"])
  ; ("cond batch.Header.ODFIIdentification != batch.Control.ODFIIdentification", ["!batch.IsADV()"])
  ; ("cond batch.Header.BatchNumber != batch.Control.BatchNumber", ["!batch.IsADV()"])
  ; ("cond " ++ unequal_class ++ "batch.Header.ServiceClassCode != batch.ADVControl.ServiceClassCode", ["!(!batch.IsADV())"])
  ; ("cond batch.Header.ODFIIdentification != batch.ADVControl.ODFIIdentification", ["!(!batch.IsADV())"])
  ; ("cond batch.Header.BatchNumber != batch.ADVControl.BatchNumber", ["!(!batch.IsADV())"])
  ; ("call batch.isBatchEntryCount()", [])
  ; ("call batch.isSequenceAscending()", [custom_trace])
  ; ("call batch.isBatchAmount()", [])
  ; ("call batch.isEntryHash()", [])
  ; ("call batch.isTraceNumberODFI()", [custom_trace]) ].

Definition iat_custom_trace := "iatBatch.validateOpts == nil || !iatBatch.validateOpts.CustomTraceNumbers".
Definition req_iat_verify : list chk_entry :=
  [ ("cond len(iatBatch.Entries) <= 0", [])
  ; ("call iatBatch.isFieldInclusion()", [])
  ; ("cond (iatBatch.validateOpts == nil || !iatBatch.validateOpts.UnequalServiceClassCode) && iatBatch.Header.ServiceClassCode != iatBatch.Control.ServiceClassCode", [])
  ; ("cond iatBatch.Header.ODFIIdentification != iatBatch.Control.ODFIIdentification", [])
  ; ("cond iatBatch.Header.BatchNumber != iatBatch.Control.BatchNumber", [])
  ; ("call iatBatch.isBatchEntryCount()", [])
  ; ("call iatBatch.isSequenceAscending()", [iat_custom_trace])
  ; ("call iatBatch.isBatchAmount()", [])
  ; ("call iatBatch.isEntryHash()", [])
  ; ("call iatBatch.isTraceNumberODFI()", [iat_custom_trace]) ].

Definition req_iat_validate : list chk_entry :=
  [ ("call iatBatch.verify()", [])
  ; ("cond iatBatch.Header.ServiceClassCode == AutomatedAccountingAdvices", ["range iatBatch.Entries"]) ].

Definition req_file_validate : list chk_entry :=
  [ ("cond f.Control.BatchCount != (len(f.Batches) + len(f.IATBatches))", ["!f.IsADV()"])
  ; ("call b.Validate()", ["!f.IsADV()"; "range f.Batches"])
  ; ("call f.Control.Validate()", ["!f.IsADV()"; "!opts.AllowMissingFileControl"])
  ; ("call f.isEntryAddendaCount(false)", ["!f.IsADV()"])
  ; ("call f.isFileAmount(false)", ["!f.IsADV()"])
  ; ("call f.isSequenceAscending()", ["!f.IsADV()"; "!opts.AllowUnorderedBatchNumbers"])
  ; ("call f.isEntryHash(false)", ["!f.IsADV()"])
  ; ("cond f.ADVControl.BatchCount != len(f.Batches)", [])
  ; ("call f.ADVControl.Validate()", ["!opts.AllowMissingFileControl"])
  ; ("call f.isEntryAddendaCount(true)", [])
  ; ("call f.isFileAmount(true)", [])
  ; ("call f.isEntryHash(true)", []) ].

Definition req_entry_validate : list chk_entry :=
  [ ("call ed.fieldInclusion()", [])
  ; ("call ed.isTransactionCode(ed.TransactionCode)", ["!(ed.validateOpts != nil && ed.validateOpts.CheckTransactionCode != nil)"])
  ; ("cond ed.Amount < 0", [])
  ; ("call ed.amountOverflowsField()", [])
  ; ("cond err != nil", ["ed.validateOpts == nil || !ed.validateOpts.AllowInvalidCheckDigit"])
  ; ("cond calculated != edCheckDigit", ["ed.validateOpts == nil || !ed.validateOpts.AllowInvalidCheckDigit"]) ].

Definition req_iat_entry_validate : list chk_entry :=
  [ ("call iatEd.fieldInclusion()", [])
  ; ("call iatEd.isTransactionCode(iatEd.TransactionCode)", ["!(iatEd.validateOpts != nil && iatEd.validateOpts.CheckTransactionCode != nil)"])
  ; ("cond err != nil", [])
  ; ("cond calculated != edCheckDigit", []) ].

Definition req_adv_entry_validate : list chk_entry :=
  [ ("call ed.fieldInclusion()", [])
  ; ("call ed.isTransactionCode(ed.TransactionCode)", [])
  ; ("cond calculated != edCheckDigit", []) ].

Definition req_field_inclusion : list chk_entry :=
  [ ("call entry.Validate()", ["!batch.IsADV()"; "range batch.Entries"])
  ; ("call batch.Control.Validate()", ["!batch.IsADV()"])
  ; ("call entry.Validate()", ["range batch.ADVEntries"])
  ; ("call batch.ADVControl.Validate()", []) ].

Definition req_iat_field_inclusion : list chk_entry :=
  [ ("call entry.Validate()", ["range iatBatch.Entries"])
  ; ("call iatBatch.Control.Validate()", []) ].

(* every standard SEC batch type: verify first and unguarded, the class/direction
   check for every entry *)
Definition req_sec : list chk_entry :=
  [ ("call batch.verify()", [])
  ; ("call batch.ValidTranCodeForServiceClassCode(entry)", ["range batch.Entries"]) ].
Definition req_adv : list chk_entry :=
  [ ("cond batch.Header.ServiceClassCode != AutomatedAccountingAdvices", [])
  ; ("call batch.verify()", []) ].

Definition sec_types : list string :=
  ["BatchACK"; "BatchARC"; "BatchATX"; "BatchBOC"; "BatchCCD"; "BatchCIE"; "BatchCOR"; "BatchCTX"; "BatchDNE";
   "BatchENR"; "BatchMTE"; "BatchPOP"; "BatchPOS"; "BatchPPD"; "BatchRCK"; "BatchSHR"; "BatchTEL"; "BatchTRC";
   "BatchTRX"; "BatchWEB"; "BatchXCK"].

Definition sec_ok (tbl : list (string * list chk_entry)) : bool :=
  forallb (fun n => match find (fun p => String.eqb (fst p) n) tbl with
                    | Some (_, es) => calls_ok req_sec es
                                      && match es with e :: _ => entry_eqb e ("call batch.verify()", []) | [] => false end
                    | None => false
                    end) sec_types
  && match find (fun p => String.eqb (fst p) "BatchADV") tbl with
     | Some (_, es) => calls_ok req_adv es
     | None => false
     end
  (* no batch type this model does not know about *)
  && forallb (fun p => existsb (String.eqb (fst p)) ("BatchADV" :: sec_types)) tbl.

Definition src_lsd_expected := "{ if maxDigits > lineLength { return 0 } return v % int(math.Pow10(int(maxDigits))) }".
Definition src_round_expected := "{ return int(math.Ceil(float64(n)/10.0)) * 10 }".

Close Scope string_scope.

(* ---- soundness of the direction tables over all integers --------------- *)

Lemma memz_In c l : memz c l = true <-> In c l.
Proof.
  unfold memz. rewrite existsb_exists. split.
  - intros (x & Hx & E). apply Z.eqb_eq in E. now subst.
  - intros H. exists c. split; [exact H|apply Z.eqb_refl].
Qed.

Lemma memz_out l c : in100 l = true -> ~ (0 <= c < 100) -> memz c l = false.
Proof.
  intros Hl Hc. destruct (memz c l) eqn:E; [|reflexivity].
  apply memz_In in E. unfold in100 in Hl. rewrite forallb_forall in Hl. specialize (Hl c E). lia.
Qed.

Lemma in_codes100 c : 0 <= c < 100 -> In c codes100.
Proof.
  intros H. unfold codes100. replace c with (Z.of_nat (Z.to_nat c)) by lia.
  apply in_map. apply in_seq. lia.
Qed.

Section Sound.
Variable T : tables.
Hypothesis HT : tables_ok T = true.

Lemma tables_ok_parts :
  lists_in100 T = true /\ direction_ok_kind T KStd = true /\ direction_ok_kind T KIAT = true /\
  direction_ok_adv T = true /\ covered_ok T = true /\ constants_ok T = true.
Proof. pose proof HT as H. unfold tables_ok in H. repeat (apply andb_prop in H as [H ?]).
  split; [unfold lists_in100; repeat (apply andb_true_intro; split); assumption|]. repeat split; assumption. Qed.

Lemma lists_parts :
  in100 (t_std_credit T) = true /\ in100 (t_std_debit T) = true /\ in100 (t_iat_credit T) = true /\
  in100 (t_iat_debit T) = true /\ in100 (t_adv_credit T) = true /\ in100 (t_adv_debit T) = true /\
  in100 (t_codes T) = true /\ in100 (t_advcodes T) = true.
Proof.
  destruct tables_ok_parts as (H & _). unfold lists_in100 in H.
  repeat (apply andb_prop in H as [H ?]). repeat split; assumption.
Qed.

Lemma std_code_out c : ~ (0 <= c < 100) -> std_code T c = false.
Proof.
  intros Hc. destruct lists_parts as (_ & _ & _ & _ & _ & _ & Hcodes & _).
  unfold std_code. now rewrite (memz_out _ _ Hcodes Hc).
Qed.

(* NACHA direction = units digit, for every integer code (standard and IAT) *)
Lemma direction_sound k c : k <> KADV ->
  adds_credit T k c = (std_code T c && spec_is_credit k c) /\
  adds_debit T k c = (std_code T c && spec_is_debit k c).
Proof.
  intros Hk. destruct tables_ok_parts as (_ & Hs & Hi & _).
  destruct lists_parts as (L1 & L2 & L3 & L4 & _).
  destruct (Z_le_gt_dec 0 c) as [H0|H0]; [destruct (Z_lt_ge_dec c 100) as [H1|H1]|].
  - assert (Hin : In c codes100) by (apply in_codes100; lia).
    destruct k; [| |congruence].
    + unfold direction_ok_kind in Hs. rewrite forallb_forall in Hs. specialize (Hs c Hin).
      apply andb_prop in Hs as [A B]. apply Bool.eqb_prop in A, B. now split.
    + unfold direction_ok_kind in Hi. rewrite forallb_forall in Hi. specialize (Hi c Hin).
      apply andb_prop in Hi as [A B]. apply Bool.eqb_prop in A, B. now split.
  - assert (Hout : ~ (0 <= c < 100)) by lia. rewrite (std_code_out c Hout). cbn [andb].
    destruct k; [| |congruence]; unfold adds_credit, adds_debit, credit_list, debit_list;
      rewrite ?(memz_out _ _ L1 Hout), ?(memz_out _ _ L2 Hout), ?(memz_out _ _ L3 Hout), ?(memz_out _ _ L4 Hout); now split.
  - assert (Hout : ~ (0 <= c < 100)) by lia. rewrite (std_code_out c Hout). cbn [andb].
    destruct k; [| |congruence]; unfold adds_credit, adds_debit, credit_list, debit_list;
      rewrite ?(memz_out _ _ L1 Hout), ?(memz_out _ _ L2 Hout), ?(memz_out _ _ L3 Hout), ?(memz_out _ _ L4 Hout); now split.
Qed.

Lemma direction_sound_adv c :
  adds_credit T KADV c = (memz c (t_advcodes T) && spec_is_credit KADV c) /\
  adds_debit T KADV c = (memz c (t_advcodes T) && spec_is_debit KADV c).
Proof.
  destruct tables_ok_parts as (_ & _ & _ & Ha & _).
  destruct lists_parts as (_ & _ & _ & _ & L5 & L6 & _ & L8).
  destruct (Z_le_gt_dec 0 c) as [H0|H0]; [destruct (Z_lt_ge_dec c 100) as [H1|H1]|].
  - assert (Hin : In c codes100) by (apply in_codes100; lia).
    unfold direction_ok_adv in Ha. rewrite forallb_forall in Ha. specialize (Ha c Hin).
    apply andb_prop in Ha as [A B]. apply Bool.eqb_prop in A, B. now split.
  - assert (Hout : ~ (0 <= c < 100)) by lia. unfold adds_credit, adds_debit, credit_list, debit_list.
    rewrite (memz_out _ _ L5 Hout), (memz_out _ _ L6 Hout), (memz_out _ _ L8 Hout). now split.
  - assert (Hout : ~ (0 <= c < 100)) by lia. unfold adds_credit, adds_debit, credit_list, debit_list.
    rewrite (memz_out _ _ L5 Hout), (memz_out _ _ L6 Hout), (memz_out _ _ L8 Hout). now split.
Qed.

(* an accepted non-ADV code is added to exactly one of the two totals *)
Lemma std_code_one_direction k c : k <> KADV -> std_code T c = true ->
  xorb (adds_credit T k c) (adds_debit T k c) = true.
Proof.
  intros Hk Hc. destruct (direction_sound k c Hk) as [-> ->]. rewrite Hc. cbn [andb].
  destruct tables_ok_parts as (_ & _ & _ & _ & Hcov & _).
  assert (Hr : 0 <= c < 100).
  { destruct (Z_le_gt_dec 0 c); [destruct (Z_lt_ge_dec c 100)|]; try lia;
      rewrite std_code_out in Hc by lia; discriminate. }
  unfold covered_ok in Hcov. rewrite forallb_forall in Hcov. specialize (Hcov c (in_codes100 c Hr)).
  rewrite Hc in Hcov. cbn [negb orb] in Hcov.
  assert (E : spec_is_credit k c = spec_is_credit KStd c /\ spec_is_debit k c = spec_is_debit KStd c)
    by (destruct k; [| |congruence]; now split).
  destruct E as [-> ->]. unfold spec_is_credit, spec_is_debit in *.
  destruct (1 <=? c mod 10) eqn:E1, (c mod 10 <=? 4) eqn:E2, (5 <=? c mod 10) eqn:E3; cbn in *; try reflexivity; try discriminate; lia.
Qed.

Lemma constants_sound :
  t_hash_digits T = 10 /\ t_amount_limit T = 10 ^ 10 - 1 /\ t_batch_limit T = 10 ^ 12 - 1 /\
  t_file_limit T = 10 ^ 12 - 1 /\ t_mixed T = 200 /\ t_credits T = 220 /\ t_debits T = 225 /\ t_advclass T = 280.
Proof.
  destruct tables_ok_parts as (_ & _ & _ & _ & _ & H). unfold constants_ok in H.
  repeat (apply andb_prop in H as [H ?]).
  repeat match goal with E : (_ =? _) = true |- _ => apply Z.eqb_eq in E end.
  repeat split; assumption.
Qed.

End Sound.

(* Model of the ADV branch of Batch.build (batch.go: `if !batch.IsADV() {…} else {…}`,
   calculateADVBatchAmounts, calculateEntryHash over ADVEntries, upsertOffsets on an ADV
   batch).  Definitions only.

   Kept of an ADVEntryDetail: transaction code, amount, Atoi(aba8(RDFIIdentification)),
   whether Addenda99 is set, SequenceNumber. *)
From ACH Require Export BuildIAT.
Open Scope Z_scope.

Record aentry := mkae { ae_code : Z; ae_amount : Z; ae_rdfi : Z; ae_a99 : bool; ae_seq : Z }.

Record abatch := mkab {
  ab_hdr_ok : bool;             (* Header.Validate() == nil *)
  ab_std_entries : bool;        (* len(batch.Entries) > 0 (standard entries added to an ADV batch) *)
  ab_svc : Z; ab_num : Z;       (* header *)
  ab_entries : list aentry;     (* ADVEntries *)
  ab_ctl : control;             (* ADVControl *)
  ab_off : bool }.              (* an offset is configured (WithOffset) *)

Definition set_aseq (e : aentry) (s : Z) : aentry := mkae (ae_code e) (ae_amount e) (ae_rdfi e) (ae_a99 e) s.

(* for i, entry := range batch.ADVEntries { count…; ADVEntries[i].SequenceNumber = seq; seq++; if seq > 9999 { return err } } *)
Fixpoint adv_loop (seq : Z) (es : list aentry) : bool * list aentry :=
  match es with
  | [] => (true, [])
  | e :: r =>
    if seq + 1 >? 9999 then (false, set_aseq e seq :: r)
    else let (ok, r') := adv_loop (seq + 1) r in (ok, set_aseq e seq :: r')
  end.

(* calculateADVBatchAmounts: two independent ifs *)
Definition acr_amt (T : ttable) (e : aentry) : Z := if mem (ae_code e) (tt_adv_credit T) then ae_amount e else 0.
Definition adb_amt (T : ttable) (e : aentry) : Z := if mem (ae_code e) (tt_adv_debit T) then ae_amount e else 0.
Definition acredits T es := zsum (acr_amt T) es.
Definition adebits T es := zsum (adb_amt T) es.
Definition acount (es : list aentry) : Z := zsum (fun e => 1 + b2z (ae_a99 e)) es.
Definition ahash (es : list aentry) : Z := Z.rem (zsum ae_rdfi es) P10.

Definition ab_with (b : abatch) (es : list aentry) (c : control) : abatch :=
  mkab (ab_hdr_ok b) (ab_std_entries b) (ab_svc b) (ab_num b) es c (ab_off b).

Definition actl_of (T : ttable) (b : abatch) (es : list aentry) : control :=
  mkctl (ab_svc b) (ab_num b) (acount es) (ahash es) (acredits T es) (adebits T es).

(* Batch.build on a batch whose header says ADV: (err == nil, state left).  With an offset
   configured upsertOffsets returns an error after the control has been replaced. *)
Definition adv_build (T : ttable) (b : abatch) : bool * abatch :=
  if negb (ab_hdr_ok b) then (false, b)
  else if negb (ab_std_entries b) && (match ab_entries b with [] => true | _ => false end) then (false, b)
  else let (ok, es) := adv_loop 1 (ab_entries b) in
       if ok then (negb (ab_off b), ab_with b es (actl_of T b es))
       else (false, ab_with b es (ab_ctl b)).

Definition actl_okb (T : ttable) (b : abatch) : bool :=
  let c := ab_ctl b in let es := ab_entries b in
  (c_count c =? acount es) && (c_hash c =? ahash es) && (c_credit c =? acredits T es)
  && (c_debit c =? adebits T es) && (c_svc c =? ab_svc b) && (c_num c =? ab_num b).

(* Facts about the option handling of the merge model (coq/Model/MergeOpts.v):
   algebra of ValidateOpts.merge, erasure to the model of Merge.v (so that every
   C08/C09 theorem carries over to inputs with options), option sets of the output
   batches and files (union / nothing invented / order), trace numbers under
   Batch.Create. *)
From Coq Require Import List NArith ZArith Bool Lia ZifyBool Permutation.
From ACH Require Import Bytes Fields Merge MergeFacts MergeOpts.
Import ListNotations.
Open Scope Z_scope.

(* ================================================================ option sets *)

Definition vle (a b : flags) : Prop := forall i, vget i a = true -> vget i b = true.

Lemma vget_nil i : vget i [] = false.
Proof. unfold vget. destruct i; reflexivity. Qed.

Lemma vget_vor i a b : vget i (vor a b) = vget i a || vget i b.
Proof.
  revert i b. induction a as [|x a IH]; intros i b.
  - cbn [vor]. now rewrite vget_nil.
  - destruct b as [|y b]; cbn [vor].
    + now rewrite vget_nil, orb_false_r.
    + destruct i as [|i]; [reflexivity|]. unfold vget in *. cbn [nth]. apply IH.
Qed.

Lemma vor_idem a : vor a a = a.
Proof. induction a as [|x a IH]; cbn [vor]; [reflexivity|]. now rewrite IH, orb_diag. Qed.

Lemma vor_assoc a b c : vor (vor a b) c = vor a (vor b c).
Proof.
  revert b c. induction a as [|x a IH]; intros b c; [reflexivity|].
  destruct b as [|y b]; [reflexivity|]. destruct c as [|z c]; [reflexivity|].
  cbn [vor]. now rewrite IH, orb_assoc.
Qed.

Lemma vle_refl a : vle a a.
Proof. intros i H. exact H. Qed.

Lemma vle_trans a b c : vle a b -> vle b c -> vle a c.
Proof. intros H1 H2 i H. apply H2, H1, H. Qed.

Lemma vle_vor_l a b : vle a (vor a b).
Proof. intros i H. rewrite vget_vor, H. reflexivity. Qed.

Lemma vle_vor_r a b : vle b (vor a b).
Proof. intros i H. rewrite vget_vor, H. apply orb_true_r. Qed.

(* [osub a b]: the option value b holds at least what a holds: every boolean field set
   in a is set in b, b is not nil when a is not, b has a CheckTransactionCode when a has *)
Definition osub (a b : vopts) : Prop :=
  match a with
  | None => True
  | Some x =>
      match b with
      | None => False
      | Some y => vle (o_flags x) (o_flags y) /\ (o_ctc x <> None -> o_ctc y <> None)
      end
  end.

Lemma osub_refl a : osub a a.
Proof. destruct a as [x|]; cbn; [|exact I]. split; [apply vle_refl|auto]. Qed.

Lemma osub_trans a b c : osub a b -> osub b c -> osub a c.
Proof.
  destruct a as [x|]; [|intros; exact I]. destruct b as [y|]; [|intros []].
  destruct c as [z|]; [|intros _ []]. cbn. intros [H1 H2] [H3 H4].
  split; [eapply vle_trans; eauto|auto].
Qed.

Lemma osub_merge_l a b : osub a (omerge a b).
Proof.
  destruct a as [x|]; [|exact I]. destruct b as [y|]; cbn.
  - split; [apply vle_vor_l|]. intros H. destruct (o_ctc y); [discriminate|exact H].
  - split; [apply vle_refl|auto].
Qed.

Lemma osub_merge_r a b : osub b (omerge a b).
Proof.
  destruct b as [y|]; [|exact I]. destruct a as [x|]; cbn.
  - split; [apply vle_vor_r|]. intros H. destruct (o_ctc y); [discriminate|congruence].
  - split; [apply vle_refl|auto].
Qed.

(* merging a value with itself changes nothing: the pointer comparisons of outFile.add
   (`batchOpts != opts`, `opts != b.validateOpts`) are not observable in the values *)
Lemma omerge_idem a : omerge a a = a.
Proof.
  destruct a as [[fl ct]|]; [|reflexivity]. cbn. rewrite vor_idem.
  destruct ct; reflexivity.
Qed.

Lemma omerge_assoc a b c : omerge (omerge a b) c = omerge a (omerge b c).
Proof.
  destruct a as [x|]; [|reflexivity]. destruct b as [y|]; [|reflexivity].
  destruct c as [z|]; [|reflexivity]. cbn. rewrite vor_assoc.
  destruct (o_ctc z), (o_ctc y); reflexivity.
Qed.

Lemma omerge_none_r a : omerge a None = a.
Proof. destruct a; reflexivity. Qed.

(* observations of an option value that ValidateOpts.merge combines with "or":
   a boolean field, "is not nil", "has a CheckTransactionCode" *)
Definition ohas (p : opts -> bool) (o : vopts) : bool :=
  match o with None => false | Some a => p a end.

Definition orhom (p : opts -> bool) : Prop :=
  forall a b, p (mkOpts (vor (o_flags a) (o_flags b))
                        (match o_ctc b with Some g => Some g | None => o_ctc a end)) = p a || p b.

Definition p_flag (i : nat) (a : opts) : bool := vget i (o_flags a).
Definition p_set (a : opts) : bool := true.
Definition p_ctc (a : opts) : bool := is_some (o_ctc a).

Lemma orhom_flag i : orhom (p_flag i).
Proof. intros a b. unfold p_flag. cbn [o_flags]. apply vget_vor. Qed.

Lemma orhom_set : orhom p_set.
Proof. intros a b. reflexivity. Qed.

Lemma orhom_ctc : orhom p_ctc.
Proof.
  intros a b. unfold p_ctc. cbn [o_ctc]. destruct (o_ctc b); cbn [is_some].
  - now rewrite orb_true_r.
  - now rewrite orb_false_r.
Qed.

Lemma ohas_omerge p a b : orhom p -> ohas p (omerge a b) = ohas p a || ohas p b.
Proof.
  intros Hp. destruct a as [x|]; [|reflexivity]. destruct b as [y|]; cbn [omerge ohas].
  - apply Hp.
  - now rewrite orb_false_r.
Qed.

Lemma oflag_ohas i o : oflag i o = ohas (p_flag i) o.
Proof. destruct o; reflexivity. Qed.

Lemma oflag_omerge i a b : oflag i (omerge a b) = oflag i a || oflag i b.
Proof. rewrite !oflag_ohas. apply ohas_omerge, orhom_flag. Qed.

Lemma osub_ohas a b :
  osub a b <->
  (ohas p_set a = true -> ohas p_set b = true)
  /\ (forall i, ohas (p_flag i) a = true -> ohas (p_flag i) b = true)
  /\ (ohas p_ctc a = true -> ohas p_ctc b = true).
Proof.
  destruct a as [x|]; cbn [osub ohas].
  - destruct b as [y|]; cbn [ohas].
    + unfold p_set, p_flag, p_ctc, vle. split.
      * intros [H1 H2]. repeat split; auto.
        intros H. destruct (o_ctc x); [|discriminate]. destruct (o_ctc y); [reflexivity|].
        exfalso. apply H2; [discriminate|reflexivity].
      * intros (_ & H1 & H2). split; [exact H1|]. intros Hx Hy. rewrite Hy in H2.
        destruct (o_ctc x); [|congruence]. cbn in H2. discriminate H2. reflexivity.
    + split; [intros []|]. intros (H & _). discriminate H. reflexivity.
  - split; [|intros; exact I]. intros _. repeat split; intros; discriminate.
Qed.

Lemma osub_oflag a b i : osub a b -> oflag i a = true -> oflag i b = true.
Proof. intros H. apply osub_ohas in H as (_ & H & _). rewrite !oflag_ohas. apply H. Qed.

Lemma keeps_traces_mono a b : osub a b -> keeps_traces a = true -> keeps_traces b = true.
Proof.
  unfold keeps_traces, bypass, custom. intros H Hk. apply orb_true_iff in Hk as [Hk|Hk].
  - apply (osub_oflag _ _ _ H) in Hk. now rewrite Hk.
  - apply (osub_oflag _ _ _ H) in Hk. rewrite Hk. apply orb_true_r.
Qed.

(* ================================================================ erasure: outFile.add *)

Definition fo_route (f : ifileo) : route_t := (fo_origin f, fo_dest f).
Definition ofo_route (o : ofileo) : route_t := (ofo_origin o, ofo_dest o).
Definition rfo_route (g : rfileo) : route_t := (rfo_origin g, rfo_dest g).

Lemma place_o_erase h o e bs : map erase_ob (place_o h o e bs) = place h e (map erase_ob bs).
Proof.
  induction bs as [|b r IH]; cbn [place_o place map]; [reflexivity|].
  change (ob_header (erase_ob b)) with (obo_header b).
  change (ob_entries (erase_ob b)) with (obo_entries b).
  destruct (header_equal (obo_header b) h && negb (tm_contains (e_trace e) (obo_entries b)));
    cbn [map]; [reflexivity|]. now rewrite IH.
Qed.

Lemma add_batch_o_erase fopts bs ib :
  map erase_ob (add_batch_o fopts bs ib) = add_batch (map erase_ob bs) (ibo_batch ib).
Proof.
  unfold add_batch_o, add_batch. generalize (batch_in_opts fopts ib) as o.
  generalize (ib_header (ibo_batch ib)) as h. intros h o. revert bs.
  induction (ib_entries (ibo_batch ib)) as [|e es IH]; intros bs; cbn [fold_left]; [reflexivity|].
  now rewrite IH, place_o_erase.
Qed.

Lemma add_batches_o_erase fopts ibs bs :
  map erase_ob (fold_left (add_batch_o fopts) ibs bs) = fold_left add_batch (map ibo_batch ibs) (map erase_ob bs).
Proof.
  revert bs. induction ibs as [|ib ibs IH]; intros bs; cbn [fold_left map]; [reflexivity|].
  now rewrite IH, add_batch_o_erase.
Qed.

Lemma add_to_o_erase o f : erase_of (add_to_o o f) = add_to (erase_of o) (erase_ifile f).
Proof.
  unfold erase_of, add_to_o, add_to, erase_ifile.
  cbn [ofo_origin ofo_dest ofo_hid ofo_batches of_origin of_dest of_hid of_batches if_batches].
  now rewrite add_batches_o_erase.
Qed.

Lemma same_route_o_erase o f : same_route_o o f = same_route (erase_of o) (erase_ifile f).
Proof. reflexivity. Qed.

Lemma add_file_o_erase st f : map erase_of (add_file_o st f) = add_file (map erase_of st) (erase_ifile f).
Proof.
  induction st as [|o r IH]; cbn [add_file_o add_file map].
  - now rewrite add_to_o_erase.
  - rewrite <- same_route_o_erase. destruct (same_route_o o f); cbn [map].
    + now rewrite add_to_o_erase.
    + now rewrite IH.
Qed.

Lemma add_files_o_erase fs st :
  map erase_of (fold_left add_file_o fs st) = fold_left add_file (map erase_ifile fs) (map erase_of st).
Proof.
  revert st. induction fs as [|f fs IH]; intros st; cbn [fold_left map]; [reflexivity|].
  now rewrite IH, add_file_o_erase.
Qed.

Lemma build_state_o_erase fs : map erase_of (build_state_o fs) = build_state (map erase_ifile fs).
Proof.
  unfold build_state_o, build_state. destruct fs as [|f0 fs']; [reflexivity|].
  cbn [map]. rewrite add_files_o_erase. reflexivity.
Qed.

(* ================================================================ erasure: convertToFiles *)

Definition erase_cs (s : cstateo) : cstate :=
  mkC (map erase_rf (co_out s)) (map erase_rb (co_file s)) (co_bent s) (co_L s) (co_D s) (co_bn s).

Lemma renumber_o_erase seq bs : map erase_rb (renumber_o seq bs) = renumber seq (map erase_rb bs).
Proof.
  revert seq. induction bs as [|b r IH]; intros seq; cbn [renumber_o renumber map]; [reflexivity|].
  rewrite IH. change (rb_number (erase_rb b)) with (rbo_number b).
  destruct (rbo_number b <=? 1); reflexivity.
Qed.

Lemma close_batch_o_erase hdr bo s :
  map erase_rb (close_batch_o hdr bo s) = close_batch hdr (erase_cs s).
Proof.
  unfold close_batch_o, close_batch. cbn [erase_cs c_bent c_file c_bn].
  destruct (co_bent s); [reflexivity|]. now rewrite map_app.
Qed.

Lemma close_file_o_erase o fopts bs out :
  map erase_rf (close_file_o o fopts bs out) = close_file (erase_of o) (map erase_rb bs) (map erase_rf out).
Proof.
  unfold close_file_o, close_file. destruct bs as [|b r]; [reflexivity|].
  cbn [map]. rewrite map_app. cbn [map]. f_equal. f_equal.
  unfold create_file_o, create_file, erase_rf. cbn [rfo_origin rfo_dest rfo_hid rfo_batches].
  rewrite renumber_o_erase. reflexivity.
Qed.

Lemma step_entry_o_erase c M o hdr bo s e :
  erase_cs (step_entry_o c M o hdr bo s e) = step_entry c M (erase_of o) hdr (erase_cs s) e.
Proof.
  unfold step_entry_o, step_entry. cbn [erase_cs c_L c_D c_out c_file c_bent c_bn].
  destruct (exceeds c M (co_L s) (co_D s) e).
  - unfold erase_cs at 1. cbn [co_out co_file co_bent co_L co_D co_bn map].
    rewrite close_file_o_erase, close_batch_o_erase. reflexivity.
  - reflexivity.
Qed.

Lemma fold_step_entry_o_erase c M o hdr bo es s :
  erase_cs (fold_left (step_entry_o c M o hdr bo) es s)
  = fold_left (step_entry c M (erase_of o) hdr) es (erase_cs s).
Proof.
  revert s. induction es as [|e es IH]; intros s; cbn [fold_left]; [reflexivity|].
  now rewrite IH, step_entry_o_erase.
Qed.

Lemma step_batch_o_erase c M o s b :
  erase_cs (step_batch_o c M o s b) = step_batch c M (erase_of o) (erase_cs s) (erase_ob b).
Proof.
  unfold step_batch_o, step_batch. cbn [erase_ob ob_header ob_entries].
  match goal with |- erase_cs (mkCO _ _ (close_batch_o _ _ ?s2) _ _ _ _) = _ => set (S2 := s2) end.
  match goal with |- _ = mkC _ (close_batch _ ?t2) _ _ _ _ => set (T2 := t2) end.
  assert (E : erase_cs S2 = T2).
  { unfold S2, T2. rewrite fold_step_entry_o_erase. reflexivity. }
  unfold erase_cs at 1. cbn [co_out co_file co_bent co_L co_D co_bn].
  rewrite close_batch_o_erase. rewrite <- E. reflexivity.
Qed.

Lemma fold_step_batch_o_erase c M o bs s :
  erase_cs (fold_left (step_batch_o c M o) bs s)
  = fold_left (step_batch c M (erase_of o)) (map erase_ob bs) (erase_cs s).
Proof.
  revert s. induction bs as [|b bs IH]; intros s; cbn [fold_left map]; [reflexivity|].
  now rewrite IH, step_batch_o_erase.
Qed.

Definition erase_acc (acc : list rfileo * Z) : list rfile * Z := (map erase_rf (fst acc), snd acc).

Lemma step_file_o_erase c M acc o :
  erase_acc (step_file_o c M acc o) = step_file c M (erase_acc acc) (erase_of o).
Proof.
  unfold step_file_o, step_file, erase_acc. cbn [fst snd].
  match goal with |- (map erase_rf (close_file_o _ _ (co_file ?s1) _), _) = _ => set (S1 := s1) end.
  match goal with |- _ = (close_file _ (c_file ?t1) _, _) => set (T1 := t1) end.
  assert (E : erase_cs S1 = T1).
  { unfold S1, T1. rewrite fold_step_batch_o_erase. reflexivity. }
  rewrite close_file_o_erase. rewrite <- E. reflexivity.
Qed.

Lemma fold_step_file_o_erase c M st acc :
  erase_acc (fold_left (step_file_o c M) st acc)
  = fold_left (step_file c M) (map erase_of st) (erase_acc acc).
Proof.
  revert acc. induction st as [|o st IH]; intros acc; cbn [fold_left map]; [reflexivity|].
  now rewrite IH, step_file_o_erase.
Qed.

Lemma convert_o_erase c st : map erase_rf (convert_o c st) = convert c (map erase_of st).
Proof.
  unfold convert_o, convert.
  change (map erase_rf (fst ?x)) with (fst (erase_acc x)).
  rewrite fold_step_file_o_erase. reflexivity.
Qed.

(* the files, batches, batch numbers and entries MergeFilesWith returns do not depend on the
   options of the inputs: forgetting the options commutes with merging *)
Lemma merge_o_erase fs c : map erase_rf (merge_files_o fs c) = merge_files (map erase_ifile fs) c.
Proof. unfold merge_files_o, merge_files. now rewrite convert_o_erase, build_state_o_erase. Qed.

(* Facts about the option handling of the merge model (coq/Model/MergeOpts.v):
   algebra of ValidateOpts.merge, erasure to the model of Merge.v (so that every
   C08/C09 theorem carries over to inputs with options), option sets of the output
   batches and files (union / nothing invented / order), trace numbers under
   Batch.Create. *)
From Coq Require Import List NArith ZArith Bool Lia ZifyBool Permutation.
From ACH Require Import Bytes Fields Merge MergeFacts MergeOpts.
Import ListNotations.
Open Scope Z_scope.

(* ================================================================ option sets *)

Definition vle (a b : flags) : Prop := forall i, vget i a = true -> vget i b = true.

Lemma vget_nil i : vget i [] = false.
Proof. unfold vget. destruct i; reflexivity. Qed.

Lemma vget_vor i a b : vget i (vor a b) = vget i a || vget i b.
Proof.
  revert i b. induction a as [|x a IH]; intros i b.
  - cbn [vor]. now rewrite vget_nil.
  - destruct b as [|y b]; cbn [vor].
    + now rewrite vget_nil, orb_false_r.
    + destruct i as [|i]; [reflexivity|]. unfold vget in *. cbn [nth]. apply IH.
Qed.

Lemma vor_idem a : vor a a = a.
Proof. induction a as [|x a IH]; cbn [vor]; [reflexivity|]. now rewrite IH, orb_diag. Qed.

Lemma vor_assoc a b c : vor (vor a b) c = vor a (vor b c).
Proof.
  revert b c. induction a as [|x a IH]; intros b c; [reflexivity|].
  destruct b as [|y b]; [reflexivity|]. destruct c as [|z c]; [reflexivity|].
  cbn [vor]. now rewrite IH, orb_assoc.
Qed.

Lemma vle_refl a : vle a a.
Proof. intros i H. exact H. Qed.

Lemma vle_trans a b c : vle a b -> vle b c -> vle a c.
Proof. intros H1 H2 i H. apply H2, H1, H. Qed.

Lemma vle_vor_l a b : vle a (vor a b).
Proof. intros i H. rewrite vget_vor, H. reflexivity. Qed.

Lemma vle_vor_r a b : vle b (vor a b).
Proof. intros i H. rewrite vget_vor, H. apply orb_true_r. Qed.

(* [osub a b]: the option value b holds at least what a holds: every boolean field set
   in a is set in b, b is not nil when a is not, b has a CheckTransactionCode when a has *)
Definition osub (a b : vopts) : Prop :=
  match a with
  | None => True
  | Some x =>
      match b with
      | None => False
      | Some y => vle (o_flags x) (o_flags y) /\ (o_ctc x <> None -> o_ctc y <> None)
      end
  end.

Lemma osub_refl a : osub a a.
Proof. destruct a as [x|]; cbn; [|exact I]. split; [apply vle_refl|auto]. Qed.

Lemma osub_trans a b c : osub a b -> osub b c -> osub a c.
Proof.
  destruct a as [x|]; [|intros; exact I]. destruct b as [y|]; [|intros []].
  destruct c as [z|]; [|intros _ []]. cbn. intros [H1 H2] [H3 H4].
  split; [eapply vle_trans; eauto|auto].
Qed.

Lemma osub_merge_l a b : osub a (omerge a b).
Proof.
  destruct a as [x|]; [|exact I]. destruct b as [y|]; cbn.
  - split; [apply vle_vor_l|]. intros H. destruct (o_ctc y); [discriminate|exact H].
  - split; [apply vle_refl|auto].
Qed.

Lemma osub_merge_r a b : osub b (omerge a b).
Proof.
  destruct b as [y|]; [|exact I]. destruct a as [x|]; cbn.
  - split; [apply vle_vor_r|]. intros H. destruct (o_ctc y); [discriminate|congruence].
  - split; [apply vle_refl|auto].
Qed.

(* merging a value with itself changes nothing: the pointer comparisons of outFile.add
   (`batchOpts != opts`, `opts != b.validateOpts`) are not observable in the values *)
Lemma omerge_idem a : omerge a a = a.
Proof.
  destruct a as [[fl ct]|]; [|reflexivity]. cbn. rewrite vor_idem.
  destruct ct; reflexivity.
Qed.

Lemma omerge_assoc a b c : omerge (omerge a b) c = omerge a (omerge b c).
Proof.
  destruct a as [x|]; [|reflexivity]. destruct b as [y|]; [|reflexivity].
  destruct c as [z|]; [|reflexivity]. cbn. rewrite vor_assoc.
  destruct (o_ctc z), (o_ctc y); reflexivity.
Qed.

Lemma omerge_none_r a : omerge a None = a.
Proof. destruct a; reflexivity. Qed.

(* observations of an option value that ValidateOpts.merge combines with "or":
   a boolean field, "is not nil", "has a CheckTransactionCode" *)
Definition ohas (p : opts -> bool) (o : vopts) : bool :=
  match o with None => false | Some a => p a end.

Definition orhom (p : opts -> bool) : Prop :=
  forall a b, p (mkOpts (vor (o_flags a) (o_flags b))
                        (match o_ctc b with Some g => Some g | None => o_ctc a end)) = p a || p b.

Definition p_flag (i : nat) (a : opts) : bool := vget i (o_flags a).
Definition p_set (a : opts) : bool := true.
Definition p_ctc (a : opts) : bool := is_some (o_ctc a).

Lemma orhom_flag i : orhom (p_flag i).
Proof. intros a b. unfold p_flag. cbn [o_flags]. apply vget_vor. Qed.

Lemma orhom_set : orhom p_set.
Proof. intros a b. reflexivity. Qed.

Lemma orhom_ctc : orhom p_ctc.
Proof.
  intros a b. unfold p_ctc. cbn [o_ctc]. destruct (o_ctc b); cbn [is_some].
  - now rewrite orb_true_r.
  - now rewrite orb_false_r.
Qed.

Lemma ohas_omerge p a b : orhom p -> ohas p (omerge a b) = ohas p a || ohas p b.
Proof.
  intros Hp. destruct a as [x|]; [|reflexivity]. destruct b as [y|]; cbn [omerge ohas].
  - apply Hp.
  - now rewrite orb_false_r.
Qed.

Lemma oflag_ohas i o : oflag i o = ohas (p_flag i) o.
Proof. destruct o; reflexivity. Qed.

Lemma oflag_omerge i a b : oflag i (omerge a b) = oflag i a || oflag i b.
Proof. rewrite !oflag_ohas. apply ohas_omerge, orhom_flag. Qed.

Lemma osub_ohas a b :
  osub a b <->
  (ohas p_set a = true -> ohas p_set b = true)
  /\ (forall i, ohas (p_flag i) a = true -> ohas (p_flag i) b = true)
  /\ (ohas p_ctc a = true -> ohas p_ctc b = true).
Proof.
  destruct a as [x|]; cbn [osub ohas].
  - destruct b as [y|]; cbn [ohas].
    + unfold p_set, p_flag, p_ctc, vle. split.
      * intros [H1 H2]. repeat split; auto.
        intros H. destruct (o_ctc x); [|discriminate]. destruct (o_ctc y); [reflexivity|].
        exfalso. apply H2; [discriminate|reflexivity].
      * intros (_ & H1 & H2). split; [exact H1|]. intros Hx Hy. rewrite Hy in H2.
        destruct (o_ctc x); [|congruence]. cbn in H2. discriminate H2. reflexivity.
    + split; [intros []|]. intros (H & _). discriminate H. reflexivity.
  - split; [|intros; exact I]. intros _. repeat split; intros; discriminate.
Qed.

Lemma osub_oflag a b i : osub a b -> oflag i a = true -> oflag i b = true.
Proof. intros H. apply osub_ohas in H as (_ & H & _). rewrite !oflag_ohas. apply H. Qed.

Lemma keeps_traces_mono a b : osub a b -> keeps_traces a = true -> keeps_traces b = true.
Proof.
  unfold keeps_traces, bypass, custom. intros H Hk. apply orb_true_iff in Hk as [Hk|Hk].
  - apply (osub_oflag _ _ _ H) in Hk. now rewrite Hk.
  - apply (osub_oflag _ _ _ H) in Hk. rewrite Hk. apply orb_true_r.
Qed.

(* ================================================================ erasure: outFile.add *)

Definition fo_route (f : ifileo) : route_t := (fo_origin f, fo_dest f).
Definition ofo_route (o : ofileo) : route_t := (ofo_origin o, ofo_dest o).
Definition rfo_route (g : rfileo) : route_t := (rfo_origin g, rfo_dest g).

Lemma place_o_erase h o e bs : map erase_ob (place_o h o e bs) = place h e (map erase_ob bs).
Proof.
  induction bs as [|b r IH]; cbn [place_o place map]; [reflexivity|].
  change (ob_header (erase_ob b)) with (obo_header b).
  change (ob_entries (erase_ob b)) with (obo_entries b).
  destruct (header_equal (obo_header b) h && negb (tm_contains (e_trace e) (obo_entries b)));
    cbn [map]; [reflexivity|]. now rewrite IH.
Qed.

Lemma add_batch_o_erase fopts bs ib :
  map erase_ob (add_batch_o fopts bs ib) = add_batch (map erase_ob bs) (ibo_batch ib).
Proof.
  unfold add_batch_o, add_batch. generalize (batch_in_opts fopts ib) as o.
  generalize (ib_header (ibo_batch ib)) as h. intros h o. revert bs.
  induction (ib_entries (ibo_batch ib)) as [|e es IH]; intros bs; cbn [fold_left]; [reflexivity|].
  now rewrite IH, place_o_erase.
Qed.

Lemma add_batches_o_erase fopts ibs bs :
  map erase_ob (fold_left (add_batch_o fopts) ibs bs) = fold_left add_batch (map ibo_batch ibs) (map erase_ob bs).
Proof.
  revert bs. induction ibs as [|ib ibs IH]; intros bs; cbn [fold_left map]; [reflexivity|].
  now rewrite IH, add_batch_o_erase.
Qed.

Lemma add_to_o_erase o f : erase_of (add_to_o o f) = add_to (erase_of o) (erase_ifile f).
Proof.
  unfold erase_of, add_to_o, add_to, erase_ifile.
  cbn [ofo_origin ofo_dest ofo_hid ofo_batches of_origin of_dest of_hid of_batches if_batches].
  now rewrite add_batches_o_erase.
Qed.

Lemma same_route_o_erase o f : same_route_o o f = same_route (erase_of o) (erase_ifile f).
Proof. reflexivity. Qed.

Lemma add_file_o_erase st f : map erase_of (add_file_o st f) = add_file (map erase_of st) (erase_ifile f).
Proof.
  induction st as [|o r IH]; cbn [add_file_o add_file map].
  - now rewrite add_to_o_erase.
  - rewrite <- same_route_o_erase. destruct (same_route_o o f); cbn [map].
    + now rewrite add_to_o_erase.
    + now rewrite IH.
Qed.

Lemma add_files_o_erase fs st :
  map erase_of (fold_left add_file_o fs st) = fold_left add_file (map erase_ifile fs) (map erase_of st).
Proof.
  revert st. induction fs as [|f fs IH]; intros st; cbn [fold_left map]; [reflexivity|].
  now rewrite IH, add_file_o_erase.
Qed.

Lemma build_state_o_erase fs : map erase_of (build_state_o fs) = build_state (map erase_ifile fs).
Proof.
  unfold build_state_o, build_state. destruct fs as [|f0 fs']; [reflexivity|].
  cbn [map]. rewrite add_files_o_erase. reflexivity.
Qed.

(* ================================================================ erasure: convertToFiles *)

Definition erase_cs (s : cstateo) : cstate :=
  mkC (map erase_rf (co_out s)) (map erase_rb (co_file s)) (co_bent s) (co_L s) (co_D s) (co_bn s).

Lemma renumber_o_erase seq bs : map erase_rb (renumber_o seq bs) = renumber seq (map erase_rb bs).
Proof.
  revert seq. induction bs as [|b r IH]; intros seq; cbn [renumber_o renumber map]; [reflexivity|].
  rewrite IH. change (rb_number (erase_rb b)) with (rbo_number b).
  destruct (rbo_number b <=? 1); reflexivity.
Qed.

Lemma close_batch_o_erase hdr bo s :
  map erase_rb (close_batch_o hdr bo s) = close_batch hdr (erase_cs s).
Proof.
  unfold close_batch_o, close_batch. cbn [erase_cs c_bent c_file c_bn].
  destruct (co_bent s); [reflexivity|]. now rewrite map_app.
Qed.

Lemma close_file_o_erase o fopts bs out :
  map erase_rf (close_file_o o fopts bs out) = close_file (erase_of o) (map erase_rb bs) (map erase_rf out).
Proof.
  unfold close_file_o, close_file. destruct bs as [|b r]; [reflexivity|].
  cbn [map]. rewrite map_app. cbn [map]. f_equal. f_equal.
  unfold create_file_o, create_file, erase_rf. cbn [rfo_origin rfo_dest rfo_hid rfo_batches].
  rewrite renumber_o_erase. reflexivity.
Qed.

Lemma step_entry_o_erase c M o hdr bo s e :
  erase_cs (step_entry_o c M o hdr bo s e) = step_entry c M (erase_of o) hdr (erase_cs s) e.
Proof.
  unfold step_entry_o, step_entry. cbn [erase_cs c_L c_D c_out c_file c_bent c_bn].
  destruct (exceeds c M (co_L s) (co_D s) e).
  - unfold erase_cs at 1. cbn [co_out co_file co_bent co_L co_D co_bn map].
    rewrite close_file_o_erase, close_batch_o_erase. reflexivity.
  - reflexivity.
Qed.

Lemma fold_step_entry_o_erase c M o hdr bo es s :
  erase_cs (fold_left (step_entry_o c M o hdr bo) es s)
  = fold_left (step_entry c M (erase_of o) hdr) es (erase_cs s).
Proof.
  revert s. induction es as [|e es IH]; intros s; cbn [fold_left]; [reflexivity|].
  now rewrite IH, step_entry_o_erase.
Qed.

Lemma step_batch_o_erase c M o s b :
  erase_cs (step_batch_o c M o s b) = step_batch c M (erase_of o) (erase_cs s) (erase_ob b).
Proof.
  unfold step_batch_o, step_batch. cbn [erase_ob ob_header ob_entries].
  match goal with |- erase_cs (mkCO _ _ (close_batch_o _ _ ?s2) _ _ _ _) = _ => set (S2 := s2) end.
  match goal with |- _ = mkC _ (close_batch _ ?t2) _ _ _ _ => set (T2 := t2) end.
  assert (E : erase_cs S2 = T2).
  { unfold S2, T2. rewrite fold_step_entry_o_erase. reflexivity. }
  unfold erase_cs at 1. cbn [co_out co_file co_bent co_L co_D co_bn].
  rewrite close_batch_o_erase. rewrite <- E. reflexivity.
Qed.

Lemma fold_step_batch_o_erase c M o bs s :
  erase_cs (fold_left (step_batch_o c M o) bs s)
  = fold_left (step_batch c M (erase_of o)) (map erase_ob bs) (erase_cs s).
Proof.
  revert s. induction bs as [|b bs IH]; intros s; cbn [fold_left map]; [reflexivity|].
  now rewrite IH, step_batch_o_erase.
Qed.

Definition erase_acc (acc : list rfileo * Z) : list rfile * Z := (map erase_rf (fst acc), snd acc).

Lemma step_file_o_erase c M acc o :
  erase_acc (step_file_o c M acc o) = step_file c M (erase_acc acc) (erase_of o).
Proof.
  unfold step_file_o, step_file, erase_acc. cbn [fst snd].
  match goal with |- (map erase_rf (close_file_o _ _ (co_file ?s1) _), _) = _ => set (S1 := s1) end.
  match goal with |- _ = (close_file _ (c_file ?t1) _, _) => set (T1 := t1) end.
  assert (E : erase_cs S1 = T1).
  { unfold S1, T1. rewrite fold_step_batch_o_erase. reflexivity. }
  rewrite close_file_o_erase. rewrite <- E. reflexivity.
Qed.

Lemma fold_step_file_o_erase c M st acc :
  erase_acc (fold_left (step_file_o c M) st acc)
  = fold_left (step_file c M) (map erase_of st) (erase_acc acc).
Proof.
  revert acc. induction st as [|o st IH]; intros acc; cbn [fold_left map]; [reflexivity|].
  now rewrite IH, step_file_o_erase.
Qed.

Lemma convert_o_erase c st : map erase_rf (convert_o c st) = convert c (map erase_of st).
Proof.
  unfold convert_o, convert.
  change (map erase_rf (fst ?x)) with (fst (erase_acc x)).
  rewrite fold_step_file_o_erase. reflexivity.
Qed.

(* the files, batches, batch numbers and entries MergeFilesWith returns do not depend on the
   options of the inputs: forgetting the options commutes with merging *)
Lemma merge_o_erase fs c : map erase_rf (merge_files_o fs c) = merge_files (map erase_ifile fs) c.
Proof. unfold merge_files_o, merge_files. now rewrite convert_o_erase, build_state_o_erase. Qed.

(* ================================================================ one-to-one matchings *)

(* [matched R l1 l2]: the elements of l1 can be paired one-to-one with the elements of l2
   such that every pair is in R (l1 rearranged is pointwise R-related to l2) *)
Section Matched.
  Context {A B : Type}.
  Variable R : A -> B -> Prop.

  Definition matched (l1 : list A) (l2 : list B) : Prop :=
    exists l, Permutation l1 l /\ Forall2 R l l2.

  Lemma matched_nil : matched [] [].
  Proof. exists []. split; constructor. Qed.

  Lemma matched_nil_inv l1 : matched l1 [] -> l1 = [].
  Proof.
    intros (l & Hp & Hf). inversion Hf; subst. now apply Permutation_sym, Permutation_nil in Hp.
  Qed.

  Lemma matched_cons a b l1 l2 : R a b -> matched l1 l2 -> matched (a :: l1) (b :: l2).
  Proof.
    intros Hab (l & Hp & Hf). exists (a :: l). split; [now apply perm_skip|now constructor].
  Qed.

  Lemma matched_app l1 l2 l3 l4 : matched l1 l2 -> matched l3 l4 -> matched (l1 ++ l3) (l2 ++ l4).
  Proof.
    intros (l & Hp & Hf) (l' & Hp' & Hf'). exists (l ++ l'). split.
    - now apply Permutation_app.
    - now apply Forall2_app.
  Qed.

  Lemma matched_perm_l l1 l1' l2 : Permutation l1 l1' -> matched l1 l2 -> matched l1' l2.
  Proof.
    intros H (l & Hp & Hf). exists l. split; [|exact Hf].
    eapply Permutation_trans; [apply Permutation_sym, H|exact Hp].
  Qed.

  Lemma Forall2_perm_r l l2 l2' :
    Forall2 R l l2 -> Permutation l2 l2' -> exists l', Permutation l l' /\ Forall2 R l' l2'.
  Proof.
    intros Hf Hp. revert l Hf. induction Hp as [|x l2 l2' Hp IH|x y l2|l2 l2' l2'' Hp1 IH1 Hp2 IH2]; intros l Hf.
    - exists l. split; [apply Permutation_refl|exact Hf].
    - inversion Hf as [|a ? l0 ? Hax Hf0]; subst. destruct (IH l0 Hf0) as (l' & Hp' & Hf').
      exists (a :: l'). split; [now apply perm_skip|now constructor].
    - inversion Hf as [|a ? l0 ? Hay Hf0]; subst. inversion Hf0 as [|b ? l1 ? Hbx Hf1]; subst.
      exists (b :: a :: l1). split; [apply perm_swap|]. constructor; [exact Hbx|]. now constructor.
    - destruct (IH1 l Hf) as (l' & Hp' & Hf'). destruct (IH2 l' Hf') as (l'' & Hp'' & Hf'').
      exists l''. split; [eapply Permutation_trans; eauto|exact Hf''].
  Qed.

  Lemma matched_perm_r l1 l2 l2' : Permutation l2 l2' -> matched l1 l2 -> matched l1 l2'.
  Proof.
    intros H (l & Hp & Hf). destruct (Forall2_perm_r _ _ _ Hf H) as (l' & Hp' & Hf').
    exists l'. split; [eapply Permutation_trans; eauto|exact Hf'].
  Qed.

  Lemma matched_app_inv_r l1 l2a l2b :
    matched l1 (l2a ++ l2b) ->
    exists la lb, Permutation l1 (la ++ lb) /\ matched la l2a /\ matched lb l2b.
  Proof.
    intros (l & Hp & Hf). apply Forall2_app_inv_r in Hf as (la & lb & Ha & Hb & ->).
    exists la, lb. split; [exact Hp|]. split; [exists la|exists lb]; (split; [apply Permutation_refl|assumption]).
  Qed.

  Lemma matched_in_r l1 l2 b : matched l1 l2 -> In b l2 -> exists a, In a l1 /\ R a b.
  Proof.
    intros (l & Hp & Hf) Hb. revert Hb. induction Hf as [|a b' l l2 Hab Hf IH] in l1, Hp |- *; intros Hb; [destruct Hb|].
    destruct Hb as [->|Hb].
    - exists a. split; [|exact Hab]. eapply Permutation_in; [apply Permutation_sym, Hp|now left].
    - destruct (IH l (Permutation_refl _) Hb) as (a0 & Ha0 & Hr). exists a0. split; [|exact Hr].
      eapply Permutation_in; [apply Permutation_sym, Hp|now right].
  Qed.

  Lemma matched_in_l l1 l2 a : matched l1 l2 -> In a l1 -> exists b, In b l2 /\ R a b.
  Proof.
    intros (l & Hp & Hf) Ha. apply (Permutation_in _ Hp) in Ha. clear Hp.
    induction Hf as [|a' b l l2 Hab Hf IH]; [destruct Ha|].
    destruct Ha as [->|Ha].
    - exists b. split; [now left|exact Hab].
    - destruct (IH Ha) as (b0 & Hb0 & Hr). exists b0. split; [now right|exact Hr].
  Qed.

  Lemma matched_length l1 l2 : matched l1 l2 -> length l1 = length l2.
  Proof.
    intros (l & Hp & Hf). rewrite (Permutation_length Hp). clear Hp.
    induction Hf as [|a b l l2' Hab Hf IH]; cbn [length]; [reflexivity|now rewrite IH].
  Qed.
End Matched.

Lemma Forall2_map_r_mono {A B C} (R : A -> B -> Prop) (f g : C -> B) l es :
  (forall a x, R a (f x) -> R a (g x)) -> Forall2 R l (map f es) -> Forall2 R l (map g es).
Proof.
  intros H. revert l. induction es as [|x es IH]; intros l Hf; cbn [map] in *.
  - inversion Hf. constructor.
  - inversion Hf as [|a ? l0 ? Hax Hf0]; subst. constructor; [now apply H|now apply IH].
Qed.

Lemma matched_map_r_mono {A B C} (R : A -> B -> Prop) (f g : C -> B) l1 es :
  (forall a x, R a (f x) -> R a (g x)) -> matched R l1 (map f es) -> matched R l1 (map g es).
Proof.
  intros H (l & Hp & Hf). exists l. split; [exact Hp|]. eapply Forall2_map_r_mono; eauto.
Qed.

Lemma matched_mono {A B} (R R' : A -> B -> Prop) l1 l2 :
  (forall a b, R a b -> R' a b) -> matched R l1 l2 -> matched R' l1 l2.
Proof.
  intros H (l & Hp & Hf). exists l. split; [exact Hp|]. clear Hp.
  induction Hf as [|a b l l2' Hab Hf IH]; constructor; [now apply H|exact IH].
Qed.

(* ================================================================ entry identities with the options of their batch *)

Definition tident := (ident * vopts)%type.

Definition tag (r : route_t) (h : header) (o : vopts) (e : entry) : tident := (mkid r h e, o).

(* an input entry, tagged with the options its batch was validated with (file's and batch's own) *)
Definition tids_ibatch (r : route_t) (fopts : vopts) (ib : ibatcho) : list tident :=
  map (tag r (ib_header (ibo_batch ib)) (batch_in_opts fopts ib)) (ib_entries (ibo_batch ib)).
Definition tids_ifile (f : ifileo) : list tident :=
  flat_map (tids_ibatch (fo_route f) (fo_opts f)) (fo_batches f).
Definition tids_in (fs : list ifileo) : list tident := flat_map tids_ifile fs.

Definition tids_obatch (r : route_t) (b : obatcho) : list tident :=
  map (tag r (obo_header b) (obo_opts b)) (map snd (obo_entries b)).
Definition tids_obatches (r : route_t) (bs : list obatcho) : list tident := flat_map (tids_obatch r) bs.
Definition tids_ofile (o : ofileo) : list tident := tids_obatches (ofo_route o) (ofo_batches o).
Definition tids_state (st : list ofileo) : list tident := flat_map tids_ofile st.

(* an output entry, tagged with the options of the output batch that holds it *)
Definition tids_rbatch (r : route_t) (rb : rbatcho) : list tident :=
  map (tag r (rbo_header rb) (rbo_opts rb)) (rbo_entries rb).
Definition tids_rbatches (r : route_t) (bs : list rbatcho) : list tident := flat_map (tids_rbatch r) bs.
Definition tids_rfile (g : rfileo) : list tident := tids_rbatches (rfo_route g) (rfo_batches g).
Definition tids_out (gs : list rfileo) : list tident := flat_map tids_rfile gs.

(* same entry identity, at least the options *)
Definition tle (a b : tident) : Prop := fst a = fst b /\ osub (snd a) (snd b).

Lemma tids_obatches_app r a b : tids_obatches r (a ++ b) = tids_obatches r a ++ tids_obatches r b.
Proof. unfold tids_obatches. apply flat_map_app. Qed.

(* ---------------------------------------------------------------- outFile.add *)

Lemma place_o_matched r h o e bs : forall T,
  matched tle T (tids_obatches r bs) ->
  matched tle (tag r h o e :: T) (tids_obatches r (place_o h o e bs)).
Proof.
  induction bs as [|b rest IH]; intros T HT; cbn [place_o].
  - cbn in HT. apply matched_nil_inv in HT. subst T. cbn.
    apply matched_cons; [|apply matched_nil]. split; [reflexivity|apply osub_refl].
  - cbn [tids_obatches flat_map] in HT. fold (tids_obatches r rest) in HT.
    apply matched_app_inv_r in HT as (la & lb & Hp & Ha & Hb).
    destruct (header_equal (obo_header b) h && negb (tm_contains (e_trace e) (obo_entries b))) eqn:Hc.
    + apply andb_prop in Hc as [Hh Hn]. apply negb_true_iff in Hn. apply header_equal_hkey in Hh.
      cbn [tids_obatches flat_map]. fold (tids_obatches r rest).
      eapply matched_perm_l; [apply Permutation_sym; change (tag r h o e :: T) with ([tag r h o e] ++ T);
                              apply Permutation_app_head, Hp|].
      rewrite app_assoc. apply matched_app; [|exact Hb].
      unfold tids_obatch at 1. cbn [obo_header obo_entries obo_opts].
      set (o' := omerge (obo_opts b) o).
      eapply matched_perm_r.
      { apply Permutation_sym. apply Permutation_map, Permutation_map, tm_set_perm, Hn. }
      cbn [map snd app]. apply matched_cons.
      * split; [cbn [fst tag]; unfold mkid; now rewrite Hh|]. cbn [snd tag]. apply osub_merge_r.
      * unfold tids_obatch in Ha. revert Ha. apply matched_map_r_mono.
        intros a x [H1 H2]. split; [exact H1|]. cbn [snd tag] in *.
        eapply osub_trans; [exact H2|apply osub_merge_l].
    + cbn [tids_obatches flat_map]. fold (tids_obatches r (place_o h o e rest)).
      eapply matched_perm_l with (l1 := la ++ tag r h o e :: lb).
      { eapply Permutation_trans; [apply Permutation_sym, Permutation_middle|].
        apply perm_skip, Permutation_sym, Hp. }
      apply matched_app; [exact Ha|]. apply IH, Hb.
Qed.

Lemma add_batch_o_matched r fopts ib bs : forall T,
  matched tle T (tids_obatches r bs) ->
  matched tle (tids_ibatch r fopts ib ++ T) (tids_obatches r (add_batch_o fopts bs ib)).
Proof.
  unfold add_batch_o, tids_ibatch. generalize (batch_in_opts fopts ib) as o.
  generalize (ib_header (ibo_batch ib)) as h. intros h o. revert bs.
  induction (ib_entries (ibo_batch ib)) as [|e es IH]; intros bs T HT; cbn [fold_left map app].
  - exact HT.
  - eapply matched_perm_l; [apply Permutation_sym, Permutation_middle|].
    apply IH. now apply place_o_matched.
Qed.

Lemma add_batches_o_matched r fopts ibs bs : forall T,
  matched tle T (tids_obatches r bs) ->
  matched tle (flat_map (tids_ibatch r fopts) ibs ++ T) (tids_obatches r (fold_left (add_batch_o fopts) ibs bs)).
Proof.
  revert bs. induction ibs as [|ib ibs IH]; intros bs T HT; cbn [fold_left flat_map app].
  - exact HT.
  - eapply matched_perm_l with (l1 := flat_map (tids_ibatch r fopts) ibs ++ tids_ibatch r fopts ib ++ T).
    { rewrite !app_assoc. apply Permutation_app_tail, Permutation_app_comm. }
    apply IH. now apply add_batch_o_matched.
Qed.

Lemma same_route_o_eq o f : same_route_o o f = true -> ofo_route o = fo_route f.
Proof.
  unfold same_route_o, ofo_route, fo_route. intros H. apply andb_prop in H as [H1 H2].
  apply bytes_eqb_eq in H1, H2. congruence.
Qed.

Lemma same_route_o_false o f : same_route_o o f = false -> ofo_route o <> fo_route f.
Proof.
  unfold same_route_o, ofo_route, fo_route. intros H E. injection E as E1 E2.
  rewrite <- E1, <- E2 in H. assert (T : forall x, bytes_eqb x x = true) by (intros x; now apply bytes_eqb_eq).
  now rewrite !T in H.
Qed.

Lemma add_to_o_route o f : ofo_route (add_to_o o f) = ofo_route o.
Proof. reflexivity. Qed.

Lemma add_to_o_matched o f T :
  ofo_route o = fo_route f -> matched tle T (tids_ofile o) ->
  matched tle (tids_ifile f ++ T) (tids_ofile (add_to_o o f)).
Proof.
  intros Hr HT. unfold tids_ofile, tids_ifile. rewrite add_to_o_route. cbn [add_to_o ofo_batches].
  rewrite <- Hr. now apply add_batches_o_matched.
Qed.

Lemma add_file_o_matched st f : forall T,
  matched tle T (tids_state st) -> matched tle (tids_ifile f ++ T) (tids_state (add_file_o st f)).
Proof.
  induction st as [|o rest IH]; intros T HT; cbn [add_file_o].
  - cbn in HT. apply matched_nil_inv in HT. subst T. cbn [tids_state flat_map]. rewrite (app_nil_r (tids_ofile _)).
    apply add_to_o_matched; [reflexivity|]. apply matched_nil.
  - cbn [tids_state flat_map] in HT. fold (tids_state rest) in HT.
    apply matched_app_inv_r in HT as (la & lb & Hp & Ha & Hb).
    destruct (same_route_o o f) eqn:Hs; cbn [tids_state flat_map].
    + fold (tids_state rest).
      eapply matched_perm_l; [apply Permutation_sym, Permutation_app_head, Hp|].
      rewrite app_assoc. apply matched_app; [|exact Hb].
      apply add_to_o_matched; [now apply same_route_o_eq|exact Ha].
    + fold (tids_state (add_file_o rest f)).
      eapply matched_perm_l with (l1 := la ++ tids_ifile f ++ lb).
      { eapply Permutation_trans; [|apply Permutation_sym, Permutation_app_head, Hp].
        rewrite !app_assoc. apply Permutation_app_tail, Permutation_app_comm. }
      apply matched_app; [exact Ha|]. now apply IH.
Qed.

Lemma add_files_o_matched fs st : forall T,
  matched tle T (tids_state st) -> matched tle (tids_in fs ++ T) (tids_state (fold_left add_file_o fs st)).
Proof.
  revert st. induction fs as [|f fs IH]; intros st T HT; cbn [fold_left tids_in flat_map app].
  - exact HT.
  - fold (tids_in fs).
    eapply matched_perm_l with (l1 := tids_in fs ++ tids_ifile f ++ T).
    { rewrite !app_assoc. apply Permutation_app_tail, Permutation_app_comm. }
    apply IH. now apply add_file_o_matched.
Qed.

Lemma build_state_o_matched fs : matched tle (tids_in fs) (tids_state (build_state_o fs)).
Proof.
  unfold build_state_o. destruct fs as [|f0 fs']; [apply matched_nil|].
  rewrite <- (app_nil_r (tids_in (f0 :: fs'))). apply add_files_o_matched. cbn. apply matched_nil.
Qed.

(* ---------------------------------------------------------------- convertToFiles *)

Lemma tids_rbatches_app r a b : tids_rbatches r (a ++ b) = tids_rbatches r a ++ tids_rbatches r b.
Proof. unfold tids_rbatches. apply flat_map_app. Qed.

Lemma tids_out_app a b : tids_out (a ++ b) = tids_out a ++ tids_out b.
Proof. unfold tids_out. apply flat_map_app. Qed.

Lemma tids_rbatches_renumber r bs seq : tids_rbatches r (renumber_o seq bs) = tids_rbatches r bs.
Proof.
  revert seq. induction bs as [|b rest IH]; intros seq; cbn [renumber_o tids_rbatches flat_map]; [reflexivity|].
  fold (tids_rbatches r (renumber_o (seq + 1) rest)). fold (tids_rbatches r rest). rewrite IH.
  destruct (rbo_number b <=? 1); reflexivity.
Qed.

Lemma tids_close_file o fopts bs out :
  tids_out (close_file_o o fopts bs out) = tids_out out ++ tids_rbatches (ofo_route o) bs.
Proof.
  unfold close_file_o. destruct bs as [|b rest].
  - cbn. now rewrite app_nil_r.
  - rewrite tids_out_app. cbn [tids_out flat_map]. rewrite app_nil_r.
    unfold tids_rfile, create_file_o. cbn [rfo_batches].
    change (rfo_route (mkRFO (ofo_origin o) (ofo_dest o) (ofo_hid o) fopts ?x)) with (ofo_route o).
    now rewrite tids_rbatches_renumber.
Qed.

Lemma tids_close_batch r hdr bo s :
  tids_rbatches r (close_batch_o hdr bo s) = tids_rbatches r (co_file s) ++ map (tag r hdr bo) (co_bent s).
Proof.
  unfold close_batch_o. destruct (co_bent s) as [|e es] eqn:He.
  - cbn. now rewrite app_nil_r.
  - rewrite tids_rbatches_app. cbn [tids_rbatches flat_map]. rewrite app_nil_r. reflexivity.
Qed.

Definition tids_cstate (o : ofileo) (hdr : header) (bo : vopts) (s : cstateo) : list tident :=
  tids_out (co_out s) ++ tids_rbatches (ofo_route o) (co_file s) ++ map (tag (ofo_route o) hdr bo) (co_bent s).

Lemma step_entry_o_tids c M o hdr bo s e :
  tids_cstate o hdr bo (step_entry_o c M o hdr bo s e) = tids_cstate o hdr bo s ++ [tag (ofo_route o) hdr bo e].
Proof.
  unfold step_entry_o, tids_cstate. destruct (exceeds c M (co_L s) (co_D s) e); cbn [co_out co_file co_bent].
  - rewrite tids_close_file, tids_close_batch. cbn. now rewrite <- !app_assoc.
  - rewrite map_app. cbn. now rewrite <- !app_assoc.
Qed.

Lemma fold_step_entry_o_tids c M o hdr bo es s :
  tids_cstate o hdr bo (fold_left (step_entry_o c M o hdr bo) es s)
  = tids_cstate o hdr bo s ++ map (tag (ofo_route o) hdr bo) es.
Proof.
  revert s. induction es as [|e es IH]; intros s; cbn [fold_left map].
  - now rewrite app_nil_r.
  - rewrite IH, step_entry_o_tids, <- app_assoc. reflexivity.
Qed.

Definition tids_closed (o : ofileo) (s : cstateo) : list tident :=
  tids_out (co_out s) ++ tids_rbatches (ofo_route o) (co_file s).

Lemma step_batch_o_tids c M o s b :
  tids_closed o (step_batch_o c M o s b) = tids_closed o s ++ tids_obatch (ofo_route o) b.
Proof.
  unfold step_batch_o, tids_closed. cbn [co_out co_file].
  rewrite tids_close_batch.
  pose proof (fold_step_entry_o_tids c M o (obo_header b) (obo_opts b) (map snd (obo_entries b))
                (mkCO (co_out s) (co_fopts s) (co_file s) [] (co_L s + 2) (co_D s) (co_bn s + 1))) as H.
  unfold tids_cstate in H. cbn [co_out co_file co_bent map] in H. rewrite app_nil_r in H.
  rewrite H. unfold tids_obatch. now rewrite <- app_assoc.
Qed.

Lemma fold_step_batch_o_tids c M o bs s :
  tids_closed o (fold_left (step_batch_o c M o) bs s) = tids_closed o s ++ tids_obatches (ofo_route o) bs.
Proof.
  revert s. induction bs as [|b bs IH]; intros s; cbn [fold_left tids_obatches flat_map].
  - now rewrite app_nil_r.
  - fold (tids_obatches (ofo_route o) bs). rewrite IH, step_batch_o_tids, <- app_assoc. reflexivity.
Qed.

Lemma step_file_o_tids c M acc o :
  tids_out (fst (step_file_o c M acc o)) = tids_out (fst acc) ++ tids_ofile o.
Proof.
  unfold step_file_o. cbn [fst]. rewrite tids_close_file.
  match goal with |- tids_out (co_out ?s1) ++ tids_rbatches _ (co_file ?s1) = _ =>
    change (tids_closed o s1 = tids_out (fst acc) ++ tids_ofile o) end.
  rewrite fold_step_batch_o_tids. unfold tids_closed. cbn [co_out co_file]. cbn [tids_rbatches flat_map].
  now rewrite app_nil_r.
Qed.

Lemma fold_step_file_o_tids c M st acc :
  tids_out (fst (fold_left (step_file_o c M) st acc)) = tids_out (fst acc) ++ tids_state st.
Proof.
  revert acc. induction st as [|o st IH]; intros acc; cbn [fold_left tids_state flat_map].
  - now rewrite app_nil_r.
  - fold (tids_state st). rewrite IH, step_file_o_tids, <- app_assoc. reflexivity.
Qed.

(* every output batch carries exactly the options of the stored batch it was cut from *)
Lemma convert_o_tids c st : tids_out (convert_o c st) = tids_state st.
Proof. unfold convert_o. rewrite fold_step_file_o_tids. reflexivity. Qed.

(* conservation with options: input and output entries correspond one-to-one; the output
   batch of an entry carries at least the options its input batch was validated with *)
Lemma merge_o_opts_union fs c : matched tle (tids_in fs) (tids_out (merge_files_o fs c)).
Proof. unfold merge_files_o. rewrite convert_o_tids. apply build_state_o_matched. Qed.

(* ================================================================ options of the out-files *)

Lemma add_file_o_spec st f :
  (exists l1 o l2, st = l1 ++ o :: l2 /\ ofo_route o = fo_route f /\
      (forall x, In x l1 -> ofo_route x <> fo_route f) /\ add_file_o st f = l1 ++ add_to_o o f :: l2)
  \/ ((forall x, In x st -> ofo_route x <> fo_route f) /\
      add_file_o st f = st ++ [add_to_o (new_ofile_o f None) f]).
Proof.
  induction st as [|o r IH]; cbn [add_file_o].
  - right. split; [intros x []|reflexivity].
  - destruct (same_route_o o f) eqn:Hs.
    + left. exists [], o, r. cbn [app]. repeat split; [now apply same_route_o_eq|intros x []].
    + apply same_route_o_false in Hs. destruct IH as [(l1 & o' & l2 & -> & Hr & Hl1 & ->)|[Hall ->]].
      * left. exists (o :: l1), o', l2. cbn [app]. repeat split; [exact Hr|].
        intros x [<-|Hx]; [exact Hs|now apply Hl1].
      * right. split; [intros x [<-|Hx]; [exact Hs|now apply Hall]|reflexivity].
Qed.

Definition routes_nodup (st : list ofileo) : Prop := NoDup (map ofo_route st).
Definition covered (st : list ofileo) (seen : list ifileo) : Prop :=
  forall f, In f seen -> In (fo_route f) (map ofo_route st).
(* the out-file of a routing pair holds exactly what the files of that pair seen so far hold *)
Definition fexact (p : opts -> bool) (st : list ofileo) (seen : list ifileo) : Prop :=
  forall o, In o st ->
    (ohas p (ofo_opts o) = true <->
     exists f, In f seen /\ fo_route f = ofo_route o /\ ohas p (fo_opts f) = true).
Definition finv (p : opts -> bool) (st : list ofileo) (seen : list ifileo) : Prop :=
  routes_nodup st /\ covered st seen /\ fexact p st seen.

Lemma ex_seen_skip (P : ifileo -> Prop) f seen r :
  fo_route f <> r ->
  ((exists f', In f' (f :: seen) /\ fo_route f' = r /\ P f') <-> (exists f', In f' seen /\ fo_route f' = r /\ P f')).
Proof.
  intros Hne. split; intros (f' & Hin & Hr & HP).
  - destruct Hin as [<-|Hin]; [contradiction|]. now exists f'.
  - exists f'. split; [now right|auto].
Qed.

Lemma add_file_o_finv p st seen f : orhom p -> finv p st seen -> finv p (add_file_o st f) (f :: seen).
Proof.
  intros Hp (Hnd & Hcov & Hex). unfold routes_nodup in Hnd.
  destruct (add_file_o_spec st f) as [(l1 & o & l2 & Hst & Hr & Hl1 & ->)|[Hall ->]].
  - subst st.
    assert (Hroutes : map ofo_route (l1 ++ add_to_o o f :: l2) = map ofo_route (l1 ++ o :: l2)).
    { rewrite !map_app. cbn [map]. now rewrite add_to_o_route. }
    split; [unfold routes_nodup; now rewrite Hroutes|]. split.
    + intros f' [<-|Hin]; rewrite Hroutes; [|now apply Hcov].
      rewrite <- Hr. apply in_map, in_elt.
    + assert (Hl2 : forall x, In x l2 -> ofo_route x <> fo_route f).
      { intros x Hx E. rewrite map_app in Hnd. cbn [map] in Hnd. apply NoDup_remove_2 in Hnd.
        apply Hnd. rewrite <- Hr in E. rewrite <- E. rewrite <- map_app. apply in_map, in_or_app. now right. }
      intros x Hx. apply in_app_or in Hx as [Hx|[<-|Hx]].
      * rewrite ex_seen_skip; [|intros E; now apply (Hl1 x Hx)]. apply Hex, in_or_app. now left.
      * rewrite add_to_o_route. cbn [add_to_o ofo_opts]. rewrite (ohas_omerge _ _ _ Hp), orb_true_iff.
        specialize (Hex o (in_elt o l1 l2)). rewrite Hex. split.
        -- intros [(f' & Hin & Hr' & Hf')|Hf]; [exists f'; split; [now right|auto]|].
           exists f. split; [now left|]. split; [now symmetry|exact Hf].
        -- intros (f' & [<-|Hin] & Hr' & Hf'); [now right|]. left. now exists f'.
      * rewrite ex_seen_skip; [|intros E; now apply (Hl2 x Hx)]. apply Hex, in_or_app. right. now right.
  - split; [|split].
    + unfold routes_nodup. rewrite map_app. cbn [map]. rewrite add_to_o_route.
      eapply Permutation_NoDup; [apply Permutation_cons_append|]. constructor; [|exact Hnd].
      cbn. intros Hin. apply in_map_iff in Hin as (x & Hx & Hin). now apply (Hall x Hin).
    + intros f' [<-|Hin]; rewrite map_app; apply in_or_app.
      * right. cbn. now left.
      * left. now apply Hcov.
    + intros x Hx. apply in_app_or in Hx as [Hx|[<-|[]]].
      * rewrite ex_seen_skip; [|intros E; now apply (Hall x Hx)]. now apply Hex.
      * rewrite add_to_o_route. cbn [add_to_o new_ofile_o ofo_opts omerge ofo_origin ofo_dest].
        change (ofo_route (new_ofile_o f None)) with (fo_route f). split.
        -- intros Hf. exists f. split; [now left|]. split; [reflexivity|exact Hf].
        -- intros (f' & [<-|Hin] & Hr' & Hf'); [exact Hf'|]. exfalso.
           apply Hcov in Hin. apply in_map_iff in Hin as (x & Hx & Hin). apply (Hall x Hin). congruence.
Qed.

Lemma add_files_o_finv p fs : forall st seen,
  orhom p -> finv p st seen -> finv p (fold_left add_file_o fs st) (rev fs ++ seen).
Proof.
  induction fs as [|f fs IH]; intros st seen Hp H; cbn [fold_left rev app]; [exact H|].
  rewrite <- app_assoc. cbn [app]. apply IH; [exact Hp|]. now apply add_file_o_finv.
Qed.

Lemma build_state_o_finv p fs : orhom p ->
  routes_nodup (build_state_o fs) /\
  forall o, In o (build_state_o fs) ->
    (ohas p (ofo_opts o) = true <->
     exists f, In f fs /\ fo_route f = ofo_route o /\ ohas p (fo_opts f) = true).
Proof.
  intros Hp. unfold build_state_o. destruct fs as [|f0 fs']; [split; [constructor|intros o []]|].
  assert (H0 : finv p [new_ofile_o f0 (fo_opts f0)] [f0]).
  { split; [|split].
    - unfold routes_nodup. cbn. constructor; [intros []|constructor].
    - intros f [<-|[]]. cbn. now left.
    - intros o [<-|[]]. cbn [new_ofile_o ofo_opts]. change (ofo_route (new_ofile_o f0 (fo_opts f0))) with (fo_route f0).
      split.
      + intros Hf. exists f0. split; [now left|]. split; [reflexivity|exact Hf].
      + intros (f & [<-|[]] & _ & Hf). exact Hf. }
  destruct (add_files_o_finv p (f0 :: fs') _ _ Hp H0) as (Hnd & _ & Hex).
  split; [exact Hnd|]. intros o Ho. rewrite (Hex o Ho). split; intros (f & Hin & Hr & Hf); exists f; (split; [|auto]).
  - apply in_app_or in Hin as [Hin|[<-|[]]]; [now apply in_rev|now left].
  - apply in_or_app. left. now apply in_rev in Hin.
Qed.

(* ================================================================ a generic invariant rule for convertToFiles (with options) *)

Section ConvertInvariantO.
  Variables (c : conds) (M : Z).
  Variable Po : ofileo -> Prop.
  Variable B : ofileo -> header -> vopts -> list entry -> cstateo -> Prop.
  Variable F : ofileo -> cstateo -> Prop.
  Variable G : list rfileo * Z -> Prop.
  Hypothesis file_start : forall o acc, Po o -> G acc -> F o (mkCO (fst acc) (new_file_opts o) [] [] 2 0 (snd acc)).
  Hypothesis batch_start : forall o b s, Po o -> In b (ofo_batches o) -> F o s ->
    B o (obo_header b) (obo_opts b) (map snd (obo_entries b))
      (mkCO (co_out s) (co_fopts s) (co_file s) [] (co_L s + 2) (co_D s) (co_bn s + 1)).
  Hypothesis entry_step : forall o h bo e rest s, Po o -> B o h bo (e :: rest) s ->
    B o h bo rest (step_entry_o c M o h bo s e).
  Hypothesis batch_end : forall o h bo s, Po o -> B o h bo [] s ->
    F o (mkCO (co_out s) (co_fopts s) (close_batch_o h bo s) [] (co_L s) (co_D s) (co_bn s)).
  Hypothesis file_end : forall o s, Po o -> F o s -> G (close_file_o o (co_fopts s) (co_file s) (co_out s), co_bn s).

  Lemma invo_entries o h bo es s : Po o -> B o h bo es s -> B o h bo [] (fold_left (step_entry_o c M o h bo) es s).
  Proof.
    intros Ho. revert s. induction es as [|e es IH]; intros s Hs; cbn [fold_left]; [exact Hs|].
    apply IH. now apply entry_step.
  Qed.

  Lemma invo_batches o bs s : Po o -> incl bs (ofo_batches o) -> F o s -> F o (fold_left (step_batch_o c M o) bs s).
  Proof.
    intros Ho. revert s. induction bs as [|b bs IH]; intros s Hin Hs; cbn [fold_left]; [exact Hs|].
    apply IH; [intros x Hx; apply Hin; now right|].
    unfold step_batch_o. apply batch_end; [exact Ho|]. apply invo_entries; [exact Ho|].
    apply batch_start; [exact Ho| apply Hin; now left | exact Hs].
  Qed.

  Lemma invo_files st acc : Forall Po st -> G acc -> G (fold_left (step_file_o c M) st acc).
  Proof.
    revert acc. induction st as [|o st IH]; intros acc Hst Hacc; cbn [fold_left]; [exact Hacc|].
    inversion Hst as [|? ? Ho Hst']; subst. apply IH; [exact Hst'|].
    unfold step_file_o. apply file_end; [exact Ho|]. apply invo_batches; [exact Ho|apply incl_refl|].
    now apply file_start.
  Qed.
End ConvertInvariantO.

(* where an output file and its batches come from *)
Definition rb_from (o : ofileo) (rb : rbatcho) : Prop :=
  exists b, In b (ofo_batches o) /\ rbo_header rb = obo_header b /\ rbo_opts rb = obo_opts b.
Definition rf_from (st : list ofileo) (g : rfileo) : Prop :=
  exists o, In o st /\ rfo_route g = ofo_route o /\ rfo_opts g = ofo_opts o /\ Forall (rb_from o) (rfo_batches g).

Lemma renumber_o_from o seq bs : Forall (rb_from o) bs -> Forall (rb_from o) (renumber_o seq bs).
Proof.
  revert seq. induction bs as [|b r IH]; intros seq H; cbn [renumber_o]; [constructor|].
  inversion H as [|? ? Hb Hr]; subst. constructor; [|now apply IH].
  destruct (rbo_number b <=? 1); [|exact Hb]. destruct Hb as (b0 & H1 & H2 & H3). now exists b0.
Qed.

Lemma close_file_o_from st o bs out :
  In o st -> Forall (rf_from st) out -> Forall (rb_from o) bs ->
  Forall (rf_from st) (close_file_o o (ofo_opts o) bs out).
Proof.
  intros Ho Hout Hbs. unfold close_file_o. destruct bs as [|b r]; [exact Hout|].
  apply Forall_app. split; [exact Hout|]. constructor; [|constructor].
  exists o. split; [exact Ho|]. split; [reflexivity|]. split; [reflexivity|].
  unfold create_file_o. cbn [rfo_batches]. now apply renumber_o_from.
Qed.

Lemma close_batch_o_from o b s :
  In b (ofo_batches o) -> Forall (rb_from o) (co_file s) ->
  Forall (rb_from o) (close_batch_o (obo_header b) (obo_opts b) s).
Proof.
  intros Hb Hf. unfold close_batch_o. destruct (co_bent s); [exact Hf|].
  apply Forall_app. split; [exact Hf|]. constructor; [|constructor]. now exists b.
Qed.

Lemma convert_o_from c st : Forall (rf_from st) (convert_o c st).
Proof.
  unfold convert_o.
  apply (invo_files c (effective_dollar c) (fun o => In o st)
    (fun o h bo _ s => Forall (rf_from st) (co_out s) /\ co_fopts s = ofo_opts o /\ Forall (rb_from o) (co_file s)
                       /\ exists b, In b (ofo_batches o) /\ h = obo_header b /\ bo = obo_opts b)
    (fun o s => Forall (rf_from st) (co_out s) /\ co_fopts s = ofo_opts o /\ Forall (rb_from o) (co_file s))
    (fun acc => Forall (rf_from st) (fst acc))).
  - intros o acc Ho Hacc. cbn [co_out co_fopts co_file]. repeat split; [exact Hacc|constructor].
  - intros o b s Ho Hb (H1 & H2 & H3). cbn [co_out co_fopts co_file]. repeat split; auto. now exists b.
  - intros o h bo e rest s Ho (H1 & H2 & H3 & b & Hb & -> & ->). unfold step_entry_o.
    destruct (exceeds c (effective_dollar c) (co_L s) (co_D s) e); cbn [co_out co_fopts co_file].
    + split; [|split; [reflexivity|split; [constructor|now exists b]]].
      rewrite H2. apply close_file_o_from; [exact Ho|exact H1|]. now apply close_batch_o_from.
    + repeat split; auto. now exists b.
  - intros o h bo s Ho (H1 & H2 & H3 & b & Hb & -> & ->). cbn [co_out co_fopts co_file].
    repeat split; auto. now apply close_batch_o_from.
  - intros o s Ho (H1 & H2 & H3). cbn [fst]. rewrite H2. now apply close_file_o_from.
  - apply Forall_forall. auto.
  - constructor.
Qed.

Lemma merge_o_file_from fs c g :
  In g (merge_files_o fs c) ->
  exists o, In o (build_state_o fs) /\ rfo_route g = ofo_route o /\ rfo_opts g = ofo_opts o
            /\ Forall (rb_from o) (rfo_batches g).
Proof.
  intros Hg. pose proof (convert_o_from c (build_state_o fs)) as H.
  rewrite Forall_forall in H. exact (H g Hg).
Qed.

(* the options of an output file are exactly what the input files of its routing pair hold *)
Lemma merge_o_file_exact p fs c g : orhom p -> In g (merge_files_o fs c) ->
  (ohas p (rfo_opts g) = true <->
   exists f, In f fs /\ fo_route f = rfo_route g /\ ohas p (fo_opts f) = true).
Proof.
  intros Hp Hg. destruct (merge_o_file_from fs c g Hg) as (o & Ho & Hr & Hopts & _).
  rewrite Hopts, Hr. now apply build_state_o_finv.
Qed.

Lemma merge_o_file_union fs c g f :
  In g (merge_files_o fs c) -> In f fs -> fo_route f = rfo_route g -> osub (fo_opts f) (rfo_opts g).
Proof.
  intros Hg Hf Hr. apply osub_ohas.
  assert (H : forall p, orhom p -> ohas p (fo_opts f) = true -> ohas p (rfo_opts g) = true).
  { intros p Hp Hpf. apply (merge_o_file_exact p fs c g Hp Hg). now exists f. }
  split; [apply H, orhom_set|]. split; [intros i; apply H, orhom_flag|apply H, orhom_ctc].
Qed.

Lemma merge_o_file_order_independent p fs fs' c c' g g' :
  orhom p -> Permutation fs fs' -> In g (merge_files_o fs c) -> In g' (merge_files_o fs' c') ->
  rfo_route g = rfo_route g' -> ohas p (rfo_opts g) = ohas p (rfo_opts g').
Proof.
  intros Hp Hperm Hg Hg' Hr.
  pose proof (merge_o_file_exact p fs c g Hp Hg) as H1.
  pose proof (merge_o_file_exact p fs' c' g' Hp Hg') as H2.
  assert (E : ohas p (rfo_opts g) = true <-> ohas p (rfo_opts g') = true).
  { rewrite H1, H2. split; intros (f & Hin & Hrf & Hf); exists f; (split; [|split; [congruence|exact Hf]]).
    - eapply Permutation_in; eauto.
    - eapply Permutation_in; [apply Permutation_sym|]; eauto. }
  destruct (ohas p (rfo_opts g)), (ohas p (rfo_opts g')); try reflexivity.
  - symmetry. now apply E.
  - now apply E.
Qed.

(* ================================================================ options of the out-batches: nothing invented *)

(* what an out-batch holds is held by an input batch (with at least one entry) of the same
   routing pair and header key, among the files seen so far *)
Definition bsrc (p : opts -> bool) (seen : list ifileo) (r : route_t) (b : obatcho) : Prop :=
  ohas p (obo_opts b) = true ->
  exists f ib, In f seen /\ In ib (fo_batches f) /\ fo_route f = r
               /\ hkey (ib_header (ibo_batch ib)) = hkey (obo_header b)
               /\ ib_entries (ibo_batch ib) <> []
               /\ ohas p (batch_in_opts (fo_opts f) ib) = true.

Lemma place_o_forall (Q : obatcho -> Prop) h o e bs :
  Forall Q bs ->
  (forall b, Q b -> header_equal (obo_header b) h = true ->
     Q (mkOBO (obo_header b) (tm_set (e_trace e) e (obo_entries b)) (omerge (obo_opts b) o))) ->
  Q (mkOBO h (tm_set (e_trace e) e []) o) ->
  Forall Q (place_o h o e bs).
Proof.
  intros Hbs Hre Hnew. induction bs as [|b r IH]; cbn [place_o]; [constructor; [exact Hnew|constructor]|].
  inversion Hbs as [|? ? Hb Hr]; subst.
  destruct (header_equal (obo_header b) h && negb (tm_contains (e_trace e) (obo_entries b))) eqn:Hc.
  - apply andb_prop in Hc as [Hh _]. constructor; [now apply Hre|exact Hr].
  - constructor; [exact Hb|now apply IH].
Qed.

Lemma bsrc_mono p seen seen' r b : incl seen seen' -> bsrc p seen r b -> bsrc p seen' r b.
Proof.
  intros Hi H Hp. destruct (H Hp) as (f & ib & H1 & H2). exists f, ib. split; [now apply Hi|exact H2].
Qed.

Lemma add_batch_o_bsrc p seen f ib bs :
  orhom p -> In f seen -> In ib (fo_batches f) ->
  Forall (bsrc p seen (fo_route f)) bs -> Forall (bsrc p seen (fo_route f)) (add_batch_o (fo_opts f) bs ib).
Proof.
  intros Hp Hf Hib. unfold add_batch_o.
  destruct (ib_entries (ibo_batch ib)) as [|e0 es0] eqn:E; [auto|].
  assert (Hne : ib_entries (ibo_batch ib) <> []) by (rewrite E; discriminate).
  generalize (e0 :: es0) as es. intros es. revert bs.
  induction es as [|e es IH]; intros bs Hbs; cbn [fold_left]; [exact Hbs|].
  apply IH. apply place_o_forall; [exact Hbs| |].
  - intros b Hb Hh. unfold bsrc. cbn [obo_opts obo_header]. rewrite (ohas_omerge _ _ _ Hp), orb_true_iff.
    intros [Hl|Hr]; [now apply Hb|]. exists f, ib. repeat split; auto.
    symmetry. now apply header_equal_hkey.
  - unfold bsrc. cbn [obo_opts obo_header]. intros Hr. exists f, ib. repeat split; auto.
Qed.

Lemma add_batches_o_bsrc p seen f ibs bs :
  orhom p -> In f seen -> incl ibs (fo_batches f) ->
  Forall (bsrc p seen (fo_route f)) bs ->
  Forall (bsrc p seen (fo_route f)) (fold_left (add_batch_o (fo_opts f)) ibs bs).
Proof.
  intros Hp Hf. revert bs. induction ibs as [|ib ibs IH]; intros bs Hi Hbs; cbn [fold_left]; [exact Hbs|].
  apply IH; [intros x Hx; apply Hi; now right|]. apply add_batch_o_bsrc; auto. apply Hi. now left.
Qed.

Definition bsinv (p : opts -> bool) (seen : list ifileo) (st : list ofileo) : Prop :=
  Forall (fun o => Forall (bsrc p seen (ofo_route o)) (ofo_batches o)) st.

Lemma bsinv_mono p seen seen' st : incl seen seen' -> bsinv p seen st -> bsinv p seen' st.
Proof.
  intros Hi H. unfold bsinv in *. eapply Forall_impl; [|exact H]. cbn. intros o Ho.
  eapply Forall_impl; [|exact Ho]. intros b. now apply bsrc_mono.
Qed.

Lemma add_to_o_bsrc p seen o f :
  orhom p -> ofo_route o = fo_route f ->
  Forall (bsrc p seen (ofo_route o)) (ofo_batches o) ->
  Forall (bsrc p (f :: seen) (ofo_route (add_to_o o f))) (ofo_batches (add_to_o o f)).
Proof.
  intros Hp Hr Ho. rewrite add_to_o_route, Hr. cbn [add_to_o ofo_batches].
  apply add_batches_o_bsrc; [exact Hp|now left|apply incl_refl|].
  rewrite <- Hr. eapply Forall_impl; [|exact Ho]. intros b. apply bsrc_mono. intros x Hx. now right.
Qed.

Lemma add_file_o_bsinv p seen st f : orhom p -> bsinv p seen st -> bsinv p (f :: seen) (add_file_o st f).
Proof.
  intros Hp H. assert (Hm : bsinv p (f :: seen) st) by (eapply bsinv_mono; [|exact H]; intros x Hx; now right).
  unfold bsinv in *.
  destruct (add_file_o_spec st f) as [(l1 & o & l2 & -> & Hr & _ & ->)|[_ ->]].
  - apply Forall_app in Hm as [H1 H2]. inversion H2 as [|? ? _ H3]; subst.
    apply Forall_app in H as [_ H]. inversion H as [|? ? Ho _]; subst.
    apply Forall_app. split; [exact H1|]. constructor; [|exact H3]. now apply add_to_o_bsrc.
  - apply Forall_app. split; [exact Hm|]. constructor; [|constructor].
    apply add_to_o_bsrc; [exact Hp|reflexivity|constructor].
Qed.

Lemma add_files_o_bsinv p fs : forall seen st,
  orhom p -> bsinv p seen st -> bsinv p (rev fs ++ seen) (fold_left add_file_o fs st).
Proof.
  induction fs as [|f fs IH]; intros seen st Hp H; cbn [fold_left rev app]; [exact H|].
  rewrite <- app_assoc. cbn [app]. apply IH; [exact Hp|]. now apply add_file_o_bsinv.
Qed.

Lemma build_state_o_bsinv p fs : orhom p -> bsinv p fs (build_state_o fs).
Proof.
  intros Hp. unfold build_state_o. destruct fs as [|f0 fs']; [constructor|].
  eapply bsinv_mono; [|apply (add_files_o_bsinv p (f0 :: fs') [] _ Hp)].
  - intros x Hx. rewrite app_nil_r in Hx. now apply in_rev.
  - constructor; [constructor|constructor].
Qed.

Lemma merge_o_batch_no_invention p fs c g rb :
  orhom p -> In g (merge_files_o fs c) -> In rb (rfo_batches g) -> ohas p (rbo_opts rb) = true ->
  exists f ib, In f fs /\ In ib (fo_batches f) /\ fo_route f = rfo_route g
               /\ hkey (ib_header (ibo_batch ib)) = hkey (rbo_header rb)
               /\ ib_entries (ibo_batch ib) <> []
               /\ ohas p (batch_in_opts (fo_opts f) ib) = true.
Proof.
  intros Hp Hg Hrb Hh. destruct (merge_o_file_from fs c g Hg) as (o & Ho & Hr & _ & Hbs).
  rewrite Forall_forall in Hbs. destruct (Hbs rb Hrb) as (b & Hb & Hhd & Hop).
  pose proof (build_state_o_bsinv p fs Hp) as Hinv. unfold bsinv in Hinv.
  rewrite Forall_forall in Hinv. specialize (Hinv o Ho). rewrite Forall_forall in Hinv.
  specialize (Hinv b Hb). rewrite Hop in Hh. destruct (Hinv Hh) as (f & ib & H1 & H2 & H3 & H4 & H5 & H6).
  exists f, ib. rewrite Hr, Hhd. repeat split; auto.
Qed.

(* ================================================================ where an output entry comes from *)

Lemma tids_in_inv fs t : In t (tids_in fs) ->
  exists f ib e, In f fs /\ In ib (fo_batches f) /\ In e (ib_entries (ibo_batch ib))
                 /\ t = tag (fo_route f) (ib_header (ibo_batch ib)) (batch_in_opts (fo_opts f) ib) e.
Proof.
  unfold tids_in. intros H. apply in_flat_map in H as (f & Hf & H).
  unfold tids_ifile in H. apply in_flat_map in H as (ib & Hib & H).
  unfold tids_ibatch in H. apply in_map_iff in H as (e & <- & He). now exists f, ib, e.
Qed.

Lemma tids_in_intro fs f ib e : In f fs -> In ib (fo_batches f) -> In e (ib_entries (ibo_batch ib)) ->
  In (tag (fo_route f) (ib_header (ibo_batch ib)) (batch_in_opts (fo_opts f) ib) e) (tids_in fs).
Proof.
  intros Hf Hib He. unfold tids_in. apply in_flat_map. exists f. split; [exact Hf|].
  unfold tids_ifile. apply in_flat_map. exists ib. split; [exact Hib|]. unfold tids_ibatch. now apply in_map.
Qed.

Lemma tids_out_intro gs g rb e : In g gs -> In rb (rfo_batches g) -> In e (rbo_entries rb) ->
  In (tag (rfo_route g) (rbo_header rb) (rbo_opts rb) e) (tids_out gs).
Proof.
  intros Hg Hb He. unfold tids_out. apply in_flat_map. exists g. split; [exact Hg|].
  unfold tids_rfile, tids_rbatches. apply in_flat_map. exists rb. split; [exact Hb|].
  unfold tids_rbatch. now apply in_map.
Qed.

Lemma tids_out_inv gs t : In t (tids_out gs) ->
  exists g rb e, In g gs /\ In rb (rfo_batches g) /\ In e (rbo_entries rb)
                 /\ t = tag (rfo_route g) (rbo_header rb) (rbo_opts rb) e.
Proof.
  unfold tids_out. intros H. apply in_flat_map in H as (g & Hg & H).
  unfold tids_rfile, tids_rbatches in H. apply in_flat_map in H as (rb & Hrb & H).
  unfold tids_rbatch in H. apply in_map_iff in H as (e & <- & He). now exists g, rb, e.
Qed.

(* no mixing, with options: an entry of an output batch is an entry of an input batch with the
   same routing pair and header key whose options the output batch includes *)
Lemma merge_o_entry_source fs c g rb e :
  In g (merge_files_o fs c) -> In rb (rfo_batches g) -> In e (rbo_entries rb) ->
  exists f ib, In f fs /\ In ib (fo_batches f) /\ In e (ib_entries (ibo_batch ib))
               /\ fo_route f = rfo_route g /\ hkey (ib_header (ibo_batch ib)) = hkey (rbo_header rb)
               /\ osub (batch_in_opts (fo_opts f) ib) (rbo_opts rb).
Proof.
  intros Hg Hb He. pose proof (tids_out_intro _ g rb e Hg Hb He) as Hin.
  destruct (matched_in_r _ _ _ _ (merge_o_opts_union fs c) Hin) as (t & Ht & [Hid Hsub]).
  apply tids_in_inv in Ht as (f & ib & e' & Hf & Hib & He' & ->).
  cbn [fst snd tag] in Hid, Hsub. unfold mkid in Hid.
  apply pair_equal_spec in Hid as [Hid ->]. apply pair_equal_spec in Hid as [Hr Hk].
  exists f, ib. repeat split; assumption.
Qed.

(* and conversely every entry of an input batch sits in an output batch of the same routing
   pair and header key that includes the options of the input batch *)
Lemma merge_o_entry_target fs c f ib e :
  In f fs -> In ib (fo_batches f) -> In e (ib_entries (ibo_batch ib)) ->
  exists g rb, In g (merge_files_o fs c) /\ In rb (rfo_batches g) /\ In e (rbo_entries rb)
               /\ fo_route f = rfo_route g /\ hkey (ib_header (ibo_batch ib)) = hkey (rbo_header rb)
               /\ osub (batch_in_opts (fo_opts f) ib) (rbo_opts rb).
Proof.
  intros Hf Hib He. pose proof (tids_in_intro fs f ib e Hf Hib He) as Hin.
  destruct (matched_in_l _ _ _ _ (merge_o_opts_union fs c) Hin) as (t & Ht & [Hid Hsub]).
  apply tids_out_inv in Ht as (g & rb & e' & Hg & Hrb & He' & ->).
  cbn [fst snd tag] in Hid, Hsub. unfold mkid in Hid.
  apply pair_equal_spec in Hid as [Hid <-]. apply pair_equal_spec in Hid as [Hr Hk].
  exists g, rb. repeat split; assumption.
Qed.

Lemma hkey_odfi a b : hkey a = hkey b -> h_odfi a = h_odfi b.
Proof. unfold hkey. intros H. injection H as _ _ _ _ _ _ H7. exact H7. Qed.

(* a per-entry rule that looks at the header through the ODFI only and is monotone in the
   options holds for every entry of every output batch when it holds for the inputs *)
Lemma merge_o_entries_transfer (V : header -> vopts -> entry -> bool) fs c g rb :
  (forall h h' o o' e, h_odfi h = h_odfi h' -> osub o o' -> V h o e = true -> V h' o' e = true) ->
  (forall f ib e, In f fs -> In ib (fo_batches f) -> In e (ib_entries (ibo_batch ib)) ->
     V (ib_header (ibo_batch ib)) (batch_in_opts (fo_opts f) ib) e = true) ->
  In g (merge_files_o fs c) -> In rb (rfo_batches g) ->
  forallb (V (rbo_header rb) (rbo_opts rb)) (rbo_entries rb) = true.
Proof.
  intros Hmono Hin Hg Hrb. apply forallb_forall. intros e He.
  destruct (merge_o_entry_source fs c g rb e Hg Hrb He) as (f & ib & Hf & Hib & He' & _ & Hk & Hsub).
  eapply Hmono; [apply hkey_odfi, Hk|exact Hsub|]. now apply Hin.
Qed.

(* ================================================================ trace numbers under Batch.Create *)

(* Batch.build leaves the trace number of e alone *)
Definition entry_stays (h : header) (o : vopts) (e : entry) : bool :=
  match trace_odfi e, header_odfi h with
  | Some p, Some q => (p =? q) || keeps_traces o
  | _, _ => false
  end.

Lemma build_entries_stays h o es : forall seq,
  forallb (entry_stays h o) es = true -> build_entries h o seq es = Some es.
Proof.
  induction es as [|e es IH]; intros seq H; cbn [build_entries]; [reflexivity|].
  cbn [forallb] in H. apply andb_prop in H as [He Hes]. unfold entry_stays in He.
  destruct (trace_odfi e) as [p|]; [|discriminate]. destruct (header_odfi h) as [q|]; [|discriminate].
  rewrite (IH (seq + 1) Hes).
  assert (E : negb (p =? q) && negb (keeps_traces o) = false).
  { apply orb_true_iff in He as [He|He]; rewrite He; [reflexivity|apply andb_false_r]. }
  now rewrite E.
Qed.

Lemma entry_stays_mono h h' o o' e :
  h_odfi h = h_odfi h' -> osub o o' -> entry_stays h o e = true -> entry_stays h' o' e = true.
Proof.
  intros E Hs. unfold entry_stays, header_odfi. rewrite E.
  destruct (trace_odfi e) as [p|]; [|auto].
  destruct (atoi_opt (firstn 8 (stringField (h_odfi h') 8))) as [q|]; [|auto].
  intros H. apply orb_true_iff in H as [H|H]; [now rewrite H|].
  rewrite (keeps_traces_mono _ _ Hs H). apply orb_true_r.
Qed.

Definition inputs_stay (fs : list ifileo) : Prop :=
  forall f ib e, In f fs -> In ib (fo_batches f) -> In e (ib_entries (ibo_batch ib)) ->
    entry_stays (ib_header (ibo_batch ib)) (batch_in_opts (fo_opts f) ib) e = true.

(* entry identity conservation including the trace number: when every input entry either
   starts with the ODFI of its batch header or was validated under BypassOriginValidation /
   CustomTraceNumbers (on its file or on its batch), Batch.build changes no trace number *)
Lemma merge_o_traces_preserved fs c g rb :
  inputs_stay fs -> In g (merge_files_o fs c) -> In rb (rfo_batches g) ->
  build_entries (rbo_header rb) (rbo_opts rb) 1 (rbo_entries rb) = Some (rbo_entries rb).
Proof.
  intros Hin Hg Hrb. apply build_entries_stays.
  apply (merge_o_entries_transfer entry_stays fs c g rb); auto. intros. eapply entry_stays_mono; eauto.
Qed.

Definition is_gt (c : comparison) : bool := match c with Gt => true | _ => false end.

(* the trace-number rules of Batch.Create, per entry, under the options o *)
Definition entry_trace_valid (h : header) (o : vopts) (e : entry) : bool :=
  entry_stays h o e
  && (custom o || (is_gt (bcmp (e_trace e) [48%N]) && (bypass o || trace_is_odfi h e))).

Lemma entry_trace_valid_mono h h' o o' e :
  h_odfi h = h_odfi h' -> osub o o' -> entry_trace_valid h o e = true -> entry_trace_valid h' o' e = true.
Proof.
  intros E Hs H. unfold entry_trace_valid in *. apply andb_prop in H as [H1 H2].
  rewrite (entry_stays_mono _ _ _ _ _ E Hs H1). cbn [andb].
  destruct (custom o') eqn:Hc'; [reflexivity|]. cbn [orb].
  assert (Hc : custom o = false).
  { destruct (custom o) eqn:Hc; [|reflexivity]. unfold custom in *. apply (osub_oflag _ _ _ Hs) in Hc. congruence. }
  rewrite Hc in H2. cbn [orb] in H2. apply andb_prop in H2 as [H2 H3]. rewrite H2. cbn [andb].
  apply orb_true_iff in H3 as [H3|H3].
  - unfold bypass in *. now rewrite (osub_oflag _ _ _ Hs H3).
  - unfold trace_is_odfi in *. rewrite <- E, H3. apply orb_true_r.
Qed.

Lemma seq_ascending_tasc es : forall last,
  tasc es -> Forall (fun e => bcmp (e_trace e) last = Gt) es -> seq_ascending last es = true.
Proof.
  induction es as [|e r IH]; intros last Ht Hall; cbn [seq_ascending]; [reflexivity|].
  inversion Hall as [|? ? He Hr]; subst. rewrite He. apply IH; [apply Ht|].
  pose proof (tasc_all_lt e r Ht) as Hlt. eapply Forall_impl; [|exact Hlt]. cbn.
  intros y Hy. now apply bcmp_lt_gt.
Qed.

(* Batch.Create succeeds as far as trace numbers go and returns the entries unchanged *)
Lemma batch_create_valid h o es :
  tasc es -> forallb (entry_trace_valid h o) es = true -> batch_create h o es = Some es.
Proof.
  intros Ht Hv. rewrite forallb_forall in Hv. unfold batch_create.
  rewrite build_entries_stays.
  2:{ apply forallb_forall. intros e He. specialize (Hv e He). unfold entry_trace_valid in Hv.
      now apply andb_prop in Hv as [Hv _]. }
  assert (Hver : verify_traces h o es = true).
  { unfold verify_traces. destruct (custom o) eqn:Hc; [reflexivity|]. cbn [orb].
    assert (Hall : forall e, In e es -> bcmp (e_trace e) [48%N] = Gt /\ (bypass o || trace_is_odfi h e) = true).
    { intros e He. specialize (Hv e He). unfold entry_trace_valid in Hv. rewrite Hc in Hv. cbn [orb] in Hv.
      apply andb_prop in Hv as [_ Hv]. apply andb_prop in Hv as [H1 H2]. split; [|exact H2].
      destruct (bcmp (e_trace e) [48%N]); try discriminate. reflexivity. }
    rewrite seq_ascending_tasc; [|exact Ht|apply Forall_forall; intros e He; now apply Hall]. cbn [andb].
    destruct (bypass o) eqn:Hb; [reflexivity|]. cbn [orb]. apply forallb_forall. intros e He.
    destruct (Hall e He) as [_ H]. exact H. }
  now rewrite Hver.
Qed.

Definition inputs_trace_valid (fs : list ifileo) : Prop :=
  forall f ib e, In f fs -> In ib (fo_batches f) -> In e (ib_entries (ibo_batch ib)) ->
    entry_trace_valid (ib_header (ibo_batch ib)) (batch_in_opts (fo_opts f) ib) e = true.

Lemma merge_o_tasc fs c g rb : In g (merge_files_o fs c) -> In rb (rfo_batches g) -> tasc (rbo_entries rb).
Proof.
  intros Hg Hrb. change (rbo_entries rb) with (rb_entries (erase_rb rb)).
  apply (merge_traces (map erase_ifile fs) c (erase_rf g)).
  - rewrite <- merge_o_erase. now apply in_map.
  - cbn [erase_rf rf_batches]. now apply in_map.
Qed.

(* inputs whose trace numbers are valid under the options they carry: Batch.Create on every
   output batch passes the trace-number rules and changes no entry *)
Lemma merge_o_created fs c g rb :
  inputs_trace_valid fs -> In g (merge_files_o fs c) -> In rb (rfo_batches g) ->
  rbo_created rb = Some (rbo_entries rb).
Proof.
  intros Hin Hg Hrb. unfold rbo_created. apply batch_create_valid; [eapply merge_o_tasc; eauto|].
  apply (merge_o_entries_transfer entry_trace_valid fs c g rb); auto.
  intros. eapply entry_trace_valid_mono; eauto.
Qed.

Lemma merge_o_created_ok fs c : inputs_trace_valid fs -> merge_created_ok (merge_files_o fs c) = true.
Proof.
  intros Hin. unfold merge_created_ok. apply forallb_forall. intros g Hg. apply forallb_forall. intros rb Hrb.
  now rewrite (merge_o_created fs c g rb Hin Hg Hrb).
Qed.

(* the special case asked for: CustomTraceNumbers stored on every input file *)
Definition inputs_numeric (fs : list ifileo) : Prop :=
  forall f ib e, In f fs -> In ib (fo_batches f) -> In e (ib_entries (ibo_batch ib)) ->
    trace_odfi e <> None /\ header_odfi (ib_header (ibo_batch ib)) <> None.

Lemma custom_inputs_valid fs :
  (forall f, In f fs -> custom (fo_opts f) = true) -> inputs_numeric fs -> inputs_trace_valid fs.
Proof.
  intros Hc Hn f ib e Hf Hib He. destruct (Hn f ib e Hf Hib He) as [H1 H2].
  assert (Hcu : custom (batch_in_opts (fo_opts f) ib) = true).
  { unfold custom, batch_in_opts. rewrite oflag_omerge. unfold custom in Hc. now rewrite (Hc f Hf). }
  unfold entry_trace_valid, entry_stays, keeps_traces. rewrite Hcu.
  destruct (trace_odfi e); [|congruence]. destruct (header_odfi (ib_header (ibo_batch ib))); [|congruence].
  rewrite !orb_true_r. reflexivity.
Qed.

Lemma merge_o_traces_custom fs c g rb :
  (forall f, In f fs -> custom (fo_opts f) = true) -> inputs_numeric fs ->
  In g (merge_files_o fs c) -> In rb (rfo_batches g) -> rbo_created rb = Some (rbo_entries rb).
Proof. intros Hc Hn. apply merge_o_created. now apply custom_inputs_valid. Qed.

(* ---------------------------------------------------------------- conservation of the created entries *)

Definition created_entries (rb : rbatcho) : list entry :=
  match rbo_created rb with Some es => es | None => [] end.
Definition ids_created (gs : list rfileo) : list ident :=
  flat_map (fun g => flat_map (fun rb => map (mkid (rfo_route g) (rbo_header rb)) (created_entries rb)) (rfo_batches g)) gs.

Lemma ids_out_erase gs : ids_out (map erase_rf gs) = flat_map (fun g => flat_map (fun rb => map (mkid (rfo_route g) (rbo_header rb)) (rbo_entries rb)) (rfo_batches g)) gs.
Proof.
  unfold ids_out. rewrite flat_map_concat_map, map_map, <- flat_map_concat_map.
  apply flat_map_ext. intros g. unfold ids_rfile, ids_rbatches. cbn [erase_rf rf_batches].
  rewrite flat_map_concat_map, map_map, <- flat_map_concat_map. reflexivity.
Qed.

Lemma flat_map_ext_in {A B} (f g : A -> list B) l : (forall x, In x l -> f x = g x) -> flat_map f l = flat_map g l.
Proof.
  induction l as [|x l IH]; intros H; cbn [flat_map]; [reflexivity|].
  rewrite H; [|now left]. rewrite IH; [reflexivity|]. intros y Hy. apply H. now right.
Qed.

Lemma merge_o_created_conservation fs c :
  inputs_trace_valid fs -> Permutation (ids_created (merge_files_o fs c)) (ids_in (map erase_ifile fs)).
Proof.
  intros Hin. assert (E : ids_created (merge_files_o fs c) = ids_out (map erase_rf (merge_files_o fs c))).
  { rewrite ids_out_erase. unfold ids_created. apply flat_map_ext_in. intros g Hg.
    apply flat_map_ext_in. intros rb Hrb. unfold created_entries.
    now rewrite (merge_o_created fs c g rb Hin Hg Hrb). }
  rewrite E, merge_o_erase. apply merge_conservation.
Qed.

(* conservation restated for inputs with options (identities as added to the output batches) *)
Lemma merge_o_conservation fs c :
  Permutation (ids_out (map erase_rf (merge_files_o fs c))) (ids_in (map erase_ifile fs)).
Proof. rewrite merge_o_erase. apply merge_conservation. Qed.

(* ================================================================ readings for single boolean fields *)

Lemma merge_o_file_flags fs c g i : In g (merge_files_o fs c) ->
  (oflag i (rfo_opts g) = true <->
   exists f, In f fs /\ fo_route f = rfo_route g /\ oflag i (fo_opts f) = true).
Proof.
  intros Hg. rewrite oflag_ohas, (merge_o_file_exact (p_flag i) fs c g (orhom_flag i) Hg).
  split; intros (f & H1 & H2 & H3); exists f; (split; [exact H1|split; [exact H2|]]).
  - now rewrite oflag_ohas.
  - now rewrite <- oflag_ohas.
Qed.

Lemma ohas_set_none o : ohas p_set o = false <-> o = None.
Proof. destruct o; cbn [ohas p_set]; split; intros H; try discriminate H; reflexivity. Qed.

(* the output file has no options (nil) exactly when no input file of its routing pair has *)
Lemma merge_o_file_nil fs c g : In g (merge_files_o fs c) ->
  (rfo_opts g = None <-> forall f, In f fs -> fo_route f = rfo_route g -> fo_opts f = None).
Proof.
  intros Hg. pose proof (merge_o_file_exact p_set fs c g orhom_set Hg) as H. split.
  - intros E f Hf Hr. apply ohas_set_none. destruct (ohas p_set (fo_opts f)) eqn:Hp; [|reflexivity].
    assert (X : ohas p_set (rfo_opts g) = true) by (apply H; now exists f). rewrite E in X. discriminate X.
  - intros Hall. apply ohas_set_none. destruct (ohas p_set (rfo_opts g)) eqn:Hp; [|reflexivity].
    exfalso. destruct H as [H _]. destruct (H eq_refl) as (f & Hf & Hr & Hq).
    rewrite (Hall f Hf Hr) in Hq. discriminate Hq.
Qed.

Lemma merge_o_file_flags_order fs fs' c c' g g' i :
  Permutation fs fs' -> In g (merge_files_o fs c) -> In g' (merge_files_o fs' c') ->
  rfo_route g = rfo_route g' ->
  oflag i (rfo_opts g) = oflag i (rfo_opts g') /\ (rfo_opts g = None <-> rfo_opts g' = None)
  /\ (ohas p_ctc (rfo_opts g) = ohas p_ctc (rfo_opts g')).
Proof.
  intros Hp Hg Hg' Hr. split; [|split].
  - rewrite !oflag_ohas. eapply merge_o_file_order_independent; eauto using orhom_flag.
  - rewrite <- !ohas_set_none.
    now rewrite (merge_o_file_order_independent p_set fs fs' c c' g g' orhom_set Hp Hg Hg' Hr).
  - eapply merge_o_file_order_independent; eauto using orhom_ctc.
Qed.

Lemma merge_o_batch_flag_source fs c g rb i :
  In g (merge_files_o fs c) -> In rb (rfo_batches g) -> oflag i (rbo_opts rb) = true ->
  exists f ib, In f fs /\ In ib (fo_batches f) /\ fo_route f = rfo_route g
               /\ hkey (ib_header (ibo_batch ib)) = hkey (rbo_header rb)
               /\ ib_entries (ibo_batch ib) <> []
               /\ oflag i (batch_in_opts (fo_opts f) ib) = true.
Proof.
  intros Hg Hrb Hf. rewrite oflag_ohas in Hf.
  destruct (merge_o_batch_no_invention (p_flag i) fs c g rb (orhom_flag i) Hg Hrb Hf)
    as (f & ib & H1 & H2 & H3 & H4 & H5 & H6).
  exists f, ib. rewrite oflag_ohas. repeat split; auto.
Qed.

Lemma merge_o_create_ok fs c :
  inputs_trace_valid fs ->
  merge_created_ok (merge_files_o fs c) = true
  /\ (forall g rb, In g (merge_files_o fs c) -> In rb (rfo_batches g) -> rbo_created rb = Some (rbo_entries rb))
  /\ Permutation (ids_created (merge_files_o fs c)) (ids_in (map erase_ifile fs)).
Proof.
  intros H. split; [now apply merge_o_created_ok|]. split; [|now apply merge_o_created_conservation].
  intros g rb. now apply merge_o_created.
Qed.

(* ================================================================ options of the out-batches when no trace numbers collide *)

(* no two input entries with the same routing pair, header key and trace number *)
Definition id3 (i : ident) : route_t * hkey_t * bytes :=
  match i with (r, k, e) => (r, k, e_trace e) end.
Definition no_collision (fs : list ifileo) : Prop := NoDup (map id3 (ids_in (map erase_ifile fs))).

Definition hk (b : obatch) : hkey_t := hkey (ob_header b).

Lemma NoDup_app_disjoint {A} (l1 l2 : list A) x : NoDup (l1 ++ l2) -> In x l1 -> In x l2 -> False.
Proof.
  induction l1 as [|a l1 IH]; cbn [app In]; intros Hnd H1 H2; [destruct H1|].
  inversion Hnd as [|? ? Hna Hnd']; subst. destruct H1 as [->|H1]; [apply Hna, in_or_app; now right|now apply IH].
Qed.

Lemma NoDup_app_l {A} (l1 l2 : list A) : NoDup (l1 ++ l2) -> NoDup l1.
Proof.
  induction l1 as [|a l1 IH]; cbn [app]; intros H; [constructor|].
  inversion H as [|? ? Hna Hnd]; subst. constructor; [|now apply IH].
  intros Hin. apply Hna, in_or_app. now left.
Qed.

Lemma NoDup_app_r {A} (l1 l2 : list A) : NoDup (l1 ++ l2) -> NoDup l2.
Proof.
  induction l1 as [|a l1 IH]; cbn [app]; intros H; [exact H|].
  inversion H; subst. now apply IH.
Qed.

Lemma NoDup_map_inj_in {A B} (f : A -> B) l x y : NoDup (map f l) -> In x l -> In y l -> f x = f y -> x = y.
Proof.
  induction l as [|a l IH]; cbn [map In]; intros Hnd Hx Hy E; [destruct Hx|].
  inversion Hnd as [|? ? Hna Hnd']; subst. destruct Hx as [->|Hx], Hy as [->|Hy].
  - reflexivity.
  - exfalso. apply Hna. rewrite E. now apply in_map.
  - exfalso. apply Hna. rewrite <- E. now apply in_map.
  - now apply IH.
Qed.

(* without collisions an out-file holds at most one batch per header key *)
Lemma batches_keys_nodup r bs :
  coll_ok bs -> batches_nonempty bs -> batches_wf bs ->
  NoDup (map id3 (ids_obatches r bs)) -> NoDup (map hk bs).
Proof.
  unfold coll_ok. intros Hc. induction Hc as [|a l Ha Hl IH]; intros Hne Hwf Hnd; cbn [map]; [constructor|].
  inversion Hne as [|? ? Hna Hnl]; subst. inversion Hwf as [|? ? Hwa Hwl]; subst.
  cbn [ids_obatches flat_map] in Hnd. fold (ids_obatches r l) in Hnd. rewrite map_app in Hnd.
  constructor.
  - intros Hin. apply in_map_iff in Hin as (b & Hkb & Hb).
    rewrite Forall_forall in Ha, Hnl, Hwl. specialize (Ha b Hb).
    assert (Hh : header_equal (ob_header a) (ob_header b) = true) by (apply header_equal_hkey; symmetry; exact Hkb).
    destruct (ob_entries b) as [|[k v] rest] eqn:Eb; [now apply (Hnl b Hb)|].
    assert (Hkb' : tm_contains k (ob_entries b) = true).
    { rewrite Eb. cbn [tm_contains]. now rewrite bcmp_refl. }
    pose proof (Ha Hh k Hkb') as Hka. apply tm_contains_in in Hka as (v' & Hv').
    destruct Hwa as [_ Hfa]. destruct (Hwl b Hb) as [_ Hfb]. rewrite Forall_forall in Hfa, Hfb.
    pose proof (Hfa _ Hv') as E1. cbn [fst snd] in E1.
    assert (Hvb : In (k, v) (ob_entries b)) by (rewrite Eb; now left).
    pose proof (Hfb _ Hvb) as E2. cbn [fst snd] in E2.
    apply (NoDup_app_disjoint _ _ (r, hk a, k) Hnd).
    + apply in_map_iff. exists (mkid r (ob_header a) v'). split; [unfold id3, mkid, hk; now rewrite <- E1|].
      unfold ids_obatch. apply in_map, in_map_iff. exists (k, v'). split; [reflexivity|exact Hv'].
    + apply in_map_iff. exists (mkid r (ob_header b) v). split.
      * unfold id3, mkid. rewrite <- E2. unfold hk in Hkb. now rewrite Hkb.
      * unfold ids_obatches. apply in_flat_map. exists b. split; [exact Hb|].
        unfold ids_obatch. apply in_map, in_map_iff. exists (k, v). split; [reflexivity|exact Hvb].
  - apply IH; auto. eapply NoDup_app_r. exact Hnd.
Qed.

Lemma state_keys_nodup st :
  Forall (fun o => batches_good (of_batches o)) st -> state_wf st ->
  NoDup (map id3 (ids_state st)) -> Forall (fun o => NoDup (map hk (of_batches o))) st.
Proof.
  induction st as [|o st IH]; intros Hg Hw Hnd; [constructor|].
  inversion Hg as [|? ? [Hc Hne] Hg']; subst. inversion Hw as [|? ? Hwo Hw']; subst.
  cbn [ids_state flat_map] in Hnd. fold (ids_state st) in Hnd. rewrite map_app in Hnd.
  constructor.
  - apply (batches_keys_nodup (of_route o)); auto. eapply NoDup_app_l. exact Hnd.
  - apply IH; auto. eapply NoDup_app_r. exact Hnd.
Qed.

Definition hko (b : obatcho) : hkey_t := hkey (obo_header b).

Lemma build_state_o_keys_nodup fs o :
  no_collision fs -> In o (build_state_o fs) -> NoDup (map hko (ofo_batches o)).
Proof.
  intros Hnc Ho.
  assert (Hnd : NoDup (map id3 (ids_state (build_state (map erase_ifile fs))))).
  { eapply Permutation_NoDup; [|exact Hnc]. apply Permutation_map, Permutation_sym, build_state_perm. }
  pose proof (state_keys_nodup _ (build_state_good _) (build_state_wf _) Hnd) as H.
  rewrite <- build_state_o_erase in H. rewrite Forall_forall in H.
  specialize (H (erase_of o) (in_map erase_of _ _ Ho)). cbn [erase_of of_batches] in H.
  rewrite map_map in H. exact H.
Qed.

Lemma no_collision_perm fs fs' : Permutation fs fs' -> no_collision fs -> no_collision fs'.
Proof.
  intros Hp H. unfold no_collision in *. eapply Permutation_NoDup; [|exact H].
  apply Permutation_map, ids_in_perm, Permutation_map, Hp.
Qed.

(* without collisions: a boolean field is set on an output batch exactly when it is set on a
   non-empty input batch (or its file) with the same routing pair and header key *)
Lemma merge_o_batch_exact fs c g rb i :
  no_collision fs -> In g (merge_files_o fs c) -> In rb (rfo_batches g) ->
  (oflag i (rbo_opts rb) = true <->
   exists f ib, In f fs /\ In ib (fo_batches f) /\ fo_route f = rfo_route g
                /\ hkey (ib_header (ibo_batch ib)) = hkey (rbo_header rb)
                /\ ib_entries (ibo_batch ib) <> []
                /\ oflag i (batch_in_opts (fo_opts f) ib) = true).
Proof.
  intros Hnc Hg Hrb. split; [now apply (merge_o_batch_flag_source fs c g rb i)|].
  intros (f & ib & Hf & Hib & Hr & Hk & Hne & Hpf).
  destruct (ib_entries (ibo_batch ib)) as [|e es] eqn:Ees; [contradiction|].
  assert (He : In e (ib_entries (ibo_batch ib))) by (rewrite Ees; now left).
  destruct (merge_o_entry_target fs c f ib e Hf Hib He) as (g' & rb' & Hg' & Hrb' & _ & Hr' & Hk' & Hsub).
  (* both output batches are cut from the same stored batch *)
  destruct (merge_o_file_from fs c g Hg) as (o & Ho & Hro & _ & Hbs).
  destruct (merge_o_file_from fs c g' Hg') as (o' & Ho' & Hro' & _ & Hbs').
  assert (Eo : o' = o).
  { destruct (build_state_o_finv p_set fs orhom_set) as [Hnd _].
    apply (NoDup_map_inj_in ofo_route (build_state_o fs)); auto. congruence. }
  subst o'. rewrite Forall_forall in Hbs, Hbs'.
  destruct (Hbs rb Hrb) as (b & Hb & Hhb & Hob). destruct (Hbs' rb' Hrb') as (b' & Hb' & Hhb' & Hob').
  assert (Eb : b' = b).
  { apply (NoDup_map_inj_in hko (ofo_batches o)); auto; [now apply (build_state_o_keys_nodup fs)|].
    unfold hko. rewrite <- Hhb, <- Hhb'. congruence. }
  subst b'. rewrite Hob, <- Hob'. exact (osub_oflag _ _ i Hsub Hpf).
Qed.

(* hence, without collisions, the boolean fields of the batch an entry ends up in do not depend
   on the order of the inputs (nor on the conditions) *)
Lemma merge_o_batch_flags_order fs fs' c c' g g' rb rb' i :
  no_collision fs -> Permutation fs fs' ->
  In g (merge_files_o fs c) -> In rb (rfo_batches g) ->
  In g' (merge_files_o fs' c') -> In rb' (rfo_batches g') ->
  rfo_route g = rfo_route g' -> hkey (rbo_header rb) = hkey (rbo_header rb') ->
  oflag i (rbo_opts rb) = oflag i (rbo_opts rb').
Proof.
  intros Hnc Hp Hg Hrb Hg' Hrb' Hr Hk.
  pose proof (merge_o_batch_exact fs c g rb i Hnc Hg Hrb) as H1.
  pose proof (merge_o_batch_exact fs' c' g' rb' i (no_collision_perm _ _ Hp Hnc) Hg' Hrb') as H2.
  assert (E : oflag i (rbo_opts rb) = true <-> oflag i (rbo_opts rb') = true).
  { rewrite H1, H2. split; intros (f & ib & Hf & Hib & Hrf & Hkf & Hne & Hfl); exists f, ib;
      (split; [|split; [exact Hib|split; [congruence|split; [congruence|split; [exact Hne|exact Hfl]]]]]).
    - eapply Permutation_in; eauto.
    - eapply Permutation_in; [apply Permutation_sym|]; eauto. }
  destruct (oflag i (rbo_opts rb)), (oflag i (rbo_opts rb')); try reflexivity.
  - symmetry. now apply E.
  - now apply E.
Qed.

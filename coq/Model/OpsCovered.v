(* C06 (phase 2) — which definition of the shape model accounts for which optional dereference of the
   source.  [ops_functions]: the Go functions TotalOps.v / TotalJson.v transcribe; any dereference of an
   optional pointer in one of them that is not under a nil test of its own must be listed in
   [ops_cover] with the number of places where it occurs (C06OpsObl.ops_sites_covered /
   ops_cover_exact evaluate this against the table regenerated from the source): a new dereference, a
   removed one, or a dereference moved to another function makes the obligation false.  The safety of
   each listed dereference is the theorem about the named definition (TotalOpsFacts.v, TotalJsonFacts.v)
   for well-formed shapes; on other shapes the model panics where the code does (correspondence c06ops). *)
From Coq Require Import String List.
Import ListNotations.
From ACH Require Import OpSiteTable.
Open Scope string_scope.

Definition ops_functions : list string := [
  "ach.Batch.Error";
  "ach.Batch.IsADV";
  "ach.Batch.ValidAmountForCodes";
  "ach.Batch.ValidTranCodeForServiceClassCode";
  "ach.Batch.addendaFieldInclusion";
  "ach.Batch.addendaFieldInclusionForward";
  "ach.Batch.addendaFieldInclusionNOC";
  "ach.Batch.addendaFieldInclusionReturn";
  "ach.Batch.build";
  "ach.Batch.isBatchAmount";
  "ach.Batch.isBatchEntryCount";
  "ach.Batch.isEntryHash";
  "ach.Batch.calculateEntryHash";
  "ach.Batch.isFieldInclusion";
  "ach.Batch.isOriginatorDNE";
  "ach.Batch.isTraceNumberODFI";
  "ach.Batch.isSequenceAscending";
  "ach.Batch.isAddendaSequence";
  "ach.Batch.isCategory";
  "ach.Batch.upsertOffsets";
  "ach.createOffsetEntryDetail";
  "ach.Batch.verify";
  "ach.Batch.Category";
  "ach.BatchACK.Validate";
  "ach.BatchACK.Create";
  "ach.BatchARC.Validate";
  "ach.BatchARC.Create";
  "ach.BatchATX.Validate";
  "ach.BatchATX.Create";
  "ach.BatchBOC.Validate";
  "ach.BatchBOC.Create";
  "ach.BatchCCD.Validate";
  "ach.BatchCCD.Create";
  "ach.BatchCIE.Validate";
  "ach.BatchCIE.Create";
  "ach.BatchCOR.Validate";
  "ach.BatchCOR.Create";
  "ach.BatchCTX.Validate";
  "ach.BatchCTX.Create";
  "ach.BatchDNE.Validate";
  "ach.BatchDNE.Create";
  "ach.BatchENR.Validate";
  "ach.BatchENR.Create";
  "ach.BatchMTE.Validate";
  "ach.BatchMTE.Create";
  "ach.BatchPOP.Validate";
  "ach.BatchPOP.Create";
  "ach.BatchPOS.Validate";
  "ach.BatchPOS.Create";
  "ach.BatchPPD.Validate";
  "ach.BatchPPD.Create";
  "ach.BatchRCK.Validate";
  "ach.BatchRCK.Create";
  "ach.BatchSHR.Validate";
  "ach.BatchSHR.Create";
  "ach.BatchTEL.Validate";
  "ach.BatchTEL.Create";
  "ach.BatchTRC.Validate";
  "ach.BatchTRC.Create";
  "ach.BatchTRX.Validate";
  "ach.BatchTRX.Create";
  "ach.BatchWEB.Validate";
  "ach.BatchWEB.Create";
  "ach.BatchXCK.Validate";
  "ach.BatchXCK.Create";
  "ach.BatchADV.Validate";
  "ach.BatchADV.Create";
  "ach.BatchCOR.isAddenda98";
  "ach.ConvertBatchType";
  "ach.NewBatch";
  "ach.File.Create";
  "ach.File.IsADV";
  "ach.File.ValidateWith";
  "ach.File.Validate";
  "ach.File.calculateEntryHash";
  "ach.File.isEntryHash";
  "ach.File.createFileADV";
  "ach.File.isEntryAddendaCount";
  "ach.File.isFileAmount";
  "ach.File.isSequenceAscending";
  "ach.File.overwriteDateTimeFields";
  "ach.File.setBatchesFromJSON";
  "ach.FileFromJSONWith";
  "ach.File.AddBatch";
  "ach.File.SegmentFile";
  "ach.File.segmentFileBatches";
  "ach.File.segmentFileIATBatches";
  "ach.segmentFileBatchAddEntry";
  "ach.segmentFileBatchAddADVEntry";
  "ach.File.Reversal";
  "ach.IATBatch.Error";
  "ach.IATBatch.Validate";
  "ach.IATBatch.Create";
  "ach.IATBatch.build";
  "ach.IATBatch.addendaFieldInclusion";
  "ach.IATBatch.isAddendaSequence";
  "ach.IATBatch.isBatchAmount";
  "ach.IATBatch.isBatchEntryCount";
  "ach.IATBatch.isEntryHash";
  "ach.IATBatch.isFieldInclusion";
  "ach.IATBatch.isTraceNumberODFI";
  "ach.IATBatch.isSequenceAscending";
  "ach.IATBatch.isCategory";
  "ach.IATBatch.verify";
  "ach.Writer.Write";
  "ach.Writer.writeBatch";
  "ach.Writer.writeIATBatch";
  "ach.Flatten";
  "ach.mergeableBatcher.AddToFile";
  "ach.mergeableBatcher.Consume";
  "ach.mergeableBatcher.Copy";
  "ach.mergeableBatcher.GetBatchNumber";
  "ach.mergeableBatcher.GetHeaderSignature";
  "ach.mergeableBatcher.GetTraceNumbers";
  "ach.mergeableIATBatch.AddToFile";
  "ach.mergeableIATBatch.Consume";
  "ach.mergeableIATBatch.Copy";
  "ach.mergeableIATBatch.GetBatchNumber";
  "ach.mergeableIATBatch.GetHeaderSignature";
  "ach.MergeFilesWith";
  "ach.outFile.add";
  "ach.convertToFiles";
  "server.createFileEndpoint";
  "server.segmentFileEndpoint";
  "server.segmentFileIDEndpoint";
  "server.flattenBatchesEndpoint";
  "server.decodeCreateBatchRequest";
  "server.service.CreateBatch";
  "server.service.CreateFile";
  "server.service.BalanceFile";
  "server.service.SegmentFile";
  "server.service.FlattenBatches";
  "server.repositoryInMemory.StoreBatch"
].

Definition ops_cover : list cover := [
  mkcover "ach.Batch.Error" "b.Header" 2 "berr";
  mkcover "ach.Batch.IsADV" "batch.GetHeader()" 1 "is_adv";
  mkcover "ach.Batch.ValidAmountForCodes" "batch.Header" 1 "valid_amount";
  mkcover "ach.Batch.ValidTranCodeForServiceClassCode" "batch.Header" 4 "valid_trancode";
  mkcover "ach.Batch.addendaFieldInclusionForward" "batch.Header" 2 "inclusion_forward";
  mkcover "ach.Batch.addendaFieldInclusionNOC" "batch.Header" 1 "inclusion_noc";
  mkcover "ach.Batch.addendaFieldInclusionReturn" "batch.Header" 1 "inclusion_return";
  mkcover "ach.Batch.build" "batch.Header" 12 "build";
  mkcover "ach.Batch.isBatchAmount" "batch.ADVControl" 4 "is_batch_amount";
  mkcover "ach.Batch.isBatchAmount" "batch.Control" 4 "is_batch_amount";
  mkcover "ach.Batch.isBatchEntryCount" "batch.ADVControl" 2 "is_batch_entry_count";
  mkcover "ach.Batch.isBatchEntryCount" "batch.Control" 2 "is_batch_entry_count";
  mkcover "ach.Batch.isEntryHash" "batch.ADVControl" 2 "is_entry_hash";
  mkcover "ach.Batch.isEntryHash" "batch.Control" 2 "is_entry_hash";
  mkcover "ach.Batch.isFieldInclusion" "batch.ADVControl" 1 "is_field_inclusion";
  mkcover "ach.Batch.isFieldInclusion" "batch.Control" 1 "is_field_inclusion";
  mkcover "ach.Batch.isFieldInclusion" "batch.Header" 1 "is_field_inclusion";
  mkcover "ach.Batch.isOriginatorDNE" "batch.Header" 3 "is_originator_dne";
  mkcover "ach.Batch.isTraceNumberODFI" "batch.Header" 1 "is_trace_number_odfi";
  mkcover "ach.Batch.upsertOffsets" "b.Control" 11 "upsert_offsets";
  mkcover "ach.Batch.upsertOffsets" "b.Header" 1 "upsert_offsets";
  mkcover "ach.createOffsetEntryDetail" "batch.offset" 4 "upsert_offsets";
  mkcover "ach.Batch.verify" "batch.ADVControl" 6 "verify";
  mkcover "ach.Batch.verify" "batch.Control" 8 "verify";
  mkcover "ach.Batch.verify" "batch.Header" 14 "verify";
  mkcover "ach.BatchACK.Validate" "batch.Header" 1 "validate_std";
  mkcover "ach.BatchARC.Validate" "batch.Header" 3 "validate_std";
  mkcover "ach.BatchATX.Validate" "batch.Header" 1 "validate_std";
  mkcover "ach.BatchBOC.Validate" "batch.Header" 3 "validate_std";
  mkcover "ach.BatchCCD.Validate" "batch.Header" 1 "validate_std";
  mkcover "ach.BatchCIE.Validate" "batch.Header" 3 "validate_std";
  mkcover "ach.BatchCOR.Validate" "batch.Control" 4 "validate_std";
  mkcover "ach.BatchCOR.Validate" "batch.Header" 1 "validate_std";
  mkcover "ach.BatchCTX.Validate" "batch.Header" 1 "validate_std";
  mkcover "ach.BatchDNE.Validate" "batch.Header" 1 "validate_std";
  mkcover "ach.BatchENR.Validate" "batch.Header" 3 "validate_std";
  mkcover "ach.BatchMTE.Validate" "batch.Header" 1 "validate_std";
  mkcover "ach.BatchMTE.Validate" "entry.Addenda02" 2 "validate_std";
  mkcover "ach.BatchPOP.Validate" "batch.Header" 3 "validate_std";
  mkcover "ach.BatchPOS.Validate" "batch.Header" 1 "validate_std";
  mkcover "ach.BatchPOS.Validate" "entry.Addenda02" 2 "validate_std";
  mkcover "ach.BatchPPD.Validate" "batch.Header" 1 "validate_std";
  mkcover "ach.BatchRCK.Validate" "batch.Header" 5 "validate_std";
  mkcover "ach.BatchSHR.Validate" "batch.Header" 3 "validate_std";
  mkcover "ach.BatchSHR.Validate" "entry.Addenda02" 2 "validate_std";
  mkcover "ach.BatchTEL.Validate" "batch.Header" 1 "validate_std";
  mkcover "ach.BatchTRC.Validate" "batch.Header" 3 "validate_std";
  mkcover "ach.BatchTRX.Validate" "batch.Header" 3 "validate_std";
  mkcover "ach.BatchWEB.Validate" "batch.Header" 1 "validate_std";
  mkcover "ach.BatchXCK.Validate" "batch.Header" 3 "validate_std";
  mkcover "ach.BatchADV.Validate" "batch.Header" 5 "validate_adv";
  mkcover "ach.ConvertBatchType" "b.Header" 1 "json_batches";
  mkcover "ach.File.Create" "batch.GetControl()" 5 "file_create";
  mkcover "ach.File.Create" "f.Batches[i].GetControl()" 1 "file_create";
  mkcover "ach.File.Create" "f.Batches[i].GetHeader()" 2 "file_create";
  mkcover "ach.File.Create" "f.IATBatches[i].GetControl()" 1 "file_create";
  mkcover "ach.File.Create" "f.IATBatches[i].GetHeader()" 2 "file_create";
  mkcover "ach.File.Create" "iatBatch.GetControl()" 5 "file_create";
  mkcover "ach.File.IsADV" "f.Batches[i].GetHeader()" 1 "file_is_adv";
  mkcover "ach.File.ValidateWith" "b.GetHeader()" 1 "file_validate";
  mkcover "ach.File.calculateEntryHash" "batch.GetADVControl()" 1 "file_entry_hash";
  mkcover "ach.File.calculateEntryHash" "batch.GetControl()" 1 "file_entry_hash";
  mkcover "ach.File.calculateEntryHash" "iatBatch.GetControl()" 1 "file_entry_hash";
  mkcover "ach.File.createFileADV" "batch.GetADVControl()" 5 "create_file_adv";
  mkcover "ach.File.createFileADV" "batch.GetHeader()" 1 "create_file_adv";
  mkcover "ach.File.createFileADV" "f.Batches[i].GetADVControl()" 1 "create_file_adv";
  mkcover "ach.File.createFileADV" "f.Batches[i].GetHeader()" 2 "create_file_adv";
  mkcover "ach.File.isEntryAddendaCount" "batch.GetADVControl()" 1 "is_entry_addenda_count";
  mkcover "ach.File.isEntryAddendaCount" "batch.GetControl()" 1 "is_entry_addenda_count";
  mkcover "ach.File.isEntryAddendaCount" "iatBatch.GetControl()" 1 "is_entry_addenda_count";
  mkcover "ach.File.isFileAmount" "batch.GetADVControl()" 2 "is_file_amount";
  mkcover "ach.File.isFileAmount" "batch.GetControl()" 2 "is_file_amount";
  mkcover "ach.File.isFileAmount" "iatBatch.GetControl()" 2 "is_file_amount";
  mkcover "ach.File.isSequenceAscending" "batch.GetHeader()" 1 "file_sequence_ascending";
  mkcover "ach.File.overwriteDateTimeFields" "f.IATBatches[i].Header" 2 "file_from_json";
  mkcover "ach.File.setBatchesFromJSON" "batch.GetHeader()" 1 "json_batches";
  mkcover "ach.File.setBatchesFromJSON" "batch.Header" 2 "json_batches";
  mkcover "ach.IATBatch.Error" "iatBatch.Header" 2 "iberr";
  mkcover "ach.IATBatch.Validate" "iatBatch.GetHeader()" 4 "iat_validate";
  mkcover "ach.IATBatch.Validate" "iatBatch.Header" 2 "iat_validate";
  mkcover "ach.IATBatch.build" "iatBatch.Header" 7 "iat_build";
  mkcover "ach.IATBatch.isAddendaSequence" "entry.Addenda10" 2 "iat_addenda_sequence_loop";
  mkcover "ach.IATBatch.isAddendaSequence" "entry.Addenda11" 2 "iat_addenda_sequence_loop";
  mkcover "ach.IATBatch.isAddendaSequence" "entry.Addenda12" 2 "iat_addenda_sequence_loop";
  mkcover "ach.IATBatch.isAddendaSequence" "entry.Addenda13" 2 "iat_addenda_sequence_loop";
  mkcover "ach.IATBatch.isAddendaSequence" "entry.Addenda14" 2 "iat_addenda_sequence_loop";
  mkcover "ach.IATBatch.isAddendaSequence" "entry.Addenda15" 2 "iat_addenda_sequence_loop";
  mkcover "ach.IATBatch.isAddendaSequence" "entry.Addenda16" 2 "iat_addenda_sequence_loop";
  mkcover "ach.IATBatch.isBatchAmount" "iatBatch.Control" 4 "iat_verify";
  mkcover "ach.IATBatch.isBatchEntryCount" "iatBatch.Control" 2 "iat_is_batch_entry_count";
  mkcover "ach.IATBatch.isEntryHash" "iatBatch.Control" 2 "iat_verify";
  mkcover "ach.IATBatch.isFieldInclusion" "iatBatch.Control" 1 "iat_is_field_inclusion";
  mkcover "ach.IATBatch.isFieldInclusion" "iatBatch.Header" 1 "iat_is_field_inclusion";
  mkcover "ach.IATBatch.isTraceNumberODFI" "iatBatch.Header" 2 "iat_verify";
  mkcover "ach.IATBatch.verify" "iatBatch.Control" 9 "iat_verify";
  mkcover "ach.IATBatch.verify" "iatBatch.Header" 6 "iat_verify";
  mkcover "ach.Writer.writeBatch" "batch.GetHeader()" 1 "write_batch";
  mkcover "ach.mergeableBatcher.AddToFile" "m.batcher.GetHeader()" 1 "add_flattened";
  mkcover "ach.mergeableBatcher.Consume" "batcherToConsume.GetHeader()" 2 "flatten_batches";
  mkcover "ach.mergeableBatcher.Consume" "m.batcher.GetHeader()" 2 "flatten_batches";
  mkcover "ach.mergeableBatcher.GetBatchNumber" "b.batcher.GetHeader()" 1 "add_flattened";
  mkcover "ach.mergeableBatcher.GetHeaderSignature" "b.batcher.GetHeader()" 1 "flatten_batches";
  mkcover "ach.mergeableIATBatch.AddToFile" "m.iatBatch.Header" 1 "add_flattened_iat";
  mkcover "ach.mergeableIATBatch.Consume" "batchToConsume.Header" 2 "flatten_iat";
  mkcover "ach.mergeableIATBatch.Consume" "m.iatBatch.Header" 2 "flatten_iat";
  mkcover "ach.mergeableIATBatch.GetBatchNumber" "b.iatBatch.Header" 1 "add_flattened_iat";
  mkcover "ach.mergeableIATBatch.GetHeaderSignature" "b.iatBatch.Header" 1 "flatten_iat";
  mkcover "server.createFileEndpoint" "req.File" 3 "handle (RCreateFile)";
  mkcover "server.service.CreateBatch" "batch.GetControl()" 2 "create_batch";
  mkcover "server.service.CreateBatch" "batch.GetHeader()" 4 "create_batch"
].


(* the Batcher implementations the generic validators [validate_std] / [validate_adv] stand for *)
Definition batcher_names : list string :=
  ["BatchACK"; "BatchADV"; "BatchARC"; "BatchATX"; "BatchBOC"; "BatchCCD"; "BatchCIE"; "BatchCOR"; "BatchCTX"; "BatchDNE"; "BatchENR";
   "BatchMTE"; "BatchPOP"; "BatchPOS"; "BatchPPD"; "BatchRCK"; "BatchSHR"; "BatchTEL"; "BatchTRC"; "BatchTRX"; "BatchWEB"; "BatchXCK"].

(* nil receivers the model relies on: the writer passes nil addenda to writeLine (String returns ""),
   IATBatch.isFieldInclusion calls Validate on nil Addenda10-16 *)
Definition nil_safe_needed : list string :=
  ["Addenda02.String"; "Addenda05.String"; "Addenda98.String"; "Addenda98Refused.String"; "Addenda99.String";
   "Addenda99Dishonored.String"; "Addenda99Contested.String";
   "Addenda10.String"; "Addenda11.String"; "Addenda12.String"; "Addenda13.String"; "Addenda14.String"; "Addenda15.String";
   "Addenda16.String"; "Addenda17.String"; "Addenda18.String";
   "Addenda10.Validate"; "Addenda11.Validate"; "Addenda12.Validate"; "Addenda13.Validate"; "Addenda14.Validate";
   "Addenda15.Validate"; "Addenda16.Validate"].

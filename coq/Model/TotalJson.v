(* C06 (phase 2) — shape model of what happens AFTER encoding/json decoded a document
   (FileFromJSONWith → setBatchesFromJSON → build → Create → Validate) and of the 18 routes of
   package server (decode → endpoint → encode) on "body lacks a key ⇒ nil" shapes.

   The decoded document is a shape of TotalOps.v in which ANY pointer may be nil and any array
   element null: `"batchHeader": null`, `"batchControl": null`, `"entryDetails": [null, …]`,
   `"addenda05": [null]`, `"batches": [null]`, `"IATBatchHeader": null`, … (Batch.UnmarshalJSON
   pre-populates Header / Control / ADVControl, a JSON null resets them).  The decoding itself is
   encoding/json's (contract).  Definitions only; proofs in TotalJsonFacts.v. *)
From Coq Require Import List Bool Arith.
Import ListNotations.
From ACH Require Import TotalOps.
Open Scope ops_scope.
Open Scope bool_scope.

(* withoutNil *)
Definition without_nil {A} (l : list (option A)) : list (option A) := filter present l.
Definition strip_a05 (e : entry) : entry :=
  mkentry (e_cat e) (e_code e) (e_a02 e) (e_a98 e) (e_a98r e) (e_a99 e) (e_a99d e) (e_a99c e) (filter (fun p => p) (e_a05 e)) (e_off e).
Definition clear_off (e : entry) : entry :=
  mkentry (e_cat e) (e_code e) (e_a02 e) (e_a98 e) (e_a98r e) (e_a99 e) (e_a99d e) (e_a99c e) (e_a05 e) false.
Definition strip_iat (e : iat_entry) : iat_entry :=
  mkie (ie_cat e) (ie_code e) (ie_a10 e) (ie_a11 e) (ie_a12 e) (ie_a13 e) (ie_a14 e) (ie_a15 e) (ie_a16 e)
       (ie_a98 e) (ie_a99 e) (filter (fun p => p) (ie_a17 e)) (filter (fun p => p) (ie_a18 e)).

(* ConvertBatchType: *Batch<SEC> for the 22 codes it lists, the plain *Batch otherwise *)
Definition kind_of_sec (s : sec) : kind := if sec_valid s then KSec s else KBase.

(* setBatchesFromJSON, standard batches: nil batches and batches without header are skipped; nil
   entries and nil Addenda05 are dropped; setEntryRecordType / setADVEntryRecordType test every pointer;
   the CTX / ATX accessors are total (theorems C06_catx_…); build() — an error is returned (nil file) *)
Fixpoint json_batches (l : list (option batch)) (acc : list (option batch)) : R (list (option batch)) :=
  match l with
  | [] => ret acc
  | None :: t => json_batches t acc
  | Some b :: t =>
      match b_header b with
      | None => json_batches t acc
      | Some h =>
          (* ATX / CTX: the JSON carries no separate receiving company; an IndividualName whose first four
             characters are not an addenda count is rewritten with SetCATXReceivingCompany — the name "OFFSET"
             always is, so the entry no longer reads as an offset entry *)
          let catx := sec_eqb (h_sec h) ATX || sec_eqb (h_sec h) CTX in
          let es := map (option_map (fun e => if catx then clear_off (strip_a05 e) else strip_a05 e)) (without_nil (b_entries b)) in
          let b1 := set_adventries (without_nil (b_adventries b)) (set_entries es b) in
          r <- local b1 build ;;
          let b2 := snd r in
          let k := match b_header b2 with Some h => kind_of_sec (h_sec h) | None => KBase end in
          json_batches t (acc ++ [Some (set_kind k b2)])
      end
  end.

Fixpoint json_iat (l : list iat_batch) (acc : list iat_batch) : R (list iat_batch) :=
  match l with
  | [] => ret acc
  | b :: t =>
      match ib_header b with
      | None => json_iat t acc
      | Some _ =>
          let es := map (option_map strip_iat) (without_nil (ib_entries b)) in
          r <- local (set_ib_entries es b) iat_build ;;
          json_iat t (acc ++ [snd r])
      end
  end.

(* FileFromJSONWith after the struct decoding.  ERR: (nil, err); OK (f, ok): the file is returned,
   with an error of Create / Validate / control decoding when ok = false *)
Definition file_from_json (j : file) : R (file * bool) :=
  bs <- json_batches (f_batches j) [] ;;
  is <- json_iat (f_iat j) [] ;;
  let f := mkfile bs is in
  (* overwriteDateTimeFields: header := f.Batches[i].GetHeader(); header.…  /  f.IATBatches[i].Header.… *)
  for_batches f (fun b => _ <- header_of b ;; ret tt) ;;
  for_iat f (fun b => _ <- ih_of b ;; ret tt) ;;
  r <- local_try f (_ <- file_is_adv ;; check ;; _ <- file_is_adv ;; file_create ;; file_validate) ;;
  ret (snd r, fst r).

(* ------------------------------------------------------------------ *)
(* package server.  The repository maps file IDs (abstract: numbers) to files; handlers work on
   the stored pointer, so what they mutate stays mutated. *)

Definition repo := list (nat * file).

Fixpoint find_file (id : nat) (r : repo) : option file :=
  match r with [] => None | (k, f) :: t => if Nat.eqb k id then Some f else find_file id t end.
Fixpoint replace_file (id : nat) (f : file) (r : repo) : repo :=
  match r with [] => [] | (k, g) :: t => if Nat.eqb k id then (k, f) :: t else (k, g) :: replace_file id f t end.
Definition store_file (id : nat) (f : file) (r : repo) : repo :=
  match find_file id r with Some _ => r | None => r ++ [(id, f)] end.      (* ErrAlreadyExists *)
Fixpoint delete_file (id : nat) (r : repo) : repo :=
  match r with [] => [] | (k, g) :: t => if Nat.eqb k id then delete_file id t else (k, g) :: delete_file id t end.

(* run [m] on the stored file; ErrNotFound when there is none *)
Definition on_file {A} (id : nat) (m : M file A) : M repo A :=
  fun r o => match find_file id r with
             | None => ERR r o
             | Some f => match m f o with
                         | OK a f' o' => OK a (replace_file id f' r) o'
                         | ERR f' o' => ERR (replace_file id f' r) o'
                         | PANIC => PANIC
                         end
             end.

(* request bodies: what the decoders hand to the endpoints *)
Inductive body :=
| BJson (doc : file)            (* application/json: the decoded document (any pointer nil, any element null) *)
| BText (parsed : file)         (* NACHA text: what ach.Reader returned (with or without error) *)
| BNoFile.                      (* JSON body without the key / unreadable body *)

(* the 18 routes *)
Inductive route :=
| RPreflight | RPing | RGetFiles
| RCreateFile (id : nat) (b : body)
| RGetFile (id : nat) | RBuild (id : nat) | RContents (id : nat)
| RValidateGet (id : nat) | RValidatePost (id : nat) | RDeleteFile (id : nat)
| RCreateBatch (id : nat) (doc : file)
| RGetBatches (id : nat) | RGetBatch (id : nat) (batch : nat) | RDeleteBatch (id : nat) (batch : nat)
| RBalance (id : nat) (offset_ok : bool) (new_id : nat)
| RSegmentID (id credit_id debit_id : nat)
| RSegment (b : body) (credit_id debit_id : nat)
| RFlatten (id new_id : nat).

(* every response is encoded by encoding/json (contract): nil pointers and nil interfaces become null *)
Definition encode {S} : M S unit := check.

(* `for _, val := range file.Batches { val.ID() }` *)
Definition batch_ids (f : file) : R unit := all_some (f_batches f).

(* service.CreateBatch + repository.StoreBatch *)
Definition create_batch (ob : option batch) : M file unit :=
  match ob with
  | None => fail                                                (* "no batch provided" *)
  | Some b =>
      ro (_ <- header_of b ;; need_control b) ;;                (* batch.GetHeader().ID, batch.GetControl().ID = … *)
      f <- get ;;
      ro (batch_ids f) ;;
      dup <- flip ;;                                            (* true: no batch with that ID yet *)
      if dup then (f' <- ro (add_batch (Some b) f) ;; put f') else fail
  end.

(* service.BalanceFile *)
Definition balance_file : M file unit :=
  file_create ;;
  each_batch (modify (set_offset true) ;; batch_create) ;;
  file_create.

(* `if creditFile.ID != "" { r.StoreFile(creditFile) }`: SegmentFile gives a file an ID only when it received batches *)
Definition store_segmented (id : nat) (f : file) : M repo unit :=
  if nonempty_file f then modify (store_file id f) else ret tt.

Definition handle (x : route) : M repo unit :=
  match x with
  | RPreflight | RPing => ret tt
  | RGetFiles => encode
  | RCreateFile id b =>
      (* decodeCreateFileRequest: req.File starts as NewFile(); replaced when the parser returned a file *)
      f <- (match b with
            | BJson doc =>
                fun r o => match file_from_json doc tt o with
                           | OK (f, _) _ o' => OK f r o'
                           | ERR _ o' => OK new_file r o'
                           | PANIC => PANIC
                           end
            | BText f => ret f
            | BNoFile => ret new_file
            end) ;;
      modify (store_file id f) ;; encode
  | RGetFile id => (fun r o => match on_file id (ret tt) r o with ERR r' o' => OK tt r' o' | x => x end) ;; encode
  | RBuild id => try (on_file id file_create) ;; encode
  | RContents id => try (on_file id (file_create ;; file_write false)) ;; encode
  | RValidateGet id | RValidatePost id => try (on_file id file_validate) ;; encode
  | RDeleteFile id => modify (delete_file id) ;; encode
  | RCreateBatch id doc =>
      (* decodeCreateBatchRequest: FileFromJSON of the shim document; exactly one batch; batch.Validate() *)
      fun r o => match file_from_json doc tt o with
                 | OK (f, true) _ o' =>
                     match f_batches f with
                     | [ob] =>
                         (match ob with
                          | Some b => ro (batch_validate b)
                          | None => fail
                          end ;;
                          try (on_file id (create_batch ob)) ;; encode) r o'
                     | _ => OK tt r o'
                     end
                 | OK (_, false) _ o' | ERR _ o' => OK tt r o'
                 | PANIC => PANIC
                 end
  | RGetBatches id => try (on_file id (f <- get ;; ro (ret tt))) ;; encode
  | RGetBatch id _ | RDeleteBatch id _ => try (on_file id (f <- get ;; ro (batch_ids f))) ;; encode
  | RBalance id ok nid =>
      (* service.BalanceFile gives the balanced file a new ID and stores it again: the repository then holds the
         same pointer under two IDs (here: a copy; what sharing means for later requests is property C17) *)
      if ok then
        r <- (fun r o => match on_file id (balance_file ;; get) r o with
                         | OK g r' o' => OK (Some g) r' o'
                         | ERR r' o' => OK None r' o'
                         | PANIC => PANIC
                         end) ;;
        (match r with Some g => modify (store_file nid g) | None => ret tt end) ;; encode
      else encode
  | RSegmentID id cid did =>
      r <- (fun r o => match on_file id (file_create ;; file_segment) r o with
                       | OK cd r' o' => OK (Some cd) r' o'
                       | ERR r' o' => OK None r' o'
                       | PANIC => PANIC
                       end) ;;
      (match r with
       | Some (c, d) => store_segmented cid c ;; store_segmented did d
       | None => ret tt
       end) ;; encode
  | RSegment b cid did =>
      (* decodeSegmentFileRequest: the file stays nil when the body has no "file" key; service.SegmentFile tests it *)
      fo <- (match b with
             | BJson doc =>
                 fun r o => match file_from_json doc tt o with
                            | OK (f, true) _ o' => OK (Some f) r o'
                            | OK (_, false) _ o' | ERR _ o' => ERR r o'
                            | PANIC => PANIC
                            end
             | BText f => ret (Some f)
             | BNoFile => ret None
             end) ;;
      match fo with
      | None => encode
      | Some f =>
          r <- (fun r o => match (file_create ;; file_segment) f o with
                           | OK cd _ o' => OK (Some cd) r o'
                           | ERR _ o' => OK None r o'
                           | PANIC => PANIC
                           end) ;;
          (match r with
           | Some (c, d) => store_segmented cid c ;; store_segmented did d
           | None => ret tt
           end) ;; encode
      end
  | RFlatten id nid =>
      r <- (fun r o => match on_file id (file_create ;; f <- get ;; ro (file_flatten f)) r o with
                       | OK g r' o' => OK (Some g) r' o'
                       | ERR r' o' => OK None r' o'
                       | PANIC => PANIC
                       end) ;;
      (match r with Some g => modify (store_file nid g) | None => ret tt end) ;; encode
  end.

(* a request list: an error response does not stop the server *)
Fixpoint serve (xs : list route) : M repo unit :=
  match xs with [] => ret tt | x :: t => try (handle x) ;; serve t end.

(* what the hypotheses of the handler theorem exclude *)
(* under [strict] a JSON document may only use SEC codes NewBatch accepts *)
Definition doc_ok (strict : bool) (j : file) : bool := negb strict || secs_valid j.
Definition body_ok (strict : bool) (b : body) : bool :=
  match b with BText f => wf_file_s strict f | BJson j => doc_ok strict j | BNoFile => true end.
Definition route_ok (strict : bool) (x : route) : bool :=
  match x with
  | RCreateFile _ b | RSegment b _ _ => body_ok strict b
  | RCreateBatch _ j => doc_ok strict j
  | RFlatten _ _ => strict
  | _ => true
  end.
Definition has_flatten (x : route) : bool := match x with RFlatten _ _ => true | _ => false end.

(* Phase 2, C12: abstraction from the Flatten model to the skeleton of the validator model
   Arith.  Definitions only.

   A Flatten batch is (kind, header signature, number, entries); an entry is (trace string,
   opaque identity [e_core], amount, debit flag, addenda count, category).  What Arith needs
   beyond that is a function of what the model treats as opaque: [hp] of the header signature
   (service class, ODFI — both lie inside the 87 signature columns) and [fp] of the entry
   identity (transaction code, routing number, check digit).  Flatten moves whole entry records
   under unchanged signatures (C12_conservation), so payloads are preserved by construction.

   The consolidated batch is handed to Batch.Create by AddToFile: its control is the
   tabulation ([ValidOut.tabulate], tied to Batch.build by C05Valid), then File.Create. *)
From ACH Require Import ValidOut.
From Coq Require Import Permutation Sorted.
From ACH Require Import Bytes Flatten.
Open Scope Z_scope.

Module AR := ACH.Model.Arith.
Module VO := ACH.Model.ValidOut.

Record hpay := mkhpay { hp_class : Z; hp_odfi : bytes }.
Record fpay := mkfpay { fp_code : Z; fp_rdfi : bytes; fp_check : bytes }.

Section Abs.
Variables (A : AR.tables) (hp : bytes -> hpay) (fp : bytes -> fpay).

Definition f_entry (e : entry) : AR.entry :=
  let p := fp (e_core e) in
  AR.mkentry (fp_code p) (e_amount e) (fp_rdfi p) (fp_check p) (e_trace e) (Z.of_N (e_addenda e)).

Definition f_batch (b : batch) : AR.batch :=
  VO.tabulate A AR.KStd (hp_class (hp (b_sig b))) (hp_odfi (hp (b_sig b))) (b_num b) (map f_entry (b_entries b)).

(* the new file: File.Create over the consolidated batches (all standard) *)
Definition f_file (bs : list batch) : AR.file := VO.create_file A (map f_batch bs) [].

(* what validity of a batch says about each (signature, entry) pair — the form in which
   C12_pairs_transported transports it to the result *)
Definition pair_ok (p : bytes * entry) : Prop :=
  let s := fst p in let e := snd p in
  class_okb A (hp_class (hp s)) = true /\
  bytes_eqb (hp_odfi (hp s)) (repeat zero 9) = false /\
  entry_static A (f_entry e) = true /\
  class_dir_ok A (hp_class (hp s)) (f_entry e) = true /\
  AR.bytes_leb (e_trace e) [48%N] = false /\
  AR.trace_prefix AR.KStd (f_entry e) = stringField (hp_odfi (hp s)) 8.

End Abs.

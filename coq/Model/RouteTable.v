(* C17 — the route table of server.MakeHTTPHandler as the translator regenerates it, the
   routes the model's requests stand for, and the checker that ties them. *)
From Coq Require Import String List NArith Bool.
From ACH Require Import Server.
Import ListNotations.
Open Scope string_scope.

Inductive route := Route (method path endpoint decoder encoder : string).

Definition route_eqb (a b : route) : bool :=
  match a, b with
  | Route m p e d c, Route m' p' e' d' c' =>
      String.eqb m m' && String.eqb p p' && String.eqb e e' && String.eqb d d' && String.eqb c c'
  end.

Definition r_key (a : route) : string * string := match a with Route m p _ _ _ => (m, p) end.

(* one entry per request constructor of Server.v (RValidate has two) *)
Definition expected_routes : list route :=
  [ Route "POST" "/files/{fileID}" "createFileEndpoint" "decodeCreateFileRequest" "encodeResponse";          (* RCreate (also /files/create) *)
    Route "GET" "/files/{id}" "getFileEndpoint" "decodeGetFileRequest" "encodeResponse";                       (* RGet *)
    Route "GET" "/files" "getFilesEndpoint" "decodeGetFilesRequest" "encodeResponse";                          (* RList *)
    Route "GET" "/files/{id}/contents" "getFileContentsEndpoint" "decodeGetFileContentsRequest" "encodeTextResponse"; (* RContents *)
    Route "GET" "/files/{id}/validate" "validateFileEndpoint" "decodeValidateFileRequest" "encodeResponse";    (* RValidate *)
    Route "POST" "/files/{id}/validate" "validateFileEndpoint" "decodeValidateFileRequest" "encodeResponse";
    Route "GET" "/files/{id}/build" "buildFileEndpoint" "decodeBuildFileRequest" "encodeResponse";             (* RBuild *)
    Route "DELETE" "/files/{id}" "deleteFileEndpoint" "decodeDeleteFileRequest" "encodeResponse";              (* RDelete *)
    Route "POST" "/files/{fileID}/batches" "createBatchEndpoint" "decodeCreateBatchRequest" "encodeResponse";  (* RAddBatch *)
    Route "GET" "/files/{fileID}/batches/{batchID}" "getBatchEndpoint" "decodeGetBatchRequest" "encodeResponse"; (* RGetBatch *)
    Route "GET" "/files/{fileID}/batches" "getBatchesEndpoint" "decodeGetBatchesRequest" "encodeResponse";     (* RListBatches *)
    Route "DELETE" "/files/{fileID}/batches/{batchID}" "deleteBatchEndpoint" "decodeDeleteBatchRequest" "encodeResponse"; (* RDeleteBatch *)
    Route "POST" "/files/{fileID}/flatten" "flattenBatchesEndpoint" "decodeFlattenBatchesRequest" "encodeResponse"; (* RFlatten *)
    Route "POST" "/files/{fileID}/segment" "segmentFileIDEndpoint" "decodeSegmentFileIDRequest" "encodeResponse"; (* RSegment *)
    Route "POST" "/segment" "segmentFileEndpoint" "decodeSegmentFileRequest" "encodeResponse";                 (* RSegmentBody *)
    Route "POST" "/files/{fileID}/balance" "balanceFileEndpoint" "decodeBalanceFileRequest" "encodeResponse"   (* RBalance *)
  ].

Definition key_eqb (a b : string * string) : bool := String.eqb (fst a) (fst b) && String.eqb (snd a) (snd b).

(* every modelled route is registered exactly so, and no (method, path) of a modelled route
   is registered twice (gorilla/mux serves the first match) *)
Definition routes_check (t : list route) : bool :=
  forallb (fun r => existsb (route_eqb r) t) expected_routes &&
  forallb (fun r => Nat.eqb (List.length (filter (fun x => key_eqb (r_key x) (r_key r)) t)) 1) expected_routes.

Lemma route_eqb_eq a b : route_eqb a b = true -> a = b.
Proof.
  destruct a, b; simpl; intro H.
  repeat (apply andb_true_iff in H; destruct H as [H ?]).
  repeat match goal with X : String.eqb _ _ = true |- _ => apply String.eqb_eq in X end.
  now subst.
Qed.

Lemma routes_sound t : routes_check t = true -> forall r, In r expected_routes -> In r t.
Proof.
  unfold routes_check. intros H r Hr. apply andb_true_iff in H. destruct H as [H _].
  rewrite forallb_forall in H. specialize (H r Hr). apply existsb_exists in H.
  destruct H as [x [Hx E]]. apply route_eqb_eq in E. now subst.
Qed.

(* status constants of the model against codeFrom / encodeTextResponse *)
Fixpoint slookup (k : string) (t : list (string * N)) : option N :=
  match t with
  | [] => None
  | (a, v) :: r => if String.eqb a k then Some v else slookup k r
  end.

Definition opt_is (o : option N) (v : N) : bool := match o with Some x => N.eqb x v | None => false end.

Definition status_check (t : list (string * N)) : bool :=
  opt_is (slookup "ErrNotFound" t) nf_notfound &&
  opt_is (slookup "ErrNotFound" t) nf_get &&
  opt_is (slookup "ErrAlreadyExists" t) 400 &&
  opt_is (slookup "default" t) nf_build &&
  opt_is (slookup "default" t) nf_contents &&
  opt_is (slookup "default" t) nf_delbatch &&
  opt_is (slookup "text-fallback" t) 1 &&
  negb (existsb (fun kv => String.eqb (fst kv) "?") t).

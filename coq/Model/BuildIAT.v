(* Model of IATBatch.build (iatBatch.go).  Definitions only.

   What is kept of an IATEntryDetail is exactly what build reads or writes:
   transaction code, amount, trace number (the integer its digits denote, 0 for the
   empty string; [ie_tr_num] = strconv.Atoi(TraceNumberField()[:8]) succeeds),
   Atoi(aba8(RDFIIdentification)) (entry hash term), the seven optional pointers
   Addenda10 .. Addenda16 (nil, or the record with its EntryDetailSequenceNumber), the
   slices Addenda17 / Addenda18 (SequenceNumber, EntryDetailSequenceNumber per record),
   and whether Addenda98 / Addenda99 are set.

   The data of the tabulation code (code lists of IATBatch.calculateBatchAmounts and
   Batch.calculateADVBatchAmounts, the constants of IATBatch.build, the ADV branch of
   Batch.build, File.Create and createFileADV) is the table [ttable] which the translator
   regenerates from the source on every run (coq/Gen/TabulateTable.v, translator/tabulate.go).
   The code lists and the hash truncation of the two file controls are parameters of the
   model; the other constants are written into the model as literals and compared with the
   regenerated ones by [consts_ok] (reflection obligation in C05IatObl). *)
From ACH Require Export Offsets.
Open Scope Z_scope.

(* ------------------------------------------------------------------ table *)

(* constants of one file-level tabulation function (File.Create non-ADV branch / createFileADV) *)
Record fconsts := mkfconsts {
  k_rec_init : Z;             (* totalRecordsInFile := 2 *)
  k_seq_init : Z;             (* batchSeq := 1 *)
  k_thresh : list Z;          (* N of every  …GetHeader().BatchNumber <= N  *)
  k_overhead : list Z;        (* N of every  totalRecordsInFile = totalRecordsInFile + N + ….EntryAddendaCount *)
  k_block : list Z;           (* N of  (totalRecordsInFile % N) != 0,  totalRecordsInFile/N + 1,  totalRecordsInFile / N *)
  k_hash_digits : option Z;   (* fc.EntryHash = leastSignificantDigits(fileEntryHashSum, N); None: the sum is stored as it is *)
  k_count_sub : Z }.          (* fc.BatchCount = batchSeq - N *)

Record ttable := mkttable {
  tt_iat_credit : list Z; tt_iat_debit : list Z;   (* IATBatch.calculateBatchAmounts: first / second case of the switch *)
  tt_adv_credit : list Z; tt_adv_debit : list Z;   (* Batch.calculateADVBatchAmounts: first / second if *)
  tt_iat_hash_digits : Z;     (* IATBatch.calculateEntryHash: leastSignificantDigits(hash, N) *)
  tt_std_hash_digits : Z;     (* Batch.calculateEntryHash (both branches share the return) *)
  tt_iat_seq_init : Z; tt_a17_init : Z; tt_a18_init : Z;   (* IATBatch.build: seq := 1, addenda17Seq := 1, addenda18Seq := 1 *)
  tt_std_seq_init : Z;        (* Batch.build: seq := 1 *)
  tt_adv_seq_max : Z;         (* Batch.build, ADV branch: if seq > 9999 *)
  tt_create : fconsts;        (* File.Create, non-ADV branch *)
  tt_create_adv : fconsts;    (* createFileADV *)
  tt_adv_iat_guard : bool;    (* createFileADV starts with  if len(f.IATBatches) > 0 { return ErrFileADVOnly } *)
  tt_unknown : bool }.        (* a fragment the model relies on was not found in the source *)

(* ------------------------------------------------------------------ data *)

Fixpoint zsum {A} (f : A -> Z) (l : list A) : Z :=
  match l with [] => 0 | x :: r => f x + zsum f r end.

Definition b2z (b : bool) : Z := if b then 1 else 0.
Definition zlen {A} (l : list A) : Z := Z.of_nat (length l).
Definition is_some {A} (o : option A) : bool := match o with Some _ => true | None => false end.

Record ientry := mkie {
  ie_code : Z; ie_amount : Z;
  ie_tr_num : bool;               (* Atoi(TraceNumberField()[:8]) returns no error *)
  ie_trace : Z;
  ie_rdfi : Z;
  ie_mand : list (option Z);      (* Addenda10, 11, …, 16 in this order: nil | EntryDetailSequenceNumber *)
  ie_a17 : list (Z * Z);          (* (SequenceNumber, EntryDetailSequenceNumber) *)
  ie_a18 : list (Z * Z);
  ie_a98 : bool; ie_a99 : bool }.

(* validateOpts of a batch as far as build looks at it: nil | (BypassOriginValidation, CustomTraceNumbers) *)
Definition bopts := option (bool * bool).

Record ibatch := mkib {
  ib_hdr_ok : bool;               (* Header.Validate() == nil *)
  ib_odfi_num : bool;             (* Atoi(Header.ODFIIdentificationField()[:8]) returns no error *)
  ib_odfi : Z;
  ib_svc : Z; ib_num : Z;
  ib_entries : list ientry;
  ib_ctl : control;
  ib_opts : bopts }.

(* parseNumField(TraceNumberField()[8:]); stringField keeps the first 15 runes of a longer string *)
Definition trace_seq (t : Z) : Z := if t <? P15 then t mod P7 else (t / 10) mod P7.

Definition should_set (o : bopts) : bool :=
  match o with None => true | Some (bypass, custom) => negb bypass && negb custom end.

(* addendaFieldInclusion: a correction (Addenda98 set) needs nothing, else Addenda10..16 must all be there *)
Definition incl_ok (e : ientry) : bool := ie_a98 e || forallb is_some (ie_mand e).

Definition set_itrace (e : ientry) (t : Z) : ientry :=
  mkie (ie_code e) (ie_amount e) (ie_tr_num e) t (ie_rdfi e) (ie_mand e) (ie_a17 e) (ie_a18 e) (ie_a98 e) (ie_a99 e).

(* for _, a := range entry.Addenda17 { a.SequenceNumber = s; a.EntryDetailSequenceNumber = d; s++ } *)
Fixpoint renum (s d : Z) (l : list (Z * Z)) : list (Z * Z) :=
  match l with [] => [] | _ :: r => (s, d) :: renum (s + 1) d r end.

Definition set_seqs (e : ientry) (d : Z) : ientry :=
  mkie (ie_code e) (ie_amount e) (ie_tr_num e) (ie_trace e) (ie_rdfi e)
       (map (option_map (fun _ => d)) (ie_mand e)) (renum 1 d (ie_a17 e)) (renum 1 d (ie_a18 e)) (ie_a98 e) (ie_a99 e).

(* body of the loop of build for one entry that passed the three error returns *)
Definition iat_entry_step (odfi : Z) (o : bopts) (seq : Z) (e : ientry) : ientry :=
  let e1 := if trace_odfi (ie_trace e) =? odfi then e
            else if should_set o then set_itrace e (odfi * P7 + seq mod P7) else e in
  set_seqs e1 (trace_seq (ie_trace e1)).

(* for i, entry := range iatBatch.Entries { … }: an error return leaves the entries in front of
   the failing one modified *)
Fixpoint iat_loop (odfi_num : bool) (odfi : Z) (o : bopts) (seq : Z) (es : list ientry) : bool * list ientry :=
  match es with
  | [] => (true, [])
  | e :: r =>
    if negb (incl_ok e) then (false, es)
    else if negb (ie_tr_num e) then (false, es)
    else if negb odfi_num then (false, es)
    else let (ok, r') := iat_loop odfi_num odfi o (seq + 1) r in
         (ok, iat_entry_step odfi o seq e :: r')
  end.

(* IATBatch.calculateBatchAmounts (a Go switch takes the first matching case) *)
Definition icr_amt (T : ttable) (e : ientry) : Z := if mem (ie_code e) (tt_iat_credit T) then ie_amount e else 0.
Definition idb_amt (T : ttable) (e : ientry) : Z :=
  if mem (ie_code e) (tt_iat_credit T) then 0 else if mem (ie_code e) (tt_iat_debit T) then ie_amount e else 0.
Definition icredits T es := zsum (icr_amt T) es.
Definition idebits T es := zsum (idb_amt T) es.

(* isBatchEntryCount *)
Definition icount_one (e : ientry) : Z :=
  1 + zlen (filter is_some (ie_mand e)) + (zlen (ie_a17 e) + zlen (ie_a18 e)) + b2z (ie_a98 e) + b2z (ie_a99 e).
Definition icount (es : list ientry) : Z := zsum icount_one es.

(* IATBatch.calculateEntryHash *)
Definition ihash (es : list ientry) : Z := Z.rem (zsum ie_rdfi es) P10.

Definition ib_with (b : ibatch) (es : list ientry) (c : control) : ibatch :=
  mkib (ib_hdr_ok b) (ib_odfi_num b) (ib_odfi b) (ib_svc b) (ib_num b) es c (ib_opts b).

Definition ictl_of (T : ttable) (b : ibatch) (es : list ientry) : control :=
  mkctl (ib_svc b) (ib_num b) (icount es) (ihash es) (icredits T es) (idebits T es).

(* IATBatch.build: (err == nil, state left) *)
Definition iat_build (T : ttable) (b : ibatch) : bool * ibatch :=
  if negb (ib_hdr_ok b) then (false, b)
  else match ib_entries b with
       | [] => (false, b)
       | _ =>
         let (ok, es) := iat_loop (ib_odfi_num b) (ib_odfi b) (ib_opts b) 1 (ib_entries b) in
         if ok then (true, ib_with b es (ictl_of T b es)) else (false, ib_with b es (ib_ctl b))
       end.

(* ------------------------------------------------------------------ checkers *)

Definition zlist_eqb (a b : list Z) : bool :=
  (length a =? length b)%nat && forallb (fun p => fst p =? snd p) (combine a b).

Definition fconsts_ok (k : fconsts) (nthresh noverhead : nat) : bool :=
  (k_rec_init k =? 2) && (k_seq_init k =? 1)
  && zlist_eqb (k_thresh k) (repeat 1 nthresh)
  && zlist_eqb (k_overhead k) (repeat 2 noverhead)
  && zlist_eqb (k_block k) [10; 10; 10]
  && (k_count_sub k =? 1).

(* the literals of the model are the constants of the source *)
Definition consts_ok (T : ttable) : bool :=
  negb (tt_unknown T)
  && (tt_iat_hash_digits T =? 10) && (tt_std_hash_digits T =? 10)
  && (tt_iat_seq_init T =? 1) && (tt_a17_init T =? 1) && (tt_a18_init T =? 1)
  && (tt_std_seq_init T =? 1) && (tt_adv_seq_max T =? 9999)
  && fconsts_ok (tt_create T) 2 2 && fconsts_ok (tt_create_adv T) 1 1.

(* ADV accounting codes: 81/83/85/87 credit, 82/84/86/88 debit *)
Definition adv_credit_codes : list Z := [81; 83; 85; 87].
Definition adv_debit_codes : list Z := [82; 84; 86; 88].

Definition hash10 (k : fconsts) : bool := match k_hash_digits k with Some d => d =? 10 | None => false end.

(* what the theorems need: the code lists are the NACHA credit / debit codes (IAT) and the ADV
   accounting codes, no code in both lists of a pair, both file controls cut the hash to ten digits,
   createFileADV refuses IAT batches *)
Definition ttable_ok (T : ttable) : bool :=
  consts_ok T
  && same_set (tt_iat_credit T) nacha_credit && same_set (tt_iat_debit T) nacha_debit
  && disjoint (tt_iat_credit T) (tt_iat_debit T)
  && same_set (tt_adv_credit T) adv_credit_codes && same_set (tt_adv_debit T) adv_debit_codes
  && disjoint (tt_adv_credit T) (tt_adv_debit T)
  && hash10 (tt_create T) && hash10 (tt_create_adv T) && tt_adv_iat_guard T.

Definition ictl_okb (T : ttable) (b : ibatch) : bool :=
  let c := ib_ctl b in let es := ib_entries b in
  (c_count c =? icount es) && (c_hash c =? ihash es) && (c_credit c =? icredits T es)
  && (c_debit c =? idebits T es) && (c_svc c =? ib_svc b) && (c_num c =? ib_num b).

(* Phase 2: generic facts that let a transformation model conclude
   [Arith.validate_batch ... = ROk] / [Arith.validate_file ... = ROk] for its output:
   the converse of ArithFacts.verify_facts (every check of Batch.verify discharged from
   a named fact), validity of a tabulated batch, of File.Create's output, and the
   order / digit-string lemmas the abstractions need.  All for lists of any length. *)
From Coq Require Import Sorting.Sorted Lia ZifyBool ZifyNat ZifyN.
From ACH Require Export ValidOut ArithFacts.
From ACH Require Import NumFacts.
Open Scope Z_scope.

(* ---- introduction rules for the first-failing-rule combinators -------------- *)

Lemma andr_intro a b : a = ROk -> b = ROk -> a ;; b = ROk.
Proof. intros -> ->. reflexivity. Qed.

Lemma first_fail_intro {A} (f : A -> rule) l : Forall (fun x => f x = ROk) l -> first_fail f l = ROk.
Proof. apply first_fail_ok. Qed.

(* ---- Batch.verify accepts a batch with the twelve facts ---------------------- *)

Lemma verify_intro T b : batch_facts T b -> verify T b = ROk.
Proof.
  intros [Fne Fe Fc Fcl Fo Fn Fcnt Fasc Fd Fcr Fh Ft]. unfold verify. cbv zeta.
  repeat (rewrite andr_ok; split).
  - destruct (bt_entries b); [congruence|reflexivity].
  - now apply first_fail_intro.
  - exact Fc.
  - apply chk_intro. now apply Z.eqb_eq.
  - apply chk_intro. now apply bytes_eqb_eq.
  - apply chk_intro. now apply Z.eqb_eq.
  - apply chk_intro. now apply Z.eqb_eq.
  - destruct (bt_kind b) eqn:Ek; [apply chk_intro, Fasc; congruence|apply chk_intro, Fasc; congruence|reflexivity].
  - apply chk_intro. now apply Z.eqb_eq.
  - apply chk_intro. now apply Z.eqb_eq.
  - apply chk_intro. now apply Z.eqb_eq.
  - apply chk_intro. exact Ft.
Qed.

Lemma validate_batch_std_intro T b : bt_kind b = KStd -> batch_facts T b ->
  Forall (fun e => tran_code_for_class T b e = ROk) (bt_entries b) -> validate_batch T b = ROk.
Proof.
  intros Ek F Hc. unfold validate_batch. rewrite Ek. apply andr_intro; [now apply verify_intro|now apply first_fail_intro].
Qed.

(* ---- ValidTranCodeForServiceClassCode = code half + class half --------------- *)

Lemma tran_code_split T b e :
  tran_code_for_class T b e = ROk <->
  memz (en_code e) (t_advcodes T) = false /\ class_dir_ok T (bt_class b) e = true.
Proof.
  unfold tran_code_for_class, class_dir_ok. rewrite andr_ok.
  destruct (memz (en_code e) (t_advcodes T)); cbn [negb chk].
  - split; [intros [H _]; discriminate|intros [H _]; discriminate].
  - destruct (bt_class b =? t_advclass T); [split; [intros [_ H]; discriminate|intros [_ H]; discriminate]|].
    destruct (bt_class b =? t_mixed T); [tauto|].
    destruct (bt_class b =? t_credits T).
    { destruct (credit_or_debit (en_code e) =? 1); cbn [chk]; split; try tauto; intros [_ H]; discriminate. }
    destruct (bt_class b =? t_debits T).
    { destruct (credit_or_debit (en_code e) =? 2); cbn [chk]; split; try tauto; intros [_ H]; discriminate. }
    tauto.
Qed.

Lemma entry_static_spec T e :
  entry_static T e = true <-> validate_entry T KStd e = ROk /\ memz (en_code e) (t_advcodes T) = false.
Proof.
  unfold entry_static. rewrite andb_true_iff, negb_true_iff.
  destruct (validate_entry T KStd e); split; intros [H1 H2]; split; try assumption; try reflexivity; discriminate.
Qed.

(* what a valid standard batch says about each of its entries *)
Lemma valid_std_entries T b : bt_kind b = KStd -> validate_batch T b = ROk ->
  Forall (fun e => entry_static T e = true) (bt_entries b) /\
  Forall (fun e => class_dir_ok T (bt_class b) e = true) (bt_entries b).
Proof.
  intros Ek Hv. pose proof (verify_facts T b (validate_batch_verify T b Hv)) as F.
  pose proof (bf_entries T b F) as He. rewrite Ek in He.
  unfold validate_batch in Hv. rewrite Ek in Hv. apply andr_ok in Hv as [_ Hc].
  apply first_fail_ok in Hc. rewrite Forall_forall in He, Hc. split; apply Forall_forall; intros e Hin.
  - apply entry_static_spec. split; [now apply He|]. now apply (tran_code_split T b e), Hc.
  - now apply (tran_code_split T b e), Hc.
Qed.

(* EntryDetail.Validate does not look at the trace number or the addenda *)
Lemma validate_entry_ext T k e e' :
  en_code e = en_code e' -> en_amount e = en_amount e' -> en_rdfi e = en_rdfi e' -> en_check e = en_check e' ->
  validate_entry T k e = validate_entry T k e'.
Proof.
  destruct e as [c1 a1 r1 k1 t1 n1], e' as [c2 a2 r2 k2 t2 n2].
  cbn [en_code en_amount en_rdfi en_check]. intros -> -> -> ->. reflexivity.
Qed.

Lemma entry_static_ext T e e' :
  en_code e = en_code e' -> en_amount e = en_amount e' -> en_rdfi e = en_rdfi e' -> en_check e = en_check e' ->
  entry_static T e = entry_static T e'.
Proof.
  intros H1 H2 H3 H4. unfold entry_static. now rewrite (validate_entry_ext T KStd e e' H1 H2 H3 H4), H1.
Qed.

(* ---- a tabulated batch ---------------------------------------------------------- *)

Lemma tabulate_tabulated T k cls odfi num es : tabulated T (tabulate T k cls odfi num es).
Proof. reflexivity. Qed.

Lemma class_okb_spec T cls : class_okb T cls = true <-> cls <> 0 /\ memz cls (t_classes T) = true.
Proof. unfold class_okb. rewrite andb_true_iff, negb_true_iff, Z.eqb_neq. tauto. Qed.

(* the checks of Batch.verify on a batch whose control Create has written are down to
   conditions on the header and the entries *)
Theorem tabulated_std_valid T b :
  bt_kind b = KStd -> tabulated T b ->
  class_okb T (bt_class b) = true ->
  bytes_eqb (bt_odfi b) (repeat zero 9) = false ->
  bt_entries b <> [] ->
  Forall (fun e => entry_static T e = true) (bt_entries b) ->
  Forall (fun e => class_dir_ok T (bt_class b) e = true) (bt_entries b) ->
  ascending (ascending_init KStd) (bt_entries b) = true ->
  Forall (fun e => trace_prefix KStd e = stringField (bt_odfi b) 8) (bt_entries b) ->
  calc_debit T KStd (bt_entries b) <= t_batch_limit T ->
  calc_credit T KStd (bt_entries b) <= t_batch_limit T ->
  validate_batch T b = ROk.
Proof.
  intros Ek Ht Hcls Hodfi Hne Hst Hdir Hasc Hpre Hd Hc.
  apply class_okb_spec in Hcls as [Hc0 Hcm].
  unfold tabulated in Ht. rewrite Ek in Ht.
  apply validate_batch_std_intro; [exact Ek| |].
  - constructor; rewrite ?Ek, ?Ht; cbn [tab_ctl bc_class bc_count bc_hash bc_debit bc_credit bc_odfi bc_number];
      try reflexivity; try assumption.
    + eapply Forall_impl; [|exact Hst]. intros e He. now apply entry_static_spec in He.
    + unfold validate_bctl. cbn [tab_ctl bc_class bc_odfi bc_debit bc_credit].
      repeat apply andr_intro; try reflexivity; apply chk_intro.
      * now apply negb_true_iff, Z.eqb_neq.
      * now rewrite Hodfi.
      * exact Hcm.
      * now apply Z.leb_le.
      * now apply Z.leb_le.
    + intros _. exact Hasc.
    + unfold trace_odfi_ok. apply forallb_forall. intros e Hin. rewrite Forall_forall in Hpre.
      apply bytes_eqb_eq. symmetry. now apply Hpre.
  - rewrite Forall_forall in *. intros e Hin. apply tran_code_split. split; [|now apply Hdir].
    now apply (entry_static_spec T e), Hst.
Qed.

Corollary tabulate_valid T cls odfi num es :
  class_okb T cls = true -> bytes_eqb odfi (repeat zero 9) = false -> es <> [] ->
  Forall (fun e => entry_static T e = true) es ->
  Forall (fun e => class_dir_ok T cls e = true) es ->
  ascending (ascending_init KStd) es = true ->
  Forall (fun e => trace_prefix KStd e = stringField odfi 8) es ->
  calc_debit T KStd es <= t_batch_limit T -> calc_credit T KStd es <= t_batch_limit T ->
  validate_batch T (tabulate T KStd cls odfi num es) = ROk.
Proof. intros. apply tabulated_std_valid; cbn [tabulate bt_kind bt_class bt_odfi bt_entries]; try assumption; reflexivity. Qed.

(* a valid standard batch IS tabulated: its control equals Create's recomputation *)
Lemma valid_std_tabulated T b : bt_kind b = KStd -> validate_batch T b = ROk -> tabulated T b.
Proof.
  intros Ek Hv. destruct (verify_facts T b (validate_batch_verify T b Hv)) as [_ _ _ Fcl Fo Fn Fcnt _ Fd Fcr Fh _].
  unfold tabulated, tab_ctl. rewrite Ek in *. rewrite Fcl, Fo, Fn, Fcnt, Fd, Fcr, Fh. now destruct (bt_ctl b).
Qed.

(* ---- trace order ---------------------------------------------------------------- *)

Lemma sorted_ascending es : forall last, Sorted bytes_lt (last :: map en_trace es) -> ascending last es = true.
Proof.
  induction es as [|e es IH]; intros last H; [reflexivity|].
  cbn [map] in H. inversion H as [|x l Hs Hh]; subst. inversion Hh as [|y l' Hlt]; subst.
  cbn [ascending]. unfold bytes_lt in Hlt. rewrite Hlt. now apply IH.
Qed.

Lemma ascending_iff es last : ascending last es = true <-> Sorted bytes_lt (last :: map en_trace es).
Proof. split; [apply ascending_sorted|apply sorted_ascending]. Qed.

(* every trace number of an ascending list is above the initial value *)
Lemma ascending_above es : forall last, ascending last es = true -> Forall (fun e => bytes_lt last (en_trace e)) es.
Proof.
  induction es as [|e es IH]; intros last H; [constructor|].
  cbn [ascending] in H. destruct (bytes_leb (en_trace e) last) eqn:E; [discriminate|].
  constructor; [exact E|]. eapply Forall_impl; [|exact (IH _ H)].
  intros x Hx. eapply bytes_lt_trans; eassumption.
Qed.

Lemma ascending_weaken es last last' : bytes_lt last last' -> ascending last' es = true -> ascending last es = true.
Proof.
  destruct es as [|e es]; intros Hl H; [reflexivity|]. cbn [ascending] in *.
  destruct (bytes_leb (en_trace e) last') eqn:E; [discriminate|].
  assert (Ht : bytes_lt last (en_trace e)) by (eapply bytes_lt_trans; eassumption).
  unfold bytes_lt in Ht. now rewrite Ht.
Qed.

(* a sub-list (in order) of an ascending entry list is ascending *)
Lemma ascending_filter (p : entry -> bool) es : forall last,
  ascending last es = true -> ascending last (filter p es) = true.
Proof.
  induction es as [|e es IH]; intros last H; [reflexivity|].
  cbn [ascending] in H. destruct (bytes_leb (en_trace e) last) eqn:E; [discriminate|].
  cbn [filter]. destruct (p e).
  - cbn [ascending]. rewrite E. now apply IH.
  - apply IH. eapply ascending_weaken; [exact E|exact H].
Qed.

(* entries each above [last] and strictly sorted among themselves *)
Lemma ascending_from_sorted es last :
  Forall (fun e => bytes_lt last (en_trace e)) es -> Sorted bytes_lt (map en_trace es) -> ascending last es = true.
Proof.
  intros Ha Hs. apply sorted_ascending. constructor; [exact Hs|].
  destruct es as [|e es]; [constructor|]. inversion Ha; subst. now constructor.
Qed.

(* ---- File.Create ------------------------------------------------------------------ *)

Lemma set_number_valid T b n : validate_batch T b = ROk -> bt_kind b = KStd -> validate_batch T (set_number b n) = ROk.
Proof.
  intros Hv Ek. pose proof (verify_facts T b (validate_batch_verify T b Hv)) as F.
  destruct F as [Fne Fe Fc Fcl Fo Fn Fcnt Fasc Fd Fcr Fh Ft].
  apply validate_batch_std_intro; [exact Ek| |].
  - constructor; cbn [set_number bt_kind bt_class bt_odfi bt_number bt_entries bt_ctl
                      bc_class bc_count bc_hash bc_debit bc_credit bc_odfi bc_number]; try assumption; try reflexivity.
  - unfold validate_batch in Hv. rewrite Ek in Hv. apply andr_ok in Hv as [_ Hc]. apply first_fail_ok in Hc.
    eapply Forall_impl; [|exact Hc]. intros e He. apply tran_code_split. now apply (tran_code_split T b e) in He.
Qed.

Lemma renumber_length bs : forall s, length (renumber s bs) = length bs.
Proof. induction bs as [|b bs IH]; intros s; cbn [renumber length]; [reflexivity|now rewrite IH]. Qed.

Lemma renumber_kind bs : forall s, map bt_kind (renumber s bs) = map bt_kind bs.
Proof.
  induction bs as [|b bs IH]; intros s; cbn [renumber map]; [reflexivity|]. rewrite IH.
  now destruct (bt_number b <=? 1).
Qed.

Lemma renumber_valid T bs : forall s, Forall (fun b => bt_kind b = KStd /\ validate_batch T b = ROk) bs ->
  Forall (fun b => validate_batch T b = ROk) (renumber s bs).
Proof.
  induction bs as [|b bs IH]; intros s H; cbn [renumber]; [constructor|].
  inversion H as [|x l [Hk Hv] Hr]; subst. constructor; [|now apply IH].
  destruct (bt_number b <=? 1); [now apply set_number_valid|exact Hv].
Qed.

(* control sums are not touched by the renumbering *)
Lemma renumber_sumz (g : bctl -> Z) bs : forall s,
  (forall c n, g (mkbctl (bc_class c) (bc_count c) (bc_hash c) (bc_debit c) (bc_credit c) (bc_odfi c) n) = g c) ->
  sumz (fun b => g (bt_ctl b)) (renumber s bs) = sumz (fun b => g (bt_ctl b)) bs.
Proof.
  intros s Hg. revert s. induction bs as [|b bs IH]; intros s; cbn [renumber sumz]; [reflexivity|].
  rewrite IH. f_equal. destruct (bt_number b <=? 1); [apply Hg|reflexivity].
Qed.

(* absent numbers (<= 1) come out as seq, seq+1, ... : strictly ascending *)
Lemma renumber_absent_ascending bs : forall s, 1 <= s -> Forall (fun b => bt_number b <= 1) bs ->
  numbers_ascending (s - 1) (renumber s bs) = true.
Proof.
  induction bs as [|b bs IH]; intros s Hs H; cbn [renumber numbers_ascending]; [reflexivity|].
  inversion H as [|x l Hb Hr]; subst. replace (bt_number b <=? 1) with true by (symmetry; now apply Z.leb_le).
  cbn [set_number bt_number]. replace (s <=? s - 1) with false by (symmetry; apply Z.leb_gt; lia).
  replace s with (s + 1 - 1) at 1 by lia. apply IH; [lia|exact Hr].
Qed.

Lemma sumz_app {A} (g : A -> Z) a b : sumz g (a ++ b) = sumz g a + sumz g b.
Proof. induction a as [|x a IH]; cbn [app sumz]; [reflexivity|]. rewrite IH. ring. Qed.

Lemma existsb_map_false {A B} (f : A -> B) (p : B -> bool) l :
  existsb p (map f l) = false -> existsb (fun x => p (f x)) l = false.
Proof. induction l as [|x l IH]; cbn [map existsb]; [reflexivity|]. intros H. apply orb_false_elim in H as [-> H]. now apply IH. Qed.

(* File.Create of validated standard batches (and arbitrary IAT batches, which
   File.Validate does not re-validate) gives a file that File.Validate accepts, provided
   the batch numbers come out ascending and the totals fit the file control *)
Theorem create_file_valid T bs iat :
  bs ++ iat <> [] ->
  Forall (fun b => bt_kind b = KStd /\ validate_batch T b = ROk) bs ->
  numbers_ascending 0 (renumber 1 bs) = true ->
  fctl_fits T (fl_ctl (create_file T bs iat)) ->
  validate_file T (create_file T bs iat) = ROk.
Proof.
  intros Hne Hbs Hasc (Hfd & Hfc & Hnz).
  unfold validate_file.
  assert (Hadv : is_adv_file (create_file T bs iat) = false).
  { unfold is_adv_file, create_file. cbn [fl_batches].
    assert (E : forall l, Forall (fun k => k = KStd) (map bt_kind l) ->
                existsb (fun b => match bt_kind b with KADV => true | _ => false end) l = false).
    { induction l as [|x l IH]; cbn [map existsb]; [reflexivity|]. intros H. inversion H as [|k ks Hk Hr]; subst.
      rewrite Hk. now apply IH. }
    apply E. rewrite renumber_kind. clear -Hbs. induction Hbs as [|b l [Hk _] _ IH]; cbn [map]; constructor; assumption. }
  rewrite Hadv. unfold create_file in *. cbn [fl_ctl fl_batches fl_iat tab_fctl fc_batches fc_count fc_hash fc_debit fc_credit] in *.
  set (bs' := renumber 1 bs) in *. set (iat' := renumber (1 + Z.of_nat (length bs)) iat) in *.
  repeat (rewrite andr_ok; split).
  - apply chk_intro. apply Z.eqb_eq. rewrite app_length. lia.
  - apply first_fail_intro. now apply renumber_valid.
  - unfold validate_fctl. cbn [tab_fctl fc_batches fc_count fc_hash fc_debit fc_credit].
    repeat (rewrite andr_ok; split).
    + destruct (negb (sumz (fun b => bc_credit (bt_ctl b)) (bs' ++ iat') =? 0)
                || negb (sumz (fun b => bc_debit (bt_ctl b)) (bs' ++ iat') =? 0)) eqn:E; [|reflexivity].
      assert (Hm : sumz (fun b => bc_credit (bt_ctl b)) (bs' ++ iat') <> 0 \/ sumz (fun b => bc_debit (bt_ctl b)) (bs' ++ iat') <> 0).
      { apply orb_prop in E as [E|E]; apply negb_true_iff, Z.eqb_neq in E; [left|right]; exact E. }
      destruct (Hnz Hm) as [Hn1 Hn2].
      repeat apply andr_intro; apply chk_intro; apply negb_true_iff, Z.eqb_neq; try assumption.
      assert (Hl : bs' ++ iat' <> []).
      { unfold bs', iat'. intros Hnil. apply app_eq_nil in Hnil as [H1 H2].
        apply (f_equal (@length _)) in H1, H2. rewrite renumber_length in H1, H2. cbn in H1, H2.
        apply Hne. apply length_zero_iff_nil in H1, H2. now rewrite H1, H2. }
      destruct (bs' ++ iat'); [congruence|cbn [length]; lia].
    + apply chk_intro. now apply Z.leb_le.
    + apply chk_intro. now apply Z.leb_le.
  - unfold file_sums, all_batches. cbn [tab_fctl fl_ctl fl_batches fl_iat fc_count fc_debit fc_credit].
    repeat apply andr_intro; apply chk_intro; apply Z.eqb_refl.
  - apply chk_intro. exact Hasc.
  - apply chk_intro. unfold file_hash_ok, all_batches. cbn [tab_fctl fl_ctl fl_batches fl_iat fc_hash]. apply Z.eqb_refl.
Qed.

(* ---- digit strings ------------------------------------------------------------------ *)

(* Go's <= on two digit strings of one length is <= on the numbers *)
Lemma bytes_leb_digits a : forall b, length a = length b ->
  forallb is_digit a = true -> forallb is_digit b = true ->
  bytes_leb a b = (digits_val a 0 <=? digits_val b 0).
Proof.
  induction a as [|x a IH]; intros [|y b] Hl Ha Hb; cbn [length] in Hl; try discriminate; [reflexivity|].
  injection Hl as Hl. cbn [forallb] in Ha, Hb.
  apply andb_prop in Ha as [Hx Ha]. apply andb_prop in Hb as [Hy Hb].
  cbn [bytes_leb digits_val]. rewrite (digits_val_acc a), (digits_val_acc b). rewrite <- Hl.
  pose proof (digits_val_bound a Ha) as Ba. pose proof (digits_val_bound b Hb) as Bb. rewrite <- Hl in Bb.
  apply is_digit_range in Hx as [Hx Hx']. apply is_digit_range in Hy as [Hy Hy'].
  rewrite (IH b Hl Ha Hb).
  set (p := 10 ^ Z.of_nat (length a)) in *. set (u := digits_val a 0) in *. set (v := digits_val b 0) in *.
  assert (Hp : 0 < p) by (apply Z.pow_pos_nonneg; lia).
  destruct (x <? y)%N eqn:E1.
  - symmetry. apply Z.leb_le. assert (Z.of_N (x - 48) + 1 <= Z.of_N (y - 48)) by lia. nia.
  - destruct (y <? x)%N eqn:E2.
    + symmetry. apply Z.leb_gt. assert (Z.of_N (y - 48) + 1 <= Z.of_N (x - 48)) by lia. nia.
    + assert (x = y) by lia. subst y. destruct (u <=? v) eqn:E3; symmetry; [apply Z.leb_le|apply Z.leb_gt]; lia.
Qed.

Lemma p10_pow w : Z.of_N (p10 w) = 10 ^ Z.of_nat w.
Proof.
  induction w as [|w IH]; [reflexivity|]. rewrite p10_S, N2Z.inj_mul, IH, Nat2Z.inj_succ, Z.pow_succ_r by lia. reflexivity.
Qed.

Lemma dec_val w n : (n < p10 w)%N -> digits_val (dec w n) 0 = Z.of_N n.
Proof. intros H. rewrite digits_val_dec, N.mod_small by exact H. lia. Qed.

Lemma dec_leb w a b : (a < p10 w)%N -> (b < p10 w)%N -> bytes_leb (dec w a) (dec w b) = (a <=? b)%N.
Proof.
  intros Ha Hb. rewrite bytes_leb_digits; [|now rewrite !dec_length|apply dec_digits|apply dec_digits].
  rewrite (dec_val w a Ha), (dec_val w b Hb). destruct (a <=? b)%N eqn:E; [apply Z.leb_le|apply Z.leb_gt]; lia.
Qed.

Lemma dec_digits8 n : digits8 (dec 8 n).
Proof. split; [apply dec_length|apply dec_digits]. Qed.

(* a string of at least two digits is above the initial value "0" of isSequenceAscending *)
Lemma digits_above_zero s : forallb is_digit s = true -> (2 <= length s)%nat -> bytes_lt [48%N] s.
Proof.
  intros Hd Hl. destruct s as [|x [|y s]]; cbn [length] in Hl; try lia.
  cbn [forallb] in Hd. apply andb_prop in Hd as [Hx _]. apply is_digit_range in Hx as [_ Hx].
  unfold bytes_lt. cbn [bytes_leb]. destruct (x <? 48)%N eqn:E1; [lia|]. destruct (48 <? x)%N; reflexivity.
Qed.

(* ---- trace15 / odfi8 ------------------------------------------------------------------ *)

Definition P15z : Z := 10 ^ 15.
Definition P7z : Z := 10 ^ 7.

Lemma trace15_length t : length (trace15 t) = 15%nat.
Proof. apply dec_length. Qed.

Lemma trace15_digits t : forallb is_digit (trace15 t) = true.
Proof. apply dec_digits. Qed.

Lemma trace15_lt a b : 0 <= a -> a < b -> b < P15z -> bytes_lt (trace15 a) (trace15 b).
Proof.
  intros Ha Hab Hb. unfold bytes_lt, trace15.
  assert (E : Z.of_N (p10 15) = P15z) by (now rewrite p10_pow).
  rewrite dec_leb by lia. apply N.leb_gt. lia.
Qed.

Lemma trace15_above_zero t : bytes_lt [48%N] (trace15 t).
Proof. apply digits_above_zero; [apply trace15_digits|rewrite trace15_length; lia]. Qed.

(* the first eight columns of a 15-digit trace number are the 8-digit rendering of t / 10^7 *)
Lemma trace15_prefix t : 0 <= t -> firstn 8 (trace15 t) = odfi8 (t / P7z).
Proof.
  intros Ht. unfold trace15, odfi8. change 15%nat with (8 + 7)%nat. rewrite dec_app.
  rewrite <- (dec_length 8 (Z.to_N t / p10 7)) at 1. rewrite firstn_app, Nat.sub_diag, firstn_all. cbn [firstn].
  rewrite app_nil_r. f_equal.
  assert (E : Z.of_N (p10 7) = P7z) by (now rewrite p10_pow).
  rewrite Z2N.inj_div by (unfold P7z; lia). rewrite <- E, N2Z.id. reflexivity.
Qed.

Lemma trace_prefix_trace15 t cd amt r c a : 0 <= t ->
  trace_prefix KStd (mkentry cd amt r c (trace15 t) a) = odfi8 (t / P7z).
Proof.
  intros Ht. unfold trace_prefix. cbn [en_trace]. rewrite trace15_length. cbn [Nat.leb]. now apply trace15_prefix.
Qed.

Lemma stringField_odfi8 o : stringField (odfi8 o) 8 = odfi8 o.
Proof. apply stringField_digits8, dec_digits8. Qed.

Lemma odfi8_not_zeros9 o : bytes_eqb (odfi8 o) (repeat zero 9) = false.
Proof.
  destruct (bytes_eqb (odfi8 o) (repeat zero 9)) eqn:E; [|reflexivity].
  apply bytes_eqb_eq in E. apply (f_equal (@length _)) in E. unfold odfi8 in E. rewrite dec_length, repeat_length in E. lia.
Qed.

(* ---- recoding leaves count, hash, trace order and trace prefix alone ------------------ *)

Lemma recode_count f es : calc_count (map (recode f) es) = calc_count es.
Proof. induction es as [|e es IH]; cbn [map calc_count]; [reflexivity|]. now rewrite IH. Qed.

Lemma recode_hash_sum f es : hash_sum (map (recode f) es) = hash_sum es.
Proof. induction es as [|e es IH]; cbn [map hash_sum]; [reflexivity|]. now rewrite IH. Qed.

Lemma recode_ascending f es : forall last, ascending last (map (recode f) es) = ascending last es.
Proof.
  induction es as [|e es IH]; intros last; cbn [map ascending]; [reflexivity|]. cbn [recode en_trace].
  destruct (bytes_leb (en_trace e) last); [reflexivity|apply IH].
Qed.

Lemma recode_trace_prefix f es odfi :
  forallb (fun e => bytes_eqb odfi (trace_prefix KStd e)) (map (recode f) es)
  = forallb (fun e => bytes_eqb odfi (trace_prefix KStd e)) es.
Proof. induction es as [|e es IH]; cbn [map forallb]; [reflexivity|]. now rewrite IH. Qed.

Lemma recode_validate_entry T f e : validate_entry T KStd e = ROk ->
  f (en_code e) <> 0 -> memz (f (en_code e)) (t_codes T) = true -> validate_entry T KStd (recode f e) = ROk.
Proof.
  intros Hv H0 Hm. unfold validate_entry in *. cbn [recode en_code en_rdfi en_amount] in *.
  repeat match goal with H : _ ;; _ = ROk |- _ => apply andr_ok in H; destruct H end.
  repeat (rewrite andr_ok; split); try assumption.
  - apply chk_intro. now apply negb_true_iff, Z.eqb_neq.
  - now apply chk_intro.
Qed.

(* ---- File.Validate of a non-ADV file, as a conjunction ------------------------------------ *)

Record file_facts (T : tables) (f : file) : Prop := mkff {
  ff_count : fc_batches (fl_ctl f) = Z.of_nat (length (fl_batches f)) + Z.of_nat (length (fl_iat f));
  ff_batches : Forall (fun b => validate_batch T b = ROk) (fl_batches f);
  ff_ctl : validate_fctl T (fl_ctl f) = ROk;
  ff_ecount : fc_count (fl_ctl f) = sumz (fun b => bc_count (bt_ctl b)) (all_batches f);
  ff_debit : fc_debit (fl_ctl f) = sumz (fun b => bc_debit (bt_ctl b)) (all_batches f);
  ff_credit : fc_credit (fl_ctl f) = sumz (fun b => bc_credit (bt_ctl b)) (all_batches f);
  ff_asc : numbers_ascending 0 (fl_batches f) = true;
  ff_hash : least_sig (sumz (fun b => bc_hash (bt_ctl b)) (all_batches f)) (t_hash_digits T) = fc_hash (fl_ctl f) }.

Lemma validate_file_facts T f : is_adv_file f = false -> validate_file T f = ROk <-> file_facts T f.
Proof.
  intros Ha. unfold validate_file. rewrite Ha. cbv zeta. unfold file_sums, file_hash_ok. split.
  - intros H. repeat match goal with H : _ ;; _ = ROk |- _ => apply andr_ok in H; destruct H end.
    match goal with H : first_fail _ _ = ROk |- _ => apply first_fail_ok in H end.
    ok_split. repeat match goal with H : (_ =? _) = true |- _ => apply Z.eqb_eq in H end.
    constructor; assumption.
  - intros [F1 F2 F3 F4 F5 F6 F7 F8].
    repeat (rewrite andr_ok; split); try assumption; try (apply chk_intro; try assumption; now apply Z.eqb_eq).
    now apply first_fail_intro.
Qed.

(* FileControl.Validate is symmetric in the two totals *)
Lemma validate_fctl_swap T n c h d cr :
  validate_fctl T (mkfctl n c h d cr) = ROk -> validate_fctl T (mkfctl n c h cr d) = ROk.
Proof.
  unfold validate_fctl. cbn [fc_batches fc_count fc_hash fc_debit fc_credit]. intros H.
  repeat match goal with H : _ ;; _ = ROk |- _ => apply andr_ok in H; destruct H end.
  repeat (rewrite andr_ok; split); try assumption.
  - rewrite orb_comm. assumption.
  - match goal with H : chk (cr <=? _) _ = ROk |- _ => apply chk_true in H; [|discriminate]; now apply chk_intro end.
  - match goal with H : chk (d <=? _) _ = ROk |- _ => apply chk_true in H; [|discriminate]; now apply chk_intro end.
Qed.

(* ---- numbers 1, 2, 3, ... survive File.Create's renumbering in ascending order -------------- *)

Lemma renumber_seq_ascending bs : forall s,
  (forall i b, nth_error bs i = Some b -> bt_number b = s + Z.of_nat i) ->
  numbers_ascending (s - 1) (renumber s bs) = true.
Proof.
  induction bs as [|b bs IH]; intros s H; cbn [renumber numbers_ascending]; [reflexivity|].
  pose proof (H 0%nat b eq_refl) as Hb. rewrite Z.add_0_r in Hb.
  assert (Hn : bt_number (if bt_number b <=? 1 then set_number b s else b) = s) by (destruct (bt_number b <=? 1); [reflexivity|exact Hb]).
  rewrite Hn. replace (s <=? s - 1) with false by (symmetry; apply Z.leb_gt; lia).
  replace s with (s + 1 - 1) at 1 by lia. apply IH. intros i x Hx. rewrite (H (S i) x Hx). lia.
Qed.

Lemma Sorted_map {X Y} (R : X -> X -> Prop) (R' : Y -> Y -> Prop) (g : X -> Y) l :
  (forall a b, R a b -> R' (g a) (g b)) -> Sorted R l -> Sorted R' (map g l).
Proof.
  intros Hg. induction 1 as [|x l Hs IH Hh]; cbn [map]; constructor; [exact IH|].
  destruct Hh as [|y l' Hxy]; cbn [map]; constructor. now apply Hg.
Qed.

(* ---- validity of a standard batch <-> admissible entries under the header ------------------ *)

Lemma valid_entries_in T b : bt_kind b = KStd -> validate_batch T b = ROk ->
  Forall (entry_in T (bt_class b) (bt_odfi b)) (bt_entries b).
Proof.
  intros Ek Hv. destruct (valid_std_entries T b Ek Hv) as [Hst Hdir].
  destruct (verify_facts T b (validate_batch_verify T b Hv)) as [_ _ Fc Fcl Fo _ _ Fasc _ _ _ Ft].
  rewrite Ek in *. specialize (Fasc ltac:(discriminate)). apply ascending_above in Fasc.
  unfold trace_odfi_ok in Ft. rewrite forallb_forall in Ft.
  unfold validate_bctl in Fc. ok_split. rewrite Forall_forall in Hst, Hdir, Fasc.
  apply Forall_forall. intros x Hx. unfold entry_in. repeat split.
  - apply class_okb_spec. rewrite Fcl. split; [|assumption].
    match goal with H : negb (_ =? 0) = true |- _ => now apply negb_true_iff, Z.eqb_neq in H end.
  - rewrite Fo. match goal with H : negb (bytes_eqb _ _) = true |- _ => now apply negb_true_iff in H end.
  - now apply Hst.
  - now apply Hdir.
  - exact (Fasc x Hx).
  - symmetry. apply bytes_eqb_eq. now apply Ft.
Qed.

Lemma entries_in_valid T cls odfi num es :
  es <> [] -> Forall (entry_in T cls odfi) es -> Sorted bytes_lt (map en_trace es) ->
  calc_debit T KStd es <= t_batch_limit T -> calc_credit T KStd es <= t_batch_limit T ->
  validate_batch T (tabulate T KStd cls odfi num es) = ROk.
Proof.
  intros Hne Hin Hs Hd Hc. destruct es as [|e0 es0] eqn:E; [congruence|]. rewrite <- E in *.
  assert (H0 : entry_in T cls odfi e0) by (rewrite Forall_forall in Hin; apply Hin; rewrite E; now left).
  destruct H0 as (K1 & K2 & _).
  apply tabulate_valid; try assumption.
  - eapply Forall_impl; [|exact Hin]. intros x (_ & _ & K & _). exact K.
  - eapply Forall_impl; [|exact Hin]. intros x (_ & _ & _ & K & _). exact K.
  - apply ascending_from_sorted; [|exact Hs]. eapply Forall_impl; [|exact Hin]. intros x (_ & _ & _ & _ & K & _). exact K.
  - eapply Forall_impl; [|exact Hin]. intros x (_ & _ & _ & _ & _ & K). exact K.
Qed.

(* ascending numbers survive File.Create's renumbering *)
Lemma renumber_keeps_ascending bs : forall lo seq, numbers_ascending lo bs = true -> 1 <= seq <= lo + 1 ->
  numbers_ascending lo (renumber seq bs) = true.
Proof.
  induction bs as [|b bs IH]; intros lo seq H Hs; cbn [renumber numbers_ascending] in *; [reflexivity|].
  destruct (bt_number b <=? lo) eqn:E; [discriminate|]. apply Z.leb_gt in E.
  assert (Hn : bt_number (if bt_number b <=? 1 then set_number b seq else b) = bt_number b).
  { destruct (bt_number b <=? 1) eqn:E1; [|reflexivity]. apply Z.leb_le in E1. cbn [set_number bt_number]. lia. }
  rewrite Hn. replace (bt_number b <=? lo) with false by (symmetry; apply Z.leb_gt; lia).
  apply IH; [exact H|lia].
Qed.

(* FileControl.Validate from the side conditions *)
Lemma fits_validate_fctl T c : fctl_fits T c -> (fc_credit c <> 0 \/ fc_debit c <> 0 -> fc_batches c <> 0) ->
  validate_fctl T c = ROk.
Proof.
  intros (Hd & Hc & Hnz) Hb. unfold validate_fctl. repeat (rewrite andr_ok; split).
  - destruct (negb (fc_credit c =? 0) || negb (fc_debit c =? 0)) eqn:E; [|reflexivity].
    assert (Hm : fc_credit c <> 0 \/ fc_debit c <> 0).
    { apply orb_prop in E as [E|E]; apply negb_true_iff, Z.eqb_neq in E; [left|right]; exact E. }
    destruct (Hnz Hm) as [H1 H2]. specialize (Hb Hm).
    repeat (rewrite andr_ok; split); apply chk_intro; now apply negb_true_iff, Z.eqb_neq.
  - apply chk_intro. now apply Z.leb_le.
  - apply chk_intro. now apply Z.leb_le.
Qed.

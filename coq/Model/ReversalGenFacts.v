(* Phase 3, C13: the general Reversal statements — no exclusion of PRENOTE descriptions,
   return / NOC entries and offset entries included.  For every batch / file over arbitrary
   entry lists, given the reflection obligations on the regenerated tables (tables_ok). *)
From Coq Require Import ZArith NArith List Bool Lia.
Import ListNotations.
From ACH Require Import Bytes TxCodes RevTable Reversal ReversalFacts ReversalGen.
Open Scope Z_scope.

Lemma rbatch_valid_split T b :
  rbatch_valid T b = rbatch_struct T b
                     && forallb (amount_rule (rt_pre T) (is_prenote_desc (rb_desc b))) (rb_entries b).
Proof. reflexivity. Qed.

(* with forward entries only the general validity is the one of Reversal.v *)
Lemma rbatch_valid_gen_forward T b : rbatch_valid_gen (fun _ => AForward) T b = rbatch_valid T b.
Proof. reflexivity. Qed.

Lemma forallb_map_eq {A B} (g : A -> B) (P : B -> bool) (Q : A -> bool) l :
  (forall x, In x l -> P (g x) = Q x) -> forallb P (map g l) = forallb Q l.
Proof.
  induction l as [|x r IH]; intros H; [reflexivity|]. cbn [map forallb].
  rewrite (H x (or_introl eq_refl)), IH; [reflexivity|]. intros y Hy. apply H. now right.
Qed.

Section WithTables.
  Variable T : rtables.
  Hypothesis HT : tables_ok T = true.
  Variables (ak : N -> akind) (off : N -> bool).

  Let arms := rt_arms T.
  Let std := rt_std T.
  Let pre := rt_pre T.
  Let amt := rt_amt T.

  Lemma reversal_entries d b : rb_entries (reversal_batch T d b) = map (rev_entry arms) (rb_entries b).
  Proof.
    unfold reversal_batch. fold arms. destruct (entry_flags arms (rb_entries b)) as [hc hd].
    destruct (match apply_fixups (rt_fix T) hc hd with Some p => p | None => (rb_scc_h b, rb_scc_c b) end) as [sh sc].
    reflexivity.
  Qed.

  Lemma reversal_fields d b :
    rb_desc (reversal_batch T d b) = rt_desc T /\ rb_date (reversal_batch T d b) = d
    /\ rb_debit (reversal_batch T d b) = rb_credit b /\ rb_credit (reversal_batch T d b) = rb_debit b.
  Proof.
    unfold reversal_batch. destruct (entry_flags (rt_arms T) (rb_entries b)) as [hc hd].
    destruct (match apply_fixups (rt_fix T) hc hd with Some p => p | None => (rb_scc_h b, rb_scc_c b) end) as [sh sc].
    repeat split.
  Qed.

  (* batch_reversed of ReversalFacts with "the result is valid" replaced by the structural part
     of validity: everything but the amount rule *)
  Record batch_reversed_gen (d : bytes) (b b' : rbatch) : Prop := {
    bg_entries : rb_entries b' = map (rev_entry arms) (rb_entries b);
    bg_amounts : map e_amount (rb_entries b') = map e_amount (rb_entries b);
    bg_ids : map e_id (rb_entries b') = map e_id (rb_entries b);
    bg_traces : map e_trace (rb_entries b') = map e_trace (rb_entries b);
    bg_codes : codes b' = map (rev_code arms) (codes b);
    bg_flipped : Forall (fun c => rev_code arms c / 10 = c / 10
                                  /\ digit_dir (rev_code arms c) = opposite (digit_dir c)
                                  /\ digit_dir c <> TNone
                                  /\ entry_code std (rev_code arms c) = true) (codes b);
    bg_debit : rb_debit b' = rb_credit b;
    bg_credit : rb_credit b' = rb_debit b;
    bg_class_h : rb_scc_h b' = class_of (has_dir TCredit (rb_entries b')) (has_dir TDebit (rb_entries b'));
    bg_class_c : rb_scc_c b' = rb_scc_h b';
    bg_desc : rb_desc b' = rt_desc T;
    bg_date : rb_date b' = d;
    bg_struct : rbatch_struct T b' = true;
    bg_closed : all_reversible T b' = true }.

  Theorem reversal_struct d b :
    rbatch_struct T b = true -> all_reversible T b = true ->
    batch_reversed_gen d b (reversal_batch T d b).
  Proof.
    intros Hv Hr. unfold all_reversible in Hr. fold std in Hr.
    unfold rbatch_struct in Hv.
    apply andb_prop in Hv as [Hv Hdeb]. apply andb_prop in Hv as [Hv Hcred].
    apply andb_prop in Hv as [Hv _]. apply andb_prop in Hv as [Hv _]. apply andb_prop in Hv as [Hv _].
    apply andb_prop in Hv as [Hv _]. apply andb_prop in Hv as [Hne _].
    apply Z.eqb_eq in Hdeb, Hcred.
    set (es := rb_entries b) in *.
    set (es' := map (rev_entry arms) es).
    assert (Hnil : es' <> []).
    { subst es'. destruct es; [discriminate|cbn; congruence]. }
    assert (Hdirs : forall e', In e' es' -> digit_dir (e_code e') <> TNone) by (apply (rev_entries_In T HT); exact Hr).
    assert (Hany : has_dir TCredit es' || has_dir TDebit es' = true) by (apply has_some_dir; assumption).
    assert (Eb : reversal_batch T d b =
                 mkrbatch (class_of (has_dir TCredit es') (has_dir TDebit es'))
                          (class_of (has_dir TCredit es') (has_dir TDebit es'))
                          (rt_desc T) d (rb_credit b) (rb_debit b) es').
    { unfold reversal_batch. fold es. rewrite (entry_flags_spec T HT es Hr). fold arms. fold es'.
      rewrite (fixups_sound _ (HT_fix T HT) _ _ Hany). reflexivity. }
    rewrite Eb.
    assert (Hclosed : forallb (fun e => reversible std (e_code e)) es' = true).
    { apply forallb_forall. intros e' Hin. apply in_map_iff in Hin as (e & <- & He).
      rewrite forallb_forall in Hr. specialize (Hr e He).
      destruct (props T HT _ Hr) as [_ _ _ H4 _ _ _]. exact H4. }
    constructor; cbn [rb_entries rb_debit rb_credit rb_scc_h rb_scc_c rb_desc rb_date codes]; try reflexivity.
    - apply map_rev_field. reflexivity.
    - apply map_rev_field. reflexivity.
    - apply map_rev_field. reflexivity.
    - unfold codes. cbn [rb_entries]. fold es. subst es'. rewrite !map_map. reflexivity.
    - unfold codes. fold es. apply Forall_forall. intros c Hc. apply in_map_iff in Hc as (e & <- & He).
      rewrite forallb_forall in Hr. specialize (Hr e He).
      destruct (props T HT _ Hr) as [H1 H2 H3 H4 _ _ _]. repeat split; auto. now apply reversible_entry_code.
    - unfold rbatch_struct. cbn [rb_entries rb_debit rb_credit rb_scc_h rb_scc_c].
      repeat (apply andb_true_intro; split).
      + destruct es'; [congruence|reflexivity].
      + apply Z.eqb_refl.
      + destruct (has_dir TCredit es'), (has_dir TDebit es'); cbn in Hany |- *; try reflexivity; discriminate.
      + apply forallb_forall. intros e' Hin. rewrite forallb_forall in Hclosed.
        now apply reversible_entry_code, Hclosed.
      + destruct (has_dir TDebit es') eqn:Ed.
        * destruct (has_dir TCredit es'); reflexivity.
        * destruct (has_dir TCredit es') eqn:Ec; cbn in Hany; [|discriminate].
          cbn. apply (no_other_dir es' TCredit); [exact Hdirs|congruence|exact Ed].
      + destruct (has_dir TCredit es') eqn:Ec.
        * destruct (has_dir TDebit es'); reflexivity.
        * destruct (has_dir TDebit es') eqn:Ed; cbn in Hany; [|discriminate].
          cbn. apply (no_other_dir es' TDebit); [exact Hdirs|congruence|exact Ec].
      + apply Z.eqb_eq. subst es'. unfold arms. rewrite (sum_dir_rev T HT TCredit es Hr); [|congruence]. exact Hdeb.
      + apply Z.eqb_eq. subst es'. unfold arms. rewrite (sum_dir_rev T HT TDebit es Hr); [|congruence]. exact Hcred.
    - unfold all_reversible. cbn [rb_entries]. fold std. exact Hclosed.
  Qed.

  (* one entry: the amount rule under the description REVERSAL, on the flipped entry *)
  Lemma amount_after e pd :
    reversible std (e_code e) = true -> amount_rule_gen ak pre pd e = true ->
    amount_rule_gen ak pre false (rev_entry arms e) = survives ak pre e.
  Proof.
    intros Hr Hin. destruct (props T HT _ Hr) as [_ _ _ _ _ _ Hp].
    unfold amount_rule_gen, survives in *. cbn [rev_entry e_id e_code e_amount].
    destruct (ak (e_id e)); [|exact Hin|reflexivity].
    unfold amount_rule in *. cbn [rev_entry e_code e_amount]. fold arms pre in Hp. rewrite Hp, orb_false_r.
    destruct (memz (e_code e) pre); cbn [orb] in *; [exact Hin|reflexivity].
  Qed.

  (* THE general batch statement.  A valid batch of reversible codes — whatever its description,
     with return, NOC and offset entries — is reversed entry by entry, and the result is valid
     exactly when every forward entry carries a prenote code or a positive amount. *)
  Theorem reversal_batch_general d b :
    rbatch_valid_gen ak T b = true -> all_reversible T b = true ->
    batch_reversed_gen d b (reversal_batch T d b)
    /\ rbatch_valid_gen ak T (reversal_batch T d b) = batch_survives ak T b.
  Proof.
    intros Hv Hr. unfold rbatch_valid_gen in Hv. apply andb_prop in Hv as [Hs Ham].
    pose proof (reversal_struct d b Hs Hr) as R. split; [exact R|].
    unfold rbatch_valid_gen. rewrite (bg_struct _ _ _ R), (bg_desc _ _ _ R), (HT_desc T HT), (bg_entries _ _ _ R).
    cbn [andb]. unfold batch_survives. fold pre arms. apply forallb_map_eq. intros e He.
    unfold all_reversible in Hr. rewrite forallb_forall in Hr, Ham.
    exact (amount_after e _ (Hr e He) (Ham e He)).
  Qed.

  (* a batch not described PRENOTE always survives (C13_batch_partial is this instance) *)
  Lemma survives_not_prenote b :
    rbatch_valid_gen ak T b = true -> is_prenote_desc (rb_desc b) = false -> batch_survives ak T b = true.
  Proof.
    intros Hv Hnp. unfold rbatch_valid_gen in Hv. apply andb_prop in Hv as [_ Ham]. rewrite Hnp in Ham.
    unfold batch_survives. apply forallb_forall. intros e He. rewrite forallb_forall in Ham. specialize (Ham e He).
    unfold amount_rule_gen, survives, amount_rule in *. fold pre in Ham |- *. destruct (ak (e_id e)); try reflexivity.
    rewrite orb_false_r in Ham. destruct (memz (e_code e) pre); [reflexivity|exact Ham].
  Qed.

  (* a batch described PRENOTE survives iff all its forward entries carry prenote codes *)
  Lemma survives_prenote b :
    rbatch_valid_gen ak T b = true -> is_prenote_desc (rb_desc b) = true ->
    batch_survives ak T b = forallb (prenote_coded ak pre) (rb_entries b).
  Proof.
    intros Hv Hp. unfold rbatch_valid_gen in Hv. apply andb_prop in Hv as [_ Ham]. rewrite Hp in Ham.
    unfold batch_survives. fold pre. rewrite <- (map_id (rb_entries b)) at 1. apply forallb_map_eq. intros e He.
    rewrite forallb_forall in Ham. specialize (Ham e He).
    unfold amount_rule_gen, survives, prenote_coded, amount_rule in *. fold pre in Ham. destruct (ak (e_id e)); try reflexivity.
    rewrite orb_true_r in Ham. apply Z.eqb_eq in Ham. rewrite Ham. cbn. apply orb_false_r.
  Qed.

  (* ---- double reversal *)

  Lemma rev_entry_invol e : reversible std (e_code e) = true -> rev_entry arms (rev_entry arms e) = e.
  Proof.
    intros Hr. destruct (props T HT _ Hr) as [_ _ _ _ Hi _ _]. destruct e as [c a i t].
    unfold rev_entry. cbn [e_code e_amount e_id e_trace] in *. fold arms in Hi. now rewrite Hi.
  Qed.

  Theorem reversal_twice_general d1 d2 b : all_reversible T b = true ->
    let b2 := reversal_batch T d2 (reversal_batch T d1 b) in
    rb_entries b2 = rb_entries b /\ rb_debit b2 = rb_debit b /\ rb_credit b2 = rb_credit b.
  Proof.
    intros Hr b2. subst b2. split; [|split].
    - rewrite !reversal_entries, map_map. rewrite <- (map_id (rb_entries b)) at 2.
      apply map_ext_in. intros e He. unfold all_reversible in Hr. rewrite forallb_forall in Hr. now apply rev_entry_invol, Hr.
    - destruct (reversal_fields d2 (reversal_batch T d1 b)) as (_ & _ & -> & _).
      now destruct (reversal_fields d1 b) as (_ & _ & _ & ->).
    - destruct (reversal_fields d2 (reversal_batch T d1 b)) as (_ & _ & _ & ->).
      now destruct (reversal_fields d1 b) as (_ & _ & -> & _).
  Qed.

  (* ---- offsets *)

  Lemma osum_rev o t es : forallb (fun e => reversible std (e_code e)) es = true -> t <> TNone ->
    osum off amt o t (map (rev_entry arms) es) = osum off amt o (opposite t) es.
  Proof.
    unfold amt, arms. intros Hall Ht. induction es as [|e r IH]; [reflexivity|].
    cbn [forallb] in Hall. apply andb_prop in Hall as [He Hr].
    cbn [map osum]. rewrite (goes_rev T HT t e He Ht), (IH Hr). reflexivity.
  Qed.

  (* the OFFSET entries are flipped with the others, so they keep balancing them: the offset
     debits still equal the other credits and the offset credits the other debits *)
  Theorem offsets_reversed d b : all_reversible T b = true ->
    offsets_consistent off amt (rb_entries (reversal_batch T d b)) = offsets_consistent off amt (rb_entries b)
    /\ offset_codes off (rb_entries (reversal_batch T d b)) = map (rev_code arms) (offset_codes off (rb_entries b)).
  Proof.
    intros Hr. unfold all_reversible in Hr. fold std in Hr. rewrite reversal_entries. split.
    - unfold offsets_consistent.
      rewrite !(osum_rev _ _ _ Hr) by congruence. cbn [opposite]. apply andb_comm.
    - unfold offset_codes. clear Hr. induction (rb_entries b) as [|e r IH]; [reflexivity|].
      cbn [map filter rev_entry e_id]. destruct (off (e_id e)); cbn [map e_code rev_entry]; now rewrite IH.
  Qed.

  (* ---- file level *)

  Definition file_all_reversible (f : rfile) : bool := forallb (all_reversible T) (rf_batches f).

  Record file_reversed_gen (d t : bytes) (f f' : rfile) : Prop := {
    fg_batches : Forall2 (batch_reversed_gen d) (rf_batches f) (rf_batches f');
    fg_date : rf_date f' = d;
    fg_time : rf_time f' = t;
    fg_debit : rf_debit f' = rf_credit f;
    fg_credit : rf_credit f' = rf_debit f;
    fg_valid : rfile_valid_gen ak T f' = forallb (batch_survives ak T) (rf_batches f) }.

  Theorem reversal_file_general d t f :
    rfile_valid_gen ak T f = true -> file_all_reversible f = true ->
    exists f', reversal_file T d t f = ROk f' /\ file_reversed_gen d t f f'.
  Proof.
    intros Hv Hr. unfold rfile_valid_gen in Hv.
    apply andb_prop in Hv as [Hv Hc]. apply andb_prop in Hv as [Hv Hd]. apply andb_prop in Hv as [Hne Hbs].
    apply Z.eqb_eq in Hc, Hd. unfold file_all_reversible in Hr.
    set (bs := rf_batches f) in *.
    set (bs' := map (reversal_batch T d) bs).
    assert (Hn : bs' <> []) by (subst bs'; destruct bs; [discriminate|cbn; congruence]).
    exists (mkrfile d t bs' (sum_debit bs') (sum_credit bs')). split.
    - unfold reversal_file. fold bs bs'. destruct bs'; [congruence|reflexivity].
    - assert (HF : Forall2 (batch_reversed_gen d) bs bs' /\ forallb (rbatch_valid_gen ak T) bs' = forallb (batch_survives ak T) bs).
      { subst bs'. clear Hn Hne Hc Hd. induction bs as [|b r IH]; [split; [constructor|reflexivity]|].
        cbn [forallb] in Hbs, Hr. apply andb_prop in Hbs as [Hb Hbs]. apply andb_prop in Hr as [Hrb Hr].
        destruct (IH Hbs Hr) as [IH1 IH2]. destruct (reversal_batch_general d b Hb Hrb) as [R V].
        cbn [map forallb]. split; [now constructor|now rewrite V, IH2]. }
      destruct HF as [HF HV]. destruct (sum_swapped T d bs) as [S1 S2].
      constructor; cbn [rf_batches rf_date rf_time rf_debit rf_credit]; try reflexivity.
      + exact HF.
      + fold bs'. subst bs'. rewrite S1. now rewrite Hc.
      + fold bs'. subst bs'. rewrite S2. now rewrite Hd.
      + unfold rfile_valid_gen. cbn [rf_batches rf_debit rf_credit]. rewrite !Z.eqb_refl, !andb_true_r, HV.
        destruct bs'; [congruence|reflexivity].
  Qed.
End WithTables.

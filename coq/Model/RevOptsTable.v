(* Phase 5 (C13 / C09): the source the option model of File.Reversal (ReversalOpts.v) and the
   validator model under options (ArithOpts.v) were written against, compared with the text
   regenerated on every run (Gen/RevOptsGen.v, translator/revopts.go):

   - File.Reversal: its calls in order (no Create / SetValidation on a batch), the one statement that
     rebuilds a batch — behind the `.( *Batch )` type assertion —, `return f.Create()`, no option read;
   - ( *Batch ).Validate / Create return an error unconditionally: a bare *Batch never validates, so
     the rebuild is dead for every file that validates;
   - File.Create: the checks before the tabulation and the options guarding them; the renumbering
     statement;
   - the options File.ValidateWith, isEntryAddendaCount, FileHeader.ValidateWith, Batch.verify and its
     helpers, ValidTranCodeForServiceClassCode and EntryDetail.Validate read, in source order.
   Equality with the expected list: any change there asks for a re-derivation of the models. *)
From Coq Require Import String List Bool.
From ACH Require Import MergeOptsTable.
Import ListNotations.
Open Scope string_scope.

Definition expected_rev_pins : list (string * string) :=
  [ ("Reversal:calls", "Format,Format,GetHeader,Format,GetEntries,GetControl,NewBatchControl,SetHeader,SetControl,build,Errorf,Create")
  ; ("Reversal:rebuild", "if bb, ok := f.Batches[i].(*Batch); ok { if err := bb.build(); err != nil { return fmt.Errorf(""rebuilding batch index %d failed: %v"", i, err) } }")
  ; ("Reversal:return", "return f.Create()")
  ; ("Reversal:options", "")
  ; ("Batch.Validate", "{ return errors.New(""use an implementation of batch or NewBatch"") }")
  ; ("Batch.Create", "{ return errors.New(""use an implementation of batch or NewBatch"") }")
  ; ("File.Create:renumber", "if f.Batches[i].GetHeader().BatchNumber <= 1 { f.Batches[i].GetHeader().BatchNumber = batchSeq f.Batches[i].GetControl().BatchNumber = batchSeq }")
  ; ("File.Create:prelude", "opts := f.validateOpts ;; if opts == nil { opts = &ValidateOpts{} } ;; if !opts.SkipAll { if !opts.AllowMissingFileHeader { if err := f.Header.Validate(); err != nil { return err } } if !opts.AllowZeroBatches && (len(f.Batches) <= 0 && len(f.IATBatches) <= 0) { return ErrFileNoBatches } }")
  ; ("File.ValidateWith:options", "SkipAll,AllowMissingFileHeader,AllowMissingFileControl,AllowUnorderedBatchNumbers,AllowMissingFileControl")
  ; ("File.isEntryAddendaCount:options", "UnequalAddendaCounts,UnequalAddendaCounts")
  ; ("FileHeader.ValidateWith:options", "BypassOriginValidation,RequireABAOrigin,BypassDestinationValidation,AllowSpecialCharacters")
  ; ("Batch.verify:options", "UnequalServiceClassCode,BypassCompanyIdentificationMatch,UnequalServiceClassCode,CustomTraceNumbers,CustomTraceNumbers")
  ; ("Batch.isBatchEntryCount:options", "UnequalAddendaCounts,UnequalAddendaCounts")
  ; ("Batch.isSequenceAscending:options", "CustomTraceNumbers")
  ; ("Batch.isTraceNumberODFI:options", "BypassOriginValidation")
  ; ("Batch.ValidTranCodeForServiceClassCode:options", "CheckTransactionCode")
  ; ("EntryDetail.Validate:options", "CheckTransactionCode,CheckTransactionCode,AllowSpecialCharacters,AllowInvalidCheckDigit") ].

Definition rev_pins_ok (pins : list (string * string)) : bool := spairs_eqb pins expected_rev_pins.

Definition pin_of (pins : list (string * string)) (name : string) : option string :=
  option_map snd (find (fun p => String.eqb (fst p) name) pins).

(* Phase 5 (C09 / C13): the executable views the correspondence extracts.  Definitions only.

   ValidMerge.v and ValidReversal.v name the validator model through module aliases
   (Module AR := ACH.Model.Arith), which monolithic extraction cannot process; this file states the
   same functions without them.  OptsViewFacts.v proves that they ARE the functions the theorems
   of Props/C09Opts.v and Props/C13OptsValid.v speak about ([xm_ofile_is], [xvf_arith_is],
   [reversal_file_x_is]). *)
From ACH Require Import ValidOut ArithOpts.
From Coq Require Import List NArith ZArith Bool.
From ACH Require Import Bytes Merge MergeOpts TxCodes RevTable Reversal.
Import ListNotations.
Open Scope Z_scope.

(* ---- merge: an output file of merge_files_o as the validator under options sees it ---------- *)

Section MergeView.
Variables (A : tables) (code : N -> Z) (rdfi chk : N -> bytes) (mo : N -> vopts).

Definition xm_entry (e : Merge.entry) : Arith.entry :=
  Arith.mkentry (code (Merge.e_id e)) (Merge.e_amount e) (rdfi (Merge.e_id e)) (chk (Merge.e_id e))
                (Merge.e_trace e) (e_addenda e).

Definition xm_obatch (rb : rbatcho) : vbatch :=
  mkvb (rbo_opts rb) (map (fun e => mo (Merge.e_id e)) (rbo_entries rb))
       (tabulate A KStd (h_scc (rbo_header rb)) (h_odfi (rbo_header rb)) (rbo_number rb) (map xm_entry (rbo_entries rb))).

Definition xm_ofile (g : rfileo) : vfile :=
  let bs := map xm_obatch (rfo_batches g) in
  mkvf (rfo_opts g) (rfo_origin g) (rfo_dest g) bs (tab_fctl_o A (map vb_b bs)).
End MergeView.

(* ---- reversal ---------------------------------------------------------------------------------- *)

Record vpay := mkvpay {
  vp_odfi : bytes; vp_number : Z;                                   (* header *)
  vp_count : Z; vp_hash : Z; vp_codfi : bytes; vp_cnumber : Z }.    (* control *)

Record vepay := mkvepay { ve_rdfi : bytes; ve_check : bytes; ve_trace : bytes; ve_addenda : Z }.

Record xvb := mkxvb { xv_opts : vopts; xv_eopts : list vopts; xv_pay : vpay; xv_b : rbatch }.

Record xvf := mkxvf {
  xvf_opts : vopts; xvf_origin : bytes; xvf_dest : bytes; xvf_date : bytes; xvf_time : bytes;
  xvf_batches : list xvb; xvf_ctl : fctl }.

Definition xv_entry (ep : N -> N -> vepay) (e : TxCodes.entry) : Arith.entry :=
  let q := ep (TxCodes.e_id e) (TxCodes.e_trace e) in
  Arith.mkentry (e_code e) (TxCodes.e_amount e) (ve_rdfi q) (ve_check q) (ve_trace q) (ve_addenda q).

Definition xv_batch (ep : N -> N -> vepay) (p : vpay) (b : rbatch) : batch :=
  mkbatch KStd (rb_scc_h b) (vp_odfi p) (vp_number p) (map (xv_entry ep) (rb_entries b))
          (mkbctl (rb_scc_c b) (vp_count p) (vp_hash p) (rb_debit b) (rb_credit b) (vp_codfi p) (vp_cnumber p)).

Definition xv_arith (ep : N -> N -> vepay) (x : xvb) : vbatch :=
  mkvb (xv_opts x) (xv_eopts x) (xv_batch ep (xv_pay x) (xv_b x)).

Definition xvf_arith (ep : N -> N -> vepay) (f : xvf) : vfile :=
  mkvf (xvf_opts f) (xvf_origin f) (xvf_dest f) (map (xv_arith ep) (xvf_batches f)) (xvf_ctl f).

Definition reversal_batch_x (T : rtables) (d : bytes) (x : xvb) : xvb :=
  mkxvb (xv_opts x) (xv_eopts x) (xv_pay x) (reversal_batch T d (xv_b x)).

Definition set_vpay_number (p : vpay) (n : Z) : vpay :=
  mkvpay (vp_odfi p) n (vp_count p) (vp_hash p) (vp_codfi p) n.

Fixpoint xv_renumber (seq : Z) (xs : list xvb) : list xvb :=
  match xs with
  | [] => []
  | x :: r =>
      (if vp_number (xv_pay x) <=? 1
       then mkxvb (xv_opts x) (xv_eopts x) (set_vpay_number (xv_pay x) seq) (xv_b x) else x)
      :: xv_renumber (seq + 1) r
  end.

Inductive xvres := XvOk (f : xvf) | XvErrHeader | XvErrNoBatches.

Definition reversal_file_x (A : tables) (T : rtables) (ep : N -> N -> vepay) (d t : bytes) (f : xvf) : xvres :=
  let o := xvf_opts f in
  let bs := map (reversal_batch_x T d) (xvf_batches f) in
  if negb (oflag ix_skip_all o) && negb (oflag ix_missing_header o)
     && negb (header_ok o (xvf_origin f) (xvf_dest f)) then XvErrHeader
  else if negb (oflag ix_skip_all o) && negb (oflag ix_zero_batches o)
          && match bs with [] => true | _ => false end then XvErrNoBatches
  else
    let bs' := xv_renumber 1 bs in
    XvOk (mkxvf o (xvf_origin f) (xvf_dest f) d t bs'
                (tab_fctl_o A (map (fun x => xv_batch ep (xv_pay x) (xv_b x)) bs'))).

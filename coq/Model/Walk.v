(* C10 — sequential model of walkDir (merge.go) over an abstract directory tree, and of
   DefaultFileAcceptor.  Executable definitions only.
   A directory listing is a [list node] in fs.ReadDir order; a discovered path is the
   list of its components (filepath.Join(dir, name) is rendered with "/" by the driver). *)
From ACH Require Import Bytes.

Inductive node := File (name : bytes) | Dir (name : bytes) (children : list node).

Definition path := list bytes.

(* walkDir as it stands: every non-directory entry is sent on discoveredPaths; a directory is
   descended into (before the remaining entries) only when opts.SubDirectories is set.
   [walk_node] is one iteration of the `for i := range items` loop. *)
Fixpoint walk_node (sub : bool) (prefix : path) (n : node) : list path :=
  match n with
  | File name => [prefix ++ [name]]
  | Dir name children =>
      if sub
      then (fix go (l : list node) : list path :=
              match l with
              | [] => []
              | c :: t => walk_node sub (prefix ++ [name]) c ++ go t
              end) children
      else []
  end.
Definition walk (sub : bool) (prefix : path) (items : list node) : list path :=
  flat_map (walk_node sub prefix) items.

(* walkDir before the repair ("return walkDir(sub-directory)"): the boolean says the loop
   returned, so the rest of the listing is lost *)
Fixpoint walk_node_unfixed (sub : bool) (prefix : path) (n : node) : list path * bool :=
  match n with
  | File name => ([prefix ++ [name]], false)
  | Dir name children =>
      if sub
      then ((fix go (l : list node) : list path :=
               match l with
               | [] => []
               | c :: t => let '(ps, stop) := walk_node_unfixed sub (prefix ++ [name]) c in
                           if stop then ps else ps ++ go t
               end) children, true)
      else ([], false)
  end.
Fixpoint walk_unfixed (sub : bool) (prefix : path) (items : list node) : list path :=
  match items with
  | [] => []
  | c :: t => let '(ps, stop) := walk_node_unfixed sub prefix c in
              if stop then ps else ps ++ walk_unfixed sub prefix t
  end.

Definition node_name (n : node) : bytes := match n with File name => name | Dir name _ => name end.

(* names within one listing are distinct, recursively (what fs.ReadDir guarantees) *)
Fixpoint names_distinct (l : list bytes) : bool :=
  match l with
  | [] => true
  | x :: t => negb (existsb (bytes_eqb x) t) && names_distinct t
  end.
Fixpoint wf_node (n : node) : bool :=
  match n with
  | File _ => true
  | Dir _ children =>
      names_distinct (map node_name children) &&
      (fix all (l : list node) : bool := match l with [] => true | c :: t => wf_node c && all t end) children
  end.
Definition well_formed (items : list node) : bool :=
  names_distinct (map node_name items) && forallb wf_node items.

(* ---------------------------------------------------------------- DefaultFileAcceptor *)
Inductive acceptance := Accept | AsJson | Skip.

Definition dot : N := 46%N.
Definition slash : N := 47%N.

(* filepath.Split: the file name is what follows the last '/' *)
Fixpoint base (l : bytes) : bytes :=
  match l with
  | [] => []
  | c :: t => if existsb (N.eqb slash) l then base t else l
  end.

(* filepath.Ext of a name without separator: the suffix starting at the last '.', else "" *)
Fixpoint ext (l : bytes) : bytes :=
  match l with
  | [] => []
  | c :: t => if existsb (N.eqb dot) t then ext t else if (c =? dot)%N then l else []
  end.

(* strings.ToLower restricted to ASCII letters (no other rune lower-cases to a letter of
   "achtxjson", see docs/C10.md) *)
Definition lower_byte (c : N) : N := if ((65 <=? c) && (c <=? 90))%N then (c + 32)%N else c.
Definition lower (l : bytes) : bytes := map lower_byte l.

Fixpoint lookup (k : bytes) (t : list (bytes * acceptance)) (dflt : acceptance) : acceptance :=
  match t with
  | [] => dflt
  | (k', v) :: rest => if bytes_eqb k k' then v else lookup k rest dflt
  end.

(* the acceptor as a function of the table the translator regenerates from the switch *)
Definition accept_with (t : list (bytes * acceptance)) (dflt : acceptance) (p : bytes) : acceptance :=
  lookup (lower (ext (base p))) t dflt.

(* the documented behaviour: "" / .ach / .txt Nacha, .json JSON, everything else skipped *)
Definition spec_table : list (bytes * acceptance) :=
  [ ([], Accept);
    ([46; 97; 99; 104]%N, Accept);
    ([46; 116; 120; 116]%N, Accept);
    ([46; 106; 115; 111; 110]%N, AsJson) ].
Definition spec_accept (p : bytes) : acceptance := accept_with spec_table Skip p.

Definition accepted (p : path) : bool :=
  match spec_accept (last p []) with Skip => false | _ => true end.

(* the paths MergeDir hands to readFile, in walk order *)
Definition accepted_paths (sub : bool) (items : list node) : list path :=
  filter accepted (walk sub [] items).

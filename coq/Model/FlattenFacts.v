(* C12 — facts about the Flatten model: conservation of entries for every
   admissible processing order, sortedness, maximality, idempotence, soundness
   of the certificate checker. *)
From ACH Require Import Bytes Flatten.
From Coq Require Import Permutation Sorted Lia ZifyBool.

(* ------------------------------------------------------------------ generic *)

Lemma kind_eqb_eq a b : kind_eqb a b = true <-> a = b.
Proof. destruct a, b; cbn; split; intros H; try easy. Qed.

Lemma kind_eqb_refl a : kind_eqb a a = true.
Proof. now destruct a. Qed.

Lemma bytes_eqb_refl a : bytes_eqb a a = true.
Proof. now apply bytes_eqb_eq. Qed.

Lemma bytes_eqb_sym a b : bytes_eqb a b = bytes_eqb b a.
Proof.
  destruct (bytes_eqb a b) eqn:E.
  - apply bytes_eqb_eq in E. subst. now rewrite bytes_eqb_refl.
  - destruct (bytes_eqb b a) eqn:E'; [|reflexivity].
    apply bytes_eqb_eq in E'. subst. now rewrite bytes_eqb_refl in E.
Qed.

Section SortFacts.
  Context {A : Type} (lt : A -> A -> bool).

  Lemma insert_by_perm x l : Permutation (insert_by lt x l) (x :: l).
  Proof.
    induction l as [|y l IH]; cbn; [reflexivity|].
    destruct (lt y x).
    - rewrite IH. apply perm_swap.
    - reflexivity.
  Qed.

  Lemma sort_by_perm l : Permutation (sort_by lt l) l.
  Proof.
    induction l as [|x l IH]; cbn; [reflexivity|].
    rewrite insert_by_perm. now constructor.
  Qed.

  Definition le_of (a b : A) : Prop := lt b a = false.

  Hypothesis lt_asym : forall a b, lt a b = true -> lt b a = false.

  Lemma insert_by_sorted x l : Sorted le_of l -> Sorted le_of (insert_by lt x l).
  Proof.
    induction l as [|y l IH]; cbn; intros Hs.
    - repeat constructor.
    - destruct (lt y x) eqn:E.
      + inversion Hs as [|? ? Hs' Hd]; subst. constructor; [now apply IH|].
        destruct l as [|z l]; cbn.
        * constructor. now apply lt_asym.
        * inversion Hd as [|? ? Hyz]; subst. destruct (lt z x); constructor; [exact Hyz|now apply lt_asym].
      + constructor; [exact Hs|]. constructor. exact E.
  Qed.

  Lemma sort_by_sorted l : Sorted le_of (sort_by lt l).
  Proof. induction l as [|x l IH]; cbn; [constructor|now apply insert_by_sorted]. Qed.

  (* sorting a sorted list changes nothing (this is what stability gives) *)
  Lemma sort_by_id l : Sorted le_of l -> sort_by lt l = l.
  Proof.
    induction l as [|x l IH]; cbn; intros Hs; [reflexivity|].
    inversion Hs as [|? ? Hs' Hd]; subst. rewrite (IH Hs').
    destruct l as [|y l]; cbn; [reflexivity|].
    inversion Hd as [|? ? Hxy]; subst. unfold le_of in Hxy. now rewrite Hxy.
  Qed.
End SortFacts.

(* ------------------------------------------------------------------ permutation helpers *)

Lemma filter_partition_perm {A} (f : A -> bool) l :
  Permutation (filter f l ++ filter (fun x => negb (f x)) l) l.
Proof.
  induction l as [|x l IH]; cbn; [reflexivity|].
  destruct (f x); cbn.
  - now constructor.
  - rewrite <- Permutation_middle. now constructor.
Qed.

Lemma flat_map_perm_pointwise {A B} (f g : A -> list B) l :
  (forall x, In x l -> Permutation (f x) (g x)) -> Permutation (flat_map f l) (flat_map g l).
Proof.
  induction l as [|x l IH]; cbn; intros H; [reflexivity|].
  apply Permutation_app; [apply H; now left|apply IH; intros y Hy; apply H; now right].
Qed.

Lemma sumZ_perm l l' : Permutation l l' -> sumZ l = sumZ l'.
Proof. induction 1; unfold sumZ in *; cbn [fold_right] in *; lia. Qed.

(* ------------------------------------------------------------------ consume / copy *)

Lemma copy_id b : copy b = b.
Proof.
  destruct b as [k s n es adv]. unfold copy, consume; cbn.
  rewrite kind_eqb_refl, Z.ltb_irrefl. reflexivity.
Qed.

Lemma consume_sig m c : b_sig (consume m c) = b_sig m.
Proof. unfold consume. now destruct (kind_eqb _ _). Qed.

Lemma consume_kind m c : b_kind (consume m c) = b_kind m.
Proof. unfold consume. now destruct (kind_eqb _ _). Qed.

Lemma can_merge_sig a b : can_merge a b = true -> b_sig a = b_sig b.
Proof. unfold can_merge. intros H. apply andb_prop in H as [_ H]. now apply bytes_eqb_eq. Qed.

Lemma ids_of_consume m c :
  b_kind m = b_kind c -> b_sig m = b_sig c ->
  ids_of (consume m c) = ids_of m ++ ids_of c.
Proof.
  intros Hk Hs. unfold consume. rewrite Hk, kind_eqb_refl. unfold ids_of; cbn.
  rewrite map_app, Hs. reflexivity.
Qed.

Lemma adv_ids_of_consume m c :
  b_kind m = b_kind c -> b_sig m = b_sig c ->
  adv_ids_of (consume m c) = adv_ids_of m ++ adv_ids_of c.
Proof.
  intros Hk Hs. unfold consume. rewrite Hk, kind_eqb_refl. unfold adv_ids_of; cbn.
  rewrite map_app, Hs. reflexivity.
Qed.

(* ------------------------------------------------------------------ conservation through the greedy loop *)

(* the kind is a function of the signature (the SEC code, columns 51-53 of the
   header, is IAT exactly for IATBatch headers) *)
Definition kinds_consistent (l : list batch) : Prop :=
  forall a b, In a l -> In b l -> b_sig a = b_sig b -> b_kind a = b_kind b.

Section Loop.
  (* K: the kind that goes with a signature *)
  Variable K : bytes -> kind.
  Definition kind_ok (b : batch) : Prop := b_kind b = K (b_sig b).

  Lemma merge_into_ids b g g' :
    kind_ok b -> Forall kind_ok g -> merge_into b g = Some g' ->
    Permutation (flat_map ids_of g') (flat_map ids_of g ++ ids_of b)
    /\ Permutation (flat_map adv_ids_of g') (flat_map adv_ids_of g ++ adv_ids_of b)
    /\ Forall kind_ok g'.
  Proof.
    intros Hb. revert g'. induction g as [|m g IH]; cbn; intros g' Hg H; [discriminate|].
    inversion Hg as [|? ? Hm Hg']; subst.
    destruct (can_merge b m) eqn:E.
    - injection H as <-. apply can_merge_sig in E.
      assert (Hk : b_kind m = b_kind b) by (unfold kind_ok in *; congruence).
      cbn. rewrite ids_of_consume, adv_ids_of_consume by congruence.
      repeat split.
      + rewrite <- !app_assoc. apply Permutation_app_head, Permutation_app_comm.
      + rewrite <- !app_assoc. apply Permutation_app_head, Permutation_app_comm.
      + constructor; [|exact Hg']. unfold kind_ok. now rewrite consume_kind, consume_sig.
    - destruct (merge_into b g) as [g''|] eqn:E'; [|discriminate]. injection H as <-.
      destruct (IH g'' Hg' eq_refl) as (P1 & P2 & F). cbn. repeat split.
      + rewrite P1. now rewrite app_assoc.
      + rewrite P2. now rewrite app_assoc.
      + now constructor.
  Qed.

  Lemma place_ids b g :
    kind_ok b -> Forall kind_ok g ->
    Permutation (flat_map ids_of (place b g)) (flat_map ids_of g ++ ids_of b)
    /\ Permutation (flat_map adv_ids_of (place b g)) (flat_map adv_ids_of g ++ adv_ids_of b)
    /\ Forall kind_ok (place b g).
  Proof.
    intros Hb Hg. unfold place. destruct (merge_into b g) as [g'|] eqn:E.
    - now apply merge_into_ids.
    - rewrite copy_id, !flat_map_app. cbn. rewrite !app_nil_r. repeat split; try reflexivity.
      apply Forall_app. split; [exact Hg|now constructor].
  Qed.

  Definition groups_kind_ok (gs : groups) : Prop := Forall kind_ok (all_batches gs).

  Lemma all_batches_cons s g gs : all_batches ((s, g) :: gs) = g ++ all_batches gs.
  Proof. reflexivity. Qed.

  Lemma step_ids b gs :
    kind_ok b -> groups_kind_ok gs ->
    Permutation (ids (all_batches (step b gs))) (ids (all_batches gs) ++ ids_of b)
    /\ Permutation (adv_ids (all_batches (step b gs))) (adv_ids (all_batches gs) ++ adv_ids_of b)
    /\ groups_kind_ok (step b gs).
  Proof.
    intros Hb. unfold groups_kind_ok, ids, adv_ids.
    induction gs as [|[s g] gs IH]; intros Hg.
    - cbn [step]. rewrite all_batches_cons. change (all_batches []) with (@nil batch).
      rewrite !app_nil_r. destruct (place_ids b [] Hb (Forall_nil _)) as (P1 & P2 & F). now repeat split.
    - cbn [step]. rewrite all_batches_cons in Hg. apply Forall_app in Hg as [Hg1 Hg2].
      destruct (bytes_eqb s (b_sig b)).
      + rewrite !all_batches_cons, !flat_map_app.
        destruct (place_ids b g Hb Hg1) as (P1 & P2 & F). repeat split.
        * rewrite P1. rewrite <- !app_assoc. apply Permutation_app_head, Permutation_app_comm.
        * rewrite P2. rewrite <- !app_assoc. apply Permutation_app_head, Permutation_app_comm.
        * apply Forall_app. now split.
      + rewrite !all_batches_cons, !flat_map_app.
        destruct (IH Hg2) as (P1 & P2 & F). repeat split.
        * rewrite P1. now rewrite app_assoc.
        * rewrite P2. now rewrite app_assoc.
        * apply Forall_app. now split.
  Qed.

  Lemma run_ids_gen order gs :
    Forall kind_ok order -> groups_kind_ok gs ->
    Permutation (ids (all_batches (fold_left (fun gs b => step b gs) order gs))) (ids (all_batches gs) ++ ids order)
    /\ Permutation (adv_ids (all_batches (fold_left (fun gs b => step b gs) order gs))) (adv_ids (all_batches gs) ++ adv_ids order).
  Proof.
    revert gs. induction order as [|b order IH]; intros gs Ho Hg; cbn [fold_left].
    - unfold ids, adv_ids. cbn. rewrite !app_nil_r. now split.
    - inversion Ho as [|? ? Hb Ho']; subst.
      destruct (step_ids b gs Hb Hg) as (P1 & P2 & F).
      destruct (IH (step b gs) Ho' F) as (Q1 & Q2). split.
      + rewrite Q1, P1. unfold ids. cbn. now rewrite app_assoc.
      + rewrite Q2, P2. unfold adv_ids. cbn. now rewrite app_assoc.
  Qed.
End Loop.

(* from the pairwise formulation to a function of the signature *)
Fixpoint kind_of_sig (l : list batch) (s : bytes) : kind :=
  match l with
  | [] => KStd
  | b :: l' => if bytes_eqb (b_sig b) s then b_kind b else kind_of_sig l' s
  end.

Lemma kind_of_sig_ok l : kinds_consistent l -> Forall (kind_ok (kind_of_sig l)) l.
Proof.
  intros H. apply Forall_forall. intros b Hb. unfold kind_ok.
  assert (G : forall l', incl l' l -> In b l' -> b_kind b = kind_of_sig l' (b_sig b)).
  { induction l' as [|c l' IH]; intros Hi Hin; [easy|]. cbn.
    destruct (bytes_eqb (b_sig c) (b_sig b)) eqn:E.
    - apply bytes_eqb_eq in E. symmetry. apply H; [apply Hi; now left|exact Hb|exact E].
    - destruct Hin as [->|Hin]; [now rewrite bytes_eqb_refl in E|].
      apply IH; [|exact Hin]. intros x Hx. apply Hi. now right. }
  apply G; [apply incl_refl|exact Hb].
Qed.

Lemma kinds_consistent_perm l l' : Permutation l l' -> kinds_consistent l -> kinds_consistent l'.
Proof.
  intros P H a b Ha Hb. apply H; eapply Permutation_in; try eassumption; now apply Permutation_sym.
Qed.

Lemma run_ids order :
  kinds_consistent order ->
  Permutation (ids (all_batches (run order))) (ids order)
  /\ Permutation (adv_ids (all_batches (run order))) (adv_ids order).
Proof.
  intros H. unfold run.
  destruct (run_ids_gen (kind_of_sig order) order [] (kind_of_sig_ok order H)) as (P1 & P2).
  - constructor.
  - now split.
Qed.

(* ------------------------------------------------------------------ conservation through finalize *)

Lemma ids_perm l l' : Permutation l l' -> Permutation (ids l) (ids l').
Proof. apply Permutation_flat_map. Qed.

Lemma adv_ids_perm l l' : Permutation l l' -> Permutation (adv_ids l) (adv_ids l').
Proof. apply Permutation_flat_map. Qed.

Lemma trace_ltb_asym a b : trace_ltb a b = true -> trace_ltb b a = false.
Proof.
  unfold trace_ltb. generalize (e_trace a) (e_trace b). clear.
  intros l. induction l as [|x l IH]; intros [|y l']; cbn; try easy.
  intros H. apply orb_prop in H.
  destruct (N.ltb_spec x y), (N.ltb_spec y x), (N.eqb_spec x y), (N.eqb_spec y x); cbn in *; try lia; try easy.
  - destruct H as [H|H]; [discriminate|]. now apply IH.
Qed.

Lemma ids_map_sort_entries l : Permutation (ids (map sort_entries l)) (ids l).
Proof.
  unfold ids. rewrite flat_map_concat_map, map_map, <- flat_map_concat_map.
  apply flat_map_perm_pointwise. intros b _. unfold ids_of, sort_entries; cbn.
  apply Permutation_map, sort_by_perm.
Qed.

Lemma adv_ids_map_sort_entries l : adv_ids (map sort_entries l) = adv_ids l.
Proof.
  unfold adv_ids. rewrite flat_map_concat_map, map_map, <- flat_map_concat_map. reflexivity.
Qed.

Lemma ids_renumber n l : ids (renumber n l) = ids l.
Proof. revert n. induction l as [|b l IH]; intros n; cbn; [reflexivity|]. unfold ids in *. cbn. now rewrite IH. Qed.

Lemma adv_ids_renumber n l : adv_ids (renumber n l) = adv_ids l.
Proof. revert n. induction l as [|b l IH]; intros n; cbn; [reflexivity|]. unfold adv_ids in *. cbn. now rewrite IH. Qed.

Lemma finalize_ids all :
  Permutation (ids (finalize all)) (ids all) /\ Permutation (adv_ids (finalize all)) (adv_ids all).
Proof.
  unfold finalize. rewrite ids_renumber, adv_ids_renumber. split.
  - rewrite (ids_perm _ _ (filter_partition_perm is_std _)), ids_map_sort_entries.
    apply ids_perm, sort_by_perm.
  - rewrite (adv_ids_perm _ _ (filter_partition_perm is_std _)), adv_ids_map_sort_entries.
    apply adv_ids_perm, sort_by_perm.
Qed.

Theorem flatten_conservation inp out :
  kinds_consistent inp -> flatten_spec inp out ->
  Permutation (ids out) (ids inp) /\ Permutation (adv_ids out) (adv_ids inp).
Proof.
  intros Hk (order & all & (Hperm & _) & Hall & ->).
  destruct (finalize_ids all) as (F1 & F2).
  destruct (run_ids order (kinds_consistent_perm _ _ (Permutation_sym Hperm) Hk)) as (R1 & R2).
  split.
  - rewrite F1, (ids_perm _ _ Hall), R1. now apply ids_perm.
  - rewrite F2, (adv_ids_perm _ _ Hall), R2. now apply adv_ids_perm.
Qed.

Theorem flatten_figures inp out :
  kinds_consistent inp -> flatten_spec inp out ->
  length (ids out) = length (ids inp) /\ entry_addenda_count out = entry_addenda_count inp
  /\ debit_total out = debit_total inp /\ credit_total out = credit_total inp.
Proof.
  intros Hk Hs. destruct (flatten_conservation inp out Hk Hs) as (P & _).
  unfold entry_addenda_count, debit_total, credit_total. repeat split.
  - now apply Permutation_length.
  - now apply sumZ_perm, Permutation_map.
  - now apply sumZ_perm, Permutation_map.
  - now apply sumZ_perm, Permutation_map.
Qed.

(* ------------------------------------------------------------------ the stable order and the certificate checker are admissible *)

Lemma count_ltb_asym a b : count_ltb a b = true -> count_ltb b a = false.
Proof. unfold count_ltb. intros H. apply Nat.ltb_lt in H. apply Nat.ltb_ge. lia. Qed.

Lemma stable_admissible inp : admissible inp (sort_by count_ltb inp).
Proof.
  split; [apply sort_by_perm|]. apply (sort_by_sorted count_ltb count_ltb_asym).
Qed.

Theorem flatten_stable_spec inp : flatten_spec inp (flatten_stable inp).
Proof.
  exists (sort_by count_ltb inp), (all_batches (run (sort_by count_ltb inp))).
  split; [apply stable_admissible|]. split; reflexivity.
Qed.

Lemma sorted_countb_spec l : sorted_countb l = true -> Sorted count_le l.
Proof.
  induction l as [|a l IH]; intros H; [constructor|].
  destruct l as [|b l]; [repeat constructor|].
  change (sorted_countb (a :: b :: l)) with (negb (count_ltb b a) && sorted_countb (b :: l)) in H.
  apply andb_prop in H as [H1 H2]. constructor; [now apply IH|].
  constructor. unfold count_le. now destruct (count_ltb b a).
Qed.

Lemma nodupb_spec l : nodupb l = true -> NoDup l.
Proof.
  induction l as [|x l IH]; cbn; intros H; [constructor|].
  apply andb_prop in H as [H1 H2]. constructor; [|now apply IH].
  intros Hin. destruct (existsb (Nat.eqb x) l) eqn:E; [discriminate|].
  assert (existsb (Nat.eqb x) l = true); [|congruence].
  apply existsb_exists. exists x. split; [exact Hin|apply Nat.eqb_refl].
Qed.

Lemma map_nth_seq {A} (l : list A) d : map (fun i => nth i l d) (seq 0 (length l)) = l.
Proof.
  induction l as [|x l IH]; [reflexivity|].
  cbn [length seq map nth]. f_equal. rewrite <- seq_shift, map_map. exact IH.
Qed.

Lemma perm_hintb_spec n hint : perm_hintb n hint = true -> Permutation hint (seq 0 n).
Proof.
  unfold perm_hintb. intros H. apply andb_prop in H as [H H3]. apply andb_prop in H as [H1 H2].
  apply Nat.eqb_eq in H1. apply nodupb_spec in H3.
  apply NoDup_Permutation_bis; [exact H3|rewrite seq_length; lia|].
  intros i Hi. apply in_seq. rewrite forallb_forall in H2. specialize (H2 i Hi).
  apply Nat.ltb_lt in H2. lia.
Qed.

Lemma apply_hint_perm inp hint :
  perm_hintb (length inp) hint = true -> Permutation (apply_hint inp hint) inp.
Proof.
  intros H. apply perm_hintb_spec in H. unfold apply_hint.
  rewrite (Permutation_map _ H). now rewrite map_nth_seq.
Qed.

(* soundness of the check used for more than 12 batches: whatever the hint,
   an accepted result is a result of the specification *)
Theorem flatten_hint_sound inp hint out :
  flatten_hint inp hint = Some out -> flatten_spec inp out.
Proof.
  unfold flatten_hint. destruct (perm_hintb _ _ && sorted_countb _) eqn:E; [|discriminate].
  intros H. injection H as <-. apply andb_prop in E as [E1 E2].
  exists (apply_hint inp hint), (all_batches (run (apply_hint inp hint))). split; [|split; reflexivity].
  split; [now apply apply_hint_perm|now apply sorted_countb_spec].
Qed.

(* ------------------------------------------------------------------ string order *)

Lemma lex_ltb_irrefl a : lex_ltb a a = false.
Proof. induction a as [|x a IH]; cbn; [reflexivity|]. rewrite N.ltb_irrefl, N.eqb_refl, IH. reflexivity. Qed.

Lemma lex_ltb_trans a b c : lex_ltb a b = true -> lex_ltb b c = true -> lex_ltb a c = true.
Proof.
  revert b c. induction a as [|x a IH]; intros [|y b] [|z c]; cbn; try easy.
  intros H1 H2.
  destruct (N.ltb_spec x y), (N.ltb_spec y z), (N.ltb_spec x z), (N.eqb_spec x y), (N.eqb_spec y z), (N.eqb_spec x z);
    cbn in *; try lia; try easy.
  eapply IH; eassumption.
Qed.

Lemma lex_ltb_total a b : lex_ltb a b = false -> lex_ltb b a = false -> a = b.
Proof.
  revert b. induction a as [|x a IH]; intros [|y b]; cbn; try easy.
  intros H1 H2.
  destruct (N.ltb_spec x y), (N.ltb_spec y x), (N.eqb_spec x y), (N.eqb_spec y x); cbn in *; try lia; try easy.
  subst. f_equal. now apply IH.
Qed.

Lemma lex_le_trans a b c : lex_ltb b a = false -> lex_ltb c b = false -> lex_ltb c a = false.
Proof.
  intros H1 H2. destruct (lex_ltb c a) eqn:E; [|reflexivity].
  destruct (lex_ltb a b) eqn:E2.
  - rewrite (lex_ltb_trans c a b E E2) in H2. discriminate.
  - assert (a = b) by now apply lex_ltb_total. subst. congruence.
Qed.

Definition trace_le (a b : entry) : Prop := trace_ltb b a = false.

(* ------------------------------------------------------------------ sortedness of the result *)

Lemma Forall_renumber (P : batch -> Prop) n l :
  (forall b m, P b -> P (mkBatch (b_kind b) (b_sig b) m (b_entries b) (b_adv b))) ->
  Forall P l -> Forall P (renumber n l).
Proof.
  intros HP. revert n. induction l as [|b l IH]; intros n H; cbn; [constructor|].
  inversion H; subst. constructor; [now apply HP|now apply IH].
Qed.

Lemma Forall_filter {A} (P : A -> Prop) f l : Forall P l -> Forall P (filter f l).
Proof.
  intros H. apply Forall_forall. intros x Hx. apply filter_In in Hx as [Hx _].
  rewrite Forall_forall in H. now apply H.
Qed.

Lemma Forall_finalize (P : batch -> Prop) all :
  (forall b m, P b -> P (mkBatch (b_kind b) (b_sig b) m (b_entries b) (b_adv b))) ->
  Forall P (map sort_entries all) -> Forall P (finalize all).
Proof.
  intros HP H. unfold finalize. apply Forall_renumber; [exact HP|].
  assert (G : Forall P (map sort_entries (sort_by num_ltb all))).
  { rewrite Forall_forall in *. intros x Hx. apply in_map_iff in Hx as (y & <- & Hy).
    apply H, in_map. eapply Permutation_in; [apply sort_by_perm|exact Hy]. }
  apply Forall_app. split; now apply Forall_filter.
Qed.

Theorem flatten_sorted inp out :
  flatten_spec inp out -> Forall (fun b => Sorted trace_le (b_entries b)) out.
Proof.
  intros (order & all & _ & _ & ->).
  apply Forall_finalize; [intros b m H; exact H|].
  apply Forall_forall. intros x Hx. apply in_map_iff in Hx as (y & <- & _). cbn.
  apply (sort_by_sorted trace_ltb trace_ltb_asym).
Qed.

(* ------------------------------------------------------------------ pairwise relations *)

Lemma fop_app {A} (R : A -> A -> Prop) l1 l2 :
  ForallOrdPairs R (l1 ++ l2) <->
  ForallOrdPairs R l1 /\ ForallOrdPairs R l2 /\ (forall x y, In x l1 -> In y l2 -> R x y).
Proof.
  induction l1 as [|a l1 IH]; cbn.
  - split; [intros H; repeat split; [constructor|exact H|easy]|now intros (_ & H & _)].
  - split.
    + intros H. inversion H as [|? ? Ha Hl]; subst. apply IH in Hl as (H1 & H2 & H3).
      apply Forall_app in Ha as [Ha1 Ha2]. repeat split; [now constructor|exact H2|].
      intros x y [->|Hx] Hy; [|now apply H3]. rewrite Forall_forall in Ha2. now apply Ha2.
    + intros (H1 & H2 & H3). inversion H1 as [|? ? Ha Hl]; subst. constructor.
      * apply Forall_app. split; [exact Ha|]. apply Forall_forall. intros y Hy. apply H3; [now left|exact Hy].
      * apply IH. repeat split; [exact Hl|exact H2|]. intros x y Hx Hy. apply H3; [now right|exact Hy].
Qed.

Lemma fop_perm {A} (R : A -> A -> Prop) l l' :
  (forall x y, R x y -> R y x) -> Permutation l l' -> ForallOrdPairs R l -> ForallOrdPairs R l'.
Proof.
  intros Hsym P. induction P as [|x l l' P IH|x y l|l l' l'' P1 IH1 P2 IH2]; intros H.
  - exact H.
  - inversion H as [|? ? Ha Hl]; subst. constructor; [|now apply IH].
    eapply Permutation_Forall; eassumption.
  - inversion H as [|? ? Ha Hl]; subst. inversion Hl as [|? ? Hb Hl']; subst.
    inversion Ha as [|? ? Hyx Ha']; subst.
    constructor; [constructor; [now apply Hsym|exact Hb]|]. constructor; assumption.
  - now apply IH2, IH1.
Qed.

Lemma fop_impl {A} (R R' : A -> A -> Prop) l :
  (forall x y, R x y -> R' x y) -> ForallOrdPairs R l -> ForallOrdPairs R' l.
Proof.
  intros Hi. induction 1 as [|a l Ha Hl IH]; constructor; [|exact IH].
  eapply Forall_impl; [|exact Ha]. intros y. apply Hi.
Qed.

Lemma fop_forall2 {A} (E R : A -> A -> Prop) l l' :
  (forall a a' b b', E a a' -> E b b' -> R a b -> R a' b') ->
  Forall2 E l l' -> ForallOrdPairs R l -> ForallOrdPairs R l'.
Proof.
  intros Hc F. induction F as [|a a' l l' Ha F IH]; intros H; [constructor|].
  inversion H as [|? ? Hal Hl]; subst. constructor; [|now apply IH].
  clear IH H Hl. induction F as [|b b' l l' Hb F IH]; [constructor|].
  inversion Hal; subst. constructor; [eapply Hc; eassumption|now apply IH].
Qed.

Lemma fop_nth {A} (R : A -> A -> Prop) l i j a b :
  ForallOrdPairs R l -> (i < j)%nat -> nth_error l i = Some a -> nth_error l j = Some b -> R a b.
Proof.
  intros H. revert i j. induction H as [|x l Hx Hl IH]; intros i j Hij Hi Hj.
  - destruct i; discriminate.
  - destruct j as [|j]; [lia|]. destruct i as [|i]; cbn in Hi, Hj.
    + injection Hi as ->. rewrite Forall_forall in Hx. apply Hx. eapply nth_error_In; eassumption.
    + apply (IH i j); [lia|assumption|assumption].
Qed.

(* ------------------------------------------------------------------ maximality *)

Definition Shares (a b : batch) : Prop := exists t, In t (traces a) /\ In t (traces b).

Lemma has_trace_spec t b : has_trace t b = true <-> In t (traces b).
Proof.
  unfold has_trace, traces. rewrite existsb_exists, in_map_iff. split.
  - intros (e & He & Heq). apply bytes_eqb_eq in Heq. now exists e.
  - intros (e & Heq & He). exists e. split; [exact He|]. now apply bytes_eqb_eq.
Qed.

Lemma shares_spec a b : shares a b = true <-> Shares a b.
Proof.
  unfold shares, Shares. rewrite existsb_exists. split.
  - intros (e & He & Ht). exists (e_trace e). split; [now apply in_map|now apply has_trace_spec].
  - intros (t & Ha & Hb). unfold traces in Ha. apply in_map_iff in Ha as (e & <- & He).
    exists e. split; [exact He|now apply has_trace_spec].
Qed.

Lemma Shares_sym a b : Shares a b -> Shares b a.
Proof. intros (t & H1 & H2). now exists t. Qed.

Lemma traces_consume m c t : In t (traces m) -> In t (traces (consume m c)).
Proof.
  unfold consume. destruct (kind_eqb _ _); [|easy]. unfold traces; cbn.
  rewrite map_app, in_app_iff. now left.
Qed.

(* canMerge refuses exactly when the signatures differ or a trace number is shared *)
Lemma can_merge_false a b :
  can_merge a b = false -> b_sig a = b_sig b -> Shares a b.
Proof.
  unfold can_merge. intros H Hs. rewrite Hs, bytes_eqb_refl, andb_true_r in H.
  destruct (forallb _ _) eqn:E in H; [discriminate|]. clear H.
  assert (G : exists e, In e (b_entries a) /\ has_trace (e_trace e) b = true).
  { induction (b_entries a) as [|e l IH]; cbn in E; [discriminate|].
    destruct (has_trace (e_trace e) b) eqn:Ht; cbn in E.
    - exists e. split; [now left|exact Ht].
    - destruct (IH E) as (e' & He' & Ht'). exists e'. split; [now right|exact Ht']. }
  destruct G as (e & He & Ht). exists (e_trace e). split; [now apply in_map|now apply has_trace_spec].
Qed.

Lemma can_merge_true_disjoint a b t :
  can_merge a b = true -> In t (traces a) -> ~ In t (traces b).
Proof.
  unfold can_merge. intros H Ha Hb. apply andb_prop in H as [H _].
  rewrite forallb_forall in H. unfold traces in Ha. apply in_map_iff in Ha as (e & <- & He).
  specialize (H e He). apply has_trace_spec in Hb. rewrite Hb in H. discriminate.
Qed.

Lemma Shares_not_mergeable a b : Shares a b -> can_merge a b = false.
Proof.
  intros (t & Ha & Hb). destruct (can_merge a b) eqn:E; [|reflexivity].
  exfalso. exact (can_merge_true_disjoint a b t E Ha Hb).
Qed.

Lemma merge_into_Forall (P : batch -> Prop) b g g' :
  (forall m, P m -> P (consume m b)) -> Forall P g -> merge_into b g = Some g' -> Forall P g'.
Proof.
  intros HP. revert g'. induction g as [|m g IH]; cbn; intros g' Hg H; [discriminate|].
  inversion Hg as [|? ? Hm Hg']; subst. destruct (can_merge b m).
  - injection H as <-. constructor; [now apply HP|exact Hg'].
  - destruct (merge_into b g) as [g''|]; [|discriminate]. injection H as <-.
    constructor; [exact Hm|now apply IH].
Qed.

Lemma merge_into_None b g : merge_into b g = None -> Forall (fun m => can_merge b m = false) g.
Proof.
  induction g as [|m g IH]; cbn; intros H; [constructor|].
  destruct (can_merge b m) eqn:E; [discriminate|].
  destruct (merge_into b g); [discriminate|]. constructor; [exact E|now apply IH].
Qed.

Lemma merge_into_fop b g g' :
  ForallOrdPairs Shares g -> merge_into b g = Some g' -> ForallOrdPairs Shares g'.
Proof.
  revert g'. induction g as [|m g IH]; cbn; intros g' Hg H; [discriminate|].
  inversion Hg as [|? ? Hm Hg']; subst. destruct (can_merge b m).
  - injection H as <-. constructor; [|exact Hg'].
    eapply Forall_impl; [|exact Hm]. intros x (t & H1 & H2). exists t. split; [now apply traces_consume|exact H2].
  - destruct (merge_into b g) as [g''|] eqn:E; [|discriminate]. injection H as <-.
    constructor; [|now apply IH].
    apply (merge_into_Forall (Shares m) b g g''); [|exact Hm|exact E].
    intros x (t & H1 & H2). exists t. split; [exact H1|now apply traces_consume].
Qed.

Lemma place_fop b g :
  ForallOrdPairs Shares g -> Forall (fun m => b_sig m = b_sig b) g -> ForallOrdPairs Shares (place b g).
Proof.
  intros Hg Hs. unfold place. destruct (merge_into b g) as [g'|] eqn:E.
  - now apply (merge_into_fop b g).
  - rewrite copy_id. apply fop_app. repeat split; [exact Hg|repeat constructor|].
    intros x y Hx [<-|[]]. apply Shares_sym, can_merge_false.
    + apply merge_into_None in E. rewrite Forall_forall in E. now apply E.
    + rewrite Forall_forall in Hs. symmetry. now apply Hs.
Qed.

Lemma place_sigs b g s :
  b_sig b = s -> Forall (fun m => b_sig m = s) g -> Forall (fun m => b_sig m = s) (place b g).
Proof.
  intros Hb Hg. unfold place. destruct (merge_into b g) as [g'|] eqn:E.
  - apply (merge_into_Forall _ b g g'); [|exact Hg|exact E]. intros m Hm. now rewrite consume_sig.
  - rewrite copy_id. apply Forall_app. split; [exact Hg|now constructor].
Qed.

(* invariant of newBatchesByHeader *)
Record groups_inv (gs : groups) : Prop := {
  gi_sigs : Forall (fun sg => Forall (fun m => b_sig m = fst sg) (snd sg)) gs;
  gi_keys : NoDup (map fst gs);
  gi_shares : Forall (fun sg => ForallOrdPairs Shares (snd sg)) gs
}.

Lemma step_keys b gs s : In s (map fst (step b gs)) -> In s (map fst gs) \/ s = b_sig b.
Proof.
  induction gs as [|[s' g] gs IH]; cbn.
  - intros [<-|[]]. now right.
  - destruct (bytes_eqb s' (b_sig b)); cbn.
    + intros H. now left.
    + intros [<-|H]; [left; now left|]. destruct (IH H) as [H'|H']; [left; now right|now right].
Qed.

Lemma step_inv b gs : groups_inv gs -> groups_inv (step b gs).
Proof.
  induction gs as [|[s g] gs IH]; intros [H1 H2 H3].
  - cbn [step]. split.
    + constructor; [|constructor]. cbn [fst snd]. apply place_sigs; [reflexivity|constructor].
    + cbn [map fst]. constructor; [easy|constructor].
    + constructor; [|constructor]. cbn [snd]. apply place_fop; constructor.
  - cbn [step]. inversion H1 as [|? ? H1a H1b]; subst. inversion H3 as [|? ? H3a H3b]; subst.
    cbn [map fst] in H2. inversion H2 as [|? ? H2a H2b]; subst. cbn [fst snd] in H1a, H3a.
    destruct (bytes_eqb s (b_sig b)) eqn:E.
    + apply bytes_eqb_eq in E. subst s. split.
      * constructor; [|exact H1b]. cbn [fst snd]. now apply place_sigs.
      * cbn [map fst]. now constructor.
      * constructor; [|exact H3b]. cbn [snd]. now apply place_fop.
    + destruct (IH (Build_groups_inv gs H1b H2b H3b)) as [I1 I2 I3]. split.
      * now constructor.
      * cbn [map fst]. constructor; [|exact I2]. intros Hin. apply step_keys in Hin as [Hin| ->]; [easy|].
        now rewrite bytes_eqb_refl in E.
      * now constructor.
Qed.

Lemma run_inv order : groups_inv (run order).
Proof.
  unfold run. assert (G : groups_inv []) by (split; constructor).
  revert G. generalize (@nil (bytes * list batch)). induction order as [|b order IH]; intros gs G; cbn; [exact G|].
  apply IH. now apply step_inv.
Qed.

(* equal signature implies a common trace number *)
Definition unmergeable (a b : batch) : Prop := b_sig a = b_sig b -> Shares a b.

Lemma unmergeable_sym a b : unmergeable a b -> unmergeable b a.
Proof. intros H Hs. apply Shares_sym, H. now symmetry. Qed.

Lemma in_all_batches m gs : In m (all_batches gs) -> exists s g, In (s, g) gs /\ In m g.
Proof.
  unfold all_batches. intros H. apply in_concat in H as (g & Hg & Hm).
  apply in_map_iff in Hg as ([s g'] & <- & Hin). now exists s, g'.
Qed.

Lemma groups_inv_flat gs : groups_inv gs -> ForallOrdPairs unmergeable (all_batches gs).
Proof.
  induction gs as [|[s g] gs IH]; intros [H1 H2 H3]; [constructor|].
  inversion H1 as [|? ? H1a H1b]; subst. inversion H3 as [|? ? H3a H3b]; subst.
  cbn in H2. inversion H2 as [|? ? H2a H2b]; subst. cbn in H1a, H3a.
  rewrite all_batches_cons. apply fop_app. repeat split.
  - eapply fop_impl; [|exact H3a]. intros x y H _. exact H.
  - apply IH. now split.
  - intros x y Hx Hy Hs. exfalso. apply H2a.
    apply in_all_batches in Hy as (s' & g' & Hin & Hy).
    rewrite Forall_forall in H1a, H1b. specialize (H1a x Hx). specialize (H1b (s', g') Hin). cbn in H1b.
    rewrite Forall_forall in H1b. specialize (H1b y Hy).
    apply in_map_iff. exists (s', g'). split; [cbn; congruence|exact Hin].
Qed.

Definition same_shape (a a' : batch) : Prop :=
  b_sig a = b_sig a' /\ (forall t, In t (traces a) <-> In t (traces a')).

Lemma unmergeable_shape a a' b b' :
  same_shape a a' -> same_shape b b' -> unmergeable a b -> unmergeable a' b'.
Proof.
  intros (S1 & T1) (S2 & T2) H Hs. destruct H as (t & Ha & Hb); [congruence|].
  exists t. split; [now apply T1|now apply T2].
Qed.

Lemma renumber_shape n l : Forall2 same_shape l (renumber n l).
Proof. revert n. induction l as [|b l IH]; intros n; cbn; constructor; [now split|apply IH]. Qed.

Lemma sort_entries_shape l : Forall2 same_shape l (map sort_entries l).
Proof.
  induction l as [|b l IH]; cbn; constructor; [|exact IH]. split; [reflexivity|].
  intros t. unfold traces; cbn. split; intros H; apply in_map_iff in H as (e & <- & He); apply in_map;
    eapply Permutation_in; try exact He; [apply Permutation_sym|]; apply sort_by_perm.
Qed.

Theorem flatten_maximal inp out : flatten_spec inp out -> ForallOrdPairs unmergeable out.
Proof.
  intros (order & all & _ & Hall & ->). unfold finalize.
  eapply fop_forall2; [apply unmergeable_shape|apply renumber_shape|].
  eapply (fop_perm unmergeable); [apply unmergeable_sym|apply Permutation_sym, (filter_partition_perm is_std)|].
  eapply fop_forall2; [apply unmergeable_shape|apply sort_entries_shape|].
  eapply (fop_perm unmergeable); [apply unmergeable_sym|apply Permutation_sym, sort_by_perm|].
  eapply (fop_perm unmergeable); [apply unmergeable_sym|apply Permutation_sym, Hall|].
  apply groups_inv_flat, run_inv.
Qed.

Theorem flatten_maximal_nth inp out i j a b :
  flatten_spec inp out -> i <> j -> nth_error out i = Some a -> nth_error out j = Some b ->
  b_sig a = b_sig b -> exists t, In t (traces a) /\ In t (traces b).
Proof.
  intros Hs Hij Hi Hj Hsig. pose proof (flatten_maximal inp out Hs) as H.
  destruct (Nat.lt_total i j) as [L|[L|L]]; [|easy|].
  - exact (fop_nth _ _ _ _ _ _ H L Hi Hj Hsig).
  - apply Shares_sym. apply (fop_nth _ _ _ _ _ _ H L Hj Hi). now symmetry.
Qed.

(* ------------------------------------------------------------------ idempotence *)

Lemma merge_into_none_intro b g :
  Forall (fun m => can_merge b m = false) g -> merge_into b g = None.
Proof.
  induction 1 as [|m g Hm Hg IH]; cbn; [reflexivity|]. now rewrite Hm, IH.
Qed.

(* a batch that no new batch accepts is appended as it is *)
Lemma step_nomerge b gs :
  Forall (fun m => can_merge b m = false) (all_batches gs) ->
  Permutation (all_batches (step b gs)) (b :: all_batches gs).
Proof.
  induction gs as [|[s g] gs IH]; intros H.
  - cbn [step]. unfold place. cbn [merge_into]. rewrite copy_id. reflexivity.
  - cbn [step]. rewrite all_batches_cons in H. apply Forall_app in H as [Hg Hgs].
    destruct (bytes_eqb s (b_sig b)).
    + rewrite !all_batches_cons. unfold place. rewrite (merge_into_none_intro b g Hg), copy_id.
      rewrite <- app_assoc. cbn [app]. symmetry. apply Permutation_middle.
    + rewrite !all_batches_cons. rewrite (IH Hgs). symmetry. apply Permutation_middle.
Qed.

Definition never_merge (a b : batch) : Prop := can_merge a b = false /\ can_merge b a = false.

Lemma unmergeable_never a b : unmergeable a b -> never_merge a b.
Proof.
  intros H. unfold never_merge.
  destruct (bytes_eqb (b_sig a) (b_sig b)) eqn:E.
  - apply bytes_eqb_eq in E. pose proof (H E) as Hs.
    split; [apply (Shares_not_mergeable a b Hs)|apply (Shares_not_mergeable b a (Shares_sym _ _ Hs))].
  - unfold can_merge. rewrite (bytes_eqb_sym (b_sig b)), E, !andb_false_r. now split.
Qed.

Lemma run_nomerge_gen order gs :
  ForallOrdPairs never_merge order ->
  (forall b m, In b order -> In m (all_batches gs) -> can_merge b m = false) ->
  Permutation (all_batches (fold_left (fun gs b => step b gs) order gs)) (all_batches gs ++ order).
Proof.
  revert gs. induction order as [|b order IH]; intros gs Hp Hc; cbn [fold_left].
  - now rewrite app_nil_r.
  - inversion Hp as [|? ? Hb Hp']; subst.
    assert (Hstep : Permutation (all_batches (step b gs)) (b :: all_batches gs)).
    { apply step_nomerge, Forall_forall. intros m Hm. apply Hc; [now left|exact Hm]. }
    rewrite IH; [| exact Hp' |].
    + rewrite Hstep. cbn. apply Permutation_middle.
    + intros c m Hc' Hm. eapply Permutation_in in Hm; [|exact Hstep].
      destruct Hm as [<-|Hm]; [|apply Hc; [now right|exact Hm]].
      rewrite Forall_forall in Hb. now apply Hb.
Qed.

Lemma run_nomerge order :
  ForallOrdPairs unmergeable order -> Permutation (all_batches (run order)) order.
Proof.
  intros H. unfold run. rewrite run_nomerge_gen; [reflexivity| |easy].
  eapply fop_impl; [|exact H]. apply unmergeable_never.
Qed.

(* uniqueness of the list sorted by batch number when the numbers are distinct *)
Definition num_lt (a b : batch) : Prop := (b_num a < b_num b)%Z.
Definition num_le (a b : batch) : Prop := (b_num a <= b_num b)%Z.

Lemma sorted_perm_unique s r :
  StronglySorted num_le s -> StronglySorted num_lt r -> Permutation s r -> s = r.
Proof.
  revert r. induction s as [|a s IH]; intros r Hs Hr P.
  - apply Permutation_nil in P. now subst.
  - destruct r as [|b r]; [apply Permutation_sym, Permutation_nil in P; discriminate|].
    inversion Hs as [|? ? Hs' Ha]; subst. inversion Hr as [|? ? Hr' Hb]; subst.
    assert (a = b) as ->.
    { assert (Ha' : In a (b :: r)) by (eapply Permutation_in; [exact P|now left]).
      assert (Hb' : In b (a :: s)) by (eapply Permutation_in; [apply Permutation_sym, P|now left]).
      destruct Ha' as [->|Ha']; [reflexivity|]. destruct Hb' as [->|Hb']; [reflexivity|].
      rewrite Forall_forall in Ha, Hb. specialize (Ha b Hb'). specialize (Hb a Ha').
      unfold num_le, num_lt in *. lia. }
    f_equal. apply IH; [exact Hs'|exact Hr'|]. now apply Permutation_cons_inv in P.
Qed.

Lemma num_ltb_asym a b : num_ltb a b = true -> num_ltb b a = false.
Proof. unfold num_ltb. lia. Qed.

Lemma sort_by_num_unique l r :
  Permutation l r -> StronglySorted num_lt r -> sort_by num_ltb l = r.
Proof.
  intros P Hr. apply sorted_perm_unique; [|exact Hr|now rewrite sort_by_perm].
  apply Sorted_StronglySorted.
  - intros a b c. unfold num_le. lia.
  - pose proof (sort_by_sorted num_ltb num_ltb_asym l) as H.
    eapply Sorted_ind with (P := fun l => Sorted num_le l); [constructor| |exact H].
    intros a l' _ Hl' Hd. constructor; [exact Hl'|].
    destruct Hd as [|b l'' Hab]; constructor. unfold le_of, num_ltb in Hab. unfold num_le. lia.
Qed.

(* shape of every result: numbered 1.. and Batcher batches before IAT batches *)
Definition canonical (r : list batch) : Prop :=
  exists S I, Forall (fun b => is_std b = true) S /\ Forall (fun b => is_iat b = true) I /\ r = renumber 1 (S ++ I).

Lemma finalize_canonical all : canonical (finalize all).
Proof.
  unfold finalize. eexists _, _. split; [|split; [|reflexivity]].
  - apply Forall_forall. intros x Hx. now apply filter_In in Hx.
  - apply Forall_forall. intros x Hx. now apply filter_In in Hx.
Qed.

Lemma renumber_app n l1 l2 :
  renumber n (l1 ++ l2) = renumber n l1 ++ renumber (n + Z.of_nat (length l1)) l2.
Proof.
  revert n. induction l1 as [|b l1 IH]; intros n; cbn [app renumber length].
  - f_equal. lia.
  - rewrite IH. do 3 f_equal. lia.
Qed.

Lemma renumber_idem n l : renumber n (renumber n l) = renumber n l.
Proof. revert n. induction l as [|b l IH]; intros n; cbn; [reflexivity|]. now rewrite IH. Qed.

Lemma renumber_lower n m l : (n <= m)%Z -> Forall (fun b => (n <= b_num b)%Z) (renumber m l).
Proof.
  revert m. induction l as [|b l IH]; intros m H; cbn; constructor; [cbn; lia|apply IH; lia].
Qed.

Lemma renumber_sorted n l : StronglySorted num_lt (renumber n l).
Proof.
  revert n. induction l as [|b l IH]; intros n; cbn; constructor; [apply IH|].
  eapply Forall_impl; [|apply (renumber_lower (n + 1) (n + 1)); lia]. intros c Hc. unfold num_lt. cbn beta in Hc. cbn [b_num]. lia.
Qed.

Lemma filter_all {A} (f : A -> bool) l : Forall (fun x => f x = true) l -> filter f l = l.
Proof. induction 1 as [|x l Hx Hl IH]; cbn; [reflexivity|]. now rewrite Hx, IH. Qed.

Lemma filter_none {A} (f : A -> bool) l : Forall (fun x => f x = false) l -> filter f l = [].
Proof. induction 1 as [|x l Hx Hl IH]; cbn; [reflexivity|]. now rewrite Hx, IH. Qed.

Lemma canonical_partition r :
  canonical r -> filter is_std r ++ filter is_iat r = r.
Proof.
  intros (S & I & HS & HI & ->). rewrite renumber_app, !filter_app.
  assert (S1 : Forall (fun b => is_std b = true) (renumber 1 S)) by (apply Forall_renumber; [intros b m H; exact H|exact HS]).
  assert (I1 : Forall (fun b => is_iat b = true) (renumber (1 + Z.of_nat (length S)) I)) by (apply Forall_renumber; [intros b m H; exact H|exact HI]).
  rewrite (filter_all is_std _ S1), (filter_all is_iat _ I1).
  rewrite (filter_none is_std), (filter_none is_iat), app_nil_r; [reflexivity| |].
  - eapply Forall_impl; [|exact S1]. intros b Hb. unfold is_iat. now rewrite Hb.
  - eapply Forall_impl; [|exact I1]. intros b Hb. unfold is_iat in Hb. now destruct (is_std b).
Qed.

Lemma sort_entries_id b : Sorted trace_le (b_entries b) -> sort_entries b = b.
Proof.
  intros H. destruct b as [k s n es adv]. unfold sort_entries; cbn in *. f_equal.
  now apply sort_by_id.
Qed.

Lemma map_sort_entries_id l :
  Forall (fun b => Sorted trace_le (b_entries b)) l -> map sort_entries l = l.
Proof. induction 1 as [|b l Hb Hl IH]; cbn; [reflexivity|]. now rewrite sort_entries_id, IH. Qed.

(* flattening a result of Flatten returns it unchanged — for every admissible
   order and every map iteration order of the second run *)
Theorem flatten_idempotent inp r r' :
  flatten_spec inp r -> flatten_spec r r' -> r' = r.
Proof.
  intros H1 (order & all & (Hperm & _) & Hall & ->).
  pose proof (flatten_maximal _ _ H1) as Hmax.
  pose proof (flatten_sorted _ _ H1) as Hsorted.
  assert (Hcan : canonical r) by (destruct H1 as (o & a & _ & _ & ->); apply finalize_canonical).
  assert (Hnum : StronglySorted num_lt r) by (destruct Hcan as (S & I & _ & _ & ->); apply renumber_sorted).
  assert (Hall' : Permutation all r).
  { rewrite Hall, run_nomerge; [exact Hperm|].
    eapply (fop_perm unmergeable); [apply unmergeable_sym|apply Permutation_sym, Hperm|exact Hmax]. }
  unfold finalize. rewrite (sort_by_num_unique all r Hall' Hnum), (map_sort_entries_id r Hsorted).
  rewrite (canonical_partition r Hcan). destruct Hcan as (S & I & _ & _ & ->). apply renumber_idem.
Qed.

(* ------------------------------------------------------------------ what the result offers to Create / Validate *)

(* a predicate on batches that survives Consume whenever canMerge allowed it *)
Section LoopInvariant.
  Variable P : batch -> Prop.
  Hypothesis P_consume : forall m b, P m -> P b -> can_merge b m = true -> P (consume m b).

  Lemma merge_into_P b g g' : P b -> Forall P g -> merge_into b g = Some g' -> Forall P g'.
  Proof.
    intros Hb. revert g'. induction g as [|m g IH]; cbn; intros g' Hg H; [discriminate|].
    inversion Hg as [|? ? Hm Hg']; subst. destruct (can_merge b m) eqn:E.
    - injection H as <-. constructor; [now apply P_consume|exact Hg'].
    - destruct (merge_into b g) as [g''|]; [|discriminate]. injection H as <-.
      constructor; [exact Hm|now apply IH].
  Qed.

  Lemma place_P b g : P b -> Forall P g -> Forall P (place b g).
  Proof.
    intros Hb Hg. unfold place. destruct (merge_into b g) as [g'|] eqn:E.
    - now apply (merge_into_P b g).
    - rewrite copy_id. apply Forall_app. split; [exact Hg|now constructor].
  Qed.

  Lemma step_P b gs : P b -> Forall P (all_batches gs) -> Forall P (all_batches (step b gs)).
  Proof.
    intros Hb. induction gs as [|[s g] gs IH]; intros H.
    - cbn [step]. rewrite all_batches_cons. apply Forall_app. split; [apply place_P; [exact Hb|constructor]|constructor].
    - cbn [step]. rewrite all_batches_cons in H. apply Forall_app in H as [H1 H2].
      destruct (bytes_eqb s (b_sig b)); rewrite all_batches_cons; apply Forall_app; split; auto using place_P.
  Qed.

  Lemma run_P order : Forall P order -> Forall P (all_batches (run order)).
  Proof.
    unfold run. assert (G : Forall P (all_batches [])) by constructor.
    revert G. generalize (@nil (bytes * list batch)).
    induction order as [|b order IH]; intros gs G H; cbn [fold_left]; [exact G|].
    inversion H; subst. apply IH; [now apply step_P|assumption].
  Qed.
End LoopInvariant.

Lemma nodup_app {A} (l1 l2 : list A) :
  NoDup l1 -> NoDup l2 -> (forall x, In x l2 -> ~ In x l1) -> NoDup (l1 ++ l2).
Proof.
  intros H1 H2 Hd. induction H1 as [|x l1 Hx H1 IH]; cbn; [exact H2|].
  constructor.
  - rewrite in_app_iff. intros [H|H]; [easy|]. apply (Hd x H). now left.
  - apply IH. intros y Hy Hin. apply (Hd y Hy). now right.
Qed.

Definition traces_nodup (b : batch) : Prop := NoDup (traces b).
Definition nonempty (b : batch) : Prop := b_entries b <> [] \/ b_adv b <> [].

Lemma traces_nodup_consume m b :
  traces_nodup m -> traces_nodup b -> can_merge b m = true -> traces_nodup (consume m b).
Proof.
  intros Hm Hb Hc. unfold consume. destruct (kind_eqb _ _); [|exact Hm].
  unfold traces_nodup, traces; cbn. rewrite map_app. apply nodup_app; [exact Hm|exact Hb|].
  intros t Ht. now apply (can_merge_true_disjoint b m t Hc).
Qed.

Lemma nonempty_consume m b : nonempty m -> nonempty b -> can_merge b m = true -> nonempty (consume m b).
Proof.
  intros Hm _ _. unfold consume. destruct (kind_eqb _ _); [|exact Hm].
  unfold nonempty in *; cbn. destruct Hm as [H|H]; [left|right]; intros E; apply app_eq_nil in E as [E _]; easy.
Qed.

Definition trace_lt (a b : entry) : Prop := trace_ltb a b = true.

Lemma trace_le_trans a b c : trace_le a b -> trace_le b c -> trace_le a c.
Proof. unfold trace_le, trace_ltb. apply lex_le_trans. Qed.

Lemma sorted_nodup_strict l :
  Sorted trace_le l -> NoDup (map e_trace l) -> StronglySorted trace_lt l.
Proof.
  intros Hs Hn. apply Sorted_StronglySorted in Hs; [|intros a b c; apply trace_le_trans].
  induction Hs as [|a l Hl IH Ha]; [constructor|].
  cbn in Hn. inversion Hn as [|? ? Hnotin Hn']; subst. constructor; [now apply IH|].
  apply Forall_forall. intros b Hb. rewrite Forall_forall in Ha. specialize (Ha b Hb).
  unfold trace_le, trace_lt, trace_ltb in *. destruct (lex_ltb (e_trace a) (e_trace b)) eqn:E; [reflexivity|].
  exfalso. apply Hnotin. rewrite (lex_ltb_total _ _ E Ha). now apply in_map.
Qed.

Lemma renumber_nth n l i b : nth_error (renumber n l) i = Some b -> b_num b = (n + Z.of_nat i)%Z.
Proof.
  revert n i. induction l as [|c l IH]; intros n i H; [destruct i; discriminate|].
  destruct i as [|i]; cbn in H.
  - injection H as <-. cbn. lia.
  - apply IH in H. lia.
Qed.

Definition cat_uniform (l : list batch) : Prop :=
  (forall p q, In p (ids l) -> In q (ids l) -> fst p = fst q -> e_cat (snd p) = e_cat (snd q)) /\
  (forall p q, In p (adv_ids l) -> In q (adv_ids l) -> fst p = fst q -> e_cat (snd p) = e_cat (snd q)).

Lemma in_ids b l e : In b l -> In e (b_entries b) -> In (b_sig b, e) (ids l).
Proof. intros Hb He. unfold ids. apply in_flat_map. exists b. split; [exact Hb|]. now apply in_map. Qed.

Lemma in_adv_ids b l e : In b l -> In e (b_adv b) -> In (b_sig b, e) (adv_ids l).
Proof. intros Hb He. unfold adv_ids. apply in_flat_map. exists b. split; [exact Hb|]. now apply in_map. Qed.

Lemma cat_uniform_ok l b : cat_uniform l -> In b l -> category_ok b = true.
Proof.
  intros (U1 & U2) Hb. unfold category_ok.
  destruct (b_entries b) as [|e0 [|e1 es]] eqn:E.
  - destruct (b_adv b) as [|a0 adv] eqn:Ea; [reflexivity|]. apply forallb_forall. intros a Ha.
    apply N.eqb_eq. apply (U2 (b_sig b, a) (b_sig b, a0)); [| |reflexivity]; apply in_adv_ids; try exact Hb;
      rewrite Ea; [exact Ha|now left].
  - reflexivity.
  - apply forallb_forall. intros e He. apply orb_true_iff. right. apply N.eqb_eq.
    apply (U1 (b_sig b, e) (b_sig b, e0)); [| |reflexivity]; apply in_ids; try exact Hb; rewrite E; [exact He|now left].
Qed.

Lemma cat_uniform_perm l l' :
  Permutation (ids l') (ids l) -> Permutation (adv_ids l') (adv_ids l) -> cat_uniform l -> cat_uniform l'.
Proof.
  intros P1 P2 (U1 & U2). split; intros p q Hp Hq; [apply U1|apply U2]; eapply Permutation_in; eassumption.
Qed.

(* without uniform categories the consolidated batch fails isCategory and
   Flatten returns an error although every input batch is fine *)
Theorem flatten_category inp out :
  kinds_consistent inp -> cat_uniform inp -> flatten_spec inp out -> checked out = Some out.
Proof.
  intros Hk Hu Hs. destruct (flatten_conservation inp out Hk Hs) as (P1 & P2).
  unfold checked. replace (forallb category_ok out) with true; [reflexivity|].
  symmetry. apply forallb_forall. intros b Hb. eapply cat_uniform_ok; [|exact Hb].
  eapply cat_uniform_perm; eassumption.
Qed.

Theorem flatten_wellformed inp out :
  Forall traces_nodup inp -> Forall nonempty inp -> flatten_spec inp out ->
  Forall (fun b => StronglySorted trace_lt (b_entries b) /\ nonempty b) out
  /\ (forall i b, nth_error out i = Some b -> b_num b = (1 + Z.of_nat i)%Z).
Proof.
  intros Hn He Hs. pose proof (flatten_sorted inp out Hs) as Hsorted.
  destruct Hs as (order & all & (Hperm & _) & Hall & ->). split.
  - assert (G : Forall (fun b => traces_nodup b /\ nonempty b) (finalize all)).
    { apply Forall_finalize; [intros b m H; exact H|].
      apply Forall_forall. intros x Hx. apply in_map_iff in Hx as (y & <- & Hy).
      assert (Hy' : traces_nodup y /\ nonempty y).
      { eapply Permutation_in in Hy; [|exact Hall].
        assert (F : Forall (fun b => traces_nodup b /\ nonempty b) (all_batches (run order))).
        { apply run_P.
          - intros m b (M1 & M2) (B1 & B2) Hc. split; [now apply traces_nodup_consume|now apply nonempty_consume].
          - apply Forall_forall. intros b Hb. eapply Permutation_in in Hb; [|exact Hperm].
            rewrite Forall_forall in Hn, He. split; [now apply Hn|now apply He]. }
        rewrite Forall_forall in F. now apply F. }
      destruct Hy' as (Y1 & Y2). split.
      - unfold traces_nodup, traces, sort_entries; cbn.
        eapply Permutation_NoDup; [|exact Y1]. apply Permutation_map, Permutation_sym, sort_by_perm.
      - unfold nonempty, sort_entries in *; cbn. destruct Y2 as [Y2|Y2]; [left|now right].
        intros E. apply Y2. pose proof (sort_by_perm trace_ltb (b_entries y)) as Pm. rewrite E in Pm.
        now apply Permutation_nil in Pm. }
    rewrite Forall_forall in *. intros b Hb. destruct (G b Hb) as (G1 & G2). split; [|exact G2].
    apply sorted_nodup_strict; [now apply Hsorted|exact G1].
  - intros i b H. unfold finalize in H. now apply renumber_nth in H.
Qed.

Theorem flatten_pairs inp out (P : bytes * entry -> Prop) :
  kinds_consistent inp -> flatten_spec inp out -> Forall P (ids inp) -> Forall P (ids out).
Proof.
  intros Hk Hs H. destruct (flatten_conservation inp out Hk Hs) as (P1 & _).
  eapply Permutation_Forall; [apply Permutation_sym, P1|exact H].
Qed.

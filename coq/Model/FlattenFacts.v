(* C12 — facts about the Flatten model: conservation of entries for every
   admissible processing order, sortedness, maximality, idempotence, soundness
   of the certificate checker. *)
From ACH Require Import Bytes Flatten.
From Coq Require Import Permutation Sorted Lia ZifyBool.

(* ------------------------------------------------------------------ generic *)

Lemma kind_eqb_eq a b : kind_eqb a b = true <-> a = b.
Proof. destruct a, b; cbn; split; intros H; try easy. Qed.

Lemma kind_eqb_refl a : kind_eqb a a = true.
Proof. now destruct a. Qed.

Lemma bytes_eqb_refl a : bytes_eqb a a = true.
Proof. now apply bytes_eqb_eq. Qed.

Lemma bytes_eqb_sym a b : bytes_eqb a b = bytes_eqb b a.
Proof.
  destruct (bytes_eqb a b) eqn:E.
  - apply bytes_eqb_eq in E. subst. now rewrite bytes_eqb_refl.
  - destruct (bytes_eqb b a) eqn:E'; [|reflexivity].
    apply bytes_eqb_eq in E'. subst. now rewrite bytes_eqb_refl in E.
Qed.

Section SortFacts.
  Context {A : Type} (lt : A -> A -> bool).

  Lemma insert_by_perm x l : Permutation (insert_by lt x l) (x :: l).
  Proof.
    induction l as [|y l IH]; cbn; [reflexivity|].
    destruct (lt y x).
    - rewrite IH. apply perm_swap.
    - reflexivity.
  Qed.

  Lemma sort_by_perm l : Permutation (sort_by lt l) l.
  Proof.
    induction l as [|x l IH]; cbn; [reflexivity|].
    rewrite insert_by_perm. now constructor.
  Qed.

  Definition le_of (a b : A) : Prop := lt b a = false.

  Hypothesis lt_asym : forall a b, lt a b = true -> lt b a = false.

  Lemma insert_by_sorted x l : Sorted le_of l -> Sorted le_of (insert_by lt x l).
  Proof.
    induction l as [|y l IH]; cbn; intros Hs.
    - repeat constructor.
    - destruct (lt y x) eqn:E.
      + inversion Hs as [|? ? Hs' Hd]; subst. constructor; [now apply IH|].
        destruct l as [|z l]; cbn.
        * constructor. now apply lt_asym.
        * inversion Hd as [|? ? Hyz]; subst. destruct (lt z x); constructor; [exact Hyz|now apply lt_asym].
      + constructor; [exact Hs|]. constructor. exact E.
  Qed.

  Lemma sort_by_sorted l : Sorted le_of (sort_by lt l).
  Proof. induction l as [|x l IH]; cbn; [constructor|now apply insert_by_sorted]. Qed.

  (* sorting a sorted list changes nothing (this is what stability gives) *)
  Lemma sort_by_id l : Sorted le_of l -> sort_by lt l = l.
  Proof.
    induction l as [|x l IH]; cbn; intros Hs; [reflexivity|].
    inversion Hs as [|? ? Hs' Hd]; subst. rewrite (IH Hs').
    destruct l as [|y l]; cbn; [reflexivity|].
    inversion Hd as [|? ? Hxy]; subst. unfold le_of in Hxy. now rewrite Hxy.
  Qed.
End SortFacts.

(* ------------------------------------------------------------------ permutation helpers *)

Lemma filter_partition_perm {A} (f : A -> bool) l :
  Permutation (filter f l ++ filter (fun x => negb (f x)) l) l.
Proof.
  induction l as [|x l IH]; cbn; [reflexivity|].
  destruct (f x); cbn.
  - now constructor.
  - rewrite <- Permutation_middle. now constructor.
Qed.

Lemma flat_map_perm_pointwise {A B} (f g : A -> list B) l :
  (forall x, In x l -> Permutation (f x) (g x)) -> Permutation (flat_map f l) (flat_map g l).
Proof.
  induction l as [|x l IH]; cbn; intros H; [reflexivity|].
  apply Permutation_app; [apply H; now left|apply IH; intros y Hy; apply H; now right].
Qed.

Lemma sumZ_perm l l' : Permutation l l' -> sumZ l = sumZ l'.
Proof. induction 1; unfold sumZ in *; cbn [fold_right] in *; lia. Qed.

(* ------------------------------------------------------------------ consume / copy *)

Lemma copy_id b : copy b = b.
Proof.
  destruct b as [k s n es adv]. unfold copy, consume; cbn.
  rewrite kind_eqb_refl, Z.ltb_irrefl. reflexivity.
Qed.

Lemma consume_sig m c : b_sig (consume m c) = b_sig m.
Proof. unfold consume. now destruct (kind_eqb _ _). Qed.

Lemma consume_kind m c : b_kind (consume m c) = b_kind m.
Proof. unfold consume. now destruct (kind_eqb _ _). Qed.

Lemma can_merge_sig a b : can_merge a b = true -> b_sig a = b_sig b.
Proof. unfold can_merge. intros H. apply andb_prop in H as [_ H]. now apply bytes_eqb_eq. Qed.

Lemma ids_of_consume m c :
  b_kind m = b_kind c -> b_sig m = b_sig c ->
  ids_of (consume m c) = ids_of m ++ ids_of c.
Proof.
  intros Hk Hs. unfold consume. rewrite Hk, kind_eqb_refl. unfold ids_of; cbn.
  rewrite map_app, Hs. reflexivity.
Qed.

Lemma adv_ids_of_consume m c :
  b_kind m = b_kind c -> b_sig m = b_sig c ->
  adv_ids_of (consume m c) = adv_ids_of m ++ adv_ids_of c.
Proof.
  intros Hk Hs. unfold consume. rewrite Hk, kind_eqb_refl. unfold adv_ids_of; cbn.
  rewrite map_app, Hs. reflexivity.
Qed.

(* ------------------------------------------------------------------ conservation through the greedy loop *)

(* the kind is a function of the signature (the SEC code, columns 51-53 of the
   header, is IAT exactly for IATBatch headers) *)
Definition kinds_consistent (l : list batch) : Prop :=
  forall a b, In a l -> In b l -> b_sig a = b_sig b -> b_kind a = b_kind b.

Section Loop.
  (* K: the kind that goes with a signature *)
  Variable K : bytes -> kind.
  Definition kind_ok (b : batch) : Prop := b_kind b = K (b_sig b).

  Lemma merge_into_ids b g g' :
    kind_ok b -> Forall kind_ok g -> merge_into b g = Some g' ->
    Permutation (flat_map ids_of g') (flat_map ids_of g ++ ids_of b)
    /\ Permutation (flat_map adv_ids_of g') (flat_map adv_ids_of g ++ adv_ids_of b)
    /\ Forall kind_ok g'.
  Proof.
    intros Hb. revert g'. induction g as [|m g IH]; cbn; intros g' Hg H; [discriminate|].
    inversion Hg as [|? ? Hm Hg']; subst.
    destruct (can_merge b m) eqn:E.
    - injection H as <-. apply can_merge_sig in E.
      assert (Hk : b_kind m = b_kind b) by (unfold kind_ok in *; congruence).
      cbn. rewrite ids_of_consume, adv_ids_of_consume by congruence.
      repeat split.
      + rewrite <- !app_assoc. apply Permutation_app_head, Permutation_app_comm.
      + rewrite <- !app_assoc. apply Permutation_app_head, Permutation_app_comm.
      + constructor; [|exact Hg']. unfold kind_ok. now rewrite consume_kind, consume_sig.
    - destruct (merge_into b g) as [g''|] eqn:E'; [|discriminate]. injection H as <-.
      destruct (IH g'' Hg' eq_refl) as (P1 & P2 & F). cbn. repeat split.
      + rewrite P1. now rewrite app_assoc.
      + rewrite P2. now rewrite app_assoc.
      + now constructor.
  Qed.

  Lemma place_ids b g :
    kind_ok b -> Forall kind_ok g ->
    Permutation (flat_map ids_of (place b g)) (flat_map ids_of g ++ ids_of b)
    /\ Permutation (flat_map adv_ids_of (place b g)) (flat_map adv_ids_of g ++ adv_ids_of b)
    /\ Forall kind_ok (place b g).
  Proof.
    intros Hb Hg. unfold place. destruct (merge_into b g) as [g'|] eqn:E.
    - now apply merge_into_ids.
    - rewrite copy_id, !flat_map_app. cbn. rewrite !app_nil_r. repeat split; try reflexivity.
      apply Forall_app. split; [exact Hg|now constructor].
  Qed.

  Definition groups_kind_ok (gs : groups) : Prop := Forall kind_ok (all_batches gs).

  Lemma all_batches_cons s g gs : all_batches ((s, g) :: gs) = g ++ all_batches gs.
  Proof. reflexivity. Qed.

  Lemma step_ids b gs :
    kind_ok b -> groups_kind_ok gs ->
    Permutation (ids (all_batches (step b gs))) (ids (all_batches gs) ++ ids_of b)
    /\ Permutation (adv_ids (all_batches (step b gs))) (adv_ids (all_batches gs) ++ adv_ids_of b)
    /\ groups_kind_ok (step b gs).
  Proof.
    intros Hb. unfold groups_kind_ok, ids, adv_ids.
    induction gs as [|[s g] gs IH]; intros Hg.
    - cbn [step]. rewrite all_batches_cons. change (all_batches []) with (@nil batch).
      rewrite !app_nil_r. destruct (place_ids b [] Hb (Forall_nil _)) as (P1 & P2 & F). now repeat split.
    - cbn [step]. rewrite all_batches_cons in Hg. apply Forall_app in Hg as [Hg1 Hg2].
      destruct (bytes_eqb s (b_sig b)).
      + rewrite !all_batches_cons, !flat_map_app.
        destruct (place_ids b g Hb Hg1) as (P1 & P2 & F). repeat split.
        * rewrite P1. rewrite <- !app_assoc. apply Permutation_app_head, Permutation_app_comm.
        * rewrite P2. rewrite <- !app_assoc. apply Permutation_app_head, Permutation_app_comm.
        * apply Forall_app. now split.
      + rewrite !all_batches_cons, !flat_map_app.
        destruct (IH Hg2) as (P1 & P2 & F). repeat split.
        * rewrite P1. now rewrite app_assoc.
        * rewrite P2. now rewrite app_assoc.
        * apply Forall_app. now split.
  Qed.

  Lemma run_ids_gen order gs :
    Forall kind_ok order -> groups_kind_ok gs ->
    Permutation (ids (all_batches (fold_left (fun gs b => step b gs) order gs))) (ids (all_batches gs) ++ ids order)
    /\ Permutation (adv_ids (all_batches (fold_left (fun gs b => step b gs) order gs))) (adv_ids (all_batches gs) ++ adv_ids order).
  Proof.
    revert gs. induction order as [|b order IH]; intros gs Ho Hg; cbn [fold_left].
    - unfold ids, adv_ids. cbn. rewrite !app_nil_r. now split.
    - inversion Ho as [|? ? Hb Ho']; subst.
      destruct (step_ids b gs Hb Hg) as (P1 & P2 & F).
      destruct (IH (step b gs) Ho' F) as (Q1 & Q2). split.
      + rewrite Q1, P1. unfold ids. cbn. now rewrite app_assoc.
      + rewrite Q2, P2. unfold adv_ids. cbn. now rewrite app_assoc.
  Qed.
End Loop.

(* from the pairwise formulation to a function of the signature *)
Fixpoint kind_of_sig (l : list batch) (s : bytes) : kind :=
  match l with
  | [] => KStd
  | b :: l' => if bytes_eqb (b_sig b) s then b_kind b else kind_of_sig l' s
  end.

Lemma kind_of_sig_ok l : kinds_consistent l -> Forall (kind_ok (kind_of_sig l)) l.
Proof.
  intros H. apply Forall_forall. intros b Hb. unfold kind_ok.
  assert (G : forall l', incl l' l -> In b l' -> b_kind b = kind_of_sig l' (b_sig b)).
  { induction l' as [|c l' IH]; intros Hi Hin; [easy|]. cbn.
    destruct (bytes_eqb (b_sig c) (b_sig b)) eqn:E.
    - apply bytes_eqb_eq in E. symmetry. apply H; [apply Hi; now left|exact Hb|exact E].
    - destruct Hin as [->|Hin]; [now rewrite bytes_eqb_refl in E|].
      apply IH; [|exact Hin]. intros x Hx. apply Hi. now right. }
  apply G; [apply incl_refl|exact Hb].
Qed.

Lemma kinds_consistent_perm l l' : Permutation l l' -> kinds_consistent l -> kinds_consistent l'.
Proof.
  intros P H a b Ha Hb. apply H; eapply Permutation_in; try eassumption; now apply Permutation_sym.
Qed.

Lemma run_ids order :
  kinds_consistent order ->
  Permutation (ids (all_batches (run order))) (ids order)
  /\ Permutation (adv_ids (all_batches (run order))) (adv_ids order).
Proof.
  intros H. unfold run.
  destruct (run_ids_gen (kind_of_sig order) order [] (kind_of_sig_ok order H)) as (P1 & P2).
  - constructor.
  - now split.
Qed.

(* ------------------------------------------------------------------ conservation through finalize *)

Lemma ids_perm l l' : Permutation l l' -> Permutation (ids l) (ids l').
Proof. apply Permutation_flat_map. Qed.

Lemma adv_ids_perm l l' : Permutation l l' -> Permutation (adv_ids l) (adv_ids l').
Proof. apply Permutation_flat_map. Qed.

Lemma trace_ltb_asym a b : trace_ltb a b = true -> trace_ltb b a = false.
Proof.
  unfold trace_ltb. generalize (e_trace a) (e_trace b). clear.
  intros l. induction l as [|x l IH]; intros [|y l']; cbn; try easy.
  intros H. apply orb_prop in H.
  destruct (N.ltb_spec x y), (N.ltb_spec y x), (N.eqb_spec x y), (N.eqb_spec y x); cbn in *; try lia; try easy.
  - destruct H as [H|H]; [discriminate|]. now apply IH.
Qed.

Lemma ids_map_sort_entries l : Permutation (ids (map sort_entries l)) (ids l).
Proof.
  unfold ids. rewrite flat_map_concat_map, map_map, <- flat_map_concat_map.
  apply flat_map_perm_pointwise. intros b _. unfold ids_of, sort_entries; cbn.
  apply Permutation_map, sort_by_perm.
Qed.

Lemma adv_ids_map_sort_entries l : adv_ids (map sort_entries l) = adv_ids l.
Proof.
  unfold adv_ids. rewrite flat_map_concat_map, map_map, <- flat_map_concat_map. reflexivity.
Qed.

Lemma ids_renumber n l : ids (renumber n l) = ids l.
Proof. revert n. induction l as [|b l IH]; intros n; cbn; [reflexivity|]. unfold ids in *. cbn. now rewrite IH. Qed.

Lemma adv_ids_renumber n l : adv_ids (renumber n l) = adv_ids l.
Proof. revert n. induction l as [|b l IH]; intros n; cbn; [reflexivity|]. unfold adv_ids in *. cbn. now rewrite IH. Qed.

Lemma finalize_ids all :
  Permutation (ids (finalize all)) (ids all) /\ Permutation (adv_ids (finalize all)) (adv_ids all).
Proof.
  unfold finalize. rewrite ids_renumber, adv_ids_renumber. split.
  - rewrite (ids_perm _ _ (filter_partition_perm is_std _)), ids_map_sort_entries.
    apply ids_perm, sort_by_perm.
  - rewrite (adv_ids_perm _ _ (filter_partition_perm is_std _)), adv_ids_map_sort_entries.
    apply adv_ids_perm, sort_by_perm.
Qed.

Theorem flatten_conservation inp out :
  kinds_consistent inp -> flatten_spec inp out ->
  Permutation (ids out) (ids inp) /\ Permutation (adv_ids out) (adv_ids inp).
Proof.
  intros Hk (order & all & (Hperm & _) & Hall & ->).
  destruct (finalize_ids all) as (F1 & F2).
  destruct (run_ids order (kinds_consistent_perm _ _ (Permutation_sym Hperm) Hk)) as (R1 & R2).
  split.
  - rewrite F1, (ids_perm _ _ Hall), R1. now apply ids_perm.
  - rewrite F2, (adv_ids_perm _ _ Hall), R2. now apply adv_ids_perm.
Qed.

Theorem flatten_figures inp out :
  kinds_consistent inp -> flatten_spec inp out ->
  length (ids out) = length (ids inp) /\ entry_addenda_count out = entry_addenda_count inp
  /\ debit_total out = debit_total inp /\ credit_total out = credit_total inp.
Proof.
  intros Hk Hs. destruct (flatten_conservation inp out Hk Hs) as (P & _).
  unfold entry_addenda_count, debit_total, credit_total. repeat split.
  - now apply Permutation_length.
  - now apply sumZ_perm, Permutation_map.
  - now apply sumZ_perm, Permutation_map.
  - now apply sumZ_perm, Permutation_map.
Qed.

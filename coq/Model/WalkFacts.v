(* C10 — walkDir returns exactly the files of the tree (nested ones when SubDirectories is
   set), each once; the acceptor table regenerated from DefaultFileAcceptor is the documented one. *)
From Coq Require Import Lia.
From ACH Require Import Bytes Walk.

Section node_ind2.
  Variable P : node -> Prop.
  Variable Q : list node -> Prop.
  Hypothesis HFile : forall name, P (File name).
  Hypothesis HDir : forall name ch, Q ch -> P (Dir name ch).
  Hypothesis HNil : Q [].
  Hypothesis HCons : forall c t, P c -> Q t -> Q (c :: t).
  Fixpoint node_ind2 (n : node) : P n :=
    match n with
    | File name => HFile name
    | Dir name ch =>
        HDir name ch ((fix go (l : list node) : Q l :=
                         match l with [] => HNil | c :: t => HCons c t (node_ind2 c) (go t) end) ch)
    end.
End node_ind2.

Lemma node_forall (P : node -> Prop) :
  (forall name, P (File name)) ->
  (forall name ch, (forall c, In c ch -> P c) -> P (Dir name ch)) ->
  forall n, P n.
Proof.
  intros HF HD. apply (node_ind2 P (fun l => forall c, In c l -> P c)); auto.
  - intros c H. destruct H.
  - intros c t Hc Ht x H. destruct H as [<-|Hx]; auto.
Qed.

Lemma walk_node_dir sub prefix name ch :
  walk_node sub prefix (Dir name ch) = if sub then walk sub (prefix ++ [name]) ch else [].
Proof.
  destruct sub; reflexivity.
Qed.

(* the files of a tree, by their relative path *)
Inductive reach_node (sub : bool) : path -> node -> Prop :=
| RN_file name : reach_node sub [name] (File name)
| RN_dir name ch c p : sub = true -> In c ch -> reach_node sub p c -> reach_node sub (name :: p) (Dir name ch).
Definition reach (sub : bool) (p : path) (items : list node) : Prop :=
  exists c, In c items /\ reach_node sub p c.

Lemma walk_node_complete sub : forall n prefix p,
  In p (walk_node sub prefix n) <-> exists q, p = prefix ++ q /\ reach_node sub q n.
Proof.
  apply (node_forall (fun n => forall prefix p,
          In p (walk_node sub prefix n) <-> exists q, p = prefix ++ q /\ reach_node sub q n)).
  - intros name prefix p. cbn. split.
    + intros [<-|[]]. exists [name]. split; auto. constructor.
    + intros (q & -> & R). inversion R; subst. now left.
  - intros name ch IH prefix p. rewrite walk_node_dir. destruct sub.
    + unfold walk. rewrite in_flat_map. split.
      * intros (c & Hc & Hp). apply (IH c Hc) in Hp as (q & -> & R).
        exists (name :: q). split; [now rewrite <- app_assoc|]. econstructor; eauto.
      * intros (q & -> & R). inversion R as [|? ? c q0 _ Hc R0]; subst. exists c. split; auto.
        apply (IH c Hc). exists q0. split; auto. now rewrite <- app_assoc.
    + split; [intros []|]. intros (q & _ & R). inversion R; discriminate.
Qed.

Theorem walk_complete sub items prefix p :
  In p (walk sub prefix items) <-> exists q, p = prefix ++ q /\ reach sub q items.
Proof.
  unfold walk, reach. rewrite in_flat_map. split.
  - intros (c & Hc & Hp). apply walk_node_complete in Hp as (q & -> & R). eauto.
  - intros (q & -> & c & Hc & R). exists c. split; auto. apply walk_node_complete. eauto.
Qed.

(* ---------------------------------------------------------------- each file once *)
Lemma reach_node_head sub q n : reach_node sub q n -> exists r, q = node_name n :: r.
Proof. intros R; inversion R; subst; cbn; eauto. Qed.

Lemma names_distinct_notin x l : negb (existsb (bytes_eqb x) l) = true -> ~ In x l.
Proof.
  intros H I. apply negb_true_iff in H.
  assert (E : existsb (bytes_eqb x) l = true) by (apply existsb_exists; exists x; split; auto; now apply bytes_eqb_eq).
  congruence.
Qed.

Lemma wf_node_dir name ch : wf_node (Dir name ch) = names_distinct (map node_name ch) && forallb wf_node ch.
Proof. reflexivity. Qed.

Lemma NoDup_app_intro {A} (l1 l2 : list A) :
  NoDup l1 -> NoDup l2 -> (forall x, In x l1 -> In x l2 -> False) -> NoDup (l1 ++ l2).
Proof.
  induction l1 as [|a l1 IH]; cbn; auto. intros H1 H2 D. inversion H1; subst. constructor.
  - rewrite in_app_iff. intros [I|I]; [contradiction|]. apply (D a); auto.
  - apply IH; auto. intros x I J. apply (D x); auto.
Qed.

Lemma walk_nodup_list sub prefix items :
  (forall c, In c items -> forall prefix, NoDup (walk_node sub prefix c)) ->
  names_distinct (map node_name items) = true -> NoDup (walk sub prefix items).
Proof.
  unfold walk. induction items as [|c t IH]; cbn [flat_map map names_distinct]; intros Hall Hn.
  - constructor.
  - apply andb_prop in Hn as [Hc Ht]. apply names_distinct_notin in Hc.
    apply NoDup_app_intro.
    + apply Hall. now left.
    + apply IH; auto. intros; apply Hall; now right.
    + intros p I J.
      apply walk_node_complete in I as (q & E & R).
      apply in_flat_map in J as (c' & Hc' & Hp).
      apply walk_node_complete in Hp as (q' & E' & R').
      apply reach_node_head in R as (r & ->). apply reach_node_head in R' as (r' & ->).
      rewrite E in E'. apply app_inv_head in E'. injection E' as En _.
      apply Hc. rewrite En. now apply in_map.
Qed.

Lemma walk_node_nodup sub : forall n, wf_node n = true -> forall prefix, NoDup (walk_node sub prefix n).
Proof.
  apply (node_forall (fun n => wf_node n = true -> forall prefix, NoDup (walk_node sub prefix n))).
  - intros name _ prefix. cbn. constructor; [intros []|constructor].
  - intros name ch IH W prefix. rewrite wf_node_dir in W. apply andb_prop in W as [W1 W2].
    rewrite walk_node_dir. destruct sub; [|constructor].
    apply walk_nodup_list; auto. intros c Hc. apply IH; auto.
    rewrite forallb_forall in W2. now apply W2.
Qed.

Theorem walk_nodup sub items prefix : well_formed items = true -> NoDup (walk sub prefix items).
Proof.
  unfold well_formed. intros W. apply andb_prop in W as [W1 W2].
  apply walk_nodup_list; auto. intros c Hc. apply walk_node_nodup.
  rewrite forallb_forall in W2. now apply W2.
Qed.

(* the accepted paths: exactly the reachable files whose name the acceptor takes, once each *)
Theorem accepted_paths_complete sub items p :
  In p (accepted_paths sub items) <-> reach sub p items /\ accepted p = true.
Proof.
  unfold accepted_paths. rewrite filter_In, walk_complete. cbn. split.
  - intros ((q & -> & R) & A). auto.
  - intros (R & A). split; auto. eauto.
Qed.

Theorem accepted_paths_nodup sub items : well_formed items = true -> NoDup (accepted_paths sub items).
Proof. intros W. apply NoDup_filter. now apply walk_nodup. Qed.

(* the code before the repair loses files: a file listed after a sub-directory *)
Definition unfixed_witness : list node := [Dir [97%N] [File [120%N]]; File [122%N]].
Lemma walk_unfixed_loses :
  reach true [[122%N]] unfixed_witness /\ ~ In [[122%N]] (walk_unfixed true [] unfixed_witness)
  /\ In [[122%N]] (walk true [] unfixed_witness).
Proof.
  split; [|split].
  - exists (File [122%N]). split; [right; now left|constructor].
  - cbn. intros [H|[]]. discriminate.
  - cbn. right. now left.
Qed.

(* non-vacuity of well_formed / nesting *)
Example walk_demo :
  well_formed [File [98%N]; Dir [97%N] [File [120%N]; Dir [100%N] [File [121%N]]]; File [122%N]] = true /\
  (walk true [] [File [98%N]; Dir [97%N] [File [120%N]; Dir [100%N] [File [121%N]]]; File [122%N]]
   = [[[98]]; [[97]; [120]]; [[97]; [100]; [121]]; [[122]]]%N) /\
  (walk false [] [File [98%N]; Dir [97%N] [File [120%N]]; File [122%N]] = [[[98]]; [[122]]]%N).
Proof. repeat split. Qed.

(* ---------------------------------------------------------------- acceptor table *)
Fixpoint keys {B} (t : list (bytes * B)) : list bytes := match t with [] => [] | (k, _) :: r => k :: keys r end.

Lemma lookup_notin k t d : ~ In k (keys t) -> lookup k t d = d.
Proof.
  induction t as [|[k' v] t IH]; cbn; auto. intros H.
  destruct (bytes_eqb k k') eqn:E.
  - apply bytes_eqb_eq in E. exfalso. apply H. now left.
  - apply IH. tauto.
Qed.

(* boolean check that a regenerated table denotes the documented acceptor *)
Definition acceptance_eqb (a b : acceptance) : bool :=
  match a, b with Accept, Accept | AsJson, AsJson | Skip, Skip => true | _, _ => false end.
Definition table_agrees (t : list (bytes * acceptance)) (d : acceptance) : bool :=
  acceptance_eqb d Skip &&
  forallb (fun k => acceptance_eqb (lookup k t d) (lookup k spec_table Skip)) (keys t ++ keys spec_table).

Lemma acceptance_eqb_eq a b : acceptance_eqb a b = true -> a = b.
Proof. destruct a, b; cbn; congruence. Qed.

Lemma in_keys_dec k (l : list bytes) : In k l \/ ~ In k l.
Proof.
  induction l as [|x l IH]; [now right|]. destruct (bytes_eqb k x) eqn:E.
  - apply bytes_eqb_eq in E. left. now left.
  - destruct IH as [I|I]; [left; now right|]. right. intros [<-|J]; auto.
    assert (bytes_eqb x x = true) by now apply bytes_eqb_eq. congruence.
Qed.

Theorem table_agrees_sound t d : table_agrees t d = true -> forall p, accept_with t d p = spec_accept p.
Proof.
  unfold table_agrees, accept_with, spec_accept, accept_with. intros H p.
  apply andb_prop in H as [Hd H]. apply acceptance_eqb_eq in Hd. subst d.
  rewrite forallb_forall in H. set (k := lower (ext (base p))).
  destruct (in_keys_dec k (keys t ++ keys spec_table)) as [I|I].
  - now apply acceptance_eqb_eq, H.
  - rewrite !lookup_notin; auto; intros J; apply I, in_or_app; auto.
Qed.

(* C03, general statements: proofs.
     - hash:    bc_hash = (Σ atoi (aba8 rdfi)) rem 10^10 for ALL stored strings; closed form of
                the summand for digit strings of every length; equality with the written
                8 column field exactly for 8 or 9 stored digits; no int64 wrap for any strings
     - totals:  for every mix of accepted codes the totals are the sums over the non-foreign
                codes by direction, and credit + debit + foreign = Σ amounts *)
From Coq Require Import Lia ZifyBool ZifyNat ZifyN.
From ACH Require Export ArithGen ArithFacts.
From ACH Require Import NumFacts Utf8Enc RuneFacts.
Open Scope Z_scope.

(* ---- atoi on short strings ------------------------------------------------ *)

Lemma pow10_mono a b : (a <= b)%nat -> 10 ^ Z.of_nat a <= 10 ^ Z.of_nat b.
Proof. intros H. apply Z.pow_le_mono_r; lia. Qed.

Lemma atoi_short s : (length s <= 8)%nat -> - 10 ^ 8 < atoi s < 10 ^ 8.
Proof.
  intros Hl. rewrite atoi_split. destruct s as [|b t]; [cbn; lia|].
  rewrite sign_split_cons. cbn [length] in Hl.
  destruct (b =? 45)%N eqn:E45; [|destruct (b =? 43)%N eqn:E43].
  - destruct t as [|c t']; [lia|]. destruct (forallb is_digit (c :: t')) eqn:Ed; [|lia].
    pose proof (digits_val_bound _ Ed) as B. pose proof (pow10_mono (length (c :: t')) 7 ltac:(lia)) as P.
    cbv zeta. change (Z.of_nat 7) with 7 in P. unfold min_int64.
    destruct (-9223372036854775808 <=? - digits_val (c :: t') 0) eqn:E; lia.
  - destruct t as [|c t']; [lia|]. destruct (forallb is_digit (c :: t')) eqn:Ed; [|lia].
    pose proof (digits_val_bound _ Ed) as B. pose proof (pow10_mono (length (c :: t')) 7 ltac:(lia)) as P.
    cbv zeta. change (Z.of_nat 7) with 7 in P. unfold max_int64.
    destruct (digits_val (c :: t') 0 <=? 9223372036854775807) eqn:E; lia.
  - destruct (forallb is_digit (b :: t)) eqn:Ed; [|lia].
    pose proof (digits_val_bound _ Ed) as B. pose proof (pow10_mono (length (b :: t)) 8 ltac:(cbn [length]; lia)) as P.
    cbv zeta. change (Z.of_nat 8) with 8 in P. unfold max_int64.
    destruct (digits_val (b :: t) 0 <=? 9223372036854775807) eqn:E; lia.
Qed.

Lemma firstn_length_le {A} n (l : list A) : (length (firstn n l) <= n)%nat.
Proof. rewrite firstn_length. lia. Qed.

Lemma aba8_length r : (length (aba8 r) <= 8)%nat.
Proof.
  unfold aba8. cbv zeta.
  destruct (10 <? rune_count r)%nat; [cbn; lia|].
  destruct (rune_count r =? 10)%nat.
  - destruct r as [|b t]; [cbn; lia|]. destruct ((b =? 48)%N || (b =? 49)%N); [apply firstn_length_le|cbn; lia].
  - destruct (negb (rune_count r =? 8)%nat && negb (rune_count r =? 9)%nat); [cbn; lia|apply firstn_length_le].
Qed.

(* every summand of the entry hash has at most eight digits, whatever is stored *)
Lemma aba8_num_range e : - 10 ^ 8 < aba8_num e < 10 ^ 8.
Proof. apply atoi_short, aba8_length. Qed.

Lemma hash_sum_aba8 es : hash_sum es = sumz aba8_num es.
Proof. induction es as [|e es IH]; cbn [hash_sum sumz]; [reflexivity|]. now rewrite IH. Qed.

Lemma hash_sum_range es : - (Z.of_nat (length es) * 10 ^ 8) <= hash_sum es <= Z.of_nat (length es) * 10 ^ 8.
Proof.
  induction es as [|e es IH]; cbn [hash_sum length]; [lia|].
  pose proof (aba8_num_range e) as B. unfold aba8_num in B. lia.
Qed.

(* Go int = int64: the routing-number sum cannot wrap, for ANY stored strings *)
Theorem no_overflow_hash_any es : Z.of_nat (length es) < 9 * 10 ^ 8 -> - 2 ^ 63 < hash_sum es < 2 ^ 63.
Proof.
  intros Hn. pose proof (hash_sum_range es) as B.
  assert (Z.of_nat (length es) * 10 ^ 8 < 2 ^ 63) by (change (2 ^ 63) with 9223372036854775808; lia). lia.
Qed.

(* ---- the summand on digit strings ----------------------------------------- *)

Lemma digits_firstn n s : forallb is_digit s = true -> forallb is_digit (firstn n s) = true.
Proof. apply RuneFacts.forallb_firstn. Qed.

Lemma atoi_digits_le8 s : forallb is_digit s = true -> (length s <= 8)%nat -> atoi s = digits_val s 0.
Proof.
  intros Hd Hl. destruct s as [|b t]; [reflexivity|].
  apply (ArithFacts.atoi_digits (b :: t)); [discriminate|exact Hd|lia].
Qed.

Theorem aba8_num_digits r : forallb is_digit r = true -> atoi (aba8 r) = aba8_digits_num r.
Proof.
  intros Hd. unfold aba8, aba8_digits_num. cbv zeta. rewrite (rune_count_digits r Hd).
  remember (length r) as n eqn:En.
  do 8 (destruct n as [|n]; [reflexivity|]).
  destruct n as [|n].
  { cbn [Nat.ltb Nat.leb Nat.eqb negb andb]. apply atoi_digits_le8; [now apply digits_firstn|apply firstn_length_le]. }
  destruct n as [|n].
  { cbn [Nat.ltb Nat.leb Nat.eqb negb andb]. apply atoi_digits_le8; [now apply digits_firstn|apply firstn_length_le]. }
  destruct n as [|n].
  { cbn [Nat.ltb Nat.leb Nat.eqb negb andb]. destruct r as [|b t]; [reflexivity|].
    destruct ((b =? 48)%N || (b =? 49)%N); [|reflexivity].
    cbn [forallb] in Hd. apply andb_prop in Hd as [_ Ht].
    apply atoi_digits_le8; [now apply digits_firstn|apply firstn_length_le]. }
  reflexivity.
Qed.

Lemma digits_val_zeros k s : digits_val (zeros k ++ s) 0 = digits_val s 0.
Proof. induction k as [|k IH]; [reflexivity|]. cbn [zeros repeat app digits_val]. exact IH. Qed.

Lemma digits_asciib s : forallb is_digit s = true -> asciib s = true.
Proof. intros H. unfold asciib. now apply digits_ascii. Qed.

(* the number in the 8 routing columns of the written record, for digit strings of
   any length: the first eight digits (shorter strings are zero padded on the left) *)
Theorem rdfi_num_digits e : forallb is_digit (en_rdfi e) = true ->
  rdfi_num e = digits_val (firstn 8 (en_rdfi e)) 0.
Proof.
  intros Hd. unfold rdfi_num, rdfi_field, stringField. cbv zeta. rewrite (rune_count_digits _ Hd).
  destruct (Nat.ltb_spec 8 (length (en_rdfi e))) as [Hlt|Hge].
  - unfold rune_prefix. rewrite (runes_ascii _ (digits_asciib _ Hd)).
    rewrite encode_ascii; [reflexivity|]. apply digits_asciib. now apply digits_firstn.
  - rewrite digits_val_zeros. now rewrite firstn_all2 by lia.
Qed.

(* 8 or 9 stored digits: the hash summand IS the written field *)
Theorem aba8_num_89 e : rdfi_89 e -> aba8_num e = rdfi_num e.
Proof.
  intros [Hl Hd]. unfold aba8_num. rewrite (aba8_num_digits _ Hd), (rdfi_num_digits e Hd).
  unfold aba8_digits_num. destruct Hl as [-> | ->]; reflexivity.
Qed.

Lemma rdfi_wf_89 e : rdfi_wf e -> rdfi_89 e.
Proof. intros [Hl Hd]. split; [now left|exact Hd]. Qed.

Lemma rdfi_num_range e : forallb is_digit (en_rdfi e) = true -> 0 <= rdfi_num e < 10 ^ 8.
Proof.
  intros Hd. rewrite (rdfi_num_digits e Hd).
  pose proof (digits_val_bound _ (digits_firstn 8 _ Hd)) as B.
  pose proof (pow10_mono _ 8 (firstn_length_le 8 (en_rdfi e))) as P. change (Z.of_nat 8) with 8 in P. lia.
Qed.

Lemma sumz_ext {A} (g h : A -> Z) l : Forall (fun x => g x = h x) l -> sumz g l = sumz h l.
Proof. induction 1 as [|x l Hx _ IH]; cbn [sumz]; [reflexivity|]. now rewrite Hx, IH. Qed.

Lemma sumz_nonneg {A} (g : A -> Z) l : Forall (fun x => 0 <= g x) l -> 0 <= sumz g l.
Proof. induction 1 as [|x l Hx _ IH]; cbn [sumz]; lia. Qed.

Theorem gen_hash_89 es : Forall rdfi_89 es -> gen_hash es = spec_hash es.
Proof.
  intros H. unfold gen_hash, spec_hash.
  rewrite (sumz_ext aba8_num rdfi_num es) by (eapply Forall_impl; [|exact H]; intros e He; now apply aba8_num_89).
  apply Z.rem_mod_nonneg; [|lia]. apply sumz_nonneg.
  eapply Forall_impl; [|exact H]. intros e [_ Hd]. pose proof (rdfi_num_range e Hd). lia.
Qed.

(* for digit strings of every length: the sum of the closed forms, modulo 10^10 *)
Theorem gen_hash_digits es : Forall (fun e => forallb is_digit (en_rdfi e) = true) es ->
  gen_hash es = sumz (fun e => aba8_digits_num (en_rdfi e)) es mod 10 ^ 10.
Proof.
  intros H. unfold gen_hash.
  rewrite (sumz_ext aba8_num (fun e => aba8_digits_num (en_rdfi e)) es)
    by (eapply Forall_impl; [|exact H]; intros e He; now apply aba8_num_digits).
  apply Z.rem_mod_nonneg; [|lia]. apply sumz_nonneg.
  eapply Forall_impl; [|exact H]. intros e. cbv beta. generalize (en_rdfi e) as r. intros r Hd.
  rewrite <- (aba8_num_digits _ Hd). unfold aba8.  cbv zeta. rewrite (rune_count_digits _ Hd).
  assert (Hnn : forall s, forallb is_digit s = true -> 0 <= atoi (firstn 8 s)).
  { intros s Hs. rewrite atoi_digits_le8 by (try apply digits_firstn; try apply firstn_length_le; assumption).
    pose proof (digits_val_bound _ (digits_firstn 8 s Hs)). lia. }
  destruct (10 <? length r)%nat; [cbn; lia|].
  destruct (length r =? 10)%nat.
  - destruct r as [|b t]; [cbn; lia|]. cbn [forallb] in Hd. apply andb_prop in Hd as [_ Ht].
    destruct ((b =? 48)%N || (b =? 49)%N); [now apply Hnn|cbn; lia].
  - destruct (negb (length r =? 8)%nat && negb (length r =? 9)%nat); [cbn; lia|now apply Hnn].
Qed.

(* ---- totals for arbitrary code mixes ---------------------------------------- *)

Lemma adv_code_out c : ~ (0 <= c < 100) -> adv_code c = false.
Proof. unfold adv_code. lia. Qed.

Lemma sum_where_split3 (p q r : entry -> bool) es :
  Forall (fun e => (if p e then 1 else 0) + (if q e then 1 else 0) + (if r e then 1 else 0) = 1) es ->
  sum_where p es + sum_where q es + sum_where r es = sumz en_amount es.
Proof.
  induction 1 as [|e es He _ IH]; cbn [sum_where sumz]; [reflexivity|].
  destruct (p e), (q e), (r e); lia.
Qed.

Lemma sum_where_false p es : Forall (fun e => p e = false) es -> sum_where p es = 0.
Proof. induction 1 as [|e es He _ IH]; cbn [sum_where]; [reflexivity|]. rewrite He, IH. reflexivity. Qed.

Section General.
Variable T : tables.
Hypothesis HT : tables_ok T = true.
Hypothesis HA : advcodes_ok T = true.

Lemma advcodes_sound c : memz c (t_advcodes T) = adv_code c.
Proof.
  destruct (lists_parts T HT) as (_ & _ & _ & _ & _ & _ & _ & L8).
  destruct (Z_le_gt_dec 0 c) as [H0|H0]; [destruct (Z_lt_ge_dec c 100) as [H1|H1]|].
  - pose proof HA as H. unfold advcodes_ok in H. rewrite forallb_forall in H.
    specialize (H c (in_codes100 c (conj H0 H1))). now apply Bool.eqb_prop in H.
  - rewrite (memz_out _ _ L8), adv_code_out by lia. reflexivity.
  - rewrite (memz_out _ _ L8), adv_code_out by lia. reflexivity.
Qed.

(* which total an accepted entry of an accepted batch is added to *)
Lemma direction_general b : validate_batch T b = ROk ->
  Forall (fun e => adds_credit T (bt_kind b) (en_code e) = gen_is_credit (bt_kind b) (en_code e) /\
                   adds_debit T (bt_kind b) (en_code e) = gen_is_debit (bt_kind b) (en_code e) /\
                   (if foreign (bt_kind b) (en_code e) then 1 else 0)
                   + (if gen_is_credit (bt_kind b) (en_code e) then 1 else 0)
                   + (if gen_is_debit (bt_kind b) (en_code e) then 1 else 0) = 1) (bt_entries b).
Proof.
  intros Hv. pose proof (verify_facts T b (validate_batch_verify T b Hv)) as F.
  pose proof (bf_entries T b F) as He.
  assert (Hcodes : Forall (fun e => memz (en_code e) (t_codes T) = true) (bt_entries b)).
  { eapply Forall_impl; [|exact He]. intros e H. now apply validate_entry_facts in H. }
  unfold gen_is_credit, gen_is_debit.
  destruct (bt_kind b) eqn:Ek.
  - pose proof (std_no_adv_codes T b Ek Hv) as Hna.
    rewrite Forall_forall in *. intros e Hin.
    assert (Hs : std_code T (en_code e) = true) by (unfold std_code; now rewrite (Hcodes e Hin), (Hna e Hin)).
    pose proof (std_code_one_direction T HT KStd (en_code e) ltac:(discriminate) Hs) as Hx.
    destruct (direction_sound T HT KStd (en_code e) ltac:(discriminate)) as [Ec Ed].
    rewrite Ec, Ed in Hx |- *. rewrite Hs in Hx |- *. cbn [foreign negb andb] in *.
    repeat split. destruct (spec_is_credit KStd (en_code e)), (spec_is_debit KStd (en_code e)); cbn in Hx; try discriminate; reflexivity.
  - rewrite Forall_forall in *. intros e Hin.
    destruct (direction_sound T HT KIAT (en_code e) ltac:(discriminate)) as [Ec Ed].
    rewrite Ec, Ed. unfold std_code. rewrite (Hcodes e Hin), advcodes_sound. cbn [foreign andb].
    repeat split. destruct (adv_code (en_code e)) eqn:Ea; cbn [negb andb]; [reflexivity|].
    assert (Hs : std_code T (en_code e) = true) by (unfold std_code; now rewrite (Hcodes e Hin), advcodes_sound, Ea).
    pose proof (std_code_one_direction T HT KIAT (en_code e) ltac:(discriminate) Hs) as Hx.
    rewrite Ec, Ed, Hs in Hx. cbn [andb] in Hx.
    destruct (spec_is_credit KIAT (en_code e)), (spec_is_debit KIAT (en_code e)); cbn in Hx; try discriminate; reflexivity.
  - rewrite Forall_forall in *. intros e Hin.
    destruct (direction_sound_adv T HT (en_code e)) as [Ec Ed].
    rewrite Ec, Ed, advcodes_sound. cbn [foreign]. rewrite Bool.negb_involutive.
    repeat split. destruct (adv_code (en_code e)); cbn [negb andb]; [|reflexivity].
    unfold spec_is_credit, spec_is_debit. rewrite <- Z.negb_odd. destruct (Z.odd (en_code e)); reflexivity.
Qed.

(* the general batch theorem: no hypothesis on the routing strings, none on the code mix *)
Theorem batch_arith_general b : validate_batch T b = ROk ->
  bc_count (bt_ctl b) = spec_count (bt_entries b) /\
  bc_debit (bt_ctl b) = gen_debit (bt_kind b) (bt_entries b) /\
  bc_credit (bt_ctl b) = gen_credit (bt_kind b) (bt_entries b) /\
  bt_class b = bc_class (bt_ctl b) /\ bt_odfi b = bc_odfi (bt_ctl b) /\ bt_number b = bc_number (bt_ctl b) /\
  bc_hash (bt_ctl b) = gen_hash (bt_entries b) /\
  bc_credit (bt_ctl b) + bc_debit (bt_ctl b) + foreign_amount (bt_kind b) (bt_entries b) = sumz en_amount (bt_entries b).
Proof.
  intros Hv. pose proof (verify_facts T b (validate_batch_verify T b Hv)) as F.
  pose proof (direction_general b Hv) as Hd.
  destruct F as [_ _ _ Fc Fo Fn Fcnt _ Fd Fcr Fh _].
  assert (Ed : bc_debit (bt_ctl b) = gen_debit (bt_kind b) (bt_entries b)).
  { rewrite <- Fd. unfold calc_debit, gen_debit. apply sum_where_ext.
    eapply Forall_impl; [|exact Hd]. now intros e (_ & H & _). }
  assert (Ec : bc_credit (bt_ctl b) = gen_credit (bt_kind b) (bt_entries b)).
  { rewrite <- Fcr. unfold calc_credit, gen_credit. apply sum_where_ext.
    eapply Forall_impl; [|exact Hd]. now intros e (H & _). }
  repeat split; try assumption.
  - now rewrite <- Fcnt, calc_count_spec.
  - rewrite <- Fh. unfold calc_hash, gen_hash, least_sig.
    destruct (constants_sound T HT) as (-> & _). now rewrite hash_sum_aba8.
  - rewrite Ec, Ed. unfold gen_credit, gen_debit, foreign_amount.
    rewrite <- (sum_where_split3 (fun e => foreign (bt_kind b) (en_code e))
                                 (fun e => gen_is_credit (bt_kind b) (en_code e))
                                 (fun e => gen_is_debit (bt_kind b) (en_code e)) (bt_entries b)).
    + lia.
    + eapply Forall_impl; [|exact Hd]. now intros e (_ & _ & H).
Qed.

(* without foreign codes the general totals are the declarative ones: the partial
   theorem of phase 1 is this corollary *)
Lemma regular_not_foreign k es : codes_regular T k es -> Forall (fun e => foreign k (en_code e) = false) es.
Proof.
  destruct k; cbn [codes_regular foreign]; intros H.
  - apply Forall_forall. reflexivity.
  - eapply Forall_impl; [|exact H]. intros e He. now rewrite <- advcodes_sound.
  - eapply Forall_impl; [|exact H]. intros e He. now rewrite <- advcodes_sound, He.
Qed.

Theorem gen_totals_regular k es : codes_regular T k es ->
  gen_credit k es = spec_credit k es /\ gen_debit k es = spec_debit k es /\ foreign_amount k es = 0.
Proof.
  intros H. pose proof (regular_not_foreign k es H) as Hf. unfold gen_credit, gen_debit, spec_credit, spec_debit, foreign_amount.
  split; [|split].
  - apply sum_where_ext. eapply Forall_impl; [|exact Hf]. intros e He. unfold gen_is_credit. now rewrite He.
  - apply sum_where_ext. eapply Forall_impl; [|exact Hf]. intros e He. unfold gen_is_debit. now rewrite He.
  - now apply sum_where_false.
Qed.

Corollary batch_arith_regular b : validate_batch T b = ROk -> codes_regular T (bt_kind b) (bt_entries b) ->
  bc_count (bt_ctl b) = spec_count (bt_entries b) /\
  bc_debit (bt_ctl b) = spec_debit (bt_kind b) (bt_entries b) /\
  bc_credit (bt_ctl b) = spec_credit (bt_kind b) (bt_entries b) /\
  bt_class b = bc_class (bt_ctl b) /\ bt_odfi b = bc_odfi (bt_ctl b) /\ bt_number b = bc_number (bt_ctl b) /\
  (Forall rdfi_89 (bt_entries b) -> bc_hash (bt_ctl b) = spec_hash (bt_entries b)) /\
  bc_credit (bt_ctl b) + bc_debit (bt_ctl b) = sumz en_amount (bt_entries b).
Proof.
  intros Hv Hr. destruct (batch_arith_general b Hv) as (A1 & A2 & A3 & A4 & A5 & A6 & A7 & A8).
  destruct (gen_totals_regular _ _ Hr) as (G1 & G2 & G3).
  repeat split; try assumption; try congruence.
  - intros H. rewrite A7. now apply gen_hash_89.
  - lia.
Qed.

(* standard batches never hold a foreign code *)
Corollary std_foreign_zero b : bt_kind b = KStd -> foreign_amount (bt_kind b) (bt_entries b) = 0.
Proof. intros ->. apply sum_where_false. apply Forall_forall. reflexivity. Qed.

End General.

(* C12, phase 7 — facts about FlattenFullIAT.v:
   * [tabulated_iat_valid] / [tabulate_iat_valid]: the IAT analogue of ValidOutFacts.tabulate_valid —
     a KIAT batch whose control Create has written passes Arith.validate_batch under conditions
     on the header and the entries;
   * [create_iat_validates]: on a consolidated IAT batch whose entries carry the header's ODFI,
     the Arith skeleton of what IATBatch.build leaves IS the abstract batch [fi_batch], the
     validator accepts it, so Create with the validator ([create_iat_v]) returns what
     FlattenFull.create_iat returns;
   * [consolidated_validated]: every IAT batch Flatten hands to AddToFile validates;
   * files that mix ADV batches with others: the outcome class of [finish] in terms of the
     survivors of AddToFile; File.Create never returns a file that mixes the kinds. *)
From Coq Require Import Lia Permutation Sorted.
From ACH Require Import ValidOut ValidOutFacts.
From ACH Require Import OffsetsFacts BuildIATFacts BuildADVFacts FileCreateAll FileCreateAllFacts ValidOffsets ValidOffsetsFacts.
From ACH Require Import Bytes Fields Flatten FlattenFacts ValidFlatten ValidFlattenFacts FlattenFull FlattenFullFacts FlattenFullIAT.
Open Scope Z_scope.

(* ------------------------------------------------------------------ tables *)

Record iagree (A : Arith.tables) (TT : BuildIAT.ttable) : Prop := {
  ia_credit : forall c, Arith.adds_credit A Arith.KIAT c = Offsets.mem c (BuildIAT.tt_iat_credit TT);
  ia_debit : forall c, Arith.adds_debit A Arith.KIAT c =
                       negb (Offsets.mem c (BuildIAT.tt_iat_credit TT)) && Offsets.mem c (BuildIAT.tt_iat_debit TT);
  ia_hash : Arith.t_hash_digits A = 10 }.

Lemma lists_agree2_mem a b c : lists_agree2 a b = true -> Offsets.mem c a = Offsets.mem c b.
Proof.
  unfold lists_agree2. intros H. apply andb_prop in H as [H1 H2]. rewrite forallb_forall in H1, H2.
  destruct (Offsets.mem c a) eqn:Ea, (Offsets.mem c b) eqn:Eb; try reflexivity.
  - apply mem_In in Ea. specialize (H1 c Ea). congruence.
  - apply mem_In in Eb. specialize (H2 c Eb). congruence.
Qed.

Lemma iat_tables_agree_sound A TT : iat_tables_agree A TT = true -> iagree A TT.
Proof.
  unfold iat_tables_agree. intros H. apply andb_prop in H as [H K3]. apply andb_prop in H as [K1 K2].
  constructor.
  - intros c. unfold Arith.adds_credit. cbn [Arith.credit_list]. rewrite memz_mem. now apply lists_agree2_mem.
  - intros c. unfold Arith.adds_debit. cbn [Arith.credit_list Arith.debit_list]. rewrite !memz_mem.
    f_equal; [f_equal|]; now apply lists_agree2_mem.
  - now apply Z.eqb_eq.
Qed.

(* ------------------------------------------------------------------ a tabulated IAT batch *)

(* the checks of IATBatch.verify / Validate (as far as Arith models them) on a batch whose control
   Create has written are down to conditions on the header and the entries *)
Theorem tabulated_iat_valid T b :
  Arith.bt_kind b = Arith.KIAT -> tabulated T b ->
  class_okb T (Arith.bt_class b) = true -> Arith.bt_class b <> Arith.t_advclass T ->
  bytes_eqb (Arith.bt_odfi b) (repeat zero 9) = false ->
  Arith.bt_entries b <> [] ->
  Forall (fun e => Arith.validate_entry T Arith.KIAT e = Arith.ROk) (Arith.bt_entries b) ->
  Arith.ascending (Arith.ascending_init Arith.KIAT) (Arith.bt_entries b) = true ->
  Forall (fun e => Arith.trace_prefix Arith.KIAT e = stringField (Arith.bt_odfi b) 8) (Arith.bt_entries b) ->
  Arith.calc_debit T Arith.KIAT (Arith.bt_entries b) <= Arith.t_batch_limit T ->
  Arith.calc_credit T Arith.KIAT (Arith.bt_entries b) <= Arith.t_batch_limit T ->
  Arith.validate_batch T b = Arith.ROk.
Proof.
  intros Ek Ht Hcls Hadv Hodfi Hne Hst Hasc Hpre Hd Hc.
  apply class_okb_spec in Hcls as [Hc0 Hcm].
  unfold tabulated in Ht. rewrite Ek in Ht.
  unfold Arith.validate_batch. rewrite Ek. apply andr_intro.
  - apply verify_intro.
    constructor; rewrite ?Ek, ?Ht; cbn [tab_ctl Arith.bc_class Arith.bc_count Arith.bc_hash Arith.bc_debit Arith.bc_credit Arith.bc_odfi Arith.bc_number];
      try reflexivity; try assumption.
    + unfold Arith.validate_bctl. cbn [tab_ctl Arith.bc_class Arith.bc_odfi Arith.bc_debit Arith.bc_credit].
      repeat apply andr_intro; try reflexivity; apply chk_intro.
      * now apply negb_true_iff, Z.eqb_neq.
      * now rewrite Hodfi.
      * exact Hcm.
      * now apply Z.leb_le.
      * now apply Z.leb_le.
    + intros _. exact Hasc.
    + unfold Arith.trace_odfi_ok. apply forallb_forall. intros e Hin. rewrite Forall_forall in Hpre.
      apply bytes_eqb_eq. symmetry. now apply Hpre.
  - apply chk_intro. now apply negb_true_iff, Z.eqb_neq.
Qed.

Corollary tabulate_iat_valid T cls odfi num es :
  class_okb T cls = true -> cls <> Arith.t_advclass T -> bytes_eqb odfi (repeat zero 9) = false -> es <> [] ->
  Forall (fun e => Arith.validate_entry T Arith.KIAT e = Arith.ROk) es ->
  Arith.ascending (Arith.ascending_init Arith.KIAT) es = true ->
  Forall (fun e => Arith.trace_prefix Arith.KIAT e = stringField odfi 8) es ->
  Arith.calc_debit T Arith.KIAT es <= Arith.t_batch_limit T -> Arith.calc_credit T Arith.KIAT es <= Arith.t_batch_limit T ->
  Arith.validate_batch T (tabulate T Arith.KIAT cls odfi num es) = Arith.ROk.
Proof. intros. apply tabulated_iat_valid; cbn [tabulate Arith.bt_kind Arith.bt_class Arith.bt_odfi Arith.bt_entries]; try assumption; reflexivity. Qed.

(* a valid IAT batch IS tabulated: its control equals Create's recomputation *)
Lemma valid_iat_tabulated T b : Arith.bt_kind b = Arith.KIAT -> Arith.validate_batch T b = Arith.ROk -> tabulated T b.
Proof.
  intros Ek Hv. destruct (verify_facts T b (validate_batch_verify T b Hv)) as [_ _ _ Fcl Fo Fn Fcnt _ Fd Fcr Fh _].
  unfold tabulated, tab_ctl. rewrite Ek in *. rewrite Fcl, Fo, Fn, Fcnt, Fd, Fcr, Fh. now destruct (Arith.bt_ctl b).
Qed.

(* ------------------------------------------------------------------ what build keeps *)

Lemma traces_after_kept odfi o es : forallb (ihas_prefix odfi) es = true -> forall s,
  traces_after odfi o s es = map BuildIAT.ie_trace es.
Proof.
  induction es as [|e r IH]; intros H s; cbn [traces_after map]; [reflexivity|].
  cbn [forallb] in H. apply andb_prop in H as [H0 Hr]. now rewrite H0, (IH Hr).
Qed.

Lemma static_forallb (P : BuildIAT.ientry -> bool) :
  (forall e e', ie_static e = ie_static e' -> P e = P e') ->
  forall es es', map ie_static es' = map ie_static es -> forallb P es' = forallb P es.
Proof.
  intros HP. induction es as [|e r IH]; intros [|e' r'] H; cbn [map] in H; try discriminate; [reflexivity|].
  apply cons_inj in H as [He Hr]. cbn [forallb]. now rewrite (HP _ _ He), (IH _ Hr).
Qed.

Lemma addenda_limits_static e e' : ie_static e = ie_static e' -> addenda_limits e = addenda_limits e'.
Proof.
  intros H. destruct (static_inv _ _ H) as (_ & _ & _ & _ & _ & H6 & H7 & _).
  unfold addenda_limits, BuildIAT.zlen. now rewrite H6, H7.
Qed.

Section IAT.
Variables (A : Arith.tables) (TT : BuildIAT.ttable).
Hypothesis HI : iagree A TT.
Variables (hd : bytes -> hdrp) (ip : bytes -> ipay) (iq : bytes -> iqpay).

Local Notation toi := (to_iat_entry ip).
Local Notation fie := (fi_entry ip iq).

(* the routing number the tabulation of C05 adds up is Atoi(aba8) of the stored string *)
Definition rdfi_tied (e : entry) : Prop :=
  ip_rdfi (ip (e_core e)) = atoi (Arith.aba8 (iq_rdfi (iq (e_core e)))).

Lemma isk_entries_same es : forall es',
  map ie_static es' = map ie_static (map toi es) ->
  map BuildIAT.ie_trace es' = map BuildIAT.ie_trace (map toi es) ->
  isk_entries iq es es' = map fie es.
Proof.
  induction es as [|e r IH]; intros [|e' r'] Hs Ht; cbn [map] in Hs, Ht; try discriminate; [reflexivity|].
  apply cons_inj in Hs as [Hs Hsr]. apply cons_inj in Ht as [Ht Htr].
  cbn [isk_entries map]. rewrite (IH _ Hsr Htr). f_equal.
  destruct (static_inv _ _ Hs) as (H1 & H2 & _).
  unfold isk_entry, fi_entry. rewrite H1, H2, Ht, (static_icount_one _ _ Hs).
  unfold to_iat_entry at 1 2 3. cbn [BuildIAT.ie_code BuildIAT.ie_amount BuildIAT.ie_trace].
  now rewrite Z.eqb_refl.
Qed.

Lemma fi_count es : Arith.calc_count (map fie es) = BuildIAT.icount (map toi es).
Proof.
  unfold BuildIAT.icount. induction es as [|e es IH]; cbn [map Arith.calc_count BuildIAT.zsum]; [reflexivity|].
  rewrite IH. unfold fi_entry at 1. cbn [Arith.en_addenda]. lia.
Qed.

Lemma fi_hash es : Forall rdfi_tied es ->
  Arith.calc_hash A (map fie es) = BuildIAT.ihash (map toi es).
Proof.
  intros H. unfold Arith.calc_hash, Arith.least_sig, BuildIAT.ihash. rewrite (ia_hash A TT HI).
  replace (Arith.hash_sum (map fie es)) with (BuildIAT.zsum BuildIAT.ie_rdfi (map toi es)); [reflexivity|].
  induction H as [|e es He _ IH]; cbn [map Arith.hash_sum BuildIAT.zsum]; [reflexivity|]. rewrite IH. f_equal.
  unfold to_iat_entry, fi_entry. cbn [BuildIAT.ie_rdfi Arith.en_rdfi]. exact He.
Qed.

Lemma fi_credit es : Arith.calc_credit A Arith.KIAT (map fie es) = BuildIAT.icredits TT (map toi es).
Proof.
  unfold Arith.calc_credit, BuildIAT.icredits. induction es as [|e es IH]; cbn [map Arith.sum_where BuildIAT.zsum]; [reflexivity|].
  rewrite IH. f_equal. unfold fi_entry at 1 2. cbn [Arith.en_code Arith.en_amount]. rewrite (ia_credit A TT HI).
  unfold BuildIAT.icr_amt, to_iat_entry. cbn [BuildIAT.ie_code BuildIAT.ie_amount]. reflexivity.
Qed.

Lemma fi_debit es : Arith.calc_debit A Arith.KIAT (map fie es) = BuildIAT.idebits TT (map toi es).
Proof.
  unfold Arith.calc_debit, BuildIAT.idebits. induction es as [|e es IH]; cbn [map Arith.sum_where BuildIAT.zsum]; [reflexivity|].
  rewrite IH. f_equal. unfold fi_entry at 1 2. cbn [Arith.en_code Arith.en_amount]. rewrite (ia_debit A TT HI).
  unfold BuildIAT.idb_amt, to_iat_entry. cbn [BuildIAT.ie_code BuildIAT.ie_amount].
  destruct (Offsets.mem (ip_code (ip (e_core e))) (BuildIAT.tt_iat_credit TT)); cbn [negb andb]; [reflexivity|].
  destruct (Offsets.mem (ip_code (ip (e_core e))) (BuildIAT.tt_iat_debit TT)); reflexivity.
Qed.

(* every trace number carries the header's ODFI (integer form: what IATBatch.build tests) *)
Definition itraces_prefixed (b : batch) : Prop :=
  Forall (fun e => Offsets.trace_odfi (tnum (e_trace e)) = hd_odfi_z (hd (b_sig b))) (b_entries b).

(* IATBatch.build on a consolidated batch whose entries carry the ODFI leaves exactly the abstract
   batch [fi_batch]: the control is Arith's recomputation over the caller's entries *)
Lemma iat_build_skeleton x b' :
  BuildIAT.iat_build TT (to_iat hd ip x) = (true, b') ->
  itraces_prefixed x -> Forall rdfi_tied (b_entries x) ->
  iat_skeleton hd iq x b' = fi_batch A hd ip iq x
  /\ map ie_static (BuildIAT.ib_entries b') = map ie_static (map toi (b_entries x)).
Proof.
  intros Hb Hpre Htied. apply iat_build_ok_inv in Hb as (_ & _ & es' & Hl & ->).
  cbn [to_iat BuildIAT.ib_odfi_num BuildIAT.ib_odfi BuildIAT.ib_opts BuildIAT.ib_entries] in Hl.
  pose proof (iat_loop_static _ _ _ _ _ _ _ Hl) as Hst.
  pose proof (iat_loop_traces _ _ _ _ _ _ Hl) as Htr.
  rewrite traces_after_kept in Htr.
  2:{ apply forallb_forall. intros y Hy. apply in_map_iff in Hy as (e & <- & He).
      unfold itraces_prefixed in Hpre. rewrite Forall_forall in Hpre.
      unfold ihas_prefix, to_iat_entry. cbn [BuildIAT.ie_trace]. apply Z.eqb_eq. now apply Hpre. }
  destruct (static_sums TT _ _ Hst) as (S1 & S2 & S3 & S4).
  split; [|exact Hst].
  unfold iat_skeleton, fi_batch, tabulate, tab_ctl, ib_with, ictl_of, to_iat.
  cbn [BuildIAT.ib_ctl BuildIAT.ib_svc BuildIAT.ib_num BuildIAT.ib_entries Offsets.c_svc Offsets.c_count Offsets.c_hash
       Offsets.c_debit Offsets.c_credit Offsets.c_num].
  rewrite (isk_entries_same _ _ Hst Htr), S1, S2, S3, S4, fi_count, (fi_hash _ Htied), fi_credit, fi_debit. reflexivity.
Qed.

(* what validity of an IAT batch says about one of its entries under its header — the part of
   IATBatch.Validate that Arith models, the two addenda limits, and the link between the payloads *)
Definition iat_entry_ok (s : bytes) (e : entry) : Prop :=
  class_okb A (hd_class (hd s)) = true /\ hd_class (hd s) <> Arith.t_advclass A /\
  bytes_eqb (hd_odfi (hd s)) (repeat zero 9) = false /\
  Arith.validate_entry A Arith.KIAT (fie e) = Arith.ROk /\
  Arith.bytes_leb (e_trace e) (Arith.ascending_init Arith.KIAT) = false /\
  Arith.trace_prefix Arith.KIAT (fie e) = stringField (hd_odfi (hd s)) 8 /\
  Offsets.trace_odfi (tnum (e_trace e)) = hd_odfi_z (hd s) /\
  rdfi_tied e /\
  (ip_n17 (ip (e_core e)) <= 2)%nat /\ (ip_n18 (ip (e_core e)) <= 5)%nat.

(* the abstract IAT batch of admissible entries, strictly sorted by trace number, validates *)
Lemma ipairs_valid x :
  (forall e, In e (b_entries x) -> iat_entry_ok (b_sig x) e) -> b_entries x <> [] ->
  StronglySorted trace_lt (b_entries x) ->
  Arith.calc_debit A Arith.KIAT (map fie (b_entries x)) <= Arith.t_batch_limit A ->
  Arith.calc_credit A Arith.KIAT (map fie (b_entries x)) <= Arith.t_batch_limit A ->
  Arith.validate_batch A (fi_batch A hd ip iq x) = Arith.ROk.
Proof.
  intros Hpe Hne Hs Hd Hc.
  destruct (b_entries x) as [|e0 es0] eqn:E; [congruence|]. rewrite <- E in *.
  destruct (Hpe e0 ltac:(rewrite E; now left)) as (K1 & K2 & K3 & _).
  unfold fi_batch. apply tabulate_iat_valid; try assumption.
  - intros En. apply map_eq_nil in En. congruence.
  - apply Forall_forall. intros y Hy. apply in_map_iff in Hy as (e & <- & He). now destruct (Hpe e He) as (_ & _ & _ & K & _).
  - apply ascending_from_sorted.
    + apply Forall_forall. intros y Hy. apply in_map_iff in Hy as (e & <- & He).
      destruct (Hpe e He) as (_ & _ & _ & _ & K & _). exact K.
    + rewrite map_map. cbn [fi_entry Arith.en_trace]. apply (Sorted_map trace_lt); [apply trace_lt_bytes_lt|].
      now apply StronglySorted_Sorted.
  - apply Forall_forall. intros y Hy. apply in_map_iff in Hy as (e & <- & He). now destruct (Hpe e He) as (_ & _ & _ & _ & _ & K & _).
Qed.

(* Create WITH the validator on a consolidated IAT batch: build succeeds (FlattenFull.create_iat),
   its Arith skeleton is the abstract batch and validates, every addenda record refers to its
   entry, the addenda limits hold, isCategory passes — so IATBatch.Create returns what build left *)
Theorem create_iat_validates x :
  hd_ok (hd (b_sig x)) = true -> hd_odfi_num (hd (b_sig x)) = true -> b_entries x <> [] ->
  Forall (fun e => BuildIAT.incl_ok (toi e) = true /\ ip_tr_num (ip (e_core e)) = true) (b_entries x) ->
  (forall e, In e (b_entries x) -> iat_entry_ok (b_sig x) e) ->
  StronglySorted trace_lt (b_entries x) ->
  BuildIAT.idebits TT (map toi (b_entries x)) <= Arith.t_batch_limit A ->
  BuildIAT.icredits TT (map toi (b_entries x)) <= Arith.t_batch_limit A ->
  category_ok x = true ->
  exists b', create_iat TT hd ip x = Some b' /\ create_iat_v A TT hd ip iq x = Some b'
    /\ iat_skeleton hd iq x b' = fi_batch A hd ip iq x
    /\ Arith.validate_batch A (iat_skeleton hd iq x b') = Arith.ROk
    /\ forallb seqs_okb (BuildIAT.ib_entries b') = true
    /\ forallb addenda_limits (BuildIAT.ib_entries b') = true
    /\ is_category_iat x = true.
Proof.
  intros Hok Hnum Hne Hes Hpe Hso Hd Hc Hcat.
  destruct (create_iat_spec TT hd ip x Hok Hnum Hne Hes Hcat) as (b' & Hcr & _).
  exists b'. split; [exact Hcr|].
  assert (Hb : BuildIAT.iat_build TT (to_iat hd ip x) = (true, b')).
  { unfold create_iat in Hcr. destruct (BuildIAT.iat_build TT (to_iat hd ip x)) as [[|] b0]; [|discriminate].
    destruct (is_category_iat x); [|discriminate]. now injection Hcr as ->. }
  assert (Hpre : itraces_prefixed x).
  { apply Forall_forall. intros e He. now destruct (Hpe e He) as (_ & _ & _ & _ & _ & _ & K & _). }
  assert (Htied : Forall rdfi_tied (b_entries x)).
  { apply Forall_forall. intros e He. now destruct (Hpe e He) as (_ & _ & _ & _ & _ & _ & _ & K & _). }
  destruct (iat_build_skeleton x b' Hb Hpre Htied) as (Hsk & Hst).
  assert (Hv : Arith.validate_batch A (iat_skeleton hd iq x b') = Arith.ROk).
  { rewrite Hsk. apply ipairs_valid; try assumption; [now rewrite fi_debit|now rewrite fi_credit]. }
  assert (Hseq : forallb seqs_okb (BuildIAT.ib_entries b') = true) by (eapply iat_build_seqs; exact Hb).
  assert (Hlim : forallb addenda_limits (BuildIAT.ib_entries b') = true).
  { rewrite (static_forallb addenda_limits addenda_limits_static _ _ Hst).
    apply forallb_forall. intros y Hy. apply in_map_iff in Hy as (e & <- & He).
    destruct (Hpe e He) as (_ & _ & _ & _ & _ & _ & _ & _ & L1 & L2).
    unfold addenda_limits, to_iat_entry, BuildIAT.zlen. cbn [BuildIAT.ie_a17 BuildIAT.ie_a18]. rewrite !repeat_length.
    apply andb_true_intro. split; apply Z.leb_le; lia. }
  assert (Hic : is_category_iat x = true) by (rewrite (is_category_iat_ok x Hne); exact Hcat).
  split; [|repeat split; assumption].
  unfold create_iat_v, iat_validate. now rewrite Hb, Hv, Hseq, Hlim, Hic.
Qed.

End IAT.

(* ------------------------------------------------------------------ every IAT batch handed to AddToFile validates *)

Section MixedValid.
Variables (A : Arith.tables) (T : Offsets.otable) (TT : BuildIAT.ttable).
Hypothesis HA : agree A T.
Hypothesis HI : iagree A TT.
Variables (hd : bytes -> hdrp) (sp : bytes -> stdp) (ip : bytes -> ipay) (ap : bytes -> apay) (iq : bytes -> iqpay).
Variable kiat : bytes -> bool.

Local Notation toi := (to_iat_entry ip).
Local Notation fb := (f_batch A (hp_of hd) (fp_of sp)).
Local Notation pok := (pair_ok A (hp_of hd) (fp_of sp)).

(* per (header, entry) under an IAT header: what IATBatch.Validate (Arith's part, the addenda limits)
   says about the entry *)
Definition iat_pair (p : bytes * entry) : Prop := kiat (fst p) = true -> iat_entry_ok A hd ip iq (fst p) (snd p).

(* an IAT consolidated batch: Create succeeds as C05's iat_build says (created_i) AND the validator
   accepts what build left *)
Definition created_iv (x : batch) : Prop :=
  created_i TT hd ip kiat x /\
  exists b', create_iat TT hd ip x = Some b' /\ create_iat_v A TT hd ip iq x = Some b'
    /\ iat_skeleton hd iq x b' = fi_batch A hd ip iq x
    /\ Arith.validate_batch A (iat_skeleton hd iq x b') = Arith.ROk
    /\ forallb seqs_okb (BuildIAT.ib_entries b') = true
    /\ forallb addenda_limits (BuildIAT.ib_entries b') = true
    /\ is_category_iat x = true.

Lemma consolidated_validated inf inp order all :
  mixed_file kiat inp ->
  kinds_consistent inp -> Forall traces_nodup inp ->
  Forall (fun b => kiat (b_sig b) = false -> Arith.validate_batch A (fb b) = Arith.ROk) inp ->
  Forall (mixed_pair hd ip kiat) (ids inp) -> Forall iat_pair (ids inp) ->
  i_debit inf = sum_pairs (db_p T TT sp ip kiat) inp -> i_credit inf = sum_pairs (cr_p T TT sp ip kiat) inp ->
  cat_rule inp ->
  i_debit inf <= Arith.t_file_limit A -> i_credit inf <= Arith.t_file_limit A ->
  Arith.t_file_limit A <= Arith.t_batch_limit A ->
  admissible inp order -> Permutation all (all_batches (run order)) ->
  Forall (fun x => (created_s A T hd sp kiat x \/ created_iv x) /\ StronglySorted trace_lt (b_entries x)) (pre all)
  /\ Permutation (ids all) (ids inp).
Proof.
  intros Hmix Hk Hnd Hv Hmp Hip E2 E3 Hcat L1 L2 L3 Hadm Hall.
  destruct (consolidated_created_mixed A T TT HA hd sp ip kiat inf inp order all Hmix Hk Hnd Hv Hmp E2 E3 Hcat L1 L2 L3 Hadm Hall)
    as (Hcv & Pall).
  split; [|exact Pall].
  assert (Hs : flatten_spec inp (finalize all)) by (exists order, all; split; [exact Hadm|split; [exact Hall|reflexivity]]).
  unfold mixed_file in Hmix.
  assert (Hks : Forall (kind_sig kiat) inp) by (eapply Forall_impl; [|exact Hmix]; intros x (_ & _ & H); exact H).
  destruct (flatten_conservation inp _ Hk Hs) as (P1 & _).
  pose proof (flatten_pairs inp _ _ Hk Hs (std_pairs_ok A hd sp kiat inp Hks Hv)) as Hpok.
  pose proof (flatten_pairs inp _ (mixed_pair hd ip kiat) Hk Hs Hmp) as Hhdr.
  pose proof (flatten_pairs inp _ iat_pair Hk Hs Hip) as Hipo.
  rewrite Forall_forall in Hpok, Hhdr, Hipo.
  assert (Hamt : forall p, In p (ids (finalize all)) -> 0 <= e_amount (snd p)).
  { intros p Hp. destruct (kiat (fst p)) eqn:Eki.
    - now destruct (Hhdr p Hp) as (_ & _ & H); destruct (H Eki) as (_ & _ & _ & Ha).
    - destruct (Hpok p Hp Eki) as (_ & _ & Hst & _).
      apply entry_static_spec in Hst as [Hst _]. apply validate_entry_facts in Hst as (_ & _ & Ha). now destruct (Ha eq_refl). }
  assert (Hdb : forall p, In p (ids (finalize all)) -> 0 <= db_p T TT sp ip kiat p).
  { intros p Hp. specialize (Hamt p Hp). unfold db_p. destruct (kiat (fst p)).
    - unfold BuildIAT.idb_amt, to_iat_entry. cbn [BuildIAT.ie_code BuildIAT.ie_amount].
      destruct (Offsets.mem _ (BuildIAT.tt_iat_credit TT)); [lia|]. destruct (Offsets.mem _ (BuildIAT.tt_iat_debit TT)); lia.
    - unfold db_e, Offsets.db_amt, to_off_entry. cbn [Offsets.e_code Offsets.e_amount].
      destruct (Offsets.mem _ (Offsets.t_credit T)); [lia|]. destruct (Offsets.mem _ (Offsets.t_debit T)); lia. }
  assert (Hcr : forall p, In p (ids (finalize all)) -> 0 <= cr_p T TT sp ip kiat p).
  { intros p Hp. specialize (Hamt p Hp). unfold cr_p. destruct (kiat (fst p)).
    - unfold BuildIAT.icr_amt, to_iat_entry. cbn [BuildIAT.ie_code BuildIAT.ie_amount].
      destruct (Offsets.mem _ (BuildIAT.tt_iat_credit TT)); lia.
    - unfold cr_e, Offsets.cr_amt, to_off_entry. cbn [Offsets.e_code Offsets.e_amount].
      destruct (Offsets.mem _ (Offsets.t_credit T)); lia. }
  rewrite Forall_forall in Hcv. apply Forall_forall. intros x Hx.
  destruct (Hcv x Hx) as ([Hcs|Hci] & Hso); (split; [|exact Hso]); [now left|right].
  split; [exact Hci|]. destruct Hci as (Kx & Kix & b0 & Hc0 & _).
  destruct (pre_in_out all x Hx) as (y & Hy & Ky & Sy & Ey & Ay).
  assert (Hxne : b_entries x <> []).
  { intros En. unfold create_iat, BuildIAT.iat_build, to_iat in Hc0. cbn [BuildIAT.ib_hdr_ok BuildIAT.ib_entries] in Hc0.
    rewrite En in Hc0. cbn [map] in Hc0. destruct (negb (hd_ok (hd (b_sig x)))); discriminate. }
  assert (Hidx : forall e, In e (b_entries x) -> In (b_sig x, e) (ids (finalize all))).
  { intros e He. rewrite <- Sy. apply in_ids; [exact Hy|now rewrite Ey]. }
  destruct (b_entries x) as [|e0 es0] eqn:Ex; [congruence|]. rewrite <- Ex in *.
  assert (Hi0 : In (b_sig x, e0) (ids (finalize all))) by (apply Hidx; rewrite Ex; now left).
  destruct (Hhdr _ Hi0) as (Hok & _ & Hiat). cbn [fst snd] in Hok, Hiat. destruct (Hiat Kix) as (Hnum & _).
  assert (Kiy : kiat (b_sig y) = true) by now rewrite Sy.
  assert (Hcx : category_ok x = true).
  { pose proof (flatten_category inp _ Hk (cat_rule_uniform inp Hcat) Hs) as Hck.
    assert (Hcok : forallb category_ok (finalize all) = true).
    { unfold checked in Hck. destruct (forallb category_ok (finalize all)); [reflexivity|discriminate]. }
    rewrite forallb_forall in Hcok. specialize (Hcok y Hy). unfold category_ok in *. now rewrite <- Ey, <- Ay. }
  apply (create_iat_validates A TT HI hd ip iq x Hok Hnum Hxne).
  - apply Forall_forall. intros e He. destruct (Hhdr _ (Hidx e He)) as (_ & _ & H). cbn [fst snd] in H.
    destruct (H Kix) as (_ & H1 & H2 & _). now split.
  - intros e He. exact (Hipo _ (Hidx e He) Kix).
  - exact Hso.
  - rewrite <- Ey. unfold BuildIAT.idebits. rewrite zsum_sumZ, map_map.
    rewrite <- (map_ext (fun e => db_p T TT sp ip kiat (b_sig y, e)) (fun e => BuildIAT.idb_amt TT (toi e)))
      by (intros e; unfold db_p; cbn [fst snd]; now rewrite Kiy).
    eapply Z.le_trans; [apply (pair_member_le (db_p T TT sp ip kiat) (finalize all) y Hdb Hy)|].
    rewrite (sum_pairs_perm _ _ _ P1), <- E2. lia.
  - rewrite <- Ey. unfold BuildIAT.icredits. rewrite zsum_sumZ, map_map.
    rewrite <- (map_ext (fun e => cr_p T TT sp ip kiat (b_sig y, e)) (fun e => BuildIAT.icr_amt TT (toi e)))
      by (intros e; unfold cr_p; cbn [fst snd]; now rewrite Kiy).
    eapply Z.le_trans; [apply (pair_member_le (cr_p T TT sp ip kiat) (finalize all) y Hcr Hy)|].
    rewrite (sum_pairs_perm _ _ _ P1), <- E3. lia.
  - exact Hcx.
Qed.

(* FlattenBatches on a valid file of standard and IAT batches: C12_succeeds_iat with every IAT batch validated *)
Theorem flatten_succeeds_iat_valid inf inp r :
  mixed_file kiat inp -> inp <> [] -> i_hdr_ok inf = true ->
  kinds_consistent inp -> Forall traces_nodup inp ->
  Forall (fun b => kiat (b_sig b) = false -> Arith.validate_batch A (fb b) = Arith.ROk) inp ->
  Forall (mixed_pair hd ip kiat) (ids inp) -> Forall iat_pair (ids inp) ->
  i_count inf = sum_pairs (cnt_p ip kiat) inp ->
  i_debit inf = sum_pairs (db_p T TT sp ip kiat) inp -> i_credit inf = sum_pairs (cr_p T TT sp ip kiat) inp ->
  cat_rule inp ->
  i_debit inf <= Arith.t_file_limit A -> i_credit inf <= Arith.t_file_limit A ->
  Arith.t_file_limit A <= Arith.t_batch_limit A ->
  flatten_full_spec A T TT hd sp ip ap inf inp r ->
  (fst r = FOk \/ (fst r = FErrValidate /\ file_ctl_ok A (snd r) = false))
  /\ Offsets.fc_count (af_ctl (snd r)) = i_count inf
  /\ Offsets.fc_debit (af_ctl (snd r)) = i_debit inf
  /\ Offsets.fc_credit (af_ctl (snd r)) = i_credit inf
  /\ exists all, r = finish A T TT hd sp ip ap inf all /\ flatten_spec inp (finalize all)
       /\ (length (af_std (snd r)) + length (af_iat (snd r)) = length all)%nat
       /\ Forall (fun x => (created_s A T hd sp kiat x \/ created_iv x) /\ StronglySorted trace_lt (b_entries x)) (pre all).
Proof.
  intros Hmix Hne Hh Hk Hnd Hv Hmp Hip E1 E2 E3 Hcat L1 L2 L3 (order & all & Hadm & Hall & ->).
  destruct (consolidated_validated inf inp order all Hmix Hk Hnd Hv Hmp Hip E2 E3 Hcat L1 L2 L3 Hadm Hall) as (Hcv & Pall).
  assert (Hcr : Forall (fun x => created_s A T hd sp kiat x \/ created_i TT hd ip kiat x) (pre all)).
  { eapply Forall_impl; [|exact Hcv]. intros x [[H|[H _]] _]; [now left|now right]. }
  unfold mixed_file in Hmix.
  assert (Hall_ne : all <> []).
  { intros ->. destruct inp as [|b0 inp']; [congruence|]. inversion Hmix as [|? ? (Hb0 & _) _]; subst.
    destruct (b_entries b0) as [|e0 q] eqn:E; [congruence|].
    assert (Hin : In (b_sig b0, e0) (ids (b0 :: inp'))) by (apply in_ids; [now left|rewrite E; now left]).
    eapply Permutation_in in Hin; [|apply Permutation_sym, Pall]. destruct Hin. }
  destruct (finish_mixed A T TT hd sp ip ap kiat inf all Hh Hall_ne Hcr) as (R1 & R2 & R3 & R4 & R5).
  - rewrite E1. symmetry. now apply sum_pairs_perm.
  - rewrite E2. symmetry. now apply sum_pairs_perm.
  - rewrite E3. symmetry. now apply sum_pairs_perm.
  - split; [exact R1|]. split; [exact R3|]. split; [exact R4|]. split; [exact R5|].
    exists all. split; [reflexivity|]. split; [exists order, all; split; [exact Hadm|split; [exact Hall|reflexivity]]|].
    split; [exact R2|exact Hcv].
Qed.

(* valid files never mix ADV with other kinds — under the validity hypotheses of C12_succeeds_iat no
   batch of the input is an ADV batch *)
Lemma valid_never_mixed inp :
  mixed_file kiat inp -> Forall (mixed_pair hd ip kiat) (ids inp) ->
  Forall (fun b => b_adv b = [] /\ (b_kind b = Flatten.KStd -> hd_adv (hd (b_sig b)) = false)) inp.
Proof.
  intros Hmix Hmp. unfold mixed_file in Hmix. rewrite Forall_forall in Hmix, Hmp.
  apply Forall_forall. intros b Hb. destruct (Hmix b Hb) as (Hne & Ha & Hks). split; [exact Ha|].
  intros Kb. destruct Hks as [(_ & Ki)|(Kb' & _)]; [|congruence].
  destruct (b_entries b) as [|e0 q] eqn:E; [congruence|].
  destruct (Hmp (b_sig b, e0)) as (_ & H & _); [apply in_ids; [exact Hb|rewrite E; now left]|].
  cbn [fst] in H. now destruct (H Ki).
Qed.

End MixedValid.

(* ------------------------------------------------------------------ ADV batches next to other batches *)

Lemma n_adv_zero ss : (n_adv ss =? 0)%nat = negb (existsb sb_is_adv ss).
Proof.
  unfold n_adv. induction ss as [|s ss IH]; cbn [filter existsb length]; [reflexivity|].
  destruct (sb_is_adv s); cbn [length orb negb]; [reflexivity|exact IH].
Qed.

Lemma n_std_zero ss : (n_std ss =? 0)%nat = forallb sb_is_adv ss.
Proof.
  unfold n_std. induction ss as [|s ss IH]; cbn [filter forallb length]; [reflexivity|].
  destruct (sb_is_adv s); cbn [negb length andb]; [exact IH|reflexivity].
Qed.

Lemma adv_file_loop_fst bs : forall q, fst (adv_file_loop q bs) = forallb sb_is_adv bs.
Proof.
  induction bs as [|s bs IH]; intros q; cbn [adv_file_loop forallb]; [reflexivity|].
  destruct s as [b|a]; cbn [sb_is_adv andb fst]; [reflexivity|].
  specialize (IH (q + 1)). destruct (adv_file_loop (q + 1) bs) as [ok r']. cbn [fst] in *. exact IH.
Qed.

(* File.Create on the file AddToFile assembled (no file options): it fails exactly when [create_refuses] *)
Lemma create_all_class TT hdr ss ibs c1 c2 : BuildIAT.tt_adv_iat_guard TT = true ->
  fst (file_create_all TT (mkaf hdr (mkfo false false false) ss ibs c1 c2)) = negb (create_refuses hdr ss ibs).
Proof.
  intros Hg. unfold file_create_all, create_refuses, file_is_adv.
  cbn [af_opts fo_skip_all fo_allow_missing_hdr fo_allow_zero af_hdr_ok af_std af_iat negb andb].
  destruct hdr; cbn [negb orb fst]; [|reflexivity].
  rewrite Hg. cbn [andb].
  assert (E3 : forall a b c : nat, (a + b + c =? 0)%nat = ((a =? 0)%nat && (b =? 0)%nat && (c =? 0)%nat))
    by (intros a b c; destruct a, b, c; reflexivity).
  assert (E2 : forall b c : nat, (b + c =? 0)%nat = ((b =? 0)%nat && (c =? 0)%nat)) by (intros b c; destruct b, c; reflexivity).
  rewrite E3, E2, n_adv_zero, n_std_zero.
  destruct ss as [|s ss'].
  - cbn [existsb forallb negb andb orb length Nat.eqb]. destruct ibs as [|i ibs']; reflexivity.
  - cbn [andb]. destruct (existsb sb_is_adv (s :: ss')) eqn:Ex; cbn [negb andb orb fst].
    + destruct ibs as [|i ibs']; cbn [length Nat.eqb andb negb orb fst].
      * specialize (adv_file_loop_fst (s :: ss') 1) as Hl. destruct (adv_file_loop 1 (s :: ss')) as [ok r'] eqn:El.
        cbn [fst] in Hl. rewrite Hl. destruct ok; cbn [fst]; rewrite <- Hl; reflexivity.
      * rewrite andb_false_r. reflexivity.
    + assert (Hf : forallb sb_is_adv (s :: ss') = false).
      { cbn [existsb forallb] in *. apply orb_false_elim in Ex as [E0 _]. now rewrite E0. }
      rewrite Hf. reflexivity.
Qed.

Section MixedAdv.
Variables (A : Arith.tables) (T : Offsets.otable) (TT : BuildIAT.ttable).
Hypothesis Hguard : BuildIAT.tt_adv_iat_guard TT = true.
Variables (hd : bytes -> hdrp) (sp : bytes -> stdp) (ip : bytes -> ipay) (ap : bytes -> apay).

(* the error class of File.Create inside Flatten, exactly: FErrCreate is returned iff the file header
   is invalid, or no batch survived AddToFile, or an ADV batch survived next to a standard or IAT batch *)
Theorem finish_create_class inf all :
  fst (finish A T TT hd sp ip ap inf all) = FErrCreate <->
  create_refuses (i_hdr_ok inf) (fst (survivors A T TT hd sp ip ap all)) (snd (survivors A T TT hd sp ip ap all)) = true.
Proof.
  unfold finish, survivors. destruct (add_all A T TT hd sp ip ap (map sort_entries (sort_by num_ltb all))) as [ss ibs].
  cbn [fst snd].
  pose proof (create_all_class TT (i_hdr_ok inf) ss ibs zero_fctl zero_fctl Hguard) as Hc.
  destruct (file_create_all TT (mkaf (i_hdr_ok inf) (mkfo false false false) ss ibs zero_fctl zero_fctl)) as [ok f].
  cbn [fst] in Hc. destruct ok.
  - assert (Hr : create_refuses (i_hdr_ok inf) ss ibs = false) by (destruct (create_refuses (i_hdr_ok inf) ss ibs); [discriminate|reflexivity]).
    rewrite Hr. split; [|discriminate].
    destruct (negb (file_ctl_ok A f)); [discriminate|]. destruct (negb (i_count inf =? _)); [discriminate|].
    destruct (negb (i_debit inf =? _)); [discriminate|]. destruct (negb (i_credit inf =? _)); discriminate.
  - assert (Hr : create_refuses (i_hdr_ok inf) ss ibs = true) by (destruct (create_refuses (i_hdr_ok inf) ss ibs); [reflexivity|discriminate]).
    rewrite Hr. split; reflexivity.
Qed.

(* ... in particular: whenever a standard or IAT batch survives next to an ADV batch, File.Create of the
   result fails (ErrFileADVOnly), whatever else the file holds *)
Theorem finish_mixed_adv_error inf all :
  n_adv (fst (survivors A T TT hd sp ip ap all)) <> 0%nat ->
  (n_std (fst (survivors A T TT hd sp ip ap all)) + length (snd (survivors A T TT hd sp ip ap all)))%nat <> 0%nat ->
  fst (finish A T TT hd sp ip ap inf all) = FErrCreate.
Proof.
  intros H1 H2. apply finish_create_class. unfold create_refuses.
  apply Nat.eqb_neq in H1, H2. rewrite H1, H2. cbn [negb andb]. now rewrite orb_true_r.
Qed.

Theorem flatten_mixed_adv_error inf inp r :
  flatten_full_spec A T TT hd sp ip ap inf inp r ->
  exists all, r = finish A T TT hd sp ip ap inf all /\ flatten_spec inp (finalize all) /\
    let sv := survivors A T TT hd sp ip ap all in
    (fst r = FErrCreate <-> create_refuses (i_hdr_ok inf) (fst sv) (snd sv) = true) /\
    (n_adv (fst sv) <> 0%nat -> (n_std (fst sv) + length (snd sv))%nat <> 0%nat -> fst r = FErrCreate).
Proof.
  intros (order & all & Hadm & Hall & ->). exists all. split; [reflexivity|].
  split; [exists order, all; split; [exact Hadm|split; [exact Hall|reflexivity]]|].
  cbv zeta. split; [apply finish_create_class|apply finish_mixed_adv_error].
Qed.

End MixedAdv.

(* File.Create never returns a file that mixes the kinds: a file on which it succeeded either holds
   no ADV batch, or ADV batches only and no IAT batch — so no valid (created) file is mixed *)
Theorem create_never_mixed TT f f' : BuildIAT.tt_adv_iat_guard TT = true ->
  file_create_all TT f = (true, f') ->
  file_is_adv f' = false \/ (forallb sb_is_adv (af_std f') = true /\ af_iat f' = []).
Proof.
  intros Hg. unfold file_create_all.
  destruct (negb (fo_skip_all (af_opts f)) && negb (fo_allow_missing_hdr (af_opts f)) && negb (af_hdr_ok f)); [discriminate|].
  destruct (negb (fo_skip_all (af_opts f)) && negb (fo_allow_zero (af_opts f)) && _ && _); [discriminate|].
  destruct (negb (file_is_adv f)) eqn:Ea.
  - intros H. injection H as <-. left. unfold file_is_adv, af_with in *. cbn [af_std].
    rewrite is_adv_renumber. now apply negb_true_iff in Ea.
  - rewrite Hg. cbn [andb]. destruct (af_iat f) as [|i ibs] eqn:Ei; [|discriminate].
    destruct (adv_file_loop 1 (af_std f)) as [ok ss] eqn:El. destruct ok; [|discriminate].
    intros H. injection H as <-. right. unfold af_with. cbn [af_std af_iat]. split; [|reflexivity].
    destruct (adv_file_loop_ok _ _ _ El) as (Hf & ->).
    clear -Hf. revert Hf. generalize 1. induction (af_std f) as [|s l IH]; intros q H; cbn [renumber_s forallb]; [reflexivity|].
    cbn [forallb] in H. apply andb_prop in H as [H0 H1]. rewrite (IH _ H1), andb_true_r.
    destruct (sb_num s <=? 1); [destruct s; cbn [sset_num sb_is_adv] in *; assumption|assumption].
Qed.

(* ------------------------------------------------------------------ validity of an IAT batch, per entry *)

(* the Arith half of [iat_entry_ok] is what Arith.validate_batch says about the abstract IAT batch:
   an input batch that validates supplies it for each of its entries *)
Lemma valid_iat_entries (A : Arith.tables) (hd : bytes -> hdrp) (ip : bytes -> ipay) (iq : bytes -> iqpay) x :
  Arith.validate_batch A (fi_batch A hd ip iq x) = Arith.ROk ->
  forall e, In e (b_entries x) ->
    class_okb A (hd_class (hd (b_sig x))) = true /\ hd_class (hd (b_sig x)) <> Arith.t_advclass A /\
    bytes_eqb (hd_odfi (hd (b_sig x))) (repeat zero 9) = false /\
    Arith.validate_entry A Arith.KIAT (fi_entry ip iq e) = Arith.ROk /\
    Arith.bytes_leb (e_trace e) (Arith.ascending_init Arith.KIAT) = false /\
    Arith.trace_prefix Arith.KIAT (fi_entry ip iq e) = stringField (hd_odfi (hd (b_sig x))) 8.
Proof.
  intros Hv e He.
  pose proof (verify_facts A _ (validate_batch_verify A _ Hv)) as F.
  destruct F as [_ Fe Fc Fcl Fo _ _ Fasc _ _ _ Ft].
  unfold Arith.validate_batch in Hv. cbn [fi_batch tabulate Arith.bt_kind] in Hv.
  apply andr_ok in Hv as [_ Hadv]. apply chk_true in Hadv; [|discriminate].
  cbn [fi_batch tabulate Arith.bt_kind Arith.bt_class Arith.bt_odfi Arith.bt_entries Arith.bt_ctl tab_ctl
       Arith.bc_class Arith.bc_odfi] in *.
  specialize (Fasc ltac:(discriminate)). apply ascending_above in Fasc.
  unfold Arith.trace_odfi_ok in Ft. rewrite forallb_forall in Ft.
  unfold Arith.validate_bctl in Fc. cbn [Arith.bc_class Arith.bc_odfi Arith.bc_debit Arith.bc_credit] in Fc. ok_split.
  rewrite Forall_forall in Fe, Fasc.
  assert (Hin : In (fi_entry ip iq e) (map (fi_entry ip iq) (b_entries x))) by now apply in_map.
  repeat split.
  - apply class_okb_spec. split; [|assumption].
    match goal with H : negb (_ =? 0) = true |- _ => now apply negb_true_iff, Z.eqb_neq in H end.
  - now apply negb_true_iff, Z.eqb_neq in Hadv.
  - match goal with H : negb (bytes_eqb _ _) = true |- _ => now apply negb_true_iff in H end.
  - now apply Fe.
  - exact (Fasc _ Hin).
  - symmetry. apply bytes_eqb_eq. now apply Ft.
Qed.

(* ------------------------------------------------------------------ the views of the correspondence *)

(* when every batch handed to AddToFile is created (standard) or created and validated (IAT), every
   view the correspondence prints carries the verdict "accepted" and a skeleton that validates *)
Lemma iat_views_accepted A T TT hd sp ip iq kiat all :
  Forall (fun x => created_s A T hd sp kiat x \/ created_iv A TT hd ip iq kiat x) (pre all) ->
  Forall (fun v => snd v = true /\ Arith.validate_batch A (fst v) = Arith.ROk) (iat_views A TT hd ip iq all).
Proof.
  unfold iat_views. fold (pre all). induction 1 as [|x l Hx _ IH]; cbn [flat_map]; [constructor|].
  apply Forall_app. split; [|exact IH].
  destruct Hx as [((Kx & _) & _)|(_ & b' & Hc & _ & _ & Hv & Hs & Hl & Hi)].
  - rewrite Kx. constructor.
  - destruct (b_kind x); [constructor|]. rewrite Hc. constructor; [|constructor]. cbn [fst snd].
    split; [|exact Hv]. unfold iat_validate. now rewrite Hv, Hs, Hl, Hi.
Qed.

(* ------------------------------------------------------------------ survivors, in terms of the Create predicates *)

Section Survive.
Variables (A : Arith.tables) (T : Offsets.otable) (TT : BuildIAT.ttable).
Hypothesis Hguard : BuildIAT.tt_adv_iat_guard TT = true.
Variables (hd : bytes -> hdrp) (sp : bytes -> stdp) (ip : bytes -> ipay) (ap : bytes -> apay).

Local Notation addall := (add_all A T TT hd sp ip ap).

(* AddToFile on one more batch adds at most one batch to f.Batches or f.IATBatches *)
Lemma add_all_cons_cases b r :
  addall (b :: r) = addall r
  \/ (exists s, addall (b :: r) = (s :: fst (addall r), snd (addall r)))
  \/ (exists i, addall (b :: r) = (fst (addall r), i :: snd (addall r))).
Proof.
  cbn [add_all]. destruct (addall r) as [ss ibs]. cbn [fst snd].
  destruct (b_kind b).
  - destruct (hd_adv (hd (b_sig b))).
    + destruct (create_adv TT hd ap b); [right; left; eexists; reflexivity|now left].
    + destruct (create_std A T hd sp b); [right; left; eexists; reflexivity|now left].
  - destruct (create_iat TT hd ip b); [right; right; eexists; reflexivity|now left].
Qed.

Lemma add_all_mono b r :
  (n_adv (fst (addall r)) <= n_adv (fst (addall (b :: r))))%nat /\
  (n_std (fst (addall r)) <= n_std (fst (addall (b :: r))))%nat /\
  (length (snd (addall r)) <= length (snd (addall (b :: r))))%nat.
Proof.
  destruct (add_all_cons_cases b r) as [E|[(s & E)|(i & E)]]; rewrite E; cbn [fst snd length]; unfold n_adv, n_std; cbn [filter].
  - lia.
  - destruct (sb_is_adv s); cbn [negb length]; lia.
  - lia.
Qed.

(* a consolidated batch whose Create succeeds survives AddToFile, by kind *)
Lemma survives_adv l x : In x l -> created_a TT hd ap x -> n_adv (fst (addall l)) <> 0%nat.
Proof.
  induction l as [|b r IH]; intros Hin Hx; [destruct Hin|]. destruct Hin as [->|Hin].
  - destruct Hx as (Hk & Hadv & a' & Hc). cbn [add_all]. destruct (addall r) as [ss ibs].
    rewrite Hk, Hadv, Hc. cbn [fst]. unfold n_adv. cbn [filter sb_is_adv length]. discriminate.
  - specialize (IH Hin Hx). destruct (add_all_mono b r) as (M & _). lia.
Qed.

Lemma survives_std l x : In x l -> created A T hd sp x -> n_std (fst (addall l)) <> 0%nat.
Proof.
  induction l as [|b r IH]; intros Hin Hx; [destruct Hin|]. destruct Hin as [->|Hin].
  - destruct Hx as (Hk & Hadv & b' & Hc & _). cbn [add_all]. destruct (addall r) as [ss ibs].
    rewrite Hk, Hadv, Hc. cbn [fst]. unfold n_std. cbn [filter sb_is_adv negb length]. discriminate.
  - specialize (IH Hin Hx). destruct (add_all_mono b r) as (_ & M & _). lia.
Qed.

Lemma survives_iat l x : In x l -> b_kind x = Flatten.KIAT -> create_iat TT hd ip x <> None -> snd (addall l) <> [].
Proof.
  induction l as [|b r IH]; intros Hin Hk Hx; [destruct Hin|]. destruct Hin as [->|Hin].
  - cbn [add_all]. destruct (addall r) as [ss ibs]. rewrite Hk.
    destruct (create_iat TT hd ip x); [cbn [snd]; discriminate|congruence].
  - specialize (IH Hin Hk Hx). destruct (add_all_mono b r) as (_ & _ & M).
    destruct (snd (addall r)); [congruence|]. destruct (snd (addall (b :: r))); [cbn [length] in M; lia|discriminate].
Qed.

(* FlattenBatches on ANY input: if among the batches handed to AddToFile an ADV batch passes its Create
   and a standard batch (or an IAT batch) passes its Create, File.Create refuses the new file *)
Theorem mixed_adv_created inf all x y :
  In x (pre all) -> created_a TT hd ap x ->
  In y (pre all) -> (created A T hd sp y \/ (b_kind y = Flatten.KIAT /\ create_iat TT hd ip y <> None)) ->
  fst (finish A T TT hd sp ip ap inf all) = FErrCreate.
Proof.
  intros Hx Cx Hy Cy. apply (finish_mixed_adv_error A T TT Hguard); unfold survivors; fold (pre all).
  - exact (survives_adv _ x Hx Cx).
  - destruct Cy as [Cy|(Ky & Cy)].
    + pose proof (survives_std _ y Hy Cy). lia.
    + pose proof (survives_iat _ y Hy Ky Cy) as H. destruct (snd (addall (pre all))); [congruence|cbn [length]; lia].
Qed.

End Survive.

(* ------------------------------------------------------------------ the per-pair hypothesis from batch validity *)

(* [iat_pair] for every pair of the file follows from: every IAT batch of the input validates in the Arith
   sense (as abstract batch [fi_batch]) and, per entry, the three facts outside Arith *)
Lemma iat_pairs_of_valid (A : Arith.tables) (hd : bytes -> hdrp) (ip : bytes -> ipay) (iq : bytes -> iqpay) (kiat : bytes -> bool) inp :
  Forall (fun b => kiat (b_sig b) = true ->
            Arith.validate_batch A (fi_batch A hd ip iq b) = Arith.ROk /\
            Forall (fun e => Offsets.trace_odfi (tnum (e_trace e)) = hd_odfi_z (hd (b_sig b)) /\ rdfi_tied ip iq e /\
                             (ip_n17 (ip (e_core e)) <= 2)%nat /\ (ip_n18 (ip (e_core e)) <= 5)%nat) (b_entries b)) inp ->
  Forall (iat_pair A hd ip iq kiat) (ids inp).
Proof.
  induction 1 as [|b l Hb _ IH]; unfold ids; cbn [flat_map]; [constructor|].
  apply Forall_app. split; [|exact IH].
  apply Forall_forall. intros p Hp. unfold ids_of in Hp. apply in_map_iff in Hp as (e & <- & He).
  unfold iat_pair. cbn [fst snd]. intros Ki. destruct (Hb Ki) as (Hv & Hes).
  destruct (valid_iat_entries A hd ip iq b Hv e He) as (K1 & K2 & K3 & K4 & K5 & K6).
  rewrite Forall_forall in Hes. destruct (Hes e He) as (K7 & K8 & K9 & K10).
  unfold iat_entry_ok. repeat split; assumption.
Qed.

(* ------------------------------------------------------------------ input level: a standard file and an ADV file in one *)

Section MixedInput.
Variables (A : Arith.tables) (T : Offsets.otable) (TT : BuildIAT.ttable).
Hypothesis HA : agree A T.
Hypothesis Hguard : BuildIAT.tt_adv_iat_guard TT = true.
Variables (hd : bytes -> hdrp) (sp : bytes -> stdp) (ip : bytes -> ipay) (ap : bytes -> apay).

Local Notation fb := (f_batch A (hp_of hd) (fp_of sp)).
Local Notation pok := (pair_ok A (hp_of hd) (fp_of sp)).

(* a list of standard batches and ADV batches (File.Create never returns such a file; it can be assembled) *)
Definition sa_file (inp : list batch) : Prop :=
  Forall (fun b => b_kind b = Flatten.KStd /\
            ((hd_adv (hd (b_sig b)) = false /\ b_entries b <> [] /\ b_adv b = []) \/
             (hd_adv (hd (b_sig b)) = true /\ b_entries b = [] /\ b_adv b <> []))) inp.

Lemma sa_pairs_ok inp : sa_file inp ->
  Forall (fun b => hd_adv (hd (b_sig b)) = false -> Arith.validate_batch A (fb b) = Arith.ROk) inp ->
  Forall pok (ids inp).
Proof.
  intros Hsa Hv. induction inp as [|b l IH]; unfold ids; cbn [flat_map]; [constructor|].
  inversion Hsa as [|? ? (_ & Hb) Hl]; subst. inversion Hv as [|? ? Vb Vl]; subst.
  apply Forall_app. split; [|now apply IH].
  destruct Hb as [(Hn & _ & _)|(_ & He & _)].
  - apply valid_pairs. now apply Vb.
  - unfold ids_of. rewrite He. constructor.
Qed.

(* The standard batches satisfy the hypotheses of C12_succeeds (validity in the Arith sense, header valid,
   trace numbers carrying the ODFI, totals within the file limit), the ADV batches those of C12_succeeds_adv
   (header valid, at most 9998 ADV entries), the category rule holds, and the list holds at least one batch
   of each kind: every consolidated batch passes its Create, an ADV batch stands next to a standard batch
   in the new file, and File.Create refuses it — FlattenBatches returns that error, for every processing
   order and map order *)
Theorem flatten_mixed_input inf inp r :
  sa_file inp ->
  (exists b, In b inp /\ b_entries b <> []) -> (exists b, In b inp /\ b_adv b <> []) ->
  Forall traces_nodup inp ->
  Forall (fun b => hd_adv (hd (b_sig b)) = false -> Arith.validate_batch A (fb b) = Arith.ROk) inp ->
  Forall (hdr_pair hd) (ids inp) ->
  Forall (fun p => hd_adv (hd (fst p)) = true /\ hd_ok (hd (fst p)) = true) (adv_ids inp) ->
  sum_ids (db_e T sp) inp <= Arith.t_file_limit A -> sum_ids (cr_e T sp) inp <= Arith.t_file_limit A ->
  Arith.t_file_limit A <= Arith.t_batch_limit A ->
  BuildIAT.zlen (adv_ids inp) <= 9998 ->
  cat_rule inp ->
  flatten_full_spec A T TT hd sp ip ap inf inp r ->
  fst r = FErrCreate.
Proof.
  intros Hsa (bs & Hbs & Ebs) (ba & Hba & Eba) Hnd Hv Hhp Hap L1 L2 L3 Hsz Hcat (order & all & Hadm & Hall & ->).
  assert (Hs : flatten_spec inp (finalize all)) by (exists order, all; split; [exact Hadm|split; [exact Hall|reflexivity]]).
  destruct Hadm as (Hperm & Hsorted). unfold sa_file in Hsa.
  assert (Hk : kinds_consistent inp).
  { intros a b Ha Hb _. rewrite Forall_forall in Hsa. destruct (Hsa a Ha) as (-> & _). now destruct (Hsa b Hb) as (-> & _). }
  assert (Hne' : Forall nonempty inp).
  { eapply Forall_impl; [|exact Hsa]. intros x (_ & [(_ & H & _)|(_ & _ & H)]); [now left|now right]. }
  destruct (flatten_conservation inp _ Hk Hs) as (P1 & P2).
  destruct (flatten_wellformed inp _ Hnd Hne' Hs) as (Hw & _).
  pose proof (flatten_pairs inp _ pok Hk Hs (sa_pairs_ok inp Hsa Hv)) as Hpok.
  pose proof (flatten_pairs inp _ (hdr_pair hd) Hk Hs Hhp) as Hhdr.
  pose proof (flatten_category inp _ Hk (cat_rule_uniform inp Hcat) Hs) as Hck.
  assert (Hcok : forallb category_ok (finalize all) = true).
  { unfold checked in Hck. destruct (forallb category_ok (finalize all)); [reflexivity|discriminate]. }
  assert (Hap' : Forall (fun p => hd_adv (hd (fst p)) = true /\ hd_ok (hd (fst p)) = true) (adv_ids (finalize all)))
    by (eapply Permutation_Forall; [apply Permutation_sym, P2|exact Hap]).
  destruct (run_ids order (kinds_consistent_perm _ _ (Permutation_sym Hperm) Hk)) as (R1 & R2).
  assert (Pall : Permutation (ids (pre all)) (ids inp)).
  { rewrite (pre_ids all), (ids_perm _ _ Hall), R1. now apply ids_perm. }
  assert (Qall : Permutation (adv_ids (pre all)) (adv_ids inp)).
  { unfold pre. rewrite adv_ids_map_sort_entries, (adv_ids_perm _ _ (sort_by_perm num_ltb all)), (adv_ids_perm _ _ Hall), R2.
    now apply adv_ids_perm. }
  assert (Hkind : Forall (fun b => b_kind b = Flatten.KStd) (pre all)).
  { assert (Ho : Forall (fun b => b_kind b = Flatten.KStd) order).
    { apply Forall_forall. intros b Hb. eapply Permutation_in in Hb; [|exact Hperm].
      rewrite Forall_forall in Hsa. now destruct (Hsa b Hb). }
    pose proof (run_P (fun b => b_kind b = Flatten.KStd) (fun m b Hm _ _ => eq_trans (consume_kind m b) Hm) order Ho) as Hr.
    rewrite Forall_forall in Hr.
    apply Forall_forall. intros x Hx. unfold pre in Hx. apply in_map_iff in Hx as (y & <- & Hy). cbn [sort_entries b_kind].
    apply Hr. eapply Permutation_in; [exact Hall|]. eapply Permutation_in; [apply sort_by_perm|exact Hy]. }
  rewrite Forall_forall in Hw, Hpok, Hhdr, Hap', Hkind.
  (* a signature is either standard or ADV *)
  assert (Hexcl : forall y e a, In y (finalize all) -> In e (b_entries y) -> In a (b_adv y) -> False).
  { intros y e a Hy He Ha.
    destruct (Hhdr (b_sig y, e) (in_ids y _ e Hy He)) as (F & _). cbn [fst] in F.
    destruct (Hap' (b_sig y, a) (in_adv_ids y _ a Hy Ha)) as (G & _). cbn [fst] in G. congruence. }
  (* the standard survivor *)
  destruct (b_entries bs) as [|e0 q0] eqn:Ee0; [congruence|].
  assert (Hin0 : In (b_sig bs, e0) (ids (pre all))).
  { eapply Permutation_in; [apply Permutation_sym, Pall|]. apply in_ids; [exact Hbs|rewrite Ee0; now left]. }
  unfold ids in Hin0. apply in_flat_map in Hin0 as (y & Hy & Hin0).
  unfold ids_of in Hin0. apply in_map_iff in Hin0 as (e1 & Ee1 & He1).
  (* the ADV survivor *)
  destruct (b_adv ba) as [|a0 q1] eqn:Ea0; [congruence|].
  assert (Hin1 : In (b_sig ba, a0) (adv_ids (pre all))).
  { eapply Permutation_in; [apply Permutation_sym, Qall|]. apply in_adv_ids; [exact Hba|rewrite Ea0; now left]. }
  unfold adv_ids in Hin1. apply in_flat_map in Hin1 as (x & Hx & Hin1).
  unfold adv_ids_of in Hin1. apply in_map_iff in Hin1 as (a1 & Ea1 & Ha1).
  apply (mixed_adv_created A T TT Hguard hd sp ip ap inf all x y Hx); [|exact Hy|left].
  - (* created_a x *)
    destruct (pre_in_out all x Hx) as (z & Hz & Kz & Sz & Ez & Az).
    assert (Hze : b_entries z = []).
    { destruct (b_entries z) as [|e q] eqn:E; [reflexivity|]. exfalso.
      apply (Hexcl z e a1 Hz); [rewrite E; now left|now rewrite Az]. }
    assert (Hin : In (b_sig z, a1) (adv_ids (finalize all))) by (apply in_adv_ids; [exact Hz|now rewrite Az]).
    destruct (Hap' _ Hin) as (Had & Hok). cbn [fst] in Had, Hok.
    split; [now apply Hkind|]. split; [now rewrite <- Sz|].
    assert (Hc : category_ok x = true).
    { rewrite forallb_forall in Hcok. specialize (Hcok z Hz). unfold category_ok in *. now rewrite <- Ez, <- Az. }
    assert (Hlen : BuildIAT.zlen (b_adv x) <= 9998).
    { rewrite <- Az. unfold BuildIAT.zlen. pose proof (adv_member_le _ z Hz) as Hm.
      rewrite (Permutation_length P2) in Hm. unfold BuildIAT.zlen in Hsz. lia. }
    assert (Hsome : create_adv TT hd ap x <> None).
    { apply create_adv_iff; try assumption; [now rewrite <- Sz|now rewrite <- Ez|].
      intros En. rewrite En in Ha1. destruct Ha1. }
    destruct (create_adv TT hd ap x) as [a'|]; [now exists a'|congruence].
  - (* created y *)
    destruct (pre_in_out all y Hy) as (z & Hz & Kz & Sz & Ez & Az).
    destruct (Hw z Hz) as (Hso & _).
    assert (Hza : b_adv z = []).
    { destruct (b_adv z) as [|a q] eqn:E; [reflexivity|]. exfalso.
      apply (Hexcl z e1 a Hz); [now rewrite Ez|rewrite E; now left]. }
    assert (Hyne : b_entries y <> []) by (intros En; rewrite En in He1; destruct He1).
    assert (Hidx : forall e, In e (b_entries y) -> In (b_sig y, e) (ids (finalize all))).
    { intros e He. rewrite <- Sz. apply in_ids; [exact Hz|now rewrite Ez]. }
    destruct (Hhdr _ (Hidx e1 He1)) as (Hna & Hok & _). cbn [fst] in Hna, Hok.
    split; [now apply Hkind|]. split; [exact Hna|].
    assert (Hamt : forall p, In p (ids (finalize all)) -> 0 <= e_amount (snd p)).
    { intros p Hp. destruct (Hpok p Hp) as (_ & _ & Hst & _).
      apply entry_static_spec in Hst as [Hst _]. apply validate_entry_facts in Hst as (_ & _ & Ha). now destruct (Ha eq_refl). }
    assert (Hfit : fits A sp z).
    { unfold fits. rewrite <- (full_debit A T HA sp), <- (full_credit A T HA sp), (debits_sum T sp), (credits_sum T sp). split.
      - eapply Z.le_trans; [apply (sum_member_le (db_e T sp) (finalize all) z); [|exact Hz]|].
        + intros p Hp. specialize (Hamt p Hp). unfold db_e, Offsets.db_amt, to_off_entry. cbn [Offsets.e_code Offsets.e_amount].
          destruct (Offsets.mem _ (Offsets.t_credit T)); [lia|]. destruct (Offsets.mem _ (Offsets.t_debit T)); lia.
        + rewrite (sum_ids_perm _ _ _ P1). lia.
      - eapply Z.le_trans; [apply (sum_member_le (cr_e T sp) (finalize all) z); [|exact Hz]|].
        + intros p Hp. specialize (Hamt p Hp). unfold cr_e, Offsets.cr_amt, to_off_entry. cbn [Offsets.e_code Offsets.e_amount].
          destruct (Offsets.mem _ (Offsets.t_credit T)); lia.
        + rewrite (sum_ids_perm _ _ _ P1). lia. }
    assert (Hvy : Arith.validate_batch A (fb y) = Arith.ROk).
    { destruct Hfit as (F1 & F2). apply pairs_valid.
      - apply Forall_forall. intros p Hp. unfold ids_of in Hp. apply in_map_iff in Hp as (e & <- & He). now apply Hpok, Hidx.
      - exact Hyne.
      - rewrite <- Ez. exact Hso.
      - rewrite <- Ez. exact F1.
      - rewrite <- Ez. exact F2. }
    assert (Hcy : category_ok y = true).
    { rewrite forallb_forall in Hcok. specialize (Hcok z Hz). unfold category_ok in *. now rewrite <- Ez, <- Az. }
    destruct (create_std_spec A T HA hd sp y Hok Hyne) as (b' & Hc & He & Hctl & Hsk); [|exact Hvy|exact Hcy|].
    + unfold traces_prefixed. apply Forall_forall. intros e He. now destruct (Hhdr _ (Hidx e He)) as (_ & _ & Ht).
    + exists b'. split; [exact Hc|]. split; [exact Hctl|]. split; [exact He|]. split; [now rewrite Hsk|].
      now rewrite (is_category_std_ok y Hyne).
Qed.

End MixedInput.

(* C12, phase 7 — facts about FlattenFullIAT.v:
   * [tabulated_iat_valid] / [tabulate_iat_valid]: the IAT analogue of ValidOutFacts.tabulate_valid —
     a KIAT batch whose control Create has written passes Arith.validate_batch under conditions
     on the header and the entries;
   * [create_iat_validates]: on a consolidated IAT batch whose entries carry the header's ODFI,
     the Arith skeleton of what IATBatch.build leaves IS the abstract batch [fi_batch], the
     validator accepts it, so Create with the validator ([create_iat_v]) returns what
     FlattenFull.create_iat returns;
   * [consolidated_validated]: every IAT batch Flatten hands to AddToFile validates;
   * files that mix ADV batches with others: the outcome class of [finish] in terms of the
     survivors of AddToFile; File.Create never returns a file that mixes the kinds. *)
From Coq Require Import Lia Permutation Sorted.
From ACH Require Import ValidOut ValidOutFacts.
From ACH Require Import OffsetsFacts BuildIATFacts BuildADVFacts FileCreateAll FileCreateAllFacts ValidOffsets ValidOffsetsFacts.
From ACH Require Import Bytes Fields Flatten FlattenFacts ValidFlatten ValidFlattenFacts FlattenFull FlattenFullFacts FlattenFullIAT.
Open Scope Z_scope.

(* ------------------------------------------------------------------ tables *)

Record iagree (A : Arith.tables) (TT : BuildIAT.ttable) : Prop := {
  ia_credit : forall c, Arith.adds_credit A Arith.KIAT c = Offsets.mem c (BuildIAT.tt_iat_credit TT);
  ia_debit : forall c, Arith.adds_debit A Arith.KIAT c =
                       negb (Offsets.mem c (BuildIAT.tt_iat_credit TT)) && Offsets.mem c (BuildIAT.tt_iat_debit TT);
  ia_hash : Arith.t_hash_digits A = 10 }.

Lemma lists_agree2_mem a b c : lists_agree2 a b = true -> Offsets.mem c a = Offsets.mem c b.
Proof.
  unfold lists_agree2. intros H. apply andb_prop in H as [H1 H2]. rewrite forallb_forall in H1, H2.
  destruct (Offsets.mem c a) eqn:Ea, (Offsets.mem c b) eqn:Eb; try reflexivity.
  - apply mem_In in Ea. specialize (H1 c Ea). congruence.
  - apply mem_In in Eb. specialize (H2 c Eb). congruence.
Qed.

Lemma iat_tables_agree_sound A TT : iat_tables_agree A TT = true -> iagree A TT.
Proof.
  unfold iat_tables_agree. intros H. apply andb_prop in H as [H K3]. apply andb_prop in H as [K1 K2].
  constructor.
  - intros c. unfold Arith.adds_credit. cbn [Arith.credit_list]. rewrite memz_mem. now apply lists_agree2_mem.
  - intros c. unfold Arith.adds_debit. cbn [Arith.credit_list Arith.debit_list]. rewrite !memz_mem.
    f_equal; [f_equal|]; now apply lists_agree2_mem.
  - now apply Z.eqb_eq.
Qed.

(* ------------------------------------------------------------------ a tabulated IAT batch *)

(* the checks of IATBatch.verify / Validate (as far as Arith models them) on a batch whose control
   Create has written are down to conditions on the header and the entries *)
Theorem tabulated_iat_valid T b :
  Arith.bt_kind b = Arith.KIAT -> tabulated T b ->
  class_okb T (Arith.bt_class b) = true -> Arith.bt_class b <> Arith.t_advclass T ->
  bytes_eqb (Arith.bt_odfi b) (repeat zero 9) = false ->
  Arith.bt_entries b <> [] ->
  Forall (fun e => Arith.validate_entry T Arith.KIAT e = Arith.ROk) (Arith.bt_entries b) ->
  Arith.ascending (Arith.ascending_init Arith.KIAT) (Arith.bt_entries b) = true ->
  Forall (fun e => Arith.trace_prefix Arith.KIAT e = stringField (Arith.bt_odfi b) 8) (Arith.bt_entries b) ->
  Arith.calc_debit T Arith.KIAT (Arith.bt_entries b) <= Arith.t_batch_limit T ->
  Arith.calc_credit T Arith.KIAT (Arith.bt_entries b) <= Arith.t_batch_limit T ->
  Arith.validate_batch T b = Arith.ROk.
Proof.
  intros Ek Ht Hcls Hadv Hodfi Hne Hst Hasc Hpre Hd Hc.
  apply class_okb_spec in Hcls as [Hc0 Hcm].
  unfold tabulated in Ht. rewrite Ek in Ht.
  unfold Arith.validate_batch. rewrite Ek. apply andr_intro.
  - apply verify_intro.
    constructor; rewrite ?Ek, ?Ht; cbn [tab_ctl Arith.bc_class Arith.bc_count Arith.bc_hash Arith.bc_debit Arith.bc_credit Arith.bc_odfi Arith.bc_number];
      try reflexivity; try assumption.
    + unfold Arith.validate_bctl. cbn [tab_ctl Arith.bc_class Arith.bc_odfi Arith.bc_debit Arith.bc_credit].
      repeat apply andr_intro; try reflexivity; apply chk_intro.
      * now apply negb_true_iff, Z.eqb_neq.
      * now rewrite Hodfi.
      * exact Hcm.
      * now apply Z.leb_le.
      * now apply Z.leb_le.
    + intros _. exact Hasc.
    + unfold Arith.trace_odfi_ok. apply forallb_forall. intros e Hin. rewrite Forall_forall in Hpre.
      apply bytes_eqb_eq. symmetry. now apply Hpre.
  - apply chk_intro. now apply negb_true_iff, Z.eqb_neq.
Qed.

Corollary tabulate_iat_valid T cls odfi num es :
  class_okb T cls = true -> cls <> Arith.t_advclass T -> bytes_eqb odfi (repeat zero 9) = false -> es <> [] ->
  Forall (fun e => Arith.validate_entry T Arith.KIAT e = Arith.ROk) es ->
  Arith.ascending (Arith.ascending_init Arith.KIAT) es = true ->
  Forall (fun e => Arith.trace_prefix Arith.KIAT e = stringField odfi 8) es ->
  Arith.calc_debit T Arith.KIAT es <= Arith.t_batch_limit T -> Arith.calc_credit T Arith.KIAT es <= Arith.t_batch_limit T ->
  Arith.validate_batch T (tabulate T Arith.KIAT cls odfi num es) = Arith.ROk.
Proof. intros. apply tabulated_iat_valid; cbn [tabulate Arith.bt_kind Arith.bt_class Arith.bt_odfi Arith.bt_entries]; try assumption; reflexivity. Qed.

(* a valid IAT batch IS tabulated: its control equals Create's recomputation *)
Lemma valid_iat_tabulated T b : Arith.bt_kind b = Arith.KIAT -> Arith.validate_batch T b = Arith.ROk -> tabulated T b.
Proof.
  intros Ek Hv. destruct (verify_facts T b (validate_batch_verify T b Hv)) as [_ _ _ Fcl Fo Fn Fcnt _ Fd Fcr Fh _].
  unfold tabulated, tab_ctl. rewrite Ek in *. rewrite Fcl, Fo, Fn, Fcnt, Fd, Fcr, Fh. now destruct (Arith.bt_ctl b).
Qed.

(* ------------------------------------------------------------------ what build keeps *)

Lemma traces_after_kept odfi o es : forallb (ihas_prefix odfi) es = true -> forall s,
  traces_after odfi o s es = map BuildIAT.ie_trace es.
Proof.
  induction es as [|e r IH]; intros H s; cbn [traces_after map]; [reflexivity|].
  cbn [forallb] in H. apply andb_prop in H as [H0 Hr]. now rewrite H0, (IH Hr).
Qed.

Lemma static_forallb (P : BuildIAT.ientry -> bool) :
  (forall e e', ie_static e = ie_static e' -> P e = P e') ->
  forall es es', map ie_static es' = map ie_static es -> forallb P es' = forallb P es.
Proof.
  intros HP. induction es as [|e r IH]; intros [|e' r'] H; cbn [map] in H; try discriminate; [reflexivity|].
  apply cons_inj in H as [He Hr]. cbn [forallb]. now rewrite (HP _ _ He), (IH _ Hr).
Qed.

Lemma addenda_limits_static e e' : ie_static e = ie_static e' -> addenda_limits e = addenda_limits e'.
Proof.
  intros H. destruct (static_inv _ _ H) as (_ & _ & _ & _ & _ & H6 & H7 & _).
  unfold addenda_limits, BuildIAT.zlen. now rewrite H6, H7.
Qed.

Section IAT.
Variables (A : Arith.tables) (TT : BuildIAT.ttable).
Hypothesis HI : iagree A TT.
Variables (hd : bytes -> hdrp) (ip : bytes -> ipay) (iq : bytes -> iqpay).

Local Notation toi := (to_iat_entry ip).
Local Notation fie := (fi_entry ip iq).

(* the routing number the tabulation of C05 adds up is Atoi(aba8) of the stored string *)
Definition rdfi_tied (e : entry) : Prop :=
  ip_rdfi (ip (e_core e)) = atoi (Arith.aba8 (iq_rdfi (iq (e_core e)))).

Lemma isk_entries_same es : forall es',
  map ie_static es' = map ie_static (map toi es) ->
  map BuildIAT.ie_trace es' = map BuildIAT.ie_trace (map toi es) ->
  isk_entries iq es es' = map fie es.
Proof.
  induction es as [|e r IH]; intros [|e' r'] Hs Ht; cbn [map] in Hs, Ht; try discriminate; [reflexivity|].
  apply cons_inj in Hs as [Hs Hsr]. apply cons_inj in Ht as [Ht Htr].
  cbn [isk_entries map]. rewrite (IH _ Hsr Htr). f_equal.
  destruct (static_inv _ _ Hs) as (H1 & H2 & _).
  unfold isk_entry, fi_entry. rewrite H1, H2, Ht, (static_icount_one _ _ Hs).
  unfold to_iat_entry at 1 2 3. cbn [BuildIAT.ie_code BuildIAT.ie_amount BuildIAT.ie_trace].
  now rewrite Z.eqb_refl.
Qed.

Lemma fi_count es : Arith.calc_count (map fie es) = BuildIAT.icount (map toi es).
Proof.
  unfold BuildIAT.icount. induction es as [|e es IH]; cbn [map Arith.calc_count BuildIAT.zsum]; [reflexivity|].
  rewrite IH. unfold fi_entry at 1. cbn [Arith.en_addenda]. lia.
Qed.

Lemma fi_hash es : Forall rdfi_tied es ->
  Arith.calc_hash A (map fie es) = BuildIAT.ihash (map toi es).
Proof.
  intros H. unfold Arith.calc_hash, Arith.least_sig, BuildIAT.ihash. rewrite (ia_hash A TT HI).
  replace (Arith.hash_sum (map fie es)) with (BuildIAT.zsum BuildIAT.ie_rdfi (map toi es)); [reflexivity|].
  induction H as [|e es He _ IH]; cbn [map Arith.hash_sum BuildIAT.zsum]; [reflexivity|]. rewrite IH. f_equal.
  unfold to_iat_entry, fi_entry. cbn [BuildIAT.ie_rdfi Arith.en_rdfi]. exact He.
Qed.

Lemma fi_credit es : Arith.calc_credit A Arith.KIAT (map fie es) = BuildIAT.icredits TT (map toi es).
Proof.
  unfold Arith.calc_credit, BuildIAT.icredits. induction es as [|e es IH]; cbn [map Arith.sum_where BuildIAT.zsum]; [reflexivity|].
  rewrite IH. f_equal. unfold fi_entry at 1 2. cbn [Arith.en_code Arith.en_amount]. rewrite (ia_credit A TT HI).
  unfold BuildIAT.icr_amt, to_iat_entry. cbn [BuildIAT.ie_code BuildIAT.ie_amount]. reflexivity.
Qed.

Lemma fi_debit es : Arith.calc_debit A Arith.KIAT (map fie es) = BuildIAT.idebits TT (map toi es).
Proof.
  unfold Arith.calc_debit, BuildIAT.idebits. induction es as [|e es IH]; cbn [map Arith.sum_where BuildIAT.zsum]; [reflexivity|].
  rewrite IH. f_equal. unfold fi_entry at 1 2. cbn [Arith.en_code Arith.en_amount]. rewrite (ia_debit A TT HI).
  unfold BuildIAT.idb_amt, to_iat_entry. cbn [BuildIAT.ie_code BuildIAT.ie_amount].
  destruct (Offsets.mem (ip_code (ip (e_core e))) (BuildIAT.tt_iat_credit TT)); cbn [negb andb]; [reflexivity|].
  destruct (Offsets.mem (ip_code (ip (e_core e))) (BuildIAT.tt_iat_debit TT)); reflexivity.
Qed.

(* every trace number carries the header's ODFI (integer form: what IATBatch.build tests) *)
Definition itraces_prefixed (b : batch) : Prop :=
  Forall (fun e => Offsets.trace_odfi (tnum (e_trace e)) = hd_odfi_z (hd (b_sig b))) (b_entries b).

(* IATBatch.build on a consolidated batch whose entries carry the ODFI leaves exactly the abstract
   batch [fi_batch]: the control is Arith's recomputation over the caller's entries *)
Lemma iat_build_skeleton x b' :
  BuildIAT.iat_build TT (to_iat hd ip x) = (true, b') ->
  itraces_prefixed x -> Forall rdfi_tied (b_entries x) ->
  iat_skeleton hd iq x b' = fi_batch A hd ip iq x
  /\ map ie_static (BuildIAT.ib_entries b') = map ie_static (map toi (b_entries x)).
Proof.
  intros Hb Hpre Htied. apply iat_build_ok_inv in Hb as (_ & _ & es' & Hl & ->).
  cbn [to_iat BuildIAT.ib_odfi_num BuildIAT.ib_odfi BuildIAT.ib_opts BuildIAT.ib_entries] in Hl.
  pose proof (iat_loop_static _ _ _ _ _ _ _ Hl) as Hst.
  pose proof (iat_loop_traces _ _ _ _ _ _ Hl) as Htr.
  rewrite traces_after_kept in Htr.
  2:{ apply forallb_forall. intros y Hy. apply in_map_iff in Hy as (e & <- & He).
      unfold itraces_prefixed in Hpre. rewrite Forall_forall in Hpre.
      unfold ihas_prefix, to_iat_entry. cbn [BuildIAT.ie_trace]. apply Z.eqb_eq. now apply Hpre. }
  destruct (static_sums TT _ _ Hst) as (S1 & S2 & S3 & S4).
  split; [|exact Hst].
  unfold iat_skeleton, fi_batch, tabulate, tab_ctl, ib_with, ictl_of, to_iat.
  cbn [BuildIAT.ib_ctl BuildIAT.ib_svc BuildIAT.ib_num BuildIAT.ib_entries Offsets.c_svc Offsets.c_count Offsets.c_hash
       Offsets.c_debit Offsets.c_credit Offsets.c_num].
  rewrite (isk_entries_same _ _ Hst Htr), S1, S2, S3, S4, fi_count, (fi_hash _ Htied), fi_credit, fi_debit. reflexivity.
Qed.

(* what validity of an IAT batch says about one of its entries under its header — the part of
   IATBatch.Validate that Arith models, the two addenda limits, and the link between the payloads *)
Definition iat_entry_ok (s : bytes) (e : entry) : Prop :=
  class_okb A (hd_class (hd s)) = true /\ hd_class (hd s) <> Arith.t_advclass A /\
  bytes_eqb (hd_odfi (hd s)) (repeat zero 9) = false /\
  Arith.validate_entry A Arith.KIAT (fie e) = Arith.ROk /\
  Arith.bytes_leb (e_trace e) (Arith.ascending_init Arith.KIAT) = false /\
  Arith.trace_prefix Arith.KIAT (fie e) = stringField (hd_odfi (hd s)) 8 /\
  Offsets.trace_odfi (tnum (e_trace e)) = hd_odfi_z (hd s) /\
  rdfi_tied e /\
  (ip_n17 (ip (e_core e)) <= 2)%nat /\ (ip_n18 (ip (e_core e)) <= 5)%nat.

(* the abstract IAT batch of admissible entries, strictly sorted by trace number, validates *)
Lemma ipairs_valid x :
  (forall e, In e (b_entries x) -> iat_entry_ok (b_sig x) e) -> b_entries x <> [] ->
  StronglySorted trace_lt (b_entries x) ->
  Arith.calc_debit A Arith.KIAT (map fie (b_entries x)) <= Arith.t_batch_limit A ->
  Arith.calc_credit A Arith.KIAT (map fie (b_entries x)) <= Arith.t_batch_limit A ->
  Arith.validate_batch A (fi_batch A hd ip iq x) = Arith.ROk.
Proof.
  intros Hpe Hne Hs Hd Hc.
  destruct (b_entries x) as [|e0 es0] eqn:E; [congruence|]. rewrite <- E in *.
  destruct (Hpe e0 ltac:(rewrite E; now left)) as (K1 & K2 & K3 & _).
  unfold fi_batch. apply tabulate_iat_valid; try assumption.
  - intros En. apply map_eq_nil in En. congruence.
  - apply Forall_forall. intros y Hy. apply in_map_iff in Hy as (e & <- & He). now destruct (Hpe e He) as (_ & _ & _ & K & _).
  - apply ascending_from_sorted.
    + apply Forall_forall. intros y Hy. apply in_map_iff in Hy as (e & <- & He).
      destruct (Hpe e He) as (_ & _ & _ & _ & K & _). exact K.
    + rewrite map_map. cbn [fi_entry Arith.en_trace]. apply (Sorted_map trace_lt); [apply trace_lt_bytes_lt|].
      now apply StronglySorted_Sorted.
  - apply Forall_forall. intros y Hy. apply in_map_iff in Hy as (e & <- & He). now destruct (Hpe e He) as (_ & _ & _ & _ & _ & K & _).
Qed.

(* Create WITH the validator on a consolidated IAT batch: build succeeds (FlattenFull.create_iat),
   its Arith skeleton is the abstract batch and validates, every addenda record refers to its
   entry, the addenda limits hold, isCategory passes — so IATBatch.Create returns what build left *)
Theorem create_iat_validates x :
  hd_ok (hd (b_sig x)) = true -> hd_odfi_num (hd (b_sig x)) = true -> b_entries x <> [] ->
  Forall (fun e => BuildIAT.incl_ok (toi e) = true /\ ip_tr_num (ip (e_core e)) = true) (b_entries x) ->
  (forall e, In e (b_entries x) -> iat_entry_ok (b_sig x) e) ->
  StronglySorted trace_lt (b_entries x) ->
  BuildIAT.idebits TT (map toi (b_entries x)) <= Arith.t_batch_limit A ->
  BuildIAT.icredits TT (map toi (b_entries x)) <= Arith.t_batch_limit A ->
  category_ok x = true ->
  exists b', create_iat TT hd ip x = Some b' /\ create_iat_v A TT hd ip iq x = Some b'
    /\ iat_skeleton hd iq x b' = fi_batch A hd ip iq x
    /\ Arith.validate_batch A (iat_skeleton hd iq x b') = Arith.ROk
    /\ forallb seqs_okb (BuildIAT.ib_entries b') = true
    /\ forallb addenda_limits (BuildIAT.ib_entries b') = true
    /\ is_category_iat x = true.
Proof.
  intros Hok Hnum Hne Hes Hpe Hso Hd Hc Hcat.
  destruct (create_iat_spec TT hd ip x Hok Hnum Hne Hes Hcat) as (b' & Hcr & _).
  exists b'. split; [exact Hcr|].
  assert (Hb : BuildIAT.iat_build TT (to_iat hd ip x) = (true, b')).
  { unfold create_iat in Hcr. destruct (BuildIAT.iat_build TT (to_iat hd ip x)) as [[|] b0]; [|discriminate].
    destruct (is_category_iat x); [|discriminate]. now injection Hcr as ->. }
  assert (Hpre : itraces_prefixed x).
  { apply Forall_forall. intros e He. now destruct (Hpe e He) as (_ & _ & _ & _ & _ & _ & K & _). }
  assert (Htied : Forall rdfi_tied (b_entries x)).
  { apply Forall_forall. intros e He. now destruct (Hpe e He) as (_ & _ & _ & _ & _ & _ & _ & K & _). }
  destruct (iat_build_skeleton x b' Hb Hpre Htied) as (Hsk & Hst).
  assert (Hv : Arith.validate_batch A (iat_skeleton hd iq x b') = Arith.ROk).
  { rewrite Hsk. apply ipairs_valid; try assumption; [now rewrite fi_debit|now rewrite fi_credit]. }
  assert (Hseq : forallb seqs_okb (BuildIAT.ib_entries b') = true) by (eapply iat_build_seqs; exact Hb).
  assert (Hlim : forallb addenda_limits (BuildIAT.ib_entries b') = true).
  { rewrite (static_forallb addenda_limits addenda_limits_static _ _ Hst).
    apply forallb_forall. intros y Hy. apply in_map_iff in Hy as (e & <- & He).
    destruct (Hpe e He) as (_ & _ & _ & _ & _ & _ & _ & _ & L1 & L2).
    unfold addenda_limits, to_iat_entry, BuildIAT.zlen. cbn [BuildIAT.ie_a17 BuildIAT.ie_a18]. rewrite !repeat_length.
    apply andb_true_intro. split; apply Z.leb_le; lia. }
  assert (Hic : is_category_iat x = true) by (rewrite (is_category_iat_ok x Hne); exact Hcat).
  split; [|repeat split; assumption].
  unfold create_iat_v, iat_validate. now rewrite Hb, Hv, Hseq, Hlim, Hic.
Qed.

End IAT.

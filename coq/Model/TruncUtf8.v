(* C04, truncation at a byte offset INSIDE a multi-byte UTF-8 character (phase 2).
   Definitions only (executable; extracted for the correspondence check, Extract/C04X.v).

   bufio.ScanRunes hands the reader one character at a time; at the end of the input an
   incomplete multi-byte sequence is yielded as one U+FFFD per leftover byte
   (Framing.chars).  For a byte prefix of length k of a well-formed string s:

     split_at (chars s) k = (c, j)    c complete characters fit into k bytes, j bytes
                                      (0..3) of character number c are left over
     cut_chars s c j                  what the reader accumulates: the c characters
                                      followed by j U+FFFD characters
     tail_u l c j                     the record lines the reader is handed for such a
                                      prefix of the 94 character line l (after
                                      rightPadShortLine): none, one line, or — when
                                      c + j > 94 — a full line and a second line made of
                                      the remaining U+FFFD characters *)
From Coq Require Import List NArith Bool.
From ACH Require Export TamperText.
Import ListNotations.
Local Open Scope nat_scope.

Definition U_b : char := [239; 191; 189]%N.       (* U+FFFD *)

Fixpoint split_at (cs : list char) (k : nat) : nat * nat :=
  match cs with
  | [] => (0, 0)
  | ch :: rest =>
      if length ch <=? k then let '(c, j) := split_at rest (k - length ch) in (S c, j)
      else (0, k)
  end.

Definition cut_chars (l : bytes) (c j : nat) : bytes := concat (firstn c (chars l)) ++ concat (repeat U_b j).

(* rightPadShortLine *)
Definition pad94 (x : bytes) : bytes := x ++ repeat sp (94 - rune_count x).

Definition tail_u (l : bytes) (c j : nat) : list bytes :=
  if c + j =? 0 then []
  else if c + j <=? 94 then [pad94 (cut_chars l c j)]
  else [pad94 (cut_chars l c (94 - c)); pad94 (concat (repeat U_b (c + j - 94)))].

(* the closed form of "the characters of the first k bytes of s" *)
Definition prefix_chars (s : bytes) (k : nat) : list char :=
  let '(c, j) := split_at (chars s) k in firstn c (chars s) ++ repeat U_b j.

(* the lines handed to readLine for the first k bytes of the line l *)
Definition prefix_lines (l : bytes) (k : nat) : list bytes :=
  let '(c, j) := split_at (chars l) k in tail_u l c j.

(* the file control record as the reader sees it when the text ends after c complete
   characters and j leftover bytes of it *)
Definition cut_ctl (l : bytes) (c j : nat) : bytes := pad94 (cut_chars l c j).

(* a layout whose String() is ASCII whatever the field values are: constant ASCII text
   and numeric renderers only (the two file control layouts, checked on Gen/Layouts.v) *)
Definition numeric_seg (s : seg) : bool :=
  match s with
  | SLit bs => forallb (fun b => (b <? 128)%N) bs
  | SNum _ _ | SItoa _ => true
  | _ => false
  end.
Definition numeric_layout (L : layout) : bool := forallb numeric_seg (l_segs L).

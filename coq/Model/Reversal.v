(* Model of File.Reversal (reversal.go) over the tables regenerated from the
   source.  Executable definitions only.

   What is modelled, in the order of the Go code: file creation date/time :=
   requested; per batch: description := the literal, effective date := requested,
   every entry's code through the switch (first clause listing it; += / -= delta;
   flag), control totals swapped, the three service-class `if`s, then File.Create
   (error without batches; file totals re-tabulated from the batch controls).
   The `if bb, ok := f.Batches[i].( *Batch )` rebuild is dead for every batch type
   NewBatch returns (BatchPPD … embed Batch, they are not pointers to Batch), so the control
   record is NOT re-tabulated from the entries: the swapped totals stand. *)
From Coq Require Import ZArith NArith List Bool.
Import ListNotations.
From ACH Require Import Bytes TxCodes RevTable.
Open Scope Z_scope.

Record rtables := mkrt {
  rt_arms : list rev_arm; rt_fix : list rev_fixup; rt_desc : bytes;
  rt_amt : list seg_arm; rt_std : list Z; rt_pre : list Z }.

Record rbatch := mkrbatch {
  rb_scc_h : Z; rb_scc_c : Z;          (* service class of header and control *)
  rb_desc : bytes; rb_date : bytes;    (* CompanyEntryDescription, EffectiveEntryDate *)
  rb_debit : Z; rb_credit : Z;         (* control totals *)
  rb_entries : list entry }.

Record rfile := mkrfile {
  rf_date : bytes; rf_time : bytes; rf_batches : list rbatch; rf_debit : Z; rf_credit : Z }.

Definition rev_entry (arms : list rev_arm) (e : entry) : entry :=
  mkentry (rev_code arms (e_code e)) (e_amount e) (e_id e) (e_trace e).

Fixpoint entry_flags (arms : list rev_arm) (es : list entry) : bool * bool :=
  match es with
  | [] => (false, false)
  | e :: r => let '(c, d) := arm_flags arms (e_code e) in
              let '(c2, d2) := entry_flags arms r in (c || c2, d || d2)
  end.

Definition reversal_batch (T : rtables) (d : bytes) (b : rbatch) : rbatch :=
  let es' := map (rev_entry (rt_arms T)) (rb_entries b) in
  let '(hc, hd) := entry_flags (rt_arms T) (rb_entries b) in
  let '(sh, sc) := match apply_fixups (rt_fix T) hc hd with
                   | Some p => p
                   | None => (rb_scc_h b, rb_scc_c b)
                   end in
  mkrbatch sh sc (rt_desc T) d (rb_credit b) (rb_debit b) es'.

Fixpoint sum_debit (bs : list rbatch) : Z := match bs with [] => 0 | b :: r => rb_debit b + sum_debit r end.
Fixpoint sum_credit (bs : list rbatch) : Z := match bs with [] => 0 | b :: r => rb_credit b + sum_credit r end.

Inductive rres := ROk (f : rfile) | RErrNoBatches.

Definition reversal_file (T : rtables) (d t : bytes) (f : rfile) : rres :=
  let bs := map (reversal_batch T d) (rf_batches f) in
  match bs with
  | [] => RErrNoBatches
  | _ => ROk (mkrfile d t bs (sum_debit bs) (sum_credit bs))
  end.

(* ---- the fragment of Batch/File validation the property speaks about *)

(* strings.EqualFold(CompanyEntryDescription, "PRENOTE") — ASCII folding suffices: no letter
   of PRENOTE has a non-ASCII case variant *)
Definition upper (b : N) : N := if ((97 <=? b) && (b <=? 122))%N then (b - 32)%N else b.
Definition is_prenote_desc (d : bytes) : bool := bytes_eqb (map upper d) [80; 82; 69; 78; 79; 84; 69]%N.

(* ValidAmountForCodes without options: prenote codes, and every entry of a batch described
   PRENOTE, carry 0; all others a positive amount *)
Definition amount_rule (pre : list Z) (prenote_desc : bool) (e : entry) : bool :=
  if memz (e_code e) pre || prenote_desc then e_amount e =? 0 else 0 <? e_amount e.

Definition rbatch_valid (T : rtables) (b : rbatch) : bool :=
  match rb_entries b with [] => false | _ => true end
  && (rb_scc_h b =? rb_scc_c b)
  && memz (rb_scc_h b) [200; 220; 225]
  && forallb (fun e => entry_code (rt_std T) (e_code e)) (rb_entries b)
  && implb (rb_scc_h b =? 220) (all_dir TCredit (rb_entries b))
  && implb (rb_scc_h b =? 225) (all_dir TDebit (rb_entries b))
  && (rb_credit b =? sum_dir (rt_amt T) TCredit (rb_entries b))
  && (rb_debit b =? sum_dir (rt_amt T) TDebit (rb_entries b))
  && forallb (amount_rule (rt_pre T) (is_prenote_desc (rb_desc b))) (rb_entries b).

Definition rfile_valid (T : rtables) (f : rfile) : bool :=
  match rf_batches f with [] => false | _ => true end
  && forallb (rbatch_valid T) (rf_batches f)
  && (rf_debit f =? sum_debit (rf_batches f))
  && (rf_credit f =? sum_credit (rf_batches f)).

Definition codes (b : rbatch) : list Z := map e_code (rb_entries b).
Definition has_dir (t : target) (es : list entry) : bool :=
  existsb (fun e => target_eqb (digit_dir (e_code e)) t) es.

(* C04, text level, composition: a structured list of record lines whose skeleton
   (every line parsed with the layout the reader uses for it) passes read_validate
   no longer does after one digit of one protected column of one line was replaced.
   The proof maps the change of the parsed field (TamperTextFacts.digit_changes_field)
   onto the single-field setters of TamperFacts.v. *)
From Coq Require Import String List Lia ZArith Bool.
From ACH Require Import TamperText TamperTextFacts LayoutFacts FieldsFacts NumFacts TamperFacts.
Import ListNotations.
Local Open Scope nat_scope.
Local Open Scope string_scope.
Local Open Scope list_scope.

(* ------------------------------------------------------------------ *)
(* classification of the table rows                                      *)

Definition cfield_name (pf : cfield) : string :=
  match pf with
  | CClass => "ServiceClassCode" | CCount => "EntryAddendaCount" | CHash => "EntryHash"
  | CDebit => "TotalDebitEntryDollarAmount" | CCredit => "TotalCreditEntryDollarAmount" | CNumber => "BatchNumber"
  end.

Definition ffield_name (pf : ffield) : string :=
  match pf with
  | FBatches => "BatchCount" | FCount => "EntryAddendaCount" | FHash => "EntryHash"
  | FDebit => "TotalDebitEntryDollarAmountInFile" | FCredit => "TotalCreditEntryDollarAmountInFile"
  end.

Ltac table_cases Hin :=
  unfold protected_columns in Hin; cbn [In] in Hin;
  repeat (destruct Hin as [<-|Hin]; [|]); try contradiction.

Lemma class_entry p k : In p protected_columns -> p_class p = RCEntry k ->
  (p_field p = "Amount" /\ p_kind p = CKNum) \/
  (p_field p = "RDFIIdentification" /\ p_kind p = CKStr /\ p_hi p - p_lo p = 8) \/
  (p_field p = "CheckDigit" /\ p_kind p = CKStr /\ p_hi p - p_lo p = 1).
Proof.
  intros Hin Hc. table_cases Hin; cbn [p_class] in Hc; try discriminate Hc; cbn [p_field p_kind p_hi p_lo]; auto.
Qed.

Lemma class_bctl p k : In p protected_columns -> p_class p = RCBatchCtl k ->
  (exists pf, p_field p = cfield_name pf /\ p_kind p = CKNum) \/
  (p_field p = "ODFIIdentification" /\ p_kind p = CKStr).
Proof.
  intros Hin Hc. table_cases Hin; cbn [p_class] in Hc; try discriminate Hc; cbn [p_field p_kind];
    first [ right; split; reflexivity
          | left; first [ exists CClass; split; reflexivity | exists CCount; split; reflexivity | exists CHash; split; reflexivity
                        | exists CDebit; split; reflexivity | exists CCredit; split; reflexivity | exists CNumber; split; reflexivity ] ].
Qed.

Lemma class_hdr p k : In p protected_columns -> p_class p = RCBatchHdr k ->
  79 <= p_lo p /\
  ((p_field p = "ODFIIdentification" /\ p_kind p = CKStr) \/ (p_field p = "BatchNumber" /\ p_kind p = CKNum)).
Proof.
  intros Hin Hc. table_cases Hin; cbn [p_class] in Hc; try discriminate Hc; cbn [p_field p_kind p_lo];
    (split; [lia|]); auto.
Qed.

Lemma class_fctl p a : In p protected_columns -> p_class p = RCFileCtl a ->
  exists pf, p_field p = ffield_name pf /\ p_kind p = CKNum.
Proof.
  intros Hin Hc. table_cases Hin; cbn [p_class] in Hc; try discriminate Hc; cbn [p_field p_kind];
    first [ exists FBatches; split; reflexivity | exists FCount; split; reflexivity | exists FHash; split; reflexivity
          | exists FDebit; split; reflexivity | exists FCredit; split; reflexivity ].
Qed.

(* ------------------------------------------------------------------ *)
(* two parsed records that differ in one field                           *)

Section OneField.
Variables (R R' : recval) (f : string).
Hypothesis Hother : forall g, g <> f -> lookup R' g = lookup R g.

Lemma other_geti g : g <> f -> geti R' g = geti R g.
Proof. intros H. apply geti_lookup. now apply Hother. Qed.
Lemma other_gets g : g <> f -> gets R' g = gets R g.
Proof. intros H. apply gets_lookup. now apply Hother. Qed.

Lemma this_geti a : lookup R f = Some (VI a) -> geti R f = a.
Proof. unfold geti. now intros ->. Qed.
Lemma this_gets a : lookup R f = Some (VS a) -> gets R f = a.
Proof. unfold gets. now intros ->. Qed.

Ltac others Hf :=
  try (rewrite (other_geti "TransactionCode") by (rewrite Hf; discriminate)); try (rewrite (other_gets "TransactionCode") by (rewrite Hf; discriminate));
  try (rewrite (other_geti "Amount") by (rewrite Hf; discriminate)); try (rewrite (other_gets "Amount") by (rewrite Hf; discriminate));
  try (rewrite (other_geti "RDFIIdentification") by (rewrite Hf; discriminate)); try (rewrite (other_gets "RDFIIdentification") by (rewrite Hf; discriminate));
  try (rewrite (other_geti "CheckDigit") by (rewrite Hf; discriminate)); try (rewrite (other_gets "CheckDigit") by (rewrite Hf; discriminate));
  try (rewrite (other_geti "TraceNumber") by (rewrite Hf; discriminate)); try (rewrite (other_gets "TraceNumber") by (rewrite Hf; discriminate));
  try (rewrite (other_geti "ServiceClassCode") by (rewrite Hf; discriminate)); try (rewrite (other_gets "ServiceClassCode") by (rewrite Hf; discriminate));
  try (rewrite (other_geti "EntryAddendaCount") by (rewrite Hf; discriminate)); try (rewrite (other_gets "EntryAddendaCount") by (rewrite Hf; discriminate));
  try (rewrite (other_geti "EntryHash") by (rewrite Hf; discriminate)); try (rewrite (other_gets "EntryHash") by (rewrite Hf; discriminate));
  try (rewrite (other_geti "TotalDebitEntryDollarAmount") by (rewrite Hf; discriminate)); try (rewrite (other_gets "TotalDebitEntryDollarAmount") by (rewrite Hf; discriminate));
  try (rewrite (other_geti "TotalCreditEntryDollarAmount") by (rewrite Hf; discriminate)); try (rewrite (other_gets "TotalCreditEntryDollarAmount") by (rewrite Hf; discriminate));
  try (rewrite (other_geti "ODFIIdentification") by (rewrite Hf; discriminate)); try (rewrite (other_gets "ODFIIdentification") by (rewrite Hf; discriminate));
  try (rewrite (other_geti "BatchNumber") by (rewrite Hf; discriminate)); try (rewrite (other_gets "BatchNumber") by (rewrite Hf; discriminate));
  try (rewrite (other_geti "BatchCount") by (rewrite Hf; discriminate)); try (rewrite (other_gets "BatchCount") by (rewrite Hf; discriminate));
  try (rewrite (other_geti "TotalDebitEntryDollarAmountInFile") by (rewrite Hf; discriminate)); try (rewrite (other_gets "TotalDebitEntryDollarAmountInFile") by (rewrite Hf; discriminate));
  try (rewrite (other_geti "TotalCreditEntryDollarAmountInFile") by (rewrite Hf; discriminate)); try (rewrite (other_gets "TotalCreditEntryDollarAmountInFile") by (rewrite Hf; discriminate)).

Lemma entry_amount k n a a' : f = "Amount" -> lookup R f = Some (VI a) -> lookup R' f = Some (VI a') ->
  entry_of k R' n = set_amount (entry_of k R n) a' /\ en_amount (entry_of k R n) = a.
Proof.
  intros Hf Ha Ha'. unfold entry_of, set_amount. cbn [en_code en_amount en_rdfi en_check en_trace en_addenda].
  split; [|rewrite <- Hf; now apply this_geti].
  destruct k; others Hf; f_equal; rewrite <- Hf; unfold geti; now rewrite Ha'.
Qed.

Lemma entry_rdfi k n a a' : f = "RDFIIdentification" -> lookup R f = Some (VS a) -> lookup R' f = Some (VS a') ->
  entry_of k R' n = set_rdfi (entry_of k R n) a' /\ en_rdfi (entry_of k R n) = a.
Proof.
  intros Hf Ha Ha'. unfold entry_of, set_rdfi. cbn [en_code en_amount en_rdfi en_check en_trace en_addenda].
  split; [|rewrite <- Hf; now apply this_gets].
  destruct k; others Hf; f_equal; rewrite <- Hf; unfold gets; now rewrite Ha'.
Qed.

Lemma entry_check k n a a' : f = "CheckDigit" -> lookup R f = Some (VS a) -> lookup R' f = Some (VS a') ->
  entry_of k R' n = set_check (entry_of k R n) a' /\ en_check (entry_of k R n) = a.
Proof.
  intros Hf Ha Ha'. unfold entry_of, set_check. cbn [en_code en_amount en_rdfi en_check en_trace en_addenda].
  split; [|rewrite <- Hf; now apply this_gets].
  destruct k; others Hf; f_equal; rewrite <- Hf; unfold gets; now rewrite Ha'.
Qed.

Lemma bctl_num pf a a' : f = cfield_name pf -> lookup R f = Some (VI a) -> lookup R' f = Some (VI a') ->
  bctl_of R' = set_c pf a' (bctl_of R) /\ get_c pf (bctl_of R) = a.
Proof.
  intros Hf Ha Ha'. unfold bctl_of.
  destruct pf; cbn [cfield_name] in Hf; cbn [set_c get_c bc_class bc_count bc_hash bc_debit bc_credit bc_odfi bc_number];
    (split; [|rewrite <- Hf; now apply this_geti]); others Hf; f_equal; rewrite <- Hf; unfold geti; now rewrite Ha'.
Qed.

Lemma bctl_odfi a a' : f = "ODFIIdentification" -> lookup R f = Some (VS a) -> lookup R' f = Some (VS a') ->
  bctl_of R' = set_c_odfi a' (bctl_of R) /\ bc_odfi (bctl_of R) = a.
Proof.
  intros Hf Ha Ha'. unfold bctl_of, set_c_odfi. cbn [bc_class bc_count bc_hash bc_debit bc_credit bc_odfi bc_number].
  split; [|rewrite <- Hf; now apply this_gets]. others Hf. f_equal. rewrite <- Hf. unfold gets. now rewrite Ha'.
Qed.

Lemma fctl_num pf a a' : f = ffield_name pf -> lookup R f = Some (VI a) -> lookup R' f = Some (VI a') ->
  fctl_of R' = set_f pf a' (fctl_of R) /\ get_f pf (fctl_of R) = a.
Proof.
  intros Hf Ha Ha'. unfold fctl_of.
  destruct pf; cbn [ffield_name] in Hf; cbn [set_f get_f fc_batches fc_count fc_hash fc_debit fc_credit];
    (split; [|rewrite <- Hf; now apply this_geti]); others Hf; f_equal; rewrite <- Hf; unfold geti; now rewrite Ha'.
Qed.

End OneField.

(* ------------------------------------------------------------------ *)
(* lists with one element replaced                                       *)

Lemma nth_error_split_set {A} (l : list A) n y x : nth_error l n = Some y ->
  l = firstn n l ++ y :: skipn (S n) l /\ set_nth n x l = firstn n l ++ x :: skipn (S n) l.
Proof.
  intros H. assert (Hn : n < length l) by (apply nth_error_Some; congruence).
  split.
  - apply nth_error_ext. intros i. destruct (Nat.lt_ge_cases i n) as [Hi|Hi].
    + rewrite nth_error_app1 by (rewrite firstn_length; lia). symmetry. now apply nth_error_firstn_lt.
    + rewrite nth_error_app2 by (rewrite firstn_length; lia). rewrite firstn_length.
      replace (Nat.min n (length l)) with n by lia.
      destruct (Nat.eqb_spec i n) as [->|E].
      * now rewrite Nat.sub_diag.
      * replace (i - n) with (S (i - S n)) by lia. cbn [nth_error]. rewrite nth_error_skipn_add. f_equal. lia.
  - unfold set_nth. destruct (Nat.ltb_spec n (length l)); [reflexivity|lia].
Qed.

Lemma upd_nth_some {A} (g : A -> A) l n y : nth_error l n = Some y -> upd_nth n g l = set_nth n (g y) l.
Proof. unfold upd_nth. now intros ->. Qed.

Lemma in_set_nth {A} (l : list A) n x : n < length l -> In x (set_nth n x l).
Proof.
  intros H. unfold set_nth. destruct (Nat.ltb_spec n (length l)); [|lia]. apply in_or_app. right. now left.
Qed.

(* ------------------------------------------------------------------ *)
(* the kind of a batch does not depend on columns 79.. of its header     *)

Lemma firstn_skipn_prefix {A} (P X Y : list A) a b : a + b <= length P ->
  firstn b (skipn a (P ++ X)) = firstn b (skipn a (P ++ Y)).
Proof.
  intros H. rewrite !skipn_app. replace (a - length P) with 0 by lia. cbn [skipn].
  rewrite !firstn_app, skipn_length. replace (b - (length P - a)) with 0 by lia. reflexivity.
Qed.

Lemma encode_length_ge rs : length rs <= length (encode rs).
Proof. rewrite <- (rune_count_encode rs). apply Utf8Facts.rune_count_le. Qed.

Lemma set_nth_prefix {A} (l : list A) n x : n < length l ->
  exists y, l = firstn n l ++ y :: skipn (S n) l /\ set_nth n x l = firstn n l ++ x :: skipn (S n) l.
Proof.
  intros H. destruct (nth_error l n) as [y|] eqn:E; [|apply nth_error_None in E; lia].
  exists y. now apply nth_error_split_set.
Qed.

Lemma bytes_prefix_set_digit rs col d a b : valid rs = true -> (d <? 128)%N = true -> col < length rs -> a + b <= col ->
  firstn b (skipn a (set_digit (encode rs) col d)) = firstn b (skipn a (encode rs)).
Proof.
  intros Hv Hd Hc Hab. rewrite (set_digit_encode rs col d Hv Hd).
  destruct (set_nth_prefix rs col d Hc) as (y & E1 & E2). rewrite E2. rewrite E1 at 3.
  rewrite !encode_app. apply firstn_skipn_prefix.
  pose proof (encode_length_ge (firstn col rs)) as H. rewrite firstn_length in H. lia.
Qed.

(* ------------------------------------------------------------------ *)
(* the composition                                                       *)

Section Lift.
Variable T : tables.
Hypothesis HT : tables_ok T = true.

Lemma skel_batch_in f b : In b (f_batches f) -> In (skel_batch b) (all_batches (skel f)).
Proof.
  intros H. unfold all_batches, skel. cbn [fl_batches fl_iat]. apply in_or_app.
  destruct (is_iat b) eqn:E.
  - right. apply in_map. apply filter_In. now split.
  - left. apply in_map. apply filter_In. split; [assumption|]. now rewrite E.
Qed.

Lemma batch_valid f b : read_validate T (skel f) = ROk -> In b (f_batches f) -> validate_batch T (skel_batch b) = ROk.
Proof.
  intros H Hin. apply read_validate_all in H as [H _]. rewrite Forall_forall in H. apply H. now apply skel_batch_in.
Qed.

Lemma replaced_batch_rejected f bi b b' : nth_error (f_batches f) bi = Some b ->
  validate_batch T (skel_batch b') <> ROk ->
  read_validate T (skel (mkFile (f_hdr f) (set_nth bi b' (f_batches f)) (f_ctl f))) <> ROk.
Proof.
  intros Hb Hrej H. apply Hrej.
  apply (batch_valid _ b' H). cbn [f_batches]. apply in_set_nth. apply nth_error_Some. congruence.
Qed.

(* the side conditions of the entry theorems (C03: foreign accounting codes in IAT / ADV
   batches, routing numbers stored as 8 digits) *)
Definition batch_regular (b : batch) : Prop :=
  codes_regular T (bt_kind b) (bt_entries b) /\ Forall rdfi_wf (bt_entries b).

Lemma check_value_one_digit k e d : is_digit d = true -> en_check e = [d] -> check_value k e = Some (Z.of_N (d - 48)).
Proof.
  intros Hd He. unfold check_value. rewrite He.
  destruct (ArithFacts.atoi_digits [d]) as [E1 E2]; [discriminate|cbn; now rewrite Hd|cbn; lia|].
  cbn [digits_val] in E1, E2. destruct k; rewrite ?E1, ?E2; f_equal; lia.
Qed.

Section Site.
Variable f : fileS.
Hypothesis Hvalid : read_validate T (skel f) = ROk.
Variable p : pcol.
Hypothesis Hin : In p protected_columns.
Hypothesis Hpok : pcol_ok p = true.
Hypothesis Hlok : layout_ok (p_layout p) = true.
Variable line : bytes.
Hypothesis Hwf : wf_utf8 line = true.
Hypothesis Hn : rune_count line = 94.
Variables (j : nat) (d : N).
Hypothesis Hj : j < p_hi p - p_lo p.
Hypothesis Hd : is_digit d = true.
Let text := column line (p_lo p) (p_hi p).
Hypothesis Hdig : digitsb text = true.
Hypothesis Hne : nth j text 0%N <> d.
Hypothesis Hmax : p_kind p = CKNum -> (digits_val text 0 < max_int64)%Z.
Let line' := set_digit line (p_lo p + j) d.
Let text' := set_nth j d text.

Lemma the_change :
  (forall g, g <> p_field p -> lookup (parse (p_layout p) line') g = lookup (parse (p_layout p) line) g) /\
  field_change (p_kind p) (lookup (parse (p_layout p) line) (p_field p)) (lookup (parse (p_layout p) line') (p_field p)) text text'
  /\ digitsb text' = true /\ length text = p_hi p - p_lo p /\ length text' = p_hi p - p_lo p.
Proof.
  destruct (line_digit_changes_field p line j d Hlok Hpok Hwf Hn Hj Hd Hdig Hne Hmax) as (_ & _ & Ho & Hc).
  split; [exact Ho|]. split; [exact Hc|].
  split; [now apply forallb_set_nth|].
  assert (Hl : length text = p_hi p - p_lo p).
  { destruct (wf_decompose line Hwf) as (rs & Hv & E & _). unfold text. subst line.
    rewrite <- (column_digits_window rs _ _ Hv Hdig). apply length_window.
    rewrite rune_count_encode in Hn. destruct (pcol_facts _ p eq_refl Hpok) as (c & _ & _ & _ & _ & _ & Hr & _). lia. }
  split; [exact Hl|]. unfold text'. now rewrite length_set_nth.
Qed.

(* ---- an entry detail line ---- *)
Theorem tamper_entry_rejected bi ei b e :
  nth_error (f_batches f) bi = Some b -> nth_error (b_entries b) ei = Some e -> e_rec e = line ->
  p_class p = RCEntry (kind_of_hdr (b_hdr b)) -> batch_regular (skel_batch b) ->
  read_validate T (skel (tamper f (SEntry bi ei) (p_lo p + j) d)) <> ROk.
Proof.
  intros Hb He Hline Hcls [Hreg Hrwf].
  unfold tamper, map_line. rewrite (upd_nth_some _ _ _ _ Hb). apply (replaced_batch_rejected f bi b _ Hb).
  rewrite (upd_nth_some _ _ _ _ He). set (k := kind_of_hdr (b_hdr b)) in *.
  pose proof (batch_valid f b Hvalid (nth_error_In _ _ Hb)) as Hbv.
  destruct the_change as (Ho & Hc & Hdig' & Hl & Hl').
  assert (HL : p_layout p = entry_layout k) by (unfold p_layout; now rewrite Hcls).
  rewrite HL in Ho, Hc. rewrite Hline. fold line'.
  set (e' := mkEntry line' (e_addenda e)).
  destruct (nth_error_split_set (b_entries b) ei e e' He) as [Esplit Eset].
  set (pre := map (skel_entry k) (firstn ei (b_entries b))).
  set (post := map (skel_entry k) (skipn (S ei) (b_entries b))).
  assert (Hes : bt_entries (skel_batch b) = pre ++ skel_entry k e :: post).
  { unfold skel_batch. fold k. cbn [bt_entries]. rewrite Esplit at 1. now rewrite map_app. }
  assert (Hb' : forall x, skel_entry k e' = x ->
            skel_batch (mkBatch (b_hdr b) (set_nth ei e' (b_entries b)) (b_ctl b)) = set_entries (skel_batch b) (pre ++ x :: post)).
  { intros x <-. unfold skel_batch, set_entries. cbn [b_hdr b_entries b_ctl bt_kind bt_class bt_odfi bt_number bt_ctl]. fold k.
    f_equal. rewrite Eset, map_app. reflexivity. }
  assert (Hk : bt_kind (skel_batch b) = k) by reflexivity.
  unfold skel_entry in Hes |- *. unfold skel_entry in Hb'. cbn [e_rec e_addenda] in Hb'. rewrite Hline in Hes.
  set (n := Z.of_nat (length (e_addenda e))) in *.
  destruct (class_entry p k Hin Hcls) as [[Hf Hkind]|[[Hf [Hkind Hw]]|[Hf [Hkind Hw]]]]; rewrite Hkind in Hc; cbn [field_change] in Hc;
    destruct Hc as (Hbefore & Hafter & Hdiff).
  - destruct (entry_amount _ _ _ Ho k n _ _ Hf Hbefore Hafter) as [E1 E2].
    rewrite (Hb' _ E1). apply (tamper_amount T HT _ _ _ _ _ Hes Hbv); [now rewrite Hk|]. now rewrite E2.
  - destruct (entry_rdfi _ _ _ Ho k n _ _ Hf Hbefore Hafter) as [E1 E2].
    rewrite (Hb' _ E1). apply (tamper_rdfi T HT _ _ _ _ _ Hes Hbv Hrwf); [|now rewrite E2].
    split; [fold text'; lia|exact Hdig'].
  - destruct (entry_check _ _ _ Ho k n _ _ Hf Hbefore Hafter) as [E1 E2].
    rewrite (Hb' _ E1). apply (tamper_check T HT _ _ _ _ _ Hes Hbv).
    (* one-character columns: text = [d0], text' = [d] *)
    assert (Hone : forall t : bytes, length t = 1 -> exists d0, t = [d0]).
    { intros [|d0 [|? ?]] H; cbn [length] in H; try lia. now exists d0. }
    destruct (Hone text ltac:(lia)) as [d0 Et].
    assert (Hj0 : j = 0) by lia.
    pose proof Hne as Hne'. pose proof Hdig as Hdig0. rewrite Et, Hj0 in Hne'. rewrite Et in Hdig0. cbn [nth] in Hne'.
    assert (Et' : text' = [d]) by (unfold text'; rewrite Et, Hj0; reflexivity).
    assert (Hd0 : is_digit d0 = true) by (cbn [digitsb forallb] in Hdig0; now apply andb_prop in Hdig0 as [H _]).
    rewrite Hk, Et'. rewrite Et in E2.
    rewrite (check_value_one_digit k (set_check _ [d]) d Hd eq_refl), (check_value_one_digit k _ d0 Hd0 E2).
    pose proof (proj2 (is_digit_range d Hd)) as Rd. pose proof (proj2 (is_digit_range d0 Hd0)) as Rd0.
    intros E. injection E as E. lia.
Qed.

(* ---- a batch control line ---- *)
Theorem tamper_bctl_rejected bi b :
  nth_error (f_batches f) bi = Some b -> b_ctl b = line -> p_class p = RCBatchCtl (kind_of_hdr (b_hdr b)) ->
  read_validate T (skel (tamper f (SBatchCtl bi) (p_lo p + j) d)) <> ROk.
Proof.
  intros Hb Hline Hcls.
  unfold tamper, map_line. rewrite (upd_nth_some _ _ _ _ Hb). apply (replaced_batch_rejected f bi b _ Hb).
  set (k := kind_of_hdr (b_hdr b)) in *.
  pose proof (validate_batch_verify T _ (batch_valid f b Hvalid (nth_error_In _ _ Hb))) as Hbv.
  destruct the_change as (Ho & Hc & Hdig' & Hl & Hl').
  assert (HL : p_layout p = bctl_layout k) by (unfold p_layout; now rewrite Hcls).
  rewrite HL in Ho, Hc. rewrite Hline. fold line'.
  assert (Hb' : forall c, bctl_of (parse (bctl_layout k) line') = c ->
            skel_batch (mkBatch (b_hdr b) (b_entries b) line') = set_ctl (skel_batch b) c).
  { intros c <-. unfold skel_batch, set_ctl. cbn [b_hdr b_entries b_ctl bt_kind bt_class bt_odfi bt_number bt_entries]. now fold k. }
  assert (Hctl : bt_ctl (skel_batch b) = bctl_of (parse (bctl_layout k) line)) by (unfold skel_batch; fold k; now rewrite Hline).
  intros Hv'. apply validate_batch_verify in Hv'. revert Hv'.
  destruct (class_bctl p k Hin Hcls) as [[pf [Hf Hkind]]|[Hf Hkind]]; rewrite Hkind in Hc; cbn [field_change] in Hc;
    destruct Hc as (Hbefore & Hafter & Hdiff).
  - destruct (bctl_num _ _ _ Ho pf _ _ Hf Hbefore Hafter) as [E1 E2].
    rewrite (Hb' _ E1), <- Hctl. apply (tamper_bctl T _ pf _ Hbv). now rewrite Hctl, E2.
  - destruct (bctl_odfi _ _ _ Ho _ _ Hf Hbefore Hafter) as [E1 E2].
    rewrite (Hb' _ E1), <- Hctl. apply (tamper_bctl_odfi T _ _ Hbv). now rewrite Hctl, E2.
Qed.

(* ---- a batch header line ---- *)
Lemma kind_of_hdr_tampered : 79 <= p_lo p ->
  (kind_of_hdr line <> KIAT -> p_layout p = L_BatchHeader) -> kind_of_hdr line' = kind_of_hdr line.
Proof.
  intros Hlo HLh. destruct (wf_decompose line Hwf) as (rs & Hv & E & _).
  assert (Hlen : length rs = 94) by (rewrite E, rune_count_encode in Hn; exact Hn).
  assert (Hcol : p_lo p + j < length rs).
  { destruct (pcol_facts _ p eq_refl Hpok) as (c & _ & _ & _ & _ & _ & Hr & _). lia. }
  pose proof (is_digit_lt128 d Hd) as Hd'.
  assert (P1 : firstn 3 (skipn 50 line') = firstn 3 (skipn 50 line)).
  { unfold line'. rewrite E. apply bytes_prefix_set_digit; auto. lia. }
  assert (P2 : firstn 16 (skipn 4 line') = firstn 16 (skipn 4 line)).
  { unfold line'. rewrite E. apply bytes_prefix_set_digit; auto. lia. }
  unfold kind_of_hdr. rewrite P1, P2.
  destruct (bytes_eqb (firstn 3 (skipn 50 line)) IAT_b || bytes_eqb (trim (firstn 16 (skipn 4 line))) IATCOR_b) eqn:Ei;
    [reflexivity|].
  assert (Hk : kind_of_hdr line <> KIAT).
  { unfold kind_of_hdr. rewrite Ei. now destruct (bytes_eqb _ ADV_b). }
  specialize (HLh Hk).
  destruct the_change as (Ho & _). rewrite HLh in Ho.
  assert (Hg : "StandardEntryClassCode" <> p_field p).
  { destruct (class_hdr p (match p_class p with RCBatchHdr k => k | _ => KStd end) Hin) as (_ & [[-> _]|[-> _]]); try discriminate.
    unfold p_layout in HLh. destruct (p_class p) as [k|k|k|a]; try reflexivity;
      exfalso; [destruct k|destruct k|destruct a]; cbn in HLh; apply (f_equal l_name) in HLh; discriminate HLh. }
  now rewrite (gets_lookup _ _ _ (Ho _ Hg)).
Qed.

Theorem tamper_hdr_rejected bi b :
  nth_error (f_batches f) bi = Some b -> b_hdr b = line -> p_class p = RCBatchHdr (kind_of_hdr (b_hdr b)) ->
  read_validate T (skel (tamper f (SBatchHdr bi) (p_lo p + j) d)) <> ROk.
Proof.
  intros Hb Hline Hcls.
  unfold tamper, map_line. rewrite (upd_nth_some _ _ _ _ Hb). apply (replaced_batch_rejected f bi b _ Hb).
  rewrite Hline in *. fold line'. set (k := kind_of_hdr line) in *.
  pose proof (validate_batch_verify T _ (batch_valid f b Hvalid (nth_error_In _ _ Hb))) as Hbv.
  destruct (class_hdr p k Hin Hcls) as [Hlo Hfield].
  assert (HL : p_layout p = hdr_layout k) by (unfold p_layout; now rewrite Hcls).
  assert (Hk' : kind_of_hdr line' = k).
  { apply kind_of_hdr_tampered; [exact Hlo|]. fold k. rewrite HL. now destruct k. }
  destruct the_change as (Ho & Hc & Hdig' & Hl & Hl'). rewrite HL in Ho, Hc.
  intros Hv'. apply validate_batch_verify in Hv'. revert Hv'.
  assert (Hsk : skel_batch b = mkbatch k (geti (parse (hdr_layout k) line) "ServiceClassCode")
                  (gets (parse (hdr_layout k) line) "ODFIIdentification") (geti (parse (hdr_layout k) line) "BatchNumber")
                  (map (skel_entry k) (b_entries b)) (bctl_of (parse (bctl_layout k) (b_ctl b)))).
  { unfold skel_batch. rewrite Hline. reflexivity. }
  unfold skel_batch at 1. cbn [b_hdr b_entries b_ctl]. rewrite Hk'.
  destruct Hfield as [[Hf Hkind]|[Hf Hkind]]; rewrite Hkind in Hc; cbn [field_change] in Hc;
    destruct Hc as (Hbefore & Hafter & Hdiff).
  - rewrite (other_geti _ _ _ Ho "ServiceClassCode"), (other_geti _ _ _ Ho "BatchNumber") by (rewrite Hf; discriminate).
    replace (gets (parse (hdr_layout k) line') "ODFIIdentification") with text' by (rewrite <- Hf; unfold gets; now rewrite Hafter).
    change (verify T (set_hdr_odfi (mkbatch k (geti (parse (hdr_layout k) line) "ServiceClassCode")
                  (gets (parse (hdr_layout k) line) "ODFIIdentification") (geti (parse (hdr_layout k) line) "BatchNumber")
                  (map (skel_entry k) (b_entries b)) (bctl_of (parse (bctl_layout k) (b_ctl b)))) text') <> ROk).
    rewrite <- Hsk. apply (tamper_hdr_odfi T _ _ Hbv). rewrite Hsk. cbn [bt_odfi].
    rewrite <- Hf. unfold gets. now rewrite Hbefore.
  - rewrite (other_geti _ _ _ Ho "ServiceClassCode"), (other_gets _ _ _ Ho "ODFIIdentification") by (rewrite Hf; discriminate).
    replace (geti (parse (hdr_layout k) line') "BatchNumber") with (atoi text') by (rewrite <- Hf; unfold geti; now rewrite Hafter).
    change (verify T (set_hdr_number (mkbatch k (geti (parse (hdr_layout k) line) "ServiceClassCode")
                  (gets (parse (hdr_layout k) line) "ODFIIdentification") (geti (parse (hdr_layout k) line) "BatchNumber")
                  (map (skel_entry k) (b_entries b)) (bctl_of (parse (bctl_layout k) (b_ctl b)))) (atoi text')) <> ROk).
    rewrite <- Hsk. apply (tamper_hdr_number T _ _ Hbv). rewrite Hsk. cbn [bt_number].
    rewrite <- Hf. unfold geti. now rewrite Hbefore.
Qed.

(* ---- the file control line ---- *)
Theorem tamper_fctl_rejected :
  f_ctl f = line -> p_class p = RCFileCtl (adv_file f) ->
  read_validate T (skel (tamper f SFileCtl (p_lo p + j) d)) <> ROk.
Proof.
  intros Hline Hcls. unfold tamper, map_line. rewrite Hline. fold line'.
  pose proof (proj2 (read_validate_all T _ Hvalid)) as Hfv.
  destruct the_change as (Ho & Hc & _).
  assert (HL : p_layout p = fctl_layout (adv_file f)) by (unfold p_layout; now rewrite Hcls).
  rewrite HL in Ho, Hc.
  destruct (class_fctl p _ Hin Hcls) as [pf [Hf Hkind]]. rewrite Hkind in Hc. cbn [field_change] in Hc.
  destruct Hc as (Hbefore & Hafter & Hdiff).
  destruct (fctl_num _ _ _ Ho pf _ _ Hf Hbefore Hafter) as [E1 E2].
  intros Hv'. apply read_validate_all in Hv' as [_ Hv']. revert Hv'.
  assert (Hs : skel (with_ctl f line') = set_fctl (skel f) (set_f pf (atoi text') (fl_ctl (skel f)))).
  { unfold skel, with_ctl, set_fctl, adv_file, skel_fctl. cbn [f_batches f_ctl fl_batches fl_iat fl_ctl]. f_equal.
    fold (adv_file f). rewrite Hline. exact E1. }
  rewrite Hs. apply (tamper_fctl T HT _ pf _ Hfv).
  unfold skel, skel_fctl. cbn [fl_ctl]. rewrite Hline, E2. exact Hdiff.
Qed.

(* ---- any protected column of any line ---- *)
Theorem tamper_site_rejected s :
  site_line f s = Some line -> site_class f s = Some (p_class p) ->
  Forall batch_regular (all_batches (skel f)) ->
  read_validate T (skel (tamper f s (p_lo p + j) d)) <> ROk.
Proof.
  intros Hsl Hsc Hreg. destruct s as [bi ei|bi|bi|]; cbn [site_line site_class] in Hsl, Hsc.
  - destruct (nth_error (f_batches f) bi) as [b|] eqn:Hb; [|discriminate].
    destruct (nth_error (b_entries b) ei) as [e|] eqn:He; [|discriminate].
    cbn [option_map] in Hsl, Hsc. injection Hsl as Hsl. injection Hsc as Hsc.
    apply (tamper_entry_rejected bi ei b e Hb He Hsl (eq_sym Hsc)).
    rewrite Forall_forall in Hreg. apply Hreg, skel_batch_in. eapply nth_error_In; eauto.
  - destruct (nth_error (f_batches f) bi) as [b|] eqn:Hb; [|discriminate].
    cbn [option_map] in Hsl, Hsc. injection Hsl as Hsl. injection Hsc as Hsc.
    exact (tamper_bctl_rejected bi b Hb Hsl (eq_sym Hsc)).
  - destruct (nth_error (f_batches f) bi) as [b|] eqn:Hb; [|discriminate].
    cbn [option_map] in Hsl, Hsc. injection Hsl as Hsl. injection Hsc as Hsc.
    exact (tamper_hdr_rejected bi b Hb Hsl (eq_sym Hsc)).
  - injection Hsl as Hsl. injection Hsc as Hsc. exact (tamper_fctl_rejected Hsl (eq_sym Hsc)).
Qed.

End Site.
End Lift.

(* C14, phase 5 — types of the aliasing-write table and of the construction facts that
   translator-ssa regenerates in its alias mode (Gen/EffectsAlias.v), the boolean checkers
   evaluated on them, and the generic theorems that give the checkers their meaning.

   MEANING OF THE TABLE.  [alias_writes] has one entry (function, kind, target, origin) for
   every instruction, in every function reachable (class hierarchy analysis) from
     Validate / ValidateWith of File and of every batch type, String / MarshalJSON /
     MarshalText / Error of every type, Writer.Write
     and, in package server, service.ValidateFile, the endpoint closure of
     GET/POST /files/{id}/validate and its request decoder,
   that may write memory its caller can reach:
     Store / ElemStore / DerefStore   a store to a field / by index / through a pointer whose address
                                      derives from a parameter, receiver or free variable
     Global...                        the same with an address derived from a package variable only
     AppendInPlace                    append to x[:k] where x shares its backing array with a parameter
                                      or a field (the in-place filter idiom: overwrites live elements)
     AppendShared                     append to such an x itself (writes into its spare capacity)
     Copy, Builtin                    copy / delete / clear on such a slice or map
     SortCall                         a function of package sort or slices is handed such a slice
     MapUpdate, Send, DynCall, Unknown
     ExtCall                          a pointer derived from a parameter is handed to another package
     CallsWriter                      the function calls one that has a writing entry
   [origin] is the parameter the destination derives from, or the struct field the slice /
   pointer was last loaded from ("EntryDetail.Addenda05").
   [alias_ok] is true when every entry is one the purity model accounts for. *)
From Coq Require Import String List Bool NArith Ascii.
Import ListNotations.
From ACH Require Import Bytes EffectTable.
Open Scope string_scope.

Record awrite := mkaw { aw_fn : string; aw_kind : string; aw_target : string; aw_origin : string }.

Definition aw_eqb (a b : awrite) : bool :=
  String.eqb (aw_fn a) (aw_fn b) && String.eqb (aw_kind a) (aw_kind b) &&
  String.eqb (aw_target a) (aw_target b) && String.eqb (aw_origin a) (aw_origin b).

Lemma aw_eqb_eq a b : aw_eqb a b = true <-> a = b.
Proof.
  destruct a as [a1 a2 a3 a4], b as [b1 b2 b3 b4]. unfold aw_eqb. cbn [aw_fn aw_kind aw_target aw_origin].
  rewrite !andb_true_iff, !String.eqb_eq. split.
  - intros [[[-> ->] ->] ->]. reflexivity.
  - intros H. injection H as -> -> -> ->. auto.
Qed.

(* what a table entry is, for the extended model *)
Inductive aclass :=
| AFile (c : eclass)   (* one of the classes of EffectTable: install header / control, writer state, read-only library call, pool *)
| ARequest             (* the HTTP request, its decoded options, the logger: objects of the request, not the stored file *)
| ALock.               (* the read lock of the server's file map (property C18) *)

(* kinds that write (as opposed to handing a pointer on / calling a writer) *)
Definition write_kinds : list string :=
  ["Store"; "ElemStore"; "DerefStore"; "GlobalStore"; "GlobalElemStore"; "GlobalDerefStore";
   "AppendInPlace"; "AppendShared"; "Copy"; "Builtin"; "SortCall"; "MapUpdate"; "Send"; "DynCall"; "Unknown"].

(* the mechanisms of the seeded changes C14_d / C14_e: in-place use of a slice that belongs to the file *)
Definition inplace_kinds : list string :=
  ["ElemStore"; "GlobalElemStore"; "AppendInPlace"; "AppendShared"; "Copy"; "Builtin"; "SortCall"; "MapUpdate"].

Definition is_write (w : awrite) : bool := mem (aw_kind w) write_kinds.

(* the only writing entries: exact match on all four components *)
Definition writes_modelled : list (awrite * aclass) :=
  [ (mkaw "(*Batch).SetHeader" "Store" "Batch.Header" "param batch", AFile CInstallHeader);
    (mkaw "(*Batch).SetControl" "Store" "Batch.Control" "param batch", AFile CInstallControl);
    (mkaw "(*Writer).Write" "Store" "Writer.lineNum" "param w", AFile CWriterState);
    (mkaw "(*Writer).writeLine" "Store" "Writer.lineNum" "param w", AFile CWriterState) ].

(* callers of writers: (caller, callee) *)
Definition calls_modelled : list (string * string * aclass) :=
  [ ("(*File).IsADV", "(*Batch).SetHeader", AFile CInstallHeader);
    ("(*File).IsADV", "(*Batch).SetControl", AFile CInstallControl);
    ("(*Writer).Write", "(*Writer).writeLine", AFile CWriterState);
    ("(*Writer).writeBatch", "(*Writer).writeLine", AFile CWriterState);
    ("(*Writer).writeIATBatch", "(*Writer).writeLine", AFile CWriterState) ].

(* pointers handed to other packages: (function, callee), whatever the origin *)
Definition ext_modelled : list (string * string * aclass) :=
  [ ("(*Writer).Flush", "(*bufio.Writer).Flush", AFile CWriterState);
    ("(*Writer).Write", "(*bufio.Writer).Flush", AFile CWriterState);
    ("(*Writer).Write", "(*bufio.Writer).WriteString", AFile CWriterState);
    ("(*Writer).writeLine", "(*bufio.Writer).Available", AFile CWriterState);
    ("(*Writer).writeLine", "(*bufio.Writer).WriteString", AFile CWriterState);
    ("(*Batch).MarshalJSON", "encoding/json.Marshal", AFile CReadOnlyExt);
    ("(*File).MarshalJSON", "encoding/json.Marshal", AFile CReadOnlyExt);
    ("(DNEPaymentInformation).String", "(time.Time).Format", AFile CReadOnlyExt);
    ("getBuffer", "(*sync.Pool).Get", AFile CPool);
    ("saveBuffer", "(*bytes.Buffer).Reset", AFile CPool);
    ("saveBuffer", "(*sync.Pool).Put", AFile CPool);
    ("(*server.repositoryInMemory).FindFile", "(*sync.RWMutex).RLock", ALock);
    ("(*server.repositoryInMemory).FindFile", "(*sync.RWMutex).RUnlock", ALock);
    ("server.decodeValidateFileRequest", "github.com/gorilla/mux.Vars", ARequest);
    ("server.decodeValidateFileRequest", "github.com/moov-io/base/http.GetRequestID", ARequest);
    ("server.readValidateOpts", "(*net/url.URL).Query", ARequest);
    ("server.readValidateOpts", "(net/url.Values).Get", ARequest);
    ("server.readValidateOpts", "encoding/json.Unmarshal", ARequest);
    ("server.readValidateOpts", "io.ReadAll", ARequest);
    ("server.readValidateOpts", "io.TeeReader", ARequest);
    ("server.validateFileEndpoint$1", "(github.com/moov-io/base/log.Logger).LogError", ARequest) ].

Definition fmt_target (t : string) : bool :=
  String.eqb t "fmt.Sprintf" || String.eqb t "fmt.Errorf" || String.eqb t "fmt.Sprint".

Fixpoint find2 (a b : string) (l : list (string * string * aclass)) : option aclass :=
  match l with
  | [] => None
  | (x, y, c) :: r => if String.eqb a x && String.eqb b y then Some c else find2 a b r
  end.

Definition aclass_of (w : awrite) : option aclass :=
  if is_write w then
    match find (fun p : awrite * aclass => aw_eqb w (fst p)) writes_modelled with
    | Some p => Some (snd p)
    | None => None
    end
  else if String.eqb (aw_kind w) "CallsWriter" then find2 (aw_fn w) (aw_target w) calls_modelled
  else if String.eqb (aw_kind w) "ExtCall" then
    match find2 (aw_fn w) (aw_target w) ext_modelled with
    | Some c => Some c
    | None => if fmt_target (aw_target w) then Some (AFile CReadOnlyExt) else None
    end
  else None.   (* a kind the checker does not know *)

Definition alias_ok (t : list awrite) : bool :=
  forallb (fun w => match aclass_of w with Some _ => true | None => false end) t.

(* table facts about the mechanisms themselves *)
Definition no_inplace (t : list awrite) : bool :=
  forallb (fun w => negb (mem (aw_kind w) inplace_kinds)) t.

Definition prefixb (p s : string) : bool := String.prefix p s.

(* no write to a ValidateOpts struct nor to a field holding one, anywhere in the closure (seeded change C14_g) *)
Definition opts_target (t : string) : bool :=
  prefixb "ValidateOpts." t || String.eqb t "deref(*ValidateOpts)" ||
  existsb (fun s => String.eqb t s)
    ["File.validateOpts"; "FileHeader.validateOpts"; "Batch.validateOpts"; "IATBatch.validateOpts";
     "BatchHeader.validateOpts"; "BatchControl.validateOpts"; "EntryDetail.validateOpts"].
Definition opts_untouched (t : list awrite) : bool :=
  forallb (fun w => negb (is_write w && opts_target (aw_target w))) t.

(* the writes into the file: only the two setters, on their own receiver *)
Definition file_write (w : awrite) : bool :=
  is_write w && negb (prefixb "Writer." (aw_target w)).
Definition file_writes_are_installs (t : list awrite) : bool :=
  forallb (fun w => negb (file_write w) ||
                    aw_eqb w (mkaw "(*Batch).SetHeader" "Store" "Batch.Header" "param batch") ||
                    aw_eqb w (mkaw "(*Batch).SetControl" "Store" "Batch.Control" "param batch")) t.

Definition alias_required_roots : list string :=
  required_roots ++ ["(*server.service).ValidateFile"; "server.validateFileEndpoint$1"; "server.decodeValidateFileRequest"].
Definition alias_required_reached : list string :=
  required_reached ++ ["(*server.service).GetFile"; "(*server.repositoryInMemory).FindFile"; "server.readValidateOpts"].
Definition alias_roots_ok (roots closure : list string) : bool :=
  forallb (fun r => mem r roots) alias_required_roots &&
  forallb (fun r => mem r closure) (alias_required_roots ++ alias_required_reached).

Definition alias_model_writes_present (t : list awrite) : bool :=
  existsb (aw_eqb (mkaw "(*Batch).SetHeader" "Store" "Batch.Header" "param batch")) t &&
  existsb (aw_eqb (mkaw "(*Batch).SetControl" "Store" "Batch.Control" "param batch")) t &&
  existsb (aw_eqb (mkaw "(*File).IsADV" "CallsWriter" "(*Batch).SetHeader" "")) t &&
  existsb (aw_eqb (mkaw "(*File).IsADV" "CallsWriter" "(*Batch).SetControl" "")) t.

(* ---- generic soundness of the checkers *)

Lemma alias_ok_class t : alias_ok t = true -> forall w, In w t -> exists c, aclass_of w = Some c.
Proof.
  intros H w Hw. unfold alias_ok in H. rewrite forallb_forall in H. specialize (H w Hw).
  destruct (aclass_of w) as [c|]; [now exists c|discriminate].
Qed.

(* an accepted writing entry is, literally, one of the four listed *)
Lemma alias_ok_write t : alias_ok t = true -> forall w, In w t -> is_write w = true ->
  exists c, In (w, c) writes_modelled.
Proof.
  intros H w Hw Hk. destruct (alias_ok_class t H w Hw) as [c Hc].
  unfold aclass_of in Hc. rewrite Hk in Hc.
  destruct (find (fun p : awrite * aclass => aw_eqb w (fst p)) writes_modelled) as [p|] eqn:F; [|discriminate].
  apply find_some in F as [Hin E]. apply aw_eqb_eq in E. exists (snd p).
  rewrite E. now rewrite <- surjective_pairing.
Qed.

Lemma no_inplace_spec t : no_inplace t = true -> forall w, In w t -> ~ In (aw_kind w) inplace_kinds.
Proof.
  intros H w Hw Hin. unfold no_inplace in H. rewrite forallb_forall in H. specialize (H w Hw).
  apply negb_true_iff in H. unfold mem in H.
  assert (existsb (String.eqb (aw_kind w)) inplace_kinds = true) as E.
  { apply existsb_exists. exists (aw_kind w). split; [exact Hin|apply String.eqb_refl]. }
  congruence.
Qed.

Lemma opts_untouched_spec t : opts_untouched t = true ->
  forall w, In w t -> is_write w = true -> opts_target (aw_target w) = false.
Proof.
  intros H w Hw Hk. unfold opts_untouched in H. rewrite forallb_forall in H. specialize (H w Hw).
  rewrite Hk in H. cbn in H. now apply negb_true_iff in H.
Qed.

(* ================================================================ construction facts *)

Fixpoint sbytes (s : string) : bytes :=
  match s with
  | EmptyString => []
  | String c r => N_of_ascii c :: sbytes r
  end.

Fixpoint slist_eqb (a b : list string) : bool :=
  match a, b with
  | [], [] => true
  | x :: a', y :: b' => String.eqb x y && slist_eqb a' b'
  | _, _ => false
  end.

(* the two shapes a NewBatchXXX constructor may have: (header taken from the argument, Control set) *)
Definition ctor_shape (sts : list string) : option (bool * bool) :=
  if slist_eqb sts ["new"; "(*Batch).SetControl(NewBatchControl())"; "(*Batch).SetHeader(bh)"; "(*Batch).SetID(bh.ID)"; "return"]
  then Some (true, true)
  else if slist_eqb sts ["new"; "(*Batch).SetADVControl(NewADVBatchControl())"; "(*Batch).SetHeader(bh)"; "(*Batch).SetID(bh.ID)"; "return"]
  then Some (true, false)
  else None.

Fixpoint sfind {A} (k : string) (l : list (string * A)) : option A :=
  match l with
  | [] => None
  | (k', v) :: r => if String.eqb k k' then Some v else sfind k r
  end.

Definition adv_bytes : bytes := [65; 68; 86]%N.

(* what one case of NewBatch's switch yields: None = error / no batch;
   Some (hdr, ctl) = a batch whose Header is the argument (hdr) and whose Control is set (ctl) *)
Inductive nbres := NBError | NBBatch (ctl : bool) | NBUnknown.

Definition case_result (ctors : list (string * list string)) (r : string) : nbres :=
  if String.eqb r "error" then NBError
  else if prefixb "ctor " r then
    match sfind (String.substring 5 (String.length r - 5) r) ctors with
    | Some sts => match ctor_shape sts with Some (true, ctl) => NBBatch ctl | _ => NBUnknown end
    | None => NBUnknown
    end
  else NBUnknown.

(* the table is as the model says: every constructor takes its header from the argument, and
   sets Control unless the case is "ADV" *)
Definition ctor_table_ok (cases : list (string * string)) (ctors : list (string * list string)) : bool :=
  forallb (fun kr : string * string =>
             match case_result ctors (snd kr) with
             | NBError => true
             | NBBatch ctl => Bool.eqb ctl (negb (bytes_eqb (sbytes (fst kr)) adv_bytes))
             | NBUnknown => false
             end) cases
  && existsb (fun kr : string * string => String.eqb (fst kr) "ADV") cases
  && existsb (fun kr : string * string => String.eqb (fst kr) "PPD") cases.

(* NewBatch(bh) by the table: the first case whose constant equals the SEC code, default = error *)
Fixpoint new_batch_case (cases : list (string * string)) (ctors : list (string * list string)) (sec : bytes) : nbres :=
  match cases with
  | [] => NBError
  | (k, r) :: rest => if bytes_eqb sec (sbytes k) then case_result ctors r else new_batch_case rest ctors sec
  end.

Lemma new_batch_case_sound cases ctors : ctor_table_ok cases ctors = true ->
  forall sec ctl, new_batch_case cases ctors sec = NBBatch ctl -> ctl = negb (bytes_eqb sec adv_bytes).
Proof.
  unfold ctor_table_ok. intros H. apply andb_prop in H as [H _]. apply andb_prop in H as [H _].
  rewrite forallb_forall in H. intros sec ctl.
  induction cases as [|[k r] rest IH]; cbn [new_batch_case]; [discriminate|].
  destruct (bytes_eqb sec (sbytes k)) eqn:E.
  - intros R. specialize (H (k, r) (or_introl eq_refl)). cbn [fst snd] in H. rewrite R in H.
    apply bytes_eqb_eq in E. subst sec. now apply eqb_prop in H.
  - apply IH. intros x Hx. apply H. now right.
Qed.

(* returns of Reader.Read / File.Create *)
Definition ret_class_ok (c : string) : bool :=
  String.eqb c "AfterIsADV" || String.eqb c "ErrNonNil" || String.eqb c "RecoverBlockUnreachable".
Definition returns_ok (rs : list (string * list string)) (fn : string) : bool :=
  match sfind fn rs with
  | Some cs => forallb ret_class_ok cs && existsb (String.eqb "AfterIsADV") cs
  | None => false
  end.

(* where the elements of File.Batches of a reader file come from: the closed chain
   NewBatch -> addCurrentBatch -> Reader.currentBatch -> AddBatch -> append to File.Batches *)
Definition source_ok (t : string * string * string) : bool :=
  let '(fn, what, prov) := t in
  if String.eqb what "store File.Batches"
  then String.eqb fn "(*File).AddBatch" && String.eqb prov "append(field File.Batches, [param batch])"
  else if String.eqb what "call (*File).AddBatch" then String.eqb prov "field Reader.currentBatch"
  else if String.eqb what "store Reader.currentBatch"
  then String.eqb prov "nil" || (String.eqb fn "(*Reader).addCurrentBatch" && String.eqb prov "param batch")
  else if String.eqb what "call (*Reader).addCurrentBatch" then String.eqb prov "call NewBatch"
  else false.
Definition sources_ok (l : list (string * string * string)) : bool :=
  forallb source_ok l &&
  existsb (fun t => let '(_, what, _) := t in String.eqb what "call (*Reader).addCurrentBatch") l &&
  existsb (fun t => let '(_, what, _) := t in String.eqb what "call (*File).AddBatch") l.

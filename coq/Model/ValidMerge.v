(* Phase 2, C09: abstraction from the Merge model to the skeleton of the validator model
   Arith.  Definitions only.

   A Merge entry is (trace string, amount, addenda count, id) with [id] standing for the
   *EntryDetail itself; transaction code, routing number and check digit are a function [mp]
   of it.  Service class and ODFI are fields of the model's batch header.  MergeFiles moves
   entry records (C08 conservation) under headers with the same identity key, so the payload
   of an entry is preserved by construction.

   An output batch is built with NewBatch + AddEntry + Batch.Create: its control is the
   tabulation ([ValidOut.tabulate], tied to Batch.build by C05Valid); an output file is
   File.Create over its batches (whose renumbering is the identity: C09_batch_numbers_ascending). *)
From ACH Require Import ValidOut.
From Coq Require Import List NArith ZArith Bool.
From ACH Require Import Bytes Merge.
Open Scope Z_scope.

Module AR := ACH.Model.Arith.
Module VO := ACH.Model.ValidOut.

Record mpay := mkmpay { mp_code : Z; mp_rdfi : bytes; mp_check : bytes }.

Section Abs.
Variables (A : AR.tables) (mp : N -> mpay).

Definition m_entry (e : entry) : AR.entry :=
  let p := mp (e_id e) in
  AR.mkentry (mp_code p) (e_amount e) (mp_rdfi p) (mp_check p) (e_trace e) (e_addenda e).

Definition m_tab (h : header) (num : Z) (es : list entry) : AR.batch :=
  VO.tabulate A AR.KStd (h_scc h) (h_odfi h) num (map m_entry es).

Definition m_batch (rb : rbatch) : AR.batch := m_tab (rb_header rb) (rb_number rb) (rb_entries rb).

Definition m_file (g : rfile) : AR.file := VO.create_file A (map m_batch (rf_batches g)) [].

(* an input batch as the validator sees it (its number is not part of the Merge model) *)
Definition m_ibatch (num : Z) (ib : ibatch) : AR.batch := m_tab (ib_header ib) num (ib_entries ib).

End Abs.

(* Tables the translator regenerates from batchHeader.go / merge.go / fileControl.go
   (coq/Gen/MergeGen.v), their boolean checkers and the soundness theorem that ties
   the checked table of BatchHeader.Equal to the model's [header_equal]. *)
From Coq Require Import String List Bool ZArith.
From ACH Require Import Bytes Merge.
Import ListNotations.
Open Scope string_scope.

Inductive cmp_kind := CmpExact | CmpFold | CmpUnknown.

Definition kind_eqb (a b : cmp_kind) : bool :=
  match a, b with
  | CmpExact, CmpExact | CmpFold, CmpFold | CmpUnknown, CmpUnknown => true
  | _, _ => false
  end.

(* the model header read through the Go field names *)
Inductive fval := FZ (z : Z) | FB (b : bytes).

Definition hfield (f : string) (h : header) : option fval :=
  if f =? "ServiceClassCode" then Some (FZ (h_scc h))
  else if f =? "CompanyName" then Some (FB (h_name h))
  else if f =? "CompanyIdentification" then Some (FB (h_cid h))
  else if f =? "StandardEntryClassCode" then Some (FB (h_sec h))
  else if f =? "CompanyEntryDescription" then Some (FB (h_desc h))
  else if f =? "EffectiveEntryDate" then Some (FB (h_eed h))
  else if f =? "ODFIIdentification" then Some (FB (h_odfi h))
  else None.

(* one `if <fields differ> { return false }` of the source, interpreted on the model *)
Definition check_one (a b : header) (ck : string * cmp_kind) : bool :=
  match hfield (fst ck) a, hfield (fst ck) b, snd ck with
  | Some (FZ x), Some (FZ y), CmpExact => (x =? y)%Z
  | Some (FB x), Some (FB y), CmpExact => bytes_eqb x y
  | Some (FB x), Some (FB y), CmpFold => fold_eq x y
  | _, _, _ => false
  end.

Definition eval_equal (t : list (string * cmp_kind)) (a b : header) : bool := forallb (check_one a b) t.

Definition canonical : list (string * cmp_kind) :=
  [ ("ServiceClassCode", CmpExact); ("CompanyName", CmpFold); ("CompanyIdentification", CmpExact);
    ("StandardEntryClassCode", CmpExact); ("CompanyEntryDescription", CmpExact);
    ("EffectiveEntryDate", CmpExact); ("ODFIIdentification", CmpExact) ].

Definition ck_eqb (x y : string * cmp_kind) : bool := (fst x =? fst y) && kind_eqb (snd x) (snd y).
Definition ck_mem (x : string * cmp_kind) (l : list (string * cmp_kind)) : bool := existsb (ck_eqb x) l.

(* the source compares exactly the model's fields with the model's kinds
   (order and repetitions are irrelevant for a conjunction) *)
Definition equal_table_ok (t : list (string * cmp_kind)) : bool :=
  forallb (fun x => ck_mem x canonical) t && forallb (fun x => ck_mem x t) canonical.

Lemma ck_eqb_eq x y : ck_eqb x y = true -> x = y.
Proof.
  destruct x as [f k], y as [g l]. unfold ck_eqb. cbn [fst snd]. intros H.
  apply andb_prop in H as [H1 H2]. apply String.eqb_eq in H1. subst g.
  destruct k, l; cbn in H2; try discriminate; reflexivity.
Qed.

Lemma forallb_transfer (f : string * cmp_kind -> bool) l1 l2 :
  forallb (fun x => ck_mem x l2) l1 = true -> forallb f l2 = true -> forallb f l1 = true.
Proof.
  intros H1 H2. rewrite forallb_forall in *. intros x Hx. specialize (H1 x Hx).
  unfold ck_mem in H1. apply existsb_exists in H1 as (y & Hy & Heq). apply ck_eqb_eq in Heq. subst y. now apply H2.
Qed.

Lemma header_equal_canonical a b : header_equal a b = eval_equal canonical a b.
Proof.
  unfold header_equal, eval_equal, canonical, check_one, hfield. cbn.
  destruct (h_scc a =? h_scc b)%Z; cbn; [|reflexivity].
  destruct (fold_eq (h_name a) (h_name b)); cbn; [|reflexivity].
  destruct (bytes_eqb (h_cid a) (h_cid b)); cbn; [|reflexivity].
  destruct (bytes_eqb (h_sec a) (h_sec b)); cbn; [|reflexivity].
  destruct (bytes_eqb (h_desc a) (h_desc b)); cbn; [|reflexivity].
  destruct (bytes_eqb (h_eed a) (h_eed b)); cbn; [|reflexivity].
  destruct (bytes_eqb (h_odfi a) (h_odfi b)); cbn; reflexivity.
Qed.

Theorem equal_table_sound t :
  equal_table_ok t = true -> forall a b, eval_equal t a b = header_equal a b.
Proof.
  intros H a b. apply andb_prop in H as [H1 H2]. rewrite header_equal_canonical. unfold eval_equal.
  destruct (forallb (check_one a b) canonical) eqn:Hc.
  - eapply forallb_transfer; eassumption.
  - destruct (forallb (check_one a b) t) eqn:Ht; [|reflexivity].
    rewrite (forallb_transfer _ _ _ H2 Ht) in Hc. discriminate.
Qed.

(* ---- NewBatch(&BatchHeader{...}) literals of convertToFiles: every compared field is copied
   from the stored header and the batch number comes from the running counter *)
Definition ss_eqb (x y : string * string) : bool := (fst x =? fst y) && (snd x =? snd y).

Definition literal_ok (l : list (string * string)) : bool :=
  forallb (fun ck => existsb (ss_eqb (fst ck, "nextBatch.header." ++ fst ck)) l) canonical
  && existsb (ss_eqb ("BatchNumber", "batchNumber")) l
  && existsb (ss_eqb ("CompanyDiscretionaryData", "nextBatch.header.CompanyDiscretionaryData")) l.

Definition literals_ok (ls : list (list (string * string))) : bool :=
  (length ls =? 2)%nat && forallb literal_ok ls.

(* ---- pickOutFile compares exactly origin and destination *)
Definition str_mem (x : string) (l : list string) : bool := existsb (String.eqb x) l.
Definition route_ok (l : list string) : bool :=
  let want := ["ImmediateOrigin"; "ImmediateDestination"] in
  forallb (fun x => str_mem x want) l && forallb (fun x => str_mem x l) want.

(* the dollar cap is forced into the NACHA range exactly as the model's [clamp] does (a cap of 0 or above the
   limit becomes the limit), and an entry's out-batch is chosen by findOutBatch comparing headers with
   BatchHeader.Equal and trace numbers with the tree-map's Contains: the comparison the theorems are about *)
Definition expected_clamps : list string :=
  ["conditions.MaxDollarAmount == 0 || conditions.MaxDollarAmount > NachaFileDebitCreditLimit => conditions.MaxDollarAmount = NachaFileDebitCreditLimit"].
Definition clamps_ok (l : list string) : bool :=
  forallb (fun x => str_mem x expected_clamps) l && forallb (fun x => str_mem x l) expected_clamps.
Definition lookup_ok (add_calls find_calls : list string) : bool :=
  str_mem "findOutBatch" add_calls && str_mem "Equal" find_calls && str_mem "Contains" find_calls.

Definition limits_ok (line dollar : option Z) : bool :=
  match line, dollar with
  | Some l, Some d => (l =? 10000)%Z && (d =? nacha_limit)%Z
  | _, _ => false
  end.

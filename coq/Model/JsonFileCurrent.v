(* C07 (phase 2) — the post-processing model instantiated on the tables regenerated from
   the current source (definitions only, so the extracted model still builds when an
   obligation about a table breaks). *)
From Coq Require Import String List Bool ZArith NArith.
Import ListNotations.
From ACH Require Import Bytes JsonCodec JsonSurvive JsonPostTable Layout JsonFile.
From ACH Require Import JsonTags JsonPost Offsets OffsetTable Layouts.
Local Open Scope string_scope.

(* excused fields (Oblig/C07Obl.v) that the renderer reads: their survival is a hypothesis of the
   round-trip theorem (header constants: equal to the constructor's literals; FileIDModifier: not
   empty; Addenda98.iatCorrectedData: empty — the known finding) *)
Definition keep_fields : list (string * string) :=
  [ ("FileHeader", "priorityCode"); ("FileHeader", "FileIDModifier"); ("FileHeader", "recordSize");
    ("FileHeader", "blockingFactor"); ("FileHeader", "formatCode"); ("Addenda98", "iatCorrectedData") ].

(* excused fields that neither the renderer nor the post-processing model reads before writing them:
   not part of the tree *)
Definition hid_fields : list (string * string) :=
  [ ("FileHeader", "validateOpts");
    ("Batch", "id"); ("Batch", "ADVControl"); ("Batch", "category"); ("Batch", "validateOpts");
    ("IATBatch", "category"); ("IATBatch", "validateOpts");
    ("BatchHeader", "validateOpts"); ("BatchControl", "validateOpts"); ("ADVBatchControl", "validateOpts");
    ("EntryDetail", "validateOpts"); ("ADVEntryDetail", "validateOpts");
    ("IATBatchHeader", "validateOpts"); ("IATEntryDetail", "validateOpts");
    ("Addenda02", "validateOpts"); ("Addenda05", "validateOpts");
    ("Addenda10", "validateOpts"); ("Addenda11", "validateOpts"); ("Addenda12", "validateOpts");
    ("Addenda13", "validateOpts"); ("Addenda14", "validateOpts"); ("Addenda15", "validateOpts");
    ("Addenda16", "validateOpts"); ("Addenda17", "validateOpts"); ("Addenda18", "validateOpts");
    ("Addenda99", "validateOpts"); ("Addenda99Contested", "validateOpts"); ("Addenda99Dishonored", "validateOpts");
    ("File", "ADVControl"); ("File", "NotificationOfChange"); ("File", "ReturnEntries");
    ("ValidateOpts", "CheckTransactionCode") ].

(* of the hidden fields, those the post-processing writes (they are part of the result tree) *)
Definition written_fields : list (string * string) :=
  [ ("FileHeader", "validateOpts"); ("Batch", "id"); ("Batch", "validateOpts"); ("IATBatch", "validateOpts");
    ("File", "ADVControl") ].

Definition hidp_cur : hidp := sel_of hid_fields.

Definition struct_fields (t : ty) : list (fmeta * ty) := match t with TStruct _ fs => fs | _ => [] end.

(* the value a constructor gives a field (decode-time default of the regenerated table) *)
Definition field_default (t : ty) (f : string) : val :=
  match find (fun mf => String.eqb (f_name (fst mf)) f) (struct_fields t) with
  | Some (m, ft) => match f_def m with Some d => d | None => start ft end
  | None => VNil
  end.
Definition field_type (t : ty) (f : string) : ty :=
  match find (fun mf => String.eqb (f_name (fst mf)) f) (struct_fields t) with
  | Some (_, ft) => ft
  | None => TOther
  end.
Definition default_node (t : ty) (f : string) : rtree := view hidp_cur (field_type t f) (field_default t f).

Definition new_batch_control : rtree := Eval vm_compute in default_node T_Batch "Control".
Definition new_adv_batch_control : rtree := Eval vm_compute in default_node T_Batch "ADVControl".
Definition new_file_control : rtree := Eval vm_compute in default_node T_File "Control".
Definition new_entry_detail : rtree :=
  Eval vm_compute in sset (view hidp_cur T_EntryDetail (start T_EntryDetail)) "Category" (bstr "Forward").
Definition zero_adv_file_control : rtree := Eval vm_compute in view hidp_cur T_ADVFileControl (start T_ADVFileControl).

Section Cur.
  Variable file_header_valid : list rtree -> rtree -> bool.
  Variable batch_header_valid : list rtree -> rtree -> bool.
  Variable file_valid : rtree -> bool.

  Definition env_cur : penv :=
    mkpenv json_post_table (t_rm_credit offset_table)
           (t_deb_chk offset_table) (t_deb_sav offset_table) (t_cre_chk offset_table) (t_cre_sav offset_table) new_entry_detail
           opts_merge_fields (t_credit offset_table) (t_debit offset_table)
           new_batch_control new_adv_batch_control new_file_control zero_adv_file_control zero_adv_file_control
           file_header_valid batch_header_valid file_valid.

  Definition post_cur : list rtree -> rtree -> pres := post env_cur.

  (* FileFromJSONWith(document, passed) on the JSON tree *)
  Definition from_json (passed : list rtree) (j : json) : pres :=
    post_cur passed (view hidp_cur T_File (dec T_File (start T_File) j)).
End Cur.

(* the conditions of the round-trip theorem, evaluated on a file value *)
Definition keep_ok (v : val) : bool := safe_sel (sel_of keep_fields) T_File (start T_File) v.
Definition ready_run (hv : bool) (passed : list rtree) (v : val) : bool :=
  typed T_File v && keep_ok v
  && ready (env_cur (fun _ _ => hv) (fun _ _ => true) (fun _ => true)) passed (view hidp_cur T_File v).

Definition tree_of_file (v : val) : rtree := view hidp_cur T_File v.
Definition to_json (v : val) : json := enc T_File v.
Definition opts_tree (v : val) : list rtree := nodes hidp_cur (TPtr T_ValidateOpts) v.

Definition LF : bytes := [10%N].
Definition write_cur (f : rtree) : bytes := write_rt all_layouts LF f.
Definition lines_cur (f : rtree) : list bytes := lines all_layouts f.

(* run with the verdict of FileHeader.Validate supplied by the harness ([hv]); the other validators accept
   (the harness only feeds documents whose batch headers are valid; File.Validate does not change the file) *)
Definition from_json_run (hv : bool) (passed : list rtree) (j : json) : pres :=
  from_json (fun _ _ => hv) (fun _ _ => true) (fun _ => true) passed j.

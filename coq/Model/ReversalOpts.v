(* Phase 5, C13: File.Reversal of a file that carries ValidateOpts (on the file, on its
   batches, on its entry records).  Executable definitions only (proofs: ReversalOptsFacts.v).

   reversal.go reads no option and stores none (Gen/OptSites.v: no SetValidation in
   File.Reversal; Gen/RevOptsGen.v: the statements that could).  What depends on options:

   - `if bb, ok := f.Batches[i].( *Batch ); ok { bb.build() }` would re-sequence foreign trace
     numbers (unless the batch holds BypassOriginValidation / CustomTraceNumbers) and re-tabulate
     the control record.  It runs for a bare *Batch only — and ( *Batch ).Validate returns an
     error unconditionally, so no file that validates holds one: on the domain of the theorems
     the branch is dead, trace numbers and control records (also the stale ones a batch may
     hold under UnequalServiceClassCode / UnequalAddendaCounts) are left as they are, the two
     totals swapped.  The model has no rebuild step.
   - File.Create runs under the FILE's options: unless SkipAll, the header must validate
     (unless AllowMissingFileHeader) and there must be a batch (unless AllowZeroBatches);
     batch numbers <= 1 become the position (header and control); the file control is
     re-tabulated from the batch controls as they stand.

   A batch is the Reversal model's batch [rv_b] with the payload of ValidReversal.v ([rv_pay]:
   header ODFI / number, control count / hash / ODFI / number) plus the options stored on it and
   on its entry records; [ep] gives routing number, check digit, trace string and addenda count
   of an entry from its identity. *)
From ACH Require Import ValidOut ArithOpts.
From Coq Require Import ZArith NArith List Bool.
From ACH Require Import Bytes TxCodes RevTable Reversal ValidReversal.
From ACH Require MergeOpts.
Import ListNotations.
Open Scope Z_scope.

Notation vopts := MergeOpts.vopts.
Notation oflag := MergeOpts.oflag.

Record rvb := mkrvb {
  rv_opts : vopts;            (* Batch.validateOpts *)
  rv_eopts : list vopts;      (* EntryDetail.validateOpts, one per entry *)
  rv_pay : bpay;
  rv_b : rbatch }.

Record rvf := mkrvf {
  rvf_opts : vopts;           (* File.validateOpts *)
  rvf_origin : bytes; rvf_dest : bytes;
  rvf_date : bytes; rvf_time : bytes;
  rvf_batches : list rvb;
  rvf_ctl : AR.fctl }.

(* one batch: options, record options and payload stay *)
Definition reversal_batch_o (T : rtables) (d : bytes) (x : rvb) : rvb :=
  mkrvb (rv_opts x) (rv_eopts x) (rv_pay x) (reversal_batch T d (rv_b x)).

(* File.Create: "create ascending batch numbers unless batch number has been provided" *)
Definition set_pay_number (p : bpay) (n : Z) : bpay :=
  mkbpay (bp_odfi p) n (bp_count p) (bp_hash p) (bp_codfi p) n.

Fixpoint rv_renumber (seq : Z) (xs : list rvb) : list rvb :=
  match xs with
  | [] => []
  | x :: r =>
      (if bp_number (rv_pay x) <=? 1
       then mkrvb (rv_opts x) (rv_eopts x) (set_pay_number (rv_pay x) seq) (rv_b x) else x)
      :: rv_renumber (seq + 1) r
  end.

(* the validator's view *)
Definition rv_arith (ep : N -> N -> rpay) (x : rvb) : vbatch :=
  mkvb (rv_opts x) (rv_eopts x) (r_batch ep (rv_pay x) (rv_b x)).

Definition rvf_arith (ep : N -> N -> rpay) (f : rvf) : vfile :=
  mkvf (rvf_opts f) (rvf_origin f) (rvf_dest f) (map (rv_arith ep) (rvf_batches f)) (rvf_ctl f).

Inductive rvres := RvOk (f : rvf) | RvErrHeader | RvErrNoBatches.

Definition reversal_file_o (A : AR.tables) (T : rtables) (ep : N -> N -> rpay) (d t : bytes) (f : rvf) : rvres :=
  let o := rvf_opts f in
  let bs := map (reversal_batch_o T d) (rvf_batches f) in
  if negb (oflag ix_skip_all o) && negb (oflag ix_missing_header o)
     && negb (header_ok o (rvf_origin f) (rvf_dest f)) then RvErrHeader
  else if negb (oflag ix_skip_all o) && negb (oflag ix_zero_batches o)
          && match bs with [] => true | _ => false end then RvErrNoBatches
  else
    let bs' := rv_renumber 1 bs in
    RvOk (mkrvf o (rvf_origin f) (rvf_dest f) d t bs'
                (tab_fctl_o A (map (fun x => r_batch ep (rv_pay x) (rv_b x)) bs'))).

(* the CheckTransactionCode functions stored on the entry records accept the codes the switch
   assigns (a function is user code: nothing in the library makes it accept the opposite code) *)
Fixpoint ctc_accepts (csem : N -> Z -> bool) (rc : Z -> Z) (eos : list vopts) (cs : list Z) : bool :=
  match cs with
  | [] => true
  | c :: t =>
      match octc (hd None eos) with Some f => csem f (rc c) | None => true end
      && ctc_accepts csem rc (tl eos) t
  end.

(* C07 (phase 2) — what exactly comes back from json.Marshal + json.Unmarshal.

   [surv t cur v] is the value that decoding the encoding of [v] INTO a variable
   holding [cur] produces, described field by field without going through JSON:
   a field that is written and read back under the same key survives (recursively),
   every other field — not written, not read, read under another key, or dropped by
   omitempty — keeps what the variable held.  [surv_law] proves
   [dec t cur (enc t v) = surv t cur v] for ANY well-formed type tree (the
   equational form of JsonCodecFacts.codec_iff).

   [agree hid t a b]: a and b are equal except below the fields listed in [hid].
   [surv_agree]: if the table checker's problem list is covered by [hid] (fields we do
   not look at) and [keep] (fields whose local survival condition is assumed of v),
   then [surv t cur v] agrees with [v] outside [hid]. *)
From Coq Require Import String Ascii List Bool ZArith NArith Lia.
Import ListNotations.
From ACH Require Import Bytes JsonCodec JsonCodecFacts.

(* ------------------------------------------------------------ definitions *)

Definition survives_key (m : fmeta) : bool :=
  match f_enc m, f_dec m with
  | Some ek, Some dk => key_eqb dk ek
  | _, _ => false
  end.

Fixpoint surv (t : ty) (cur v : val) : val :=
  match t with
  | TStr => match v with VStr _ => v | _ => cur end
  | TInt => match v with VInt _ => v | _ => cur end
  | TBool => match v with VBool _ => v | _ => cur end
  | TOther => cur
  | TStruct _ fs =>
      match cur, v with
      | VRec cs, VRec vs =>
          VRec ((fix go (fs : list (fmeta * ty)) (cs vs : list val) : list val :=
                   match fs, cs, vs with
                   | (m, ft) :: fs', c :: cs', x :: vs' =>
                       (if survives_key m then (if f_omit m && is_empty x then c else surv ft c x) else c)
                       :: go fs' cs' vs'
                   | _, _, _ => []
                   end) fs cs vs)
      | _, _ => cur
      end
  | TPtr t' =>
      match v with
      | VNil => VNil
      | _ => surv t' (match cur with VNil => start t' | _ => cur end) v
      end
  | TSlice t' =>
      match v with
      | VArr xs => VArr (map (surv t' (start t')) xs)
      | _ => cur
      end
  end.

Definition surv_field (m : fmeta) (ft : ty) (c x : val) : val :=
  if survives_key m then (if f_omit m && is_empty x then c else surv ft c x) else c.

Fixpoint surv_fields (fs : list (fmeta * ty)) (cs vs : list val) : list val :=
  match fs, cs, vs with
  | (m, ft) :: fs', c :: cs', x :: vs' => surv_field m ft c x :: surv_fields fs' cs' vs'
  | _, _, _ => []
  end.

Lemma surv_struct n fs cs vs : surv (TStruct n fs) (VRec cs) (VRec vs) = VRec (surv_fields fs cs vs).
Proof.
  reflexivity.
Qed.

Definition hidp := string -> string -> bool.

Fixpoint agree (hid : hidp) (t : ty) (a b : val) : bool :=
  match t with
  | TStr | TInt | TBool => val_eqb a b
  | TOther => true
  | TStruct n fs =>
      match a, b with
      | VRec xs, VRec ys =>
          (fix go (fs : list (fmeta * ty)) (xs ys : list val) : bool :=
             match fs, xs, ys with
             | [], [], [] => true
             | (m, ft) :: fs', x :: xs', y :: ys' =>
                 (if hid n (f_name m) then true else agree hid ft x y) && go fs' xs' ys'
             | _, _, _ => false
             end) fs xs ys
      | _, _ => false
      end
  | TPtr t' =>
      match a, b with
      | VNil, VNil => true
      | VRec _, VRec _ => agree hid t' a b
      | _, _ => false
      end
  | TSlice t' =>
      match a, b with
      | VArr xs, VArr ys =>
          (fix go (xs ys : list val) : bool :=
             match xs, ys with
             | [], [] => true
             | x :: xs', y :: ys' => agree hid t' x y && go xs' ys'
             | _, _ => false
             end) xs ys
      | _, _ => false
      end
  end.

Fixpoint agree_fields (hid : hidp) (n : string) (fs : list (fmeta * ty)) (xs ys : list val) : bool :=
  match fs, xs, ys with
  | [], [], [] => true
  | (m, ft) :: fs', x :: xs', y :: ys' =>
      (if hid n (f_name m) then true else agree hid ft x y) && agree_fields hid n fs' xs' ys'
  | _, _, _ => false
  end.

Lemma agree_struct hid n fs xs ys : agree hid (TStruct n fs) (VRec xs) (VRec ys) = agree_fields hid n fs xs ys.
Proof.
  cbn [agree]. revert xs ys; induction fs as [|[m ft] fs IH]; intros [|x xs] [|y ys]; try reflexivity.
  cbn [agree_fields]. rewrite <- IH. reflexivity.
Qed.

Fixpoint agree_list (hid : hidp) (t : ty) (xs ys : list val) : bool :=
  match xs, ys with
  | [], [] => true
  | x :: xs', y :: ys' => agree hid t x y && agree_list hid t xs' ys'
  | _, _ => false
  end.

Lemma agree_slice hid t xs ys : agree hid (TSlice t) (VArr xs) (VArr ys) = agree_list hid t xs ys.
Proof.
  cbn [agree]. revert ys; induction xs as [|x xs IH]; intros [|y ys]; try reflexivity.
  cbn [agree_list]. rewrite <- IH. reflexivity.
Qed.

(* ------------------------------------------------------------ dec (enc v) = surv v *)

Definition surv_law_at (t : ty) : Prop :=
  wf t = true -> forall cur v, typed t cur = true -> typed t v = true ->
  dec t cur (enc t v) = surv t cur v.

Lemma surv_fields_law fs :
  Forall (fun mf => surv_law_at (snd mf)) fs ->
  forall pre cs vs,
    keys_ok fs = true -> wf_fields fs = true ->
    typed_fields fs cs = true -> typed_fields fs vs = true ->
    dkeys_miss fs pre ->
    dec_fields (pre ++ enc_fields fs vs) fs cs = surv_fields fs cs vs.
Proof.
  induction 1 as [|[m ft] fs Hft _ IH]; intros pre cs vs Hk Hwf Hc Hv Hpre.
  - destruct cs, vs; try discriminate. reflexivity.
  - destruct cs as [|c cs]; [discriminate|]. destruct vs as [|x vs]; [discriminate|].
    cbn [typed_fields] in Hc, Hv. apply andb_prop in Hc as [Hc Hcs]. apply andb_prop in Hv as [Hx Hvs].
    cbn [keys_ok] in Hk. apply andb_prop in Hk as [Hk Hk3]. apply andb_prop in Hk as [Hk1 Hk2].
    cbn [wf_fields] in Hwf. apply andb_prop in Hwf as [Hwf Hwfs]. apply andb_prop in Hwf as [Hwf Hoth]. apply andb_prop in Hwf as [Hwft Hdef].
    cbn [snd] in Hft.
    cbn [dec_fields surv_fields].
    assert (Tail : forall own, (forall k, In k (opt_keys f_dec fs) -> misses k own = true) ->
              dec_fields ((pre ++ own) ++ enc_fields fs vs) fs cs = surv_fields fs cs vs).
    { intros own Hown. apply IH; try assumption. intros k Hin. rewrite misses_app.
      rewrite (Hown k Hin). rewrite Hpre; [reflexivity|].
      unfold opt_keys. cbn [flat_map]. apply in_or_app. right. exact Hin. }
    unfold dec_field, surv_field, survives_key. cbn [enc_fields].
    destruct (f_enc m) as [ek|] eqn:Eenc; destruct (f_dec m) as [dk|] eqn:Edec.
    + assert (Hdkpre : misses dk pre = true).
      { apply Hpre. unfold opt_keys. cbn [flat_map fst]. rewrite Edec. left. reflexivity. }
      assert (Hdkrest : misses dk (enc_fields fs vs) = true) by (apply enc_fields_misses; exact Hk1).
      destruct (f_omit m && is_empty x) eqn:Eom.
      * rewrite lookup_app_miss by assumption. rewrite lookup_miss by assumption.
        specialize (Tail [] (fun _ _ => eq_refl)). rewrite app_nil_r in Tail. rewrite Tail.
        destruct (key_eqb dk ek); reflexivity.
      * rewrite lookup_app_miss by assumption. cbn [lookup].
        assert (Hown : forall k, In k (opt_keys f_dec fs) -> misses k [(ek, enc ft x)] = true).
        { intros k Hin. cbn. rewrite andb_true_r. apply negb_true_iff. rewrite key_eqb_sym. eapply no_match_in; eassumption. }
        specialize (Tail [(ek, enc ft x)] Hown). rewrite <- app_assoc in Tail. cbn [app] in Tail. rewrite Tail.
        destruct (key_eqb dk ek) eqn:Ekey.
        -- rewrite (Hft Hwft c x Hc Hx). reflexivity.
        -- rewrite lookup_miss by assumption. reflexivity.
    + destruct (f_omit m && is_empty x) eqn:Eom.
      * specialize (Tail [] (fun _ _ => eq_refl)). rewrite app_nil_r in Tail. rewrite Tail. reflexivity.
      * assert (Hown : forall k, In k (opt_keys f_dec fs) -> misses k [(ek, enc ft x)] = true).
        { intros k Hin. cbn. rewrite andb_true_r. apply negb_true_iff. rewrite key_eqb_sym. eapply no_match_in; eassumption. }
        specialize (Tail [(ek, enc ft x)] Hown). rewrite <- app_assoc in Tail. cbn [app] in Tail. rewrite Tail.
        reflexivity.
    + assert (Hdkpre : misses dk pre = true).
      { apply Hpre. unfold opt_keys. cbn [flat_map fst]. rewrite Edec. left. reflexivity. }
      assert (Hdkrest : misses dk (enc_fields fs vs) = true) by (apply enc_fields_misses; exact Hk1).
      rewrite lookup_app_miss by assumption. rewrite lookup_miss by assumption.
      specialize (Tail [] (fun _ _ => eq_refl)). rewrite app_nil_r in Tail. rewrite Tail. reflexivity.
    + specialize (Tail [] (fun _ _ => eq_refl)). rewrite app_nil_r in Tail. rewrite Tail. reflexivity.
Qed.

Theorem surv_law t : surv_law_at t.
Proof.
  induction t as [| | | |n fs IH|t IH|t IH] using ty_ind'; intros Hwf cur v Hc Hv.
  - destruct v; try discriminate. reflexivity.
  - destruct v; try discriminate. reflexivity.
  - destruct v; try discriminate. reflexivity.
  - reflexivity.
  - destruct v as [| | | |vs| |]; try discriminate. destruct cur as [| | | |cs| |]; try discriminate.
    rewrite enc_struct, dec_struct, surv_struct. rewrite typed_struct in Hc, Hv.
    rewrite wf_struct in Hwf. apply andb_prop in Hwf as [Hk Hwfs].
    pose proof (surv_fields_law fs IH [] cs vs Hk Hwfs Hc Hv (fun _ _ => eq_refl)) as L. cbn [app] in L.
    rewrite L. reflexivity.
  - cbn [wf] in Hwf. destruct t as [| | |n fs| | |]; try discriminate.
    destruct v as [| | | |vs| |]; try discriminate.
    + reflexivity.
    + change (typed (TStruct n fs) (VRec vs) = true) in Hv.
      assert (Hc' : typed (TStruct n fs) (match cur with VNil => start (TStruct n fs) | _ => cur end) = true).
      { destruct cur; try discriminate; [now apply start_typed | exact Hc]. }
      rewrite enc_ptr_rec, enc_struct, dec_ptr_obj, <- (enc_struct n fs vs).
      change (surv (TPtr (TStruct n fs)) cur (VRec vs))
        with (surv (TStruct n fs) (match cur with VNil => start (TStruct n fs) | _ => cur end) (VRec vs)).
      apply (IH Hwf _ _ Hc' Hv).
  - destruct v as [| | | | |xs|]; try discriminate. cbn [wf] in Hwf. cbn [typed] in Hv.
    cbn [enc dec surv]. f_equal. rewrite map_map. apply map_ext_in. intros x Hin.
    apply IH; [assumption | now apply start_typed |].
    rewrite forallb_forall in Hv. now apply Hv.
Qed.

(* ------------------------------------------------------------ agree is reflexive on typed values *)

Lemma agree_refl hid t : forall v, typed t v = true -> agree hid t v v = true.
Proof.
  induction t as [| | | |n fs IH|t IH|t IH] using ty_ind'; intros v Hv; try (apply val_eqb_refl); try reflexivity.
  - destruct v as [| | | |vs| |]; try discriminate. rewrite agree_struct. rewrite typed_struct in Hv.
    revert vs Hv. induction IH as [|[m ft] fs Hft _ IHfs]; intros [|x vs] Hv; try discriminate; [reflexivity|].
    cbn [typed_fields] in Hv. apply andb_prop in Hv as [Hx Hvs]. cbn [agree_fields].
    apply andb_true_intro; split; [|now apply IHfs].
    destruct (hid n (f_name m)); [reflexivity|]. now apply Hft.
  - destruct v as [| | | |vs| |]; try discriminate; [reflexivity|].
    cbn [typed] in Hv. cbn [agree]. now apply IH.
  - destruct v as [| | | | |xs|]; try discriminate. cbn [typed] in Hv. rewrite agree_slice.
    induction xs as [|x xs IHxs]; [reflexivity|]. cbn [forallb] in Hv. apply andb_prop in Hv as [Hx Hxs].
    cbn [agree_list]. rewrite (IH x Hx). cbn. now apply IHxs.
Qed.

(* ------------------------------------------------------------ surv v agrees with v outside the hidden fields *)

Definition covered (hid keep : hidp) (ps : list (string * string)) : Prop :=
  forall p, In p ps -> hid (fst p) (snd p) = true \/ keep (fst p) (snd p) = true.

Definition agree_law (hid keep : hidp) (t : ty) : Prop :=
  wf t = true -> forall cur v, typed t cur = true -> typed t v = true ->
  covered hid keep (problems t cur) ->
  safe_sel keep t cur v = true ->
  agree hid t (surv t cur v) v = true.

Lemma agree_fields_law hid keep n fs :
  Forall (fun mf => agree_law hid keep (snd mf)) fs ->
  forall cs vs,
    wf_fields fs = true -> typed_fields fs cs = true -> typed_fields fs vs = true ->
    covered hid keep (problems_fields n fs cs) ->
    safe_fields keep n fs cs vs = true ->
    agree_fields hid n fs (surv_fields fs cs vs) vs = true.
Proof.
  induction 1 as [|[m ft] fs Hft _ IH]; intros cs vs Hwf Hc Hv Hcov Hs.
  - destruct cs, vs; try discriminate. reflexivity.
  - destruct cs as [|c cs]; [discriminate|]. destruct vs as [|x vs]; [discriminate|].
    cbn [typed_fields] in Hc, Hv. apply andb_prop in Hc as [Hc Hcs]. apply andb_prop in Hv as [Hx Hvs].
    cbn [wf_fields] in Hwf. apply andb_prop in Hwf as [Hwf Hwfs]. apply andb_prop in Hwf as [Hwf Hoth]. apply andb_prop in Hwf as [Hwft Hdef].
    cbn [snd] in Hft. cbn [safe_fields] in Hs. apply andb_prop in Hs as [Hs Hss].
    cbn [problems_fields] in Hcov.
    cbn [surv_fields agree_fields]. apply andb_true_intro; split.
    2:{ apply IH; try assumption. intros p Hp. apply Hcov. apply in_or_app. now right. }
    destruct (hid n (f_name m)) eqn:Ehid; [reflexivity|].
    assert (Hcov' : forall n' f', In (n', f') (problems_field n m ft c) -> hid n' f' = true \/ keep n' f' = true).
    { intros n' f' Hp. apply (Hcov (n', f')). apply in_or_app. now left. }
    clear Hcov IH Hss.
    (* a field that does not come back through JSON: either unit-typed, or kept (local condition c = x) *)
    assert (Stay : (if unit_ty ft && val_eqb c (start ft) then [] else [(n, f_name m)]) = problems_field n m ft c ->
                   cond (keep n (f_name m)) (val_eqb c x) = true -> agree hid ft c x = true).
    { intros E Hcond. destruct (unit_ty ft && val_eqb c (start ft)) eqn:Eu.
      - apply andb_prop in Eu as [Eu1 Eu2]. apply val_eqb_eq in Eu2. subst c.
        rewrite (unit_ty_typed ft x Eu1 Hx). apply agree_refl. apply start_typed. exact Hwft.
      - destruct (Hcov' n (f_name m)) as [Hh|Hk]; [rewrite <- E; left; reflexivity | congruence |].
        unfold cond in Hcond. rewrite Hk in Hcond. apply val_eqb_eq in Hcond. subst c. now apply agree_refl. }
    unfold surv_field, survives_key, safe_field, problems_field in *.
    destruct (f_enc m) as [ek|]; destruct (f_dec m) as [dk|]; try (apply Stay; [reflexivity | exact Hs]).
    destruct (key_eqb dk ek).
    + destruct (f_omit m && is_empty x) eqn:Eom.
      * apply andb_prop in Eom as [Eo Ee]. rewrite Eo in Hcov'.
        rewrite (empty_is_zero ft x Hx Ee) in Hcov'.
        destruct (val_eqb c x) eqn:Ecx.
        -- apply val_eqb_eq in Ecx. subst c. now apply agree_refl.
        -- destruct (Hcov' n (f_name m)) as [Hh|Hk]; [apply in_or_app; left; left; reflexivity | congruence |].
           unfold cond in Hs. rewrite Hk in Hs. discriminate.
      * apply (Hft Hwft c x Hc Hx); [|exact Hs]. intros [n' f'] Hp. apply Hcov'. apply in_or_app. now right.
    + destruct (Hcov' n (f_name m)) as [Hh|Hk]; [left; reflexivity | congruence |].
      unfold cond in Hs. rewrite Hk in Hs. apply val_eqb_eq in Hs. subst c. now apply agree_refl.
Qed.

Theorem surv_agree hid keep t : agree_law hid keep t.
Proof.
  induction t as [| | | |n fs IH|t IH|t IH] using ty_ind'; intros Hwf cur v Hc Hv Hcov Hs.
  - destruct v; try discriminate. apply val_eqb_refl.
  - destruct v; try discriminate. apply val_eqb_refl.
  - destruct v; try discriminate. apply val_eqb_refl.
  - reflexivity.
  - destruct v as [| | | |vs| |]; try discriminate. destruct cur as [| | | |cs| |]; try discriminate.
    rewrite surv_struct, agree_struct. rewrite safe_struct in Hs. rewrite typed_struct in Hc, Hv.
    rewrite problems_struct in Hcov. rewrite wf_struct in Hwf. apply andb_prop in Hwf as [_ Hwfs].
    eapply agree_fields_law; eassumption.
  - cbn [wf] in Hwf. destruct t as [| | |n fs| | |]; try discriminate.
    destruct v as [| | | |vs| |]; try discriminate; [reflexivity|].
    change (typed (TStruct n fs) (VRec vs) = true) in Hv. rewrite safe_ptr_rec in Hs.
    change (problems (TPtr (TStruct n fs)) cur) with (problems (TStruct n fs) (match cur with VNil => start (TStruct n fs) | _ => cur end)) in Hcov.
    change (surv (TPtr (TStruct n fs)) cur (VRec vs))
      with (surv (TStruct n fs) (match cur with VNil => start (TStruct n fs) | _ => cur end) (VRec vs)).
    assert (Hc' : typed (TStruct n fs) (match cur with VNil => start (TStruct n fs) | _ => cur end) = true).
    { destruct cur; try discriminate; [now apply start_typed | exact Hc]. }
    pose proof (IH Hwf _ _ Hc' Hv Hcov Hs) as A.
    destruct (match cur with VNil => start (TStruct n fs) | _ => cur end) as [| | | |cs| |] eqn:Ecur; try discriminate.
    rewrite surv_struct in A |- *. exact A.
  - destruct v as [| | | | |xs|]; try discriminate. cbn [wf] in Hwf. cbn [typed] in Hv.
    cbn [surv]. rewrite agree_slice. cbn [safe_sel] in Hs. cbn [problems] in Hcov.
    induction xs as [|x xs IHxs]; [reflexivity|].
    cbn [forallb] in Hv, Hs. apply andb_prop in Hv as [Hx Hxs]. apply andb_prop in Hs as [Hsx Hsxs].
    cbn [map agree_list]. apply andb_true_intro; split; [|now apply IHxs].
    apply (IH Hwf); auto. now apply start_typed.
Qed.

(* the list-based form used with the regenerated table *)
Definition covers (hid keep : list (string * string)) (ps : list (string * string)) : bool :=
  forallb (fun p => inb p hid || inb p keep) ps.

Theorem surv_agree_lists hid keep t cur v :
  wf t = true -> typed t cur = true -> typed t v = true ->
  covers hid keep (problems t cur) = true ->
  safe_sel (sel_of keep) t cur v = true ->
  agree (sel_of hid) t (dec t cur (enc t v)) v = true.
Proof.
  intros Hwf Hc Hv Hcov Hs. rewrite (surv_law t Hwf cur v Hc Hv).
  apply (surv_agree (sel_of hid) (sel_of keep) t Hwf cur v Hc Hv); [|exact Hs].
  intros [n f] Hp. unfold covers in Hcov. rewrite forallb_forall in Hcov.
  specialize (Hcov _ Hp). apply orb_prop in Hcov. exact Hcov.
Qed.

(* Phase 5 (C09 / C13): the positions of the boolean fields of ach.ValidateOpts the validator
   model under options (ArithOpts.v) reads, with the names they must have in the struct of the
   run (Gen/MergeOptsGen.gen_vo_fields, regenerated from file.go by translator/mergeopts.go).
   A field inserted, removed or reordered makes the checker false. *)
From Coq Require Import String List Bool.
From ACH Require Import MergeOpts ArithOpts MergeOptsTable.
Import ListNotations.
Open Scope string_scope.

Definition opt_names : list (nat * string) :=
  [ (ix_skip_all,        "SkipAll");
    (ix_require_aba,     "RequireABAOrigin");
    (ix_bypass_origin,   "BypassOriginValidation");
    (ix_bypass_dest,     "BypassDestinationValidation");
    (ix_custom_trace,    "CustomTraceNumbers");
    (ix_zero_batches,    "AllowZeroBatches");
    (ix_missing_header,  "AllowMissingFileHeader");
    (ix_missing_control, "AllowMissingFileControl");
    (ix_unequal_scc,     "UnequalServiceClassCode");
    (ix_unordered,       "AllowUnorderedBatchNumbers");
    (ix_invalid_check,   "AllowInvalidCheckDigit");
    (ix_unequal_addenda, "UnequalAddendaCounts") ].

Definition positions_ok (fs : list (string * string)) : bool :=
  forallb (fun p => match nth_error (bool_fields fs) (fst p) with
                    | Some s => String.eqb s (snd p)
                    | None => false
                    end) opt_names.

(* C12, phase 7 — what phase 6 left outside the whole-function theorems (Props/C12Full.v):
   (1) validator acceptance of every IAT batch FlattenBatches hands to AddToFile (IATBatch.Create =
       build THEN Validate; phase 6 had build + isCategory), against the validator model of C03
       (Arith, kind KIAT) on the Arith skeleton of what C05's iat_build leaves;
   (2) files that mix ADV batches with other kinds: the error class of File.Create inside Flatten,
       exactly; File.Create never returns a mixed file.
   Only statements; every proof is `exact <lemma>`.  GA / GT / GTT: the tables regenerated from the
   source on this run; [iq] reads RDFIIdentification / CheckDigit as stored from the identity of an
   IAT entry (the other payload functions: Props/C12Full.v). *)
From Coq Require Import List ZArith Permutation Sorted.
From ACH Require Import ValidOut ValidOutFacts Tables OffsetTable TabulateTable.
From ACH Require Import OffsetsFacts BuildIATFacts FileCreateAll ValidOffsets ValidOutObl.
From ACH Require Import Bytes Fields Flatten FlattenFacts ValidFlatten ValidFlatObl FlattenFull FlattenFullFacts C12FullObl.
From ACH Require Import FlattenFullIAT FlattenFullIATFacts C12FullIATObl.
Open Scope Z_scope.

(* ---- tabulate_valid for kind KIAT ------------------------------------------------------------ *)

(* the IAT analogue of ValidOutFacts.tabulate_valid: an IAT batch whose control is the recomputation
   (what Create writes) passes Arith.validate_batch — IATBatch.verify's equalities of class / ODFI /
   number / count / totals / hash, isSequenceAscending from "-1", isTraceNumberODFI, the record level
   checks, ServiceClassCode != AutomatedAccountingAdvices — under conditions on header and entries;
   for every table *)
Theorem C12_tabulate_iat_valid : forall T cls odfi num es,
  class_okb T cls = true -> cls <> Arith.t_advclass T -> bytes_eqb odfi (repeat zero 9) = false -> es <> nil ->
  Forall (fun e => Arith.validate_entry T Arith.KIAT e = Arith.ROk) es ->
  Arith.ascending (Arith.ascending_init Arith.KIAT) es = true ->
  Forall (fun e => Arith.trace_prefix Arith.KIAT e = stringField odfi 8) es ->
  Arith.calc_debit T Arith.KIAT es <= Arith.t_batch_limit T -> Arith.calc_credit T Arith.KIAT es <= Arith.t_batch_limit T ->
  Arith.validate_batch T (tabulate T Arith.KIAT cls odfi num es) = Arith.ROk.
Proof. exact tabulate_iat_valid. Qed.
Print Assumptions C12_tabulate_iat_valid.

(* conversely a valid IAT batch is tabulated (control = recomputation) ... *)
Theorem C12_valid_iat_tabulated : forall T b,
  Arith.bt_kind b = Arith.KIAT -> Arith.validate_batch T b = Arith.ROk -> tabulated T b.
Proof. exact valid_iat_tabulated. Qed.
Print Assumptions C12_valid_iat_tabulated.

(* ... and supplies, for each of its entries, the Arith half of the per-entry hypothesis [iat_entry_ok]
   of the theorems below (the other half: integer ODFI prefix of the trace number, ip_rdfi =
   Atoi(aba8(stored routing number)), at most two Addenda17 and five Addenda18 records) *)
Theorem C12_valid_iat_entries : forall hd ip iq x,
  Arith.validate_batch GA (fi_batch GA hd ip iq x) = Arith.ROk ->
  forall e, In e (b_entries x) ->
    class_okb GA (hd_class (hd (b_sig x))) = true /\ hd_class (hd (b_sig x)) <> Arith.t_advclass GA /\
    bytes_eqb (hd_odfi (hd (b_sig x))) (repeat zero 9) = false /\
    Arith.validate_entry GA Arith.KIAT (fi_entry ip iq e) = Arith.ROk /\
    Arith.bytes_leb (e_trace e) (Arith.ascending_init Arith.KIAT) = false /\
    Arith.trace_prefix Arith.KIAT (fi_entry ip iq e) = stringField (hd_odfi (hd (b_sig x))) 8.
Proof. exact (valid_iat_entries GA). Qed.
Print Assumptions C12_valid_iat_entries.

(* ---- Create of a consolidated IAT batch, with the validator ------------------------------------ *)

(* header valid, ODFI numeric, entries with their mandatory addenda and numeric trace numbers (what
   C12_create_iat asks), each entry admissible under the header ([iat_entry_ok]), entries strictly
   ascending by trace number, totals within the batch control: IATBatch.build succeeds AND
   IATBatch.Validate accepts what it left — the Arith skeleton of that state is the abstract batch
   [fi_batch] (control = Arith's recomputation over the caller's entries) and passes
   Arith.validate_batch; every addenda record refers to its entry's trace number; the addenda limits
   hold; isCategory passes.  So Create with the validator returns exactly what phase 6's create_iat
   (build + isCategory) returns *)
Theorem C12_create_iat_validates : forall hd ip iq x,
  hd_ok (hd (b_sig x)) = true -> hd_odfi_num (hd (b_sig x)) = true -> b_entries x <> nil ->
  Forall (fun e => BuildIAT.incl_ok (to_iat_entry ip e) = true /\ ip_tr_num (ip (e_core e)) = true) (b_entries x) ->
  (forall e, In e (b_entries x) -> iat_entry_ok GA hd ip iq (b_sig x) e) ->
  StronglySorted trace_lt (b_entries x) ->
  BuildIAT.idebits GTT (map (to_iat_entry ip) (b_entries x)) <= Arith.t_batch_limit GA ->
  BuildIAT.icredits GTT (map (to_iat_entry ip) (b_entries x)) <= Arith.t_batch_limit GA ->
  category_ok x = true ->
  exists b', create_iat GTT hd ip x = Some b' /\ create_iat_v GA GTT hd ip iq x = Some b'
    /\ iat_skeleton hd iq x b' = fi_batch GA hd ip iq x
    /\ Arith.validate_batch GA (iat_skeleton hd iq x b') = Arith.ROk
    /\ forallb seqs_okb (BuildIAT.ib_entries b') = true
    /\ forallb addenda_limits (BuildIAT.ib_entries b') = true
    /\ is_category_iat x = true.
Proof. exact c12_create_iat_validates. Qed.
Print Assumptions C12_create_iat_validates.

(* ---- C12_succeeds_iat / C12_valid with every IAT batch validated --------------------------------- *)

(* The hypotheses of C12_succeeds_iat plus, per (IAT header, entry), [iat_pair]: for EVERY such file,
   every admissible processing order and map order, the conclusions of C12_succeeds_iat hold and every
   batch handed to AddToFile is either a standard batch created and validated as in C12_valid
   ([created_s]) or an IAT batch that is [created_iv]: built as C05's iat_build says (created_i) AND
   accepted by the validator (the five facts of C12_create_iat_validates) — with entries strictly
   ascending by trace number.  The total limits the validator checks on the consolidated IAT batch are
   derived from the file totals, not assumed. *)
Theorem C12_succeeds_iat_valid : forall hd sp ip ap iq kiat inf inp r,
  mixed_file kiat inp -> inp <> nil -> i_hdr_ok inf = true ->
  kinds_consistent inp -> Forall traces_nodup inp ->
  Forall (fun b => kiat (b_sig b) = false -> Arith.validate_batch GA (f_batch GA (hp_of hd) (fp_of sp) b) = Arith.ROk) inp ->
  Forall (mixed_pair hd ip kiat) (ids inp) -> Forall (iat_pair GA hd ip iq kiat) (ids inp) ->
  i_count inf = sum_pairs (cnt_p ip kiat) inp ->
  i_debit inf = sum_pairs (db_p GT GTT sp ip kiat) inp -> i_credit inf = sum_pairs (cr_p GT GTT sp ip kiat) inp ->
  cat_rule inp ->
  i_debit inf <= Arith.t_file_limit GA -> i_credit inf <= Arith.t_file_limit GA ->
  flatten_full_spec GA GT GTT hd sp ip ap inf inp r ->
  (fst r = FOk \/ (fst r = FErrValidate /\ file_ctl_ok GA (snd r) = false))
  /\ Offsets.fc_count (af_ctl (snd r)) = i_count inf
  /\ Offsets.fc_debit (af_ctl (snd r)) = i_debit inf
  /\ Offsets.fc_credit (af_ctl (snd r)) = i_credit inf
  /\ exists all, r = finish GA GT GTT hd sp ip ap inf all /\ flatten_spec inp (finalize all)
       /\ (length (af_std (snd r)) + length (af_iat (snd r)) = length all)%nat
       /\ Forall (fun x => (created_s GA GT hd sp kiat x \/ created_iv GA GTT hd ip iq kiat x) /\ StronglySorted trace_lt (b_entries x)) (pre all).
Proof. exact c12_succeeds_iat_valid. Qed.
Print Assumptions C12_succeeds_iat_valid.

(* the additional hypothesis follows from batch-level validity: every IAT batch of the input validates in the
   Arith sense (abstract batch [fi_batch]: the entries as stored, control = recomputation) and, per entry, the
   trace number carries the ODFI as an integer, ip_rdfi is Atoi(aba8) of the stored routing number, and the
   entry holds at most two Addenda17 and five Addenda18 records *)
Theorem C12_iat_pairs_of_valid : forall hd ip iq kiat inp,
  Forall (fun b => kiat (b_sig b) = true ->
            Arith.validate_batch GA (fi_batch GA hd ip iq b) = Arith.ROk /\
            Forall (fun e => Offsets.trace_odfi (tnum (e_trace e)) = hd_odfi_z (hd (b_sig b)) /\ rdfi_tied ip iq e /\
                             (ip_n17 (ip (e_core e)) <= 2)%nat /\ (ip_n18 (ip (e_core e)) <= 5)%nat) (b_entries b)) inp ->
  Forall (iat_pair GA hd ip iq kiat) (ids inp).
Proof. exact (iat_pairs_of_valid GA). Qed.
Print Assumptions C12_iat_pairs_of_valid.

(* non-vacuity: the file of C12_succeeds_iat_example satisfies the additional hypothesis; its consolidated
   IAT batch (both entries, trace order) is among the batches handed to AddToFile, Create with the
   validator accepts it, the control the validator sees is the tabulation (18 records, hash, credit) *)
Theorem C12_succeeds_iat_valid_example :
  Forall (iat_pair GA mx_hd mx_ip mx_iq mx_kiat) (ids mx_inp) /\
  In mx_iat_batch (pre (all_batches (run (sort_by count_ltb mx_inp)))) /\
  exists b', create_iat_v GA GTT mx_hd mx_ip mx_iq mx_iat_batch = Some b' /\ create_iat GTT mx_hd mx_ip mx_iat_batch = Some b' /\
    Arith.validate_batch GA (iat_skeleton mx_hd mx_iq mx_iat_batch b') = Arith.ROk /\
    Arith.bt_ctl (iat_skeleton mx_hd mx_iq mx_iat_batch b') = Arith.mkbctl 200 18 24208576 0 3500 (dsb (2::3::1::3::8::0::1::0::nil)) 3.
Proof. exact (conj mx_iat_pairs mx_iat_validated). Qed.
Print Assumptions C12_succeeds_iat_valid_example.

(* the validator adds something to phase 6's create_iat: entries out of trace order, or a third
   Addenda17 record, pass build + isCategory and are refused by Create with the validator *)
Theorem C12_create_iat_validator_refuses :
  create_iat GTT mx_hd mx_ip (mkBatch KIAT (9%N :: nil) 3 (mx_i1 :: mx_i2 :: nil) nil) <> None /\
  create_iat_v GA GTT mx_hd mx_ip mx_iq (mkBatch KIAT (9%N :: nil) 3 (mx_i1 :: mx_i2 :: nil) nil) = None /\
  create_iat GTT mx_hd mx_ip3 mx_iat_batch <> None /\
  create_iat_v GA GTT mx_hd mx_ip3 mx_iq mx_iat_batch = None.
Proof. exact mx_iat_refused. Qed.
Print Assumptions C12_create_iat_validator_refuses.

(* ---- files that mix ADV batches with other kinds -------------------------------------------------- *)

(* For EVERY input (no validity hypothesis), every processing order and map order: the whole function
   returns File.Create's error exactly when [create_refuses]: the file header is invalid, or no batch
   survived AddToFile (ErrFileNoBatches), or an ADV batch survived next to a standard or IAT batch
   (ErrFileADVOnly) — [survivors] = what AddToFile left in f.Batches / f.IATBatches.  In particular a
   surviving non-ADV batch next to a surviving ADV batch always ends in that error. *)
Theorem C12_mixed_adv_error : forall hd sp ip ap inf inp r,
  flatten_full_spec GA GT GTT hd sp ip ap inf inp r ->
  exists all, r = finish GA GT GTT hd sp ip ap inf all /\ flatten_spec inp (finalize all) /\
    let sv := survivors GA GT GTT hd sp ip ap all in
    (fst r = FErrCreate <-> create_refuses (i_hdr_ok inf) (fst sv) (snd sv) = true) /\
    (n_adv (fst sv) <> 0%nat -> (n_std (fst sv) + length (snd sv))%nat <> 0%nat -> fst r = FErrCreate).
Proof. exact c12_mixed_adv_error. Qed.
Print Assumptions C12_mixed_adv_error.

(* the same in terms of the Create predicates of Props/C12Full.v (C12_create_adv: an ADV batch passes Create
   iff it holds at most 9998 entries; C12_valid / C12_create_iat: when a standard / IAT batch passes): for ANY
   list of consolidated batches, if among the batches handed to AddToFile an ADV batch passes its Create and a
   standard batch passes its Create (or an IAT batch its build + isCategory), the whole function returns
   File.Create's error *)
Theorem C12_mixed_adv_created : forall hd sp ip ap inf all x y,
  In x (pre all) -> created_a GTT hd ap x ->
  In y (pre all) -> (created GA GT hd sp y \/ (b_kind y = KIAT /\ create_iat GTT hd ip y <> None)) ->
  fst (finish GA GT GTT hd sp ip ap inf all) = FErrCreate.
Proof. exact c12_mixed_adv_created. Qed.
Print Assumptions C12_mixed_adv_created.

(* non-vacuity: the ADV file of C12_succeeds_adv_example followed by the standard file of
   C12_succeeds_example — each is flattened without error, together one ADV and one standard batch
   survive AddToFile and the whole function returns File.Create's error *)
Theorem C12_mixed_adv_error_example :
  let r := flatten_full_stable GA GT GTT zx_hd fx_sp fx_ip ax_ap zx_inf zx_inp in
  let sv := survivors GA GT GTT zx_hd fx_sp fx_ip ax_ap (all_batches (run (sort_by count_ltb zx_inp))) in
  fst r = FErrCreate /\ n_adv (fst sv) = 1%nat /\ n_std (fst sv) = 1%nat /\ snd sv = nil /\
  fst (flatten_full_stable GA GT GTT zx_hd fx_sp fx_ip ax_ap ax_inf ay_inp) = FOk /\
  fst (flatten_full_stable GA GT GTT zx_hd fx_sp fx_ip ax_ap zx_inf ex_inp) = FOk.
Proof. exact zx_result. Qed.
Print Assumptions C12_mixed_adv_error_example.

(* Input level: a list of standard batches that satisfy the hypotheses of C12_succeeds (valid in the Arith
   sense, header valid, trace numbers carrying the ODFI, totals within the file limit) and of ADV batches that
   satisfy those of C12_succeeds_adv (header valid, at most 9998 ADV entries in all), under the category rule,
   with at least one batch of each kind: every consolidated batch passes its Create, so an ADV batch stands next
   to a standard batch in the new file and File.Create refuses it — FlattenBatches returns that error for every
   processing order and map order ([sa_file]: each batch is a standard batch under a non-ADV header or an ADV
   batch under an ADV header) *)
Theorem C12_mixed_adv_input : forall hd sp ip ap inf inp r,
  sa_file hd inp ->
  (exists b, In b inp /\ b_entries b <> nil) -> (exists b, In b inp /\ b_adv b <> nil) ->
  Forall traces_nodup inp ->
  Forall (fun b => hd_adv (hd (b_sig b)) = false -> Arith.validate_batch GA (f_batch GA (hp_of hd) (fp_of sp) b) = Arith.ROk) inp ->
  Forall (hdr_pair hd) (ids inp) ->
  Forall (fun p => hd_adv (hd (fst p)) = true /\ hd_ok (hd (fst p)) = true) (adv_ids inp) ->
  sum_ids (db_e GT sp) inp <= Arith.t_file_limit GA -> sum_ids (cr_e GT sp) inp <= Arith.t_file_limit GA ->
  BuildIAT.zlen (adv_ids inp) <= 9998 ->
  cat_rule inp ->
  flatten_full_spec GA GT GTT hd sp ip ap inf inp r ->
  fst r = FErrCreate.
Proof. exact c12_mixed_input. Qed.
Print Assumptions C12_mixed_adv_input.

(* non-vacuity: the file of C12_mixed_adv_error_example satisfies every hypothesis *)
Theorem C12_mixed_adv_input_example :
  sa_file zx_hd zx_inp /\
  (exists b, In b zx_inp /\ b_entries b <> nil) /\ (exists b, In b zx_inp /\ b_adv b <> nil) /\
  Forall traces_nodup zx_inp /\
  Forall (fun b => hd_adv (zx_hd (b_sig b)) = false -> Arith.validate_batch GA (f_batch GA (hp_of zx_hd) (fp_of fx_sp) b) = Arith.ROk) zx_inp /\
  Forall (hdr_pair zx_hd) (ids zx_inp) /\
  Forall (fun p => hd_adv (zx_hd (fst p)) = true /\ hd_ok (zx_hd (fst p)) = true) (adv_ids zx_inp) /\
  sum_ids (db_e GT fx_sp) zx_inp <= Arith.t_file_limit GA /\ sum_ids (cr_e GT fx_sp) zx_inp <= Arith.t_file_limit GA /\
  BuildIAT.zlen (adv_ids zx_inp) <= 9998 /\
  cat_rule zx_inp.
Proof. exact zx_hyps. Qed.
Print Assumptions C12_mixed_adv_input_example.

(* Valid files never mix: File.Create (C05's model, with createFileADV's IAT guard re-evaluated on the
   regenerated table) never returns a file that holds an ADV batch next to a standard or IAT batch ... *)
Theorem C12_create_never_mixed : forall f f',
  file_create_all GTT f = (true, f') ->
  file_is_adv f' = false \/ (forallb sb_is_adv (af_std f') = true /\ af_iat f' = nil).
Proof. exact c12_create_never_mixed. Qed.
Print Assumptions C12_create_never_mixed.

(* ... and the validity hypotheses of C12_succeeds_iat exclude ADV batches from the input *)
Theorem C12_valid_never_mixed : forall hd ip kiat inp,
  mixed_file kiat inp -> Forall (mixed_pair hd ip kiat) (ids inp) ->
  Forall (fun b => b_adv b = nil /\ (b_kind b = KStd -> hd_adv (hd (b_sig b)) = false)) inp.
Proof. exact valid_never_mixed. Qed.
Print Assumptions C12_valid_never_mixed.

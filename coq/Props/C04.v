(* C04 — tampered or truncated files are never accepted as something else.
   Only statements here; every proof is `exact <lemma>`.  T = tables regenerated
   from the source of this run; verify / validate_batch / validate_file /
   read_validate as in Model/Arith.v (shared with C03). *)
From Coq Require Import List Bool ZArith.
Open Scope list_scope.
From ACH Require Import TamperFacts Tables C03Obl C04Obl.
From ACH Require FileStruct FileStructFacts TruncFacts.
Open Scope Z_scope.

(* C04_tamper_struct, one theorem per field class.  Every numeric batch control
   field (class, count, hash, debit, credit, batch number): any other value is rejected *)
Theorem C04_tamper_batch_control : forall b p v, verify T b = ROk -> v <> get_c p (bt_ctl b) ->
  verify T (set_ctl b (set_c p v (bt_ctl b))) <> ROk.
Proof. exact c04_bctl. Qed.
Print Assumptions C04_tamper_batch_control.

Theorem C04_tamper_batch_control_odfi : forall b o, verify T b = ROk -> o <> bc_odfi (bt_ctl b) ->
  verify T (set_ctl b (set_c_odfi o (bt_ctl b))) <> ROk.
Proof. exact c04_bctl_odfi. Qed.
Print Assumptions C04_tamper_batch_control_odfi.

Theorem C04_tamper_batch_header : forall b o n, verify T b = ROk ->
  (o <> bt_odfi b -> verify T (set_hdr_odfi b o) <> ROk) /\
  (n <> bt_number b -> verify T (set_hdr_number b n) <> ROk).
Proof. exact c04_hdr. Qed.
Print Assumptions C04_tamper_batch_header.

(* entry amount, standard batches: the change lands in exactly one direction total
   because every accepted code is in exactly one of the regenerated lists *)
Theorem C04_tamper_entry_amount : forall b pre e post a, bt_kind b = KStd -> bt_entries b = pre ++ e :: post ->
  validate_batch T b = ROk -> a <> en_amount e ->
  validate_batch T (set_entries b (pre ++ set_amount e a :: post)) <> ROk.
Proof. exact c04_amount_std. Qed.
Print Assumptions C04_tamper_entry_amount.

(* IAT / ADV batches: under codes_regular (no foreign accounting codes, see C03) *)
Theorem C04_tamper_entry_amount_partial : forall b pre e post a, bt_entries b = pre ++ e :: post ->
  validate_batch T b = ROk -> codes_regular T (bt_kind b) (bt_entries b) -> a <> en_amount e ->
  validate_batch T (set_entries b (pre ++ set_amount e a :: post)) <> ROk.
Proof. exact c04_amount. Qed.
Print Assumptions C04_tamper_entry_amount_partial.

(* routing number: any other 8-digit value moves the hash by 0 < |delta| < 10^8 < 10^10
   (routing numbers of the batch stored as 8 digits, as the reader produces them) *)
Theorem C04_tamper_entry_rdfi_partial : forall b pre e post r, bt_entries b = pre ++ e :: post ->
  validate_batch T b = ROk -> Forall rdfi_wf (bt_entries b) -> digits8 r -> r <> en_rdfi e ->
  validate_batch T (set_entries b (pre ++ set_rdfi e r :: post)) <> ROk.
Proof. exact c04_rdfi. Qed.
Print Assumptions C04_tamper_entry_rdfi_partial.

(* ... and a single digit change also changes the check digit (weights 3,7,1 are units mod 10) *)
Theorem C04_rdfi_digit_changes_check_digit : forall pre d d' post,
  is_digit d = true -> is_digit d' = true -> d <> d' ->
  spec_check_digit (digit_vals (pre ++ d :: post)) <> spec_check_digit (digit_vals (pre ++ d' :: post)).
Proof. exact check_digit_single_digit. Qed.
Print Assumptions C04_rdfi_digit_changes_check_digit.

Theorem C04_tamper_entry_check_digit : forall b pre e post d d', bt_entries b = pre ++ e :: post ->
  validate_batch T b = ROk -> en_check e = [d] -> is_digit d = true -> is_digit d' = true -> d' <> d ->
  validate_batch T (set_entries b (pre ++ set_check e [d'] :: post)) <> ROk.
Proof. exact c04_check_digit. Qed.
Print Assumptions C04_tamper_entry_check_digit.

(* file control: batch count, entry/addenda count, hash, totals *)
Theorem C04_tamper_file_control : forall f p v, validate_file T f = ROk -> v <> get_f p (fl_ctl f) ->
  validate_file T (set_fctl f (set_f p v (fl_ctl f))) <> ROk.
Proof. exact c04_fctl. Qed.
Print Assumptions C04_tamper_file_control.

(* a file containing a batch that fails verify is rejected by read + validate (any
   batch kind) and by File.Validate alone when the batch is a standard one *)
Theorem C04_tamper_lift : forall f b, In b (all_batches f) -> verify T b <> ROk -> read_validate T f <> ROk.
Proof. exact c04_lift. Qed.
Print Assumptions C04_tamper_lift.
Theorem C04_tamper_lift_std : forall f b, In b (fl_batches f) -> is_adv_file f = false ->
  verify T b <> ROk -> validate_file T f <> ROk.
Proof. exact c04_lift_std. Qed.

(* C04_tamper_text: in a zero padded numeric column of up to 18 digits, different
   digit strings parse to different values, and one replaced digit moves the value
   by (d' - d) * 10^(distance from the right end) *)
Theorem C04_tamper_text : forall s s', length s = length s' -> (0 < length s <= 18)%nat ->
  forallb is_digit s = true -> forallb is_digit s' = true -> s <> s' -> atoi s <> atoi s'.
Proof. exact atoi_inj_fixed_width. Qed.
Print Assumptions C04_tamper_text.

Theorem C04_tamper_text_delta : forall pre d d' post,
  digits_val (pre ++ d' :: post) 0 - digits_val (pre ++ d :: post) 0
  = (Z.of_N (d' - 48) - Z.of_N (d - 48)) * 10 ^ Z.of_nat (length post).
Proof. exact digit_replacement_delta. Qed.

(* C04_truncation, PARTIAL: proved at the level of whole record lines for the
   structural reader of Codec/FileStruct.v — a transfer that lost the file control
   record (any proper prefix of the record lines) is no file; a cut inside the
   trailing 9-filler reads as exactly the original.  Cuts inside a line (short
   final line padded with blanks) are covered by the exhaustive oracle only. *)
Theorem C04_truncation_lines_partial : forall f n,
  FileStruct.file_typed f = true -> (n < length (FileStruct.record_lines f))%nat ->
  FileStruct.read_struct (firstn n (FileStruct.record_lines f)) = None.
Proof. exact TruncFacts.truncated_lines_rejected. Qed.
Print Assumptions C04_truncation_lines_partial.

Theorem C04_truncation_filler_partial : forall f n,
  FileStruct.file_typed f = true -> FileStruct.starts99 (FileStruct.f_ctl f) = false ->
  (length (FileStruct.record_lines f) <= n)%nat ->
  FileStruct.read_struct (firstn n (FileStruct.physical_lines f)) = Some f.
Proof. exact TruncFacts.truncated_filler_same. Qed.
Print Assumptions C04_truncation_filler_partial.

(* non-vacuity *)
Theorem C04_example_amount :
  bt_entries ex_batch = [] ++ ex_e1 :: [ex_e2] /\ validate_batch T ex_batch = ROk /\
  validate_batch T (set_entries ex_batch ([] ++ set_amount ex_e1 100001 :: [ex_e2])) = RCredit.
Proof. exact c04_example_amount. Qed.
Theorem C04_example_controls :
  verify T (set_ctl ex_batch (set_c CHash 35242299 (bt_ctl ex_batch))) = RHash /\
  verify T (set_hdr_number ex_batch 2) = RNumber /\
  validate_file T (set_fctl ex_file (set_f FBatches 3 (fl_ctl ex_file))) = RFBatchCount /\
  validate_file T (set_fctl ex_file (set_f FHash 58380309 (fl_ctl ex_file))) = RFHash.
Proof. exact c04_example_controls. Qed.

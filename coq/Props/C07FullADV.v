(* C07 (phase 7) — ADV files in the JSON round trip under EXPLICIT readiness conditions.

   C07_roundtrip (Props/C07Full.v) covers ADV files under the hypothesis [tabulated], which for an ADV batch says
   "Batch.build gives back the stored ADV control and changes nothing else" — a condition that mentions the function
   the theorem is about.  Here it is replaced by conditions on the records themselves ([adv_tabulated],
   Model/JsonFullADV.v): per batch — header accepted by BatchHeader.Validate, ADV entries present, SEC code ADV,
   SequenceNumber of the i-th advice = i (fewer than 9999), no Offset, the stored ADVBatchControl IS the one the ADV
   branch of build assembles (NewADVBatchControl(), ServiceClassCode / CompanyName -> ACHOperatorData /
   ODFIIdentification / BatchNumber of the header, count of advices and Addenda99, entry hash mod 10^10, the two ADV
   sums); per file — no IAT batches, batch numbers > 1 or the position createFileADV assigns, the ADVFileControl holds
   createFileADV's count / block count / hash mod 10^10 / totals.  Returned advices (Addenda99 on every entry) and
   ADV files valid only under their stored options are inside.  FileHeader.Validate, BatchHeader.Validate and
   File.Validate are arbitrary predicates. *)
From Coq Require Import String List Bool ZArith NArith.
Import ListNotations.
From ACH Require Import Bytes JsonCodec JsonFile JsonFileCurrent JsonFull JsonFullADV JsonFullADVFacts JsonTags JsonADV C07FullObl C07FullADVObl.
Local Open Scope string_scope.

(* the statements of the source the ADV model transcribes (ADV branch of Batch.build, calculateADVBatchAmounts,
   createFileADV, the ADV branches of FileFromJSONWith, setADVEntryRecordType, File.IsADV, the ADV steps of
   setBatchesFromJSON, File.UnmarshalJSON), regenerated on every run, are the ones the model implements *)
Theorem C07_adv_source_statements : adv_src_ok json_adv_src = true.
Proof. exact adv_src_checked. Qed.
Print Assumptions C07_adv_source_statements.

(* ANY environment: the explicit conditions imply the opaque "tabulated" condition of C07_post_ready_adv *)
Theorem C07_adv_explicit_built : forall E o b c,
  adv_batch_explicit E o b c = true -> adv_batch_built E o b c = true.
Proof. exact adv_built_of_explicit. Qed.
Print Assumptions C07_adv_explicit_built.

(* ANY environment: Batch.build is idempotent on ADV batches — whatever build produced is tabulated *)
Theorem C07_adv_build_idempotent : forall E o b b',
  sec_is (header_of b) "ADV" = true -> build_batch E o b = Good b' -> build_batch E o b' = Good b'.
Proof. exact adv_build_idem. Qed.
Print Assumptions C07_adv_build_idempotent.

(* the round trip of ADV files, current source, any validators *)
Theorem C07_roundtrip_adv : forall fhv bhv fv v,
  typed T_File v = true ->
  in_domain v = true -> valid fhv bhv fv v = true -> adv_tabulated fhv bhv fv v = true -> a98_clean v = true ->
  is_adv_value v = true /\
  exists f, from_json fhv bhv fv [] (to_json v) = (if fv f then POk f else PInvalid f)
            /\ lines_full f = lines_full (tree_full v)
            /\ write_full f = write_full (tree_full v)
            /\ file_opts f = file_opts (tree_of_file v)
            /\ header_opts f = [file_opts (tree_of_file v)]
            /\ offsets_of f = offsets_of (tree_of_file v).
Proof. exact roundtrip_adv. Qed.
Print Assumptions C07_roundtrip_adv.

(* File.UnmarshalJSON: a receiver without options passes the document's own options, which changes nothing (ANY document) *)
Theorem C07_unmarshal_own_opts : forall fhv bhv fv j, unmarshal_file fhv bhv fv [] j = from_json fhv bhv fv [] j.
Proof. exact unmarshal_own_opts. Qed.
Print Assumptions C07_unmarshal_own_opts.

Theorem C07_unmarshal_adv : forall fhv bhv fv v,
  typed T_File v = true ->
  in_domain v = true -> valid fhv bhv fv v = true -> adv_tabulated fhv bhv fv v = true -> a98_clean v = true ->
  exists f, unmarshal_file fhv bhv fv [] (to_json v) = (if fv f then POk f else PInvalid f)
            /\ write_full f = write_full (tree_full v)
            /\ file_opts f = file_opts (tree_of_file v).
Proof. exact unmarshal_roundtrip_adv. Qed.
Print Assumptions C07_unmarshal_adv.

(* non-vacuity: generated files — forward advices (two batches), returned advices (Addenda99 on both entries, 8 lines),
   an ADV file under stored BypassDestinationValidation — satisfy every hypothesis and the conclusion computes *)
Theorem C07_roundtrip_adv_witnesses :
  adv_hyps true adv_witness = true /\ text_back adv_witness = Some true /\
  adv_hyps true advret_witness = true /\ has_addenda99 advret_witness = true /\
  length (lines_full (tree_full advret_witness)) = 8%nat /\ text_back advret_witness = Some true /\
  adv_hyps true advopts_witness = true /\ flag (file_opts (tree_of_file advopts_witness)) "BypassDestinationValidation" = true /\
  text_back advopts_witness = Some true.
Proof. exact adv_explicit_witnesses. Qed.
Print Assumptions C07_roundtrip_adv_witnesses.

(* each condition of adv_tabulated is needed: with every other hypothesis in place the text does not come back
   (adv_tab_parts = [batches present; no IAT batches; all ADV; every batch explicit; numbering; ADV file control]) *)
Theorem C07_adv_sequence_refuted :
  adv_other_hyps w_seq = true /\ adv_tab_parts w_seq = [true; true; true; false; true; true] /\ text_back w_seq = Some false.
Proof. exact adv_seq_refuted. Qed.
Print Assumptions C07_adv_sequence_refuted.

Theorem C07_adv_control_refuted :
  adv_other_hyps w_ctl = true /\ adv_tab_parts w_ctl = [true; true; true; false; true; true] /\ text_back w_ctl = Some false.
Proof. exact adv_control_refuted. Qed.
Print Assumptions C07_adv_control_refuted.

Theorem C07_adv_numbering_refuted :
  adv_other_hyps w_num = true /\ adv_tab_parts w_num = [true; true; true; true; false; true] /\ text_back w_num = Some false.
Proof. exact adv_numbering_refuted. Qed.
Print Assumptions C07_adv_numbering_refuted.

Theorem C07_adv_file_control_refuted :
  adv_other_hyps w_fc = true /\ adv_tab_parts w_fc = [true; true; true; true; true; false] /\ text_back w_fc = Some false.
Proof. exact adv_file_control_refuted. Qed.
Print Assumptions C07_adv_file_control_refuted.

(* an Offset on an ADV batch: build fails (upsertOffsets refuses ADV batches), no file comes back *)
Theorem C07_adv_offset_refuted :
  adv_other_hyps w_off = true /\ adv_tab_parts w_off = [true; true; true; false; true; true] /\ text_back w_off = None.
Proof. exact adv_offset_refuted. Qed.
Print Assumptions C07_adv_offset_refuted.

(* a batch header BatchHeader.Validate rejects: build fails *)
Theorem C07_adv_header_refuted :
  from_json (fun _ _ => true) (fun _ _ => false) (fun _ => true) [] (to_json adv_witness) = PErr "build:header".
Proof. exact adv_header_refuted. Qed.
Print Assumptions C07_adv_header_refuted.

(* the category condition of [valid] (a forward advice is a Forward entry) is sufficient, not necessary, for the TEXT:
   setADVEntryRecordType overwrites the category, which no layout reads *)
Theorem C07_adv_category_text_only :
  typed T_File w_cat = true /\ valid (fun _ _ => true) (fun _ _ => true) (fun _ => true) w_cat = false /\
  adv_tab_parts w_cat = [true; true; true; true; true; true] /\ text_back w_cat = Some true /\
  match roundtrip_run true false [] w_cat with
  | Some f => map (fun b => map (fun e => sget e "Category") (kid b "ADVEntries")) (kid f "Batches")
              <> map (fun b => map (fun e => sget e "Category") (kid b "ADVEntries")) (kid (tree_of_file w_cat) "Batches")
  | None => False
  end.
Proof. exact adv_category_text_only. Qed.
Print Assumptions C07_adv_category_text_only.

(* C19 — Concurrent work on distinct files never interferes.
   Only statements here; every proof is `exact <lemma>`.

   Model (Proto/Pool.v): goroutines with private state share a heap of scratch buffers,
   the pool (sync.Pool contract: Get returns a previously Put item or a new one, the
   scheduler chooses) and the package-level tables.  A schedule is ANY list of
   (thread, pool choice); [disciplined] is the decidable static discipline. *)
From Coq Require Import String List Bool Arith NArith.
Import ListNotations.
From ACH Require Import Pool PoolFacts PoolDisc PoolTable OptsWrites C19Obl.

(* after every schedule, every thread is exactly where its solo run (private buffers,
   private copy of the tables) is after the same number of its own steps *)
Theorem C19_pool_simulation : forall (Loc Glob : Type) (P : tid -> prog Loc Glob) l0 G warm,
  (forall t, disciplined (P t) = true) ->
  forall sc t,
    let g := run sc (ginit P l0 G warm) in
    let s := solo_run (count t sc) (sinit (P t) (l0 t) G) in
    pc (th g t) = spc s /\ loc (th g t) = sloc s.
Proof. exact pool_simulation. Qed.
Print Assumptions C19_pool_simulation.

(* two schedules (and two initial pool fillings) giving thread t the same number of
   steps cannot be told apart by t: any interleaving vs. t running alone *)
Theorem C19_pool_noninterference : forall (Loc Glob : Type) (P : tid -> prog Loc Glob) l0 G warm warm',
  (forall t, disciplined (P t) = true) ->
  forall sc sc' t, count t sc = count t sc' ->
    pc (th (run sc (ginit P l0 G warm)) t) = pc (th (run sc' (ginit P l0 G warm')) t) /\
    loc (th (run sc (ginit P l0 G warm)) t) = loc (th (run sc' (ginit P l0 G warm')) t).
Proof. exact pool_noninterference. Qed.
Print Assumptions C19_pool_noninterference.

(* a goroutine that has finished holds its sequential result, whatever the others did *)
Theorem C19_pool_final_result : forall (Loc Glob : Type) (P : tid -> prog Loc Glob) l0 G warm,
  (forall t, disciplined (P t) = true) ->
  forall sc t, pc (th (run sc (ginit P l0 G warm)) t) = PDone ->
    loc (th (run sc (ginit P l0 G warm)) t) = sloc (solo_final (P t) (l0 t) G).
Proof. exact pool_final_result. Qed.
Print Assumptions C19_pool_final_result.

(* invariant: pooled buffers are pairwise distinct and empty; the tables are untouched *)
Theorem C19_pool_invariant : forall (Loc Glob : Type) (P : tid -> prog Loc Glob) l0 G warm,
  (forall t, disciplined (P t) = true) ->
  forall sc, let g := run sc (ginit P l0 G warm) in
    NoDup (pool g) /\ (forall b, In b (pool g) -> heap g b = [] /\ b < next g) /\ glob g = G.
Proof. exact pool_invariant. Qed.
Print Assumptions C19_pool_invariant.

(* no leak: when every goroutine has finished, every buffer ever created is pooled again *)
Theorem C19_pool_no_leak : forall (Loc Glob : Type) (P : tid -> prog Loc Glob) l0 G warm,
  (forall t, disciplined (P t) = true) ->
  forall sc, let g := run sc (ginit P l0 G warm) in
    (forall t, pc (th g t) = PDone) -> forall b, b < next g -> In b (pool g).
Proof. exact pool_no_leak. Qed.
Print Assumptions C19_pool_no_leak.

(* no data race on buffers: nobody is ever about to dereference a pooled buffer, and
   no two goroutines are ever about to dereference the same buffer *)
Theorem C19_pool_race_free : forall (Loc Glob : Type) (P : tid -> prog Loc Glob) l0 G warm,
  (forall t, disciplined (P t) = true) ->
  forall sc, let g := run sc (ginit P l0 G warm) in
    (forall t b, acc (th g t) = Some b -> ~ In b (pool g)) /\
    (forall t t' b, t <> t' -> acc (th g t) = Some b -> acc (th g t') <> Some b).
Proof. exact pool_race_free. Qed.
Print Assumptions C19_pool_race_free.

(* every closed program built from borrow-shaped calls
   (`buf := getBuffer(); defer saveBuffer(buf); body`, arbitrarily nested, with
   branches, table reads and private computation) satisfies the discipline *)
Theorem C19_borrow_shape_disciplined : forall (Loc Glob : Type) (s : stm Loc Glob),
  wf 0 s = true -> disciplined (compile 0 s PDone) = true.
Proof. exact borrow_shape_disciplined. Qed.
Print Assumptions C19_borrow_shape_disciplined.

(* the table regenerated from the source of this run: all getBuffer users have the borrow
   shape and only copy out of the buffer; byteBufferPool is touched by getBuffer/saveBuffer
   alone; saveBuffer is Reset then Put; getBuffer returns a pooled or a new buffer; no
   package-level variable of ach/server is assigned outside its declaration and init() *)
Theorem C19_table_checked :
  pool_table_ok pool_users pool_prims pool_save_ops pool_get_returns pool_new_returns pool_globals = true.
Proof. exact pool_table_checked. Qed.

(* hence: goroutines performing any sequences of calls to the library's getBuffer users
   (whatever bytes they write and however they use what they read), under every
   schedule, finish with their sequential results; the tables and the pool stay clean *)
Theorem C19_lib : forall (Loc Glob : Type) fw fr (calls : tid -> list user) l0 G warm,
  (forall t u, In u (calls t) -> In u pool_users) ->
  forall sc,
    let g := run sc (ginit (fun t => thread_prog Loc Glob fw fr (calls t)) l0 G warm) in
    (forall t, pc (th g t) = PDone ->
               loc (th g t) = sloc (solo_final (thread_prog Loc Glob fw fr (calls t)) (l0 t) G)) /\
    glob g = G /\
    (forall b, In b (pool g) -> heap g b = []).
Proof. exact lib_noninterference. Qed.
Print Assumptions C19_lib.

(* the statement without the discipline hypothesis is false: each clause is needed *)
Theorem C19_undisciplined_refuted :
  exists (P : tid -> prog L G) sc t,
    loc (th (run sc (ginit P (fun _ => []) [] 0)) t)
    <> sloc (solo_run (count t sc) (sinit (P t) [] [])).
Proof. exact noninterference_needs_discipline. Qed.
Print Assumptions C19_undisciplined_refuted.

Theorem C19_use_after_put_refuted :
  disciplined uap = false /\ disciplined victim = true /\
  loc (th (run sched_uap (ginit (two uap victim) (fun _ => []) [] 0)) 1) = [66; 88]%N /\
  sloc (solo_run (count 1 sched_uap) (sinit victim [] [])) = [66]%N.
Proof. exact use_after_put_interferes. Qed.

Theorem C19_put_without_reset_refuted :
  disciplined noreset = false /\ disciplined reader = true /\
  loc (th (run sched_noreset (ginit (two noreset reader) (fun _ => []) [] 0)) 1) = [83]%N /\
  sloc (solo_run (count 1 sched_noreset) (sinit reader [] [])) = []%N.
Proof. exact put_without_reset_interferes. Qed.

Theorem C19_global_write_refuted :
  disciplined lazy_init = false /\ disciplined lookup = true /\
  loc (th (run sched_lazy (ginit (two lazy_init lookup) (fun _ => []) [] 0)) 1) = [1]%N /\
  sloc (solo_run (count 1 sched_lazy) (sinit lookup [] [])) = []%N.
Proof. exact global_write_interferes. Qed.

(* the options a caller shares between files are read-only for the library (regenerated source table: no assignment
   to a field of a ValidateOpts that is not a fresh local of the assigning function; the struct was found) *)
Theorem C19_options_read_only : opts_param_writes = [] /\ Nat.ltb 0 validate_opts_fields = true.
Proof. exact opts_read_only. Qed.
Print Assumptions C19_options_read_only.

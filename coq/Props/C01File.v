(* C01 — file level: write then read returns the same file.  The three layers
   (framing, record dispatch, the 26 record codecs) composed into statements
   about whole files, over the record layouts and the reader-dispatch tables
   regenerated from the Go source of this run.  Only statements; every proof is
   `exact <lemma>`.

   f            a file tree: records are (layout name, field values); batches
                are standard / ADV ([fl_batches]) or IAT ([fl_iat])
   write_file   the record lines Writer.Write emits (every record rendered by
                its layout, writer order); write_file_padded adds the all-9
                filler records to a multiple of ten
   read_file    Reader.Read on the framed lines: layout chosen from the first
                byte, the batch context, the addenda type code and the
                refused / dishonored / contested code lists
   read_text    the same on the decoded text (Framing.read_lines first)
   parsed_file  every record replaced by what Parse assigns from its own line
   canon_file   the same laid over the original values
   Hypotheses (all boolean, all evaluated on f):
   rec_fitsb    the record has a regenerated layout and fits it ([fitsb])
   rec_stableb  the record is stable under re-parsing ([stableb])
   dispatchb    the reader's dispatch, run on the written lines, picks the
                record types of the tree (first byte, IAT header detection,
                SEC known to NewBatch, ADV-ness read back, company name not
                IATCOR, type codes and code lists, AddendaRecordIndicator = 1
                when addenda follow, addenda in slot order, IAT batches not
                empty, file control not starting "99", ADV not mixed)
   rec_no_nl    no CR / LF byte inside a rendered record *)
From Coq Require Import String List Bool NArith.
From ACH Require Import Bytes Utf8 LayoutTypes Layout LayoutOk LayoutRoundtrip FileStruct Framing FramingFacts Dispatch
  DispatchFixed DispatchBytes Layouts ReaderDispatch C01FileEx C01FileObl.
Open Scope list_scope.

(* the tables the model dispatches on are the ones in reader.go / batch.go / addenda9x.go / writer.go today *)
Theorem C01_dispatch_tables_checked :
  (gen_line_handlers = line_handlers /\ gen_pad_test = pad_test)
  /\ (gen_iat_detect = iat_detect /\ gen_bh_branches = bh_branches)
  /\ gen_std_arms = std_arms /\ gen_iat_arms = iat_arms
  /\ (gen_tag_cols = [tag_cols] /\ gen_code_cols = [code_cols])
  /\ gen_code_lists = code_lists /\ gen_newbatch_secs = newbatch_secs.
Proof.
  exact (conj dispatch_line_handlers_ok (conj dispatch_iat_detect_ok (conj dispatch_std_arms_ok (conj dispatch_iat_arms_ok
          (conj dispatch_cols_ok (conj dispatch_code_lists_ok dispatch_newbatch_secs_ok)))))).
Qed.
Print Assumptions C01_dispatch_tables_checked.

Theorem C01_writer_slots_checked :
  entry_loops WriterOrder.writer_writeBatch = [std_slots; adv_slots]
  /\ entry_loops WriterOrder.writer_writeIATBatch = [iat_slots].
Proof. exact writer_slots_ok. Qed.

(* the record-type digit of a written line is fixed by the record's layout, and the type-code
   columns of an addenda line are its TypeCode field: these parts of [dispatchb] hold by construction *)
Theorem C01_line_digit : forall x c, kind_digit (r_kind x) = Some c -> rtype (render_rec all_layouts x) = c.
Proof. exact line_digit. Qed.

Theorem C01_line_type_code : forall x L, layout_of all_layouts (r_kind x) = Some L -> type_code_shape L = true ->
  length (gets (r_val x) "TypeCode") = 2%nat ->
  bsub (render_rec all_layouts x) (fst tag_cols) (snd tag_cols) = gets (r_val x) "TypeCode".
Proof. exact line_type_code. Qed.

(* write then read, any number of filler records (none, fewer, more than the writer's) *)
Theorem C01_file_roundtrip : forall f k,
  all_file (rec_fitsb all_layouts) f = true -> dispatchb all_layouts f = true ->
  read_file all_layouts (write_file all_layouts f ++ repeat nines k) = Some (parsed_file all_layouts f).
Proof. exact file_roundtrip. Qed.
Print Assumptions C01_file_roundtrip.

(* ... in particular the writer's own blocked output *)
Theorem C01_file_roundtrip_padded : forall f,
  all_file (rec_fitsb all_layouts) f = true -> dispatchb all_layouts f = true ->
  read_file all_layouts (write_file_padded all_layouts f) = Some (parsed_file all_layouts f).
Proof. exact file_roundtrip_padded. Qed.
Print Assumptions C01_file_roundtrip_padded.

(* writing what was read gives the same lines: for the file as the reader builds it ... *)
Theorem C01_file_fixed_point_parsed : forall f,
  all_file (rec_fitsb all_layouts) f = true -> all_file (rec_stableb all_layouts) f = true ->
  dispatchb all_layouts f = true ->
  write_file all_layouts (parsed_file all_layouts f) = write_file all_layouts f.
Proof. exact file_fixed_point_parsed. Qed.
Print Assumptions C01_file_fixed_point_parsed.

(* ... and for the canonical file (Parse's assignments over the original values) *)
Theorem C01_file_fixed_point : forall f,
  all_file (rec_fitsb all_layouts) f = true -> all_file (rec_stableb all_layouts) f = true ->
  dispatchb all_layouts f = true ->
  write_file all_layouts (canon_file all_layouts f) = write_file all_layouts f.
Proof. exact file_fixed_point. Qed.
Print Assumptions C01_file_fixed_point.

Theorem C01_file_write_read_write : forall f g,
  all_file (rec_fitsb all_layouts) f = true -> all_file (rec_stableb all_layouts) f = true ->
  dispatchb all_layouts f = true ->
  read_file all_layouts (write_file_padded all_layouts f) = Some g ->
  write_file all_layouts g = write_file all_layouts f.
Proof. exact file_write_read_write. Qed.
Print Assumptions C01_file_write_read_write.

(* the canonical file and the file read agree on every field Parse assigns *)
Theorem C01_canon_vs_parsed : forall x g,
  lookup (r_val (canon_rec all_layouts x)) g =
  match layout_of all_layouts (r_kind x) with
  | Some _ => match lookup (r_val (parsed_rec all_layouts x)) g with
              | Some v => Some v
              | None => lookup (r_val x) g
              end
  | None => lookup (r_val x) g
  end.
Proof. exact canon_vs_parsed. Qed.

(* bytes: every physical layout of the written records — any separator junk after each record
   (nothing, LF, CR LF, CR, blank lines, in any mixture), also in front of the first — reads the same *)
Theorem C01_file_text_roundtrip : forall f k j0 recs,
  all_file (rec_fitsb all_layouts) f = true -> dispatchb all_layouts f = true ->
  all_file (rec_no_nl all_layouts) f = true ->
  map fst recs = write_file all_layouts f ++ repeat nines k ->
  Forall junk_ok j0 -> Forall (fun p => Forall junk_ok (snd p)) recs ->
  read_text all_layouts (junk_bytes j0 ++ text_of recs) = Some (parsed_file all_layouts f).
Proof. exact file_text_roundtrip. Qed.
Print Assumptions C01_file_text_roundtrip.

(* values: a record of the file read back holds the original value of every field read from its own
   columns, when the value is canonical for its column ([canonb]) *)
Theorem C01_file_record_values : forall x L s g c,
  layout_of all_layouts (r_kind x) = Some L -> fitsb L (r_val x) = true -> canonb L (r_val x) = true ->
  In s (l_segs L) -> simple_field s = Some g -> find_key (l_cuts L) g = Some c -> c_const c = None ->
  lookup (r_val (parsed_rec all_layouts x)) g = canon_value s (r_val x).
Proof. exact parsed_rec_value. Qed.
Print Assumptions C01_file_record_values.

(* non-vacuity: generated files — two standard batches with addenda 05 / 98; returns 99 and a refused
   NOC; an IAT file; an ADV file — meet every hypothesis *)
Theorem C01_file_examples : hyps ex_std = true /\ hyps ex_ret = true /\ hyps ex_iat = true /\ hyps ex_adv = true.
Proof. exact (conj ex_std_hyps (conj ex_ret_hyps (conj ex_iat_hyps ex_adv_hyps))). Qed.

Theorem C01_file_example_text :
  read_text all_layouts (junk_bytes [JNl LF; JNl LF] ++ text_of (crlf_layout (write_file_padded all_layouts ex_std)))
  = Some (parsed_file all_layouts ex_std).
Proof. exact ex_std_text. Qed.

(* the dispatch conditions are needed (each witness satisfies the record-level hypotheses) *)
Theorem C01_file_slot_order_refuted :
  let f := add_to_first a02 ex_std in
  all_file (rec_fitsb LT) f = true /\ all_file (rec_stableb LT) f = true /\ dispatchb LT f = false
  /\ (exists g, read_file LT (write_file LT f) = Some g /\ g <> parsed_file LT f
               /\ map r_kind (en_addenda (hd (mkEnt a02 []) (bt_entries (hd (mkBat a02 [] a02) (fl_batches g)))))
                  = ["Addenda02"%string; "Addenda05"%string]).
Proof. exact slot_order_needed. Qed.

Theorem C01_file_indicator_refuted :
  let f := clear_indicator ex_std in
  all_file (rec_fitsb LT) f = true /\ dispatchb LT f = false /\ read_file LT (write_file LT f) = None.
Proof. exact indicator_needed. Qed.

Theorem C01_file_iat_detection_refuted :
  let f := retag_sec "IAT" ex_std in
  all_file (rec_fitsb LT) f = true /\ dispatchb LT f = false /\ read_file LT (write_file LT f) <> Some (parsed_file LT f).
Proof. exact iat_detection_needed. Qed.

(* known finding (company named IATCOR): the statement without [dispatchb] is refuted by a file whose
   records meet every record-level hypothesis; C01_file_roundtrip is the theorem under the hypothesis
   that excludes it *)
Theorem C01_file_company_iatcor_refuted :
  let f := rename_company "IATCOR" ex_std in
  all_file (rec_fitsb LT) f = true /\ all_file (rec_stableb LT) f = true /\ dispatchb LT f = false
  /\ iat_line (render_rec LT (bt_hdr (hd (mkBat a02 [] a02) (fl_batches f)))) = true
  /\ read_file LT (write_file LT f) <> Some (parsed_file LT f)
  /\ hyps (rename_company "IATCORP" ex_std) = true.
Proof. exact company_iatcor_refuted. Qed.

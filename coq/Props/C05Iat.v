(* C05, phase 3 — IAT batches, ADV batches and whole files inside the theorems.
   Only statements here; every proof is `exact <lemma>`.

   [tabulate_table] is regenerated from iatBatch.go / batch.go / file.go on every run
   (coq/Gen/TabulateTable.v, translator/tabulate.go): the code lists of
   IATBatch.calculateBatchAmounts and Batch.calculateADVBatchAmounts, and the integer constants of
   IATBatch.build, the ADV branch of Batch.build, File.Create and createFileADV that the model
   transcribes.  [offset_table] is C05's table of batch.go (standard batches).
   Models: coq/Model/BuildIAT.v ([iat_build] = IATBatch.build), BuildADV.v ([adv_build] = Batch.build
   on a batch whose header says ADV), FileCreateAll.v ([file_create_all] = File.Create with
   createFileADV; [astep] / [arun] = histories of build / add / remove / amend / File.Create).
   All of them return (err == nil, state left behind). *)
From Coq Require Import List ZArith Bool.
From ACH Require Import Offsets OffsetsFacts OffsetTable C05Obl.
From ACH Require Import BuildIAT BuildIATFacts BuildADV BuildADVFacts FileCreateAll FileCreateAllFacts TabulateTable C05IatObl.
Import ListNotations.
Open Scope Z_scope.

(* The regenerated table: constants = the literals of the model, code lists = the NACHA credit /
   debit codes (IAT) and the ADV accounting codes, both file controls cut the hash to ten digits,
   createFileADV refuses IAT batches. *)
Theorem C05_tabulate_table_ok : ttable_ok tabulate_table = true.
Proof. exact tabulate_table_ok. Qed.
Print Assumptions C05_tabulate_table_ok.

(* ---------------------------------------------------------------- IATBatch.build *)

(* A successful IATBatch.build leaves a batch control that is the recomputation from the entries
   of the result: every entry and every addenda record counted (Addenda10-16 where present, all
   Addenda17 / Addenda18, Addenda98, Addenda99), the routing numbers summed and cut to ten digits
   (Go's %; = mod for routing numbers that are not negative), the amounts summed by the direction of
   the transaction code (NACHA credit codes / debit codes), service class and batch number from the
   header; and build changed nothing of an entry that enters these sums ([ie_static]). *)
Theorem C05_iat_build_control : forall b b', iat_build tabulate_table b = (true, b') ->
  let c := ib_ctl b' in let es := ib_entries b' in
  c_count c = zsum icount_one es /\ c_credit c = zsum by_credit es /\ c_debit c = zsum by_debit es /\
  c_hash c = Z.rem (zsum ie_rdfi es) P10 /\
  ((forall e, In e es -> 0 <= ie_rdfi e) -> c_hash c = (zsum ie_rdfi es) mod P10) /\
  c_svc c = ib_svc b /\ c_num c = ib_num b /\
  map ie_static es = map ie_static (ib_entries b).
Proof. exact c05_iat_build_control. Qed.
Print Assumptions C05_iat_build_control.

(* … hence it is the recomputation from the entries the caller put into the batch. *)
Theorem C05_iat_build_control_caller : forall b b', iat_build tabulate_table b = (true, b') ->
  let c := ib_ctl b' in let es := ib_entries b in
  c_count c = zsum icount_one es /\ c_credit c = zsum by_credit es /\ c_debit c = zsum by_debit es /\
  c_hash c = Z.rem (zsum ie_rdfi es) P10.
Proof. exact c05_iat_build_control_caller. Qed.
Print Assumptions C05_iat_build_control_caller.

(* Building again returns the identical batch (entries with their trace numbers, every addenda
   sequence field, control).  The header's ODFI must be an eight digit number — or the options keep
   build from writing trace numbers at all. *)
Theorem C05_iat_build_idempotent : forall b b', odfi_ok (ib_odfi b) \/ should_set (ib_opts b) = false ->
  iat_build tabulate_table b = (true, b') -> iat_build tabulate_table b' = (true, b').
Proof. exact c05_iat_build_idempotent. Qed.
Print Assumptions C05_iat_build_idempotent.

(* Sequence fields of the addenda records: every Addenda10-16 that is present, every Addenda17 and
   Addenda18 carries the last seven digits of its entry's trace number; Addenda17 and Addenda18 are
   numbered 1, 2, 3, … *)
Theorem C05_iat_addenda_sequence : forall b b' e, iat_build tabulate_table b = (true, b') -> In e (ib_entries b') ->
  let d := trace_seq (ie_trace e) in
  (forall v, In (Some v) (ie_mand e) -> v = d) /\
  (forall i a x, nth_error (ie_a17 e) i = Some (a, x) -> a = 1 + Z.of_nat i /\ x = d) /\
  (forall i a x, nth_error (ie_a18 e) i = Some (a, x) -> a = 1 + Z.of_nat i /\ x = d).
Proof. exact c05_iat_addenda_sequence. Qed.
Print Assumptions C05_iat_addenda_sequence.

(* Trace numbers: one that carries the header's ODFI is kept; otherwise position 1, 2, 3, … is written
   behind the ODFI — unless the batch has validation options with BypassOriginValidation or
   CustomTraceNumbers, which keep every trace number.  Without such options every entry carries the
   ODFI afterwards; a batch without any trace number gets ODFI*10^7 + 1, 2, 3, … *)
Theorem C05_iat_traces : forall b b', iat_build tabulate_table b = (true, b') ->
  map ie_trace (ib_entries b') = traces_after (ib_odfi b) (ib_opts b) 1 (ib_entries b) /\
  (odfi_ok (ib_odfi b) -> should_set (ib_opts b) = true -> forallb (ihas_prefix (ib_odfi b)) (ib_entries b') = true) /\
  (should_set (ib_opts b) = false -> map ie_trace (ib_entries b') = map ie_trace (ib_entries b)) /\
  (should_set (ib_opts b) = true -> forallb (fun e => negb (ihas_prefix (ib_odfi b) e)) (ib_entries b) = true ->
   map ie_trace (ib_entries b') = map (fun i => ib_odfi b * P7 + (1 + Z.of_nat i) mod P7) (seq 0 (length (ib_entries b)))).
Proof. exact c05_iat_traces. Qed.
Print Assumptions C05_iat_traces.

(* … and these are strictly ascending (fewer than 10^7 - 1 entries). *)
Theorem C05_iat_traces_ascending : forall b b', 0 <= ib_odfi b -> should_set (ib_opts b) = true ->
  forallb (fun e => negb (ihas_prefix (ib_odfi b) e)) (ib_entries b) = true ->
  zlen (ib_entries b) < P7 - 1 ->
  iat_build tabulate_table b = (true, b') -> asc 0 (map ie_trace (ib_entries b')).
Proof. exact c05_iat_traces_ascending. Qed.
Print Assumptions C05_iat_traces_ascending.

(* ---------------------------------------------------------------- Batch.build, ADV branch *)

(* A successful build of an ADV batch leaves an ADV batch control that is the recomputation from the
   caller's entries: one per ADV entry plus one per Addenda99, the routing numbers cut to ten digits,
   amounts by accounting code (81/83/85/87 credit, 82/84/86/88 debit — two independent tests in the
   code, the lists are disjoint); entries are numbered 1, 2, 3, … and otherwise untouched; there are
   at most 9998 of them. *)
Theorem C05_adv_build_control : forall b b', adv_build tabulate_table b = (true, b') ->
  let c := ab_ctl b' in let es := ab_entries b in
  c_count c = zsum (fun e => 1 + b2z (ae_a99 e)) es /\ c_credit c = zsum adv_by_credit es /\ c_debit c = zsum adv_by_debit es /\
  c_hash c = Z.rem (zsum ae_rdfi es) P10 /\
  ((forall e, In e es -> 0 <= ae_rdfi e) -> c_hash c = (zsum ae_rdfi es) mod P10) /\
  c_svc c = ab_svc b /\ c_num c = ab_num b /\
  map ae_static (ab_entries b') = map ae_static es /\
  map ae_seq (ab_entries b') = map (fun i => 1 + Z.of_nat i) (seq 0 (length es)) /\
  zlen es <= 9998.
Proof. exact c05_adv_build_control. Qed.
Print Assumptions C05_adv_build_control.

Theorem C05_adv_build_idempotent : forall b b', adv_build tabulate_table b = (true, b') -> adv_build tabulate_table b' = (true, b').
Proof. exact c05_adv_build_idempotent. Qed.
Print Assumptions C05_adv_build_idempotent.

(* the sequence number limit: a valid header, no offset, some entries — build succeeds exactly up to 9998 entries *)
Theorem C05_adv_build_limit : forall b, ab_hdr_ok b = true -> ab_off b = false -> ab_entries b <> [] ->
  (fst (adv_build tabulate_table b) = true <-> zlen (ab_entries b) <= 9998).
Proof. exact c05_adv_build_limit. Qed.
Print Assumptions C05_adv_build_limit.

(* ---------------------------------------------------------------- File.Create *)

(* A file of standard and IAT batches whose batch controls are tabulated ([sctl_ok] = conclusion of
   C05_create_valid, [ictl_ok] = conclusion of C05_iat_build_control).  After a successful
   File.Create the file control says: batch count = number of batches of BOTH lists; entry/addenda
   count = all entry and addenda records; block count = ceil(recs / 10) where
       recs = 2 + Σ_standard (2 + entries + addenda) + Σ_IAT (2 + entries + addenda)
   is the number of physical records ([phys_records]); entry hash = the batch hashes (each cut to ten
   digits) summed and cut to ten digits; totals = sums over the entries; and no entry was touched. *)
Theorem C05_file_create_all_counts : forall f f', file_is_adv f = false ->
  file_create_all tabulate_table f = (true, f') ->
  Forall (sctl_ok offset_table tabulate_table) (af_std f) -> Forall (ictl_ok tabulate_table) (af_iat f) ->
  (forall s, In s (af_std f) -> 0 <= s_count s) ->
  let recs := phys_records (af_std f) (af_iat f) in
  let c := af_ctl f' in
  fc_batches c = zlen (af_std f) + zlen (af_iat f) /\
  fc_count c = zsum s_count (af_std f) + zsum (fun b => icount (ib_entries b)) (af_iat f) /\
  fc_blocks c = (recs + 9) / 10 /\ 10 * (fc_blocks c - 1) < recs <= 10 * fc_blocks c /\
  fc_hash c = Z.rem (zsum (fun s => Z.rem (s_rdfi s) P10) (af_std f)
                     + zsum (fun b => Z.rem (zsum ie_rdfi (ib_entries b)) P10) (af_iat f)) P10 /\
  fc_debit c = zsum (s_debit offset_table tabulate_table) (af_std f) + zsum (fun b => idebits tabulate_table (ib_entries b)) (af_iat f) /\
  fc_credit c = zsum (s_credit offset_table tabulate_table) (af_std f) + zsum (fun b => icredits tabulate_table (ib_entries b)) (af_iat f) /\
  map s_entries (af_std f') = map s_entries (af_std f) /\ map ib_entries (af_iat f') = map ib_entries (af_iat f) /\
  af_actl f' = af_actl f.
Proof. exact c05_file_create_all_counts. Qed.
Print Assumptions C05_file_create_all_counts.

(* The hypotheses hold for batches that build has just tabulated: every batch built, then File.Create. *)
Theorem C05_file_create_after_builds : forall f f' ss0 ibs0, file_is_adv f = false ->
  Forall2 sbuilt ss0 (af_std f) -> Forall2 (fun b0 b => iat_build tabulate_table b0 = (true, b)) ibs0 (af_iat f) ->
  (forall s, In s (af_std f) -> 0 <= s_count s) ->
  file_create_all tabulate_table f = (true, f') ->
  let recs := phys_records (af_std f) (af_iat f) in
  fc_batches (af_ctl f') = zlen (af_std f) + zlen (af_iat f) /\
  fc_count (af_ctl f') = zsum s_count (af_std f) + zsum (fun b => icount (ib_entries b)) (af_iat f) /\
  fc_blocks (af_ctl f') = (recs + 9) / 10 /\
  all_ctl_nums f' = all_nums f' /\ all_nums f' = renum_list 1 (all_nums f).
Proof. exact c05_file_create_after_builds. Qed.
Print Assumptions C05_file_create_after_builds.

(* Truncation loses nothing: with routing numbers that are not negative, the file hash is the sum of
   ALL routing numbers of the file modulo 10^10. *)
Theorem C05_file_hash_total : forall ss ibs,
  (forall s, In s ss -> 0 <= s_rdfi s) -> (forall b, In b ibs -> 0 <= zsum ie_rdfi (ib_entries b)) ->
  Z.rem (zsum (fun s => Z.rem (s_rdfi s) P10) ss + zsum (fun b => Z.rem (zsum ie_rdfi (ib_entries b)) P10) ibs) P10
  = (zsum s_rdfi ss + zsum (fun b => zsum ie_rdfi (ib_entries b)) ibs) mod P10.
Proof. exact c05_file_hash_total. Qed.
Print Assumptions C05_file_hash_total.

(* An ADV file (some batch of f.Batches has the SEC code ADV).  File.Create succeeds only when every
   batch is ADV and there is no IAT batch; it then leaves an ADV file control with the same
   tabulation (hash cut to ten digits), renumbers like the non-ADV branch and leaves f.Control alone. *)
Theorem C05_file_create_adv : forall f f', file_is_adv f = true ->
  file_create_all tabulate_table f = (true, f') -> Forall (sctl_ok offset_table tabulate_table) (af_std f) ->
  let recs := phys_records (af_std f) [] in
  let c := af_actl f' in
  forallb sb_is_adv (af_std f) = true /\ af_iat f = [] /\
  fc_batches c = zlen (af_std f) /\
  fc_count c = zsum s_count (af_std f) /\
  fc_blocks c = (recs + 9) / 10 /\ 10 * (fc_blocks c - 1) < recs <= 10 * fc_blocks c /\
  fc_hash c = Z.rem (zsum (fun s => Z.rem (s_rdfi s) P10) (af_std f)) P10 /\
  fc_debit c = zsum (s_debit offset_table tabulate_table) (af_std f) /\ fc_credit c = zsum (s_credit offset_table tabulate_table) (af_std f) /\
  map s_entries (af_std f') = map s_entries (af_std f) /\ map sb_num (af_std f') = renum_list 1 (map sb_num (af_std f)) /\
  af_ctl f' = af_ctl f.
Proof. exact c05_file_create_adv. Qed.
Print Assumptions C05_file_create_adv.

Theorem C05_file_create_all_idempotent : forall f f', file_create_all tabulate_table f = (true, f') -> file_create_all tabulate_table f' = (true, f').
Proof. exact c05_file_create_all_idempotent. Qed.
Print Assumptions C05_file_create_all_idempotent.

(* ---------------------------------------------------------------- batch numbers *)

(* What File.Create does to the batch numbers, provided numbers included ([all_nums] = header numbers
   of the standard batches followed by those of the IAT batches): position i (from 0) gets 1 + i where
   the caller's number was <= 1 and keeps the caller's number otherwise.  Hence: no number provided ⇒
   1, 2, 3, … (ascending); all provided ⇒ unchanged. *)
Theorem C05_file_numbers_all : forall f f', file_is_adv f = false -> file_create_all tabulate_table f = (true, f') ->
  all_nums f' = renum_list 1 (all_nums f) /\
  (forall i n, nth_error (all_nums f) i = Some n -> nth_error (all_nums f') i = Some (if n <=? 1 then 1 + Z.of_nat i else n)) /\
  (forallb (fun n => n <=? 1) (all_nums f) = true ->
     all_nums f' = map (fun i => 1 + Z.of_nat i) (seq 0 (length (all_nums f))) /\ asc 0 (all_nums f')) /\
  (forallb (fun n => 1 <? n) (all_nums f) = true -> all_nums f' = all_nums f).
Proof. exact c05_file_numbers. Qed.
Print Assumptions C05_file_numbers_all.

(* The full statement "after a successful File.Create the batch numbers are ascending" does NOT hold
   for provided numbers: [5; 0] becomes [5; 2] — with both batches tabulated, Create returning nil.
   (The real File.Create does the same: known finding file:create-keeps-provided-numbers; File.Validate
   rejects the file afterwards.)  Also across the lists: standard 3, IAT absent ⇒ [3; 2]. *)
Theorem C05_file_numbers_ascending_refuted :
  exists f f', file_is_adv f = false /\ Forall (sctl_ok offset_table tabulate_table) (af_std f) /\ Forall (ictl_ok tabulate_table) (af_iat f) /\
    file_create_all tabulate_table f = (true, f') /\ all_nums f = [5; 0] /\ all_nums f' = [5; 2] /\ ~ asc 0 (all_nums f').
Proof. exact file_numbers_ascending_refuted. Qed.
Print Assumptions C05_file_numbers_ascending_refuted.

Theorem C05_file_numbers_ascending_iat_refuted :
  exists f f', file_is_adv f = false /\ file_create_all tabulate_table f = (true, f') /\ all_nums f' = [3; 2] /\ ~ asc 0 (all_nums f').
Proof. exact file_numbers_ascending_iat_refuted. Qed.
Print Assumptions C05_file_numbers_ascending_iat_refuted.

(* ---------------------------------------------------------------- histories *)

(* No history of build / add / remove / amend / File.Create over standard, ADV and IAT batches panics or hangs. *)
Theorem C05_all_history_total : forall ops f, arun offset_table tabulate_table ops f <> Panic /\ arun offset_table tabulate_table ops f <> Hang.
Proof. exact c05_all_history_total. Qed.
Print Assumptions C05_all_history_total.

(* After any history, an IAT / ADV batch that build has just tabulated has control = recomputation. *)
Theorem C05_all_history_built : forall ops f f',
  (forall i, arun offset_table tabulate_table (ops ++ [IBuild i]) f = Ret true f' -> forall b, nth_error (af_iat f') i = Some b -> ictl_ok tabulate_table b) /\
  (forall i, arun offset_table tabulate_table (ops ++ [ABuild i]) f = Ret true f' -> forall a, nth_error (af_std f') i = Some (SAdv a) -> actl_ok tabulate_table a).
Proof. exact c05_all_history_built. Qed.
Print Assumptions C05_all_history_built.

(* File.Create twice = File.Create once, after any history. *)
Theorem C05_all_history_file_stable : forall ops f f',
  arun offset_table tabulate_table (ops ++ [ACreateFile]) f = Ret true f' -> arun offset_table tabulate_table (ops ++ [ACreateFile; ACreateFile]) f = Ret true f'.
Proof. exact c05_all_history_file_stable. Qed.
Print Assumptions C05_all_history_file_stable.

(* ---------------------------------------------------------------- the two repaired defects, on the model of the old code *)

(* createFileADV with  fc.EntryHash = fileEntryHashSum : two tabulated ADV batches of 70 entries give the
   file hash 11372839380, not the ten digits File.Validate recomputes. *)
Theorem C05_unfixed_adv_file_hash_refuted :
  exists f f', file_is_adv f = true /\ Forall (sctl_ok offset_table unfixed_hash_table) (af_std f) /\
    file_create_all unfixed_hash_table f = (true, f') /\
    fc_hash (af_actl f') = 11372839380 /\
    fc_hash (af_actl f') <> Z.rem (zsum (fun s => c_hash (sb_ctl s)) (af_std f')) P10.
Proof. exact unfixed_adv_hash_refuted. Qed.
Print Assumptions C05_unfixed_adv_file_hash_refuted.

(* createFileADV without the test of f.IATBatches: Create succeeded on an ADV batch + an IAT batch with a
   control that counts one batch; the current code returns an error. *)
Theorem C05_unfixed_adv_with_iat_refuted :
  exists f f', file_is_adv f = true /\ file_create_all unfixed_guard_table f = (true, f') /\
    fc_batches (af_actl f') = 1 /\ zlen (af_std f') + zlen (af_iat f') = 2 /\
    fst (file_create_all tabulate_table f) = false.
Proof. exact unfixed_adv_iat_refuted. Qed.
Print Assumptions C05_unfixed_adv_with_iat_refuted.

(* C12 — FlattenBatches consolidates batches without changing the entries.
   Only statements here; every proof is `exact <lemma>`. *)
From Coq Require Import List Permutation Sorted ZArith.
From ACH Require Import Bytes Flatten FlattenFacts C12Obl.

(* For every input, every admissible processing order (any order sorted by entry
   count — sort.Slice is unspecified among equal counts above 12 batches) and any
   iteration order of the Go map: the result holds the same multiset of
   (header signature, entry) pairs, hence the same entry/addenda count and totals. *)
Theorem C12_conservation : forall inp out,
  kinds_consistent inp -> flatten_spec inp out ->
  Permutation (ids out) (ids inp) /\ Permutation (adv_ids out) (adv_ids inp).
Proof. exact flatten_conservation. Qed.
Print Assumptions C12_conservation.

Theorem C12_figures : forall inp out,
  kinds_consistent inp -> flatten_spec inp out ->
  length (ids out) = length (ids inp) /\ entry_addenda_count out = entry_addenda_count inp
  /\ debit_total out = debit_total inp /\ credit_total out = credit_total inp.
Proof. exact flatten_figures. Qed.
Print Assumptions C12_figures.

(* C12 — FlattenBatches consolidates batches without changing the entries.
   Only statements here; every proof is `exact <lemma>`.

   [flatten_spec inp out]: out is a result of the algorithm of file_flattener.go
   on the batches inp for SOME processing order sorted by entry count
   (sort.Slice leaves the order of equal counts open above 12 batches) and SOME
   iteration order of the Go map that collects the consolidated batches.  Every
   theorem below holds for all inputs and all such choices. *)
From Coq Require Import List Permutation Sorted ZArith String.
From ACH Require Import Bytes Flatten FlattenFacts LayoutTypes Layouts FlattenTable FlattenSrc C12Obl.

(* same multiset of (header signature, entry) pairs — nothing lost, duplicated or
   moved under another header; ADV entries likewise *)
Theorem C12_conservation : forall inp out,
  kinds_consistent inp -> flatten_spec inp out ->
  Permutation (ids out) (ids inp) /\ Permutation (adv_ids out) (adv_ids inp).
Proof. exact flatten_conservation. Qed.
Print Assumptions C12_conservation.

(* hence equal entry count, entry/addenda count and debit and credit totals *)
Theorem C12_figures : forall inp out,
  kinds_consistent inp -> flatten_spec inp out ->
  List.length (ids out) = List.length (ids inp) /\ entry_addenda_count out = entry_addenda_count inp
  /\ debit_total out = debit_total inp /\ credit_total out = credit_total inp.
Proof. exact flatten_figures. Qed.
Print Assumptions C12_figures.

(* entries of every result batch are in ascending trace order (Go string order) *)
Theorem C12_sorted : forall inp out,
  flatten_spec inp out -> Forall (fun b => Sorted trace_le (b_entries b)) out.
Proof. exact flatten_sorted. Qed.
Print Assumptions C12_sorted.

(* no two result batches have equal signatures unless they share a trace number *)
Theorem C12_maximal : forall inp out i j a b,
  flatten_spec inp out -> i <> j -> nth_error out i = Some a -> nth_error out j = Some b ->
  b_sig a = b_sig b -> exists t, In t (traces a) /\ In t (traces b).
Proof. exact flatten_maximal_nth. Qed.
Print Assumptions C12_maximal.

(* flattening a result again returns exactly the same list of batches *)
Theorem C12_idempotent : forall inp r r',
  flatten_spec inp r -> flatten_spec r r' -> r' = r.
Proof. exact flatten_idempotent. Qed.
Print Assumptions C12_idempotent.

(* the specification is inhabited by the executable model used in the
   correspondence (stable order = Go's order for at most 12 batches) ... *)
Theorem C12_stable_admissible : forall inp, flatten_spec inp (flatten_stable inp).
Proof. exact flatten_stable_spec. Qed.
Print Assumptions C12_stable_admissible.

(* ... and whatever order hint the harness supplies for more than 12 batches, a
   result accepted by the extracted checker is a result of the specification *)
Theorem C12_checker_sound : forall inp hint out,
  flatten_hint inp hint = Some out -> flatten_spec inp out.
Proof. exact flatten_hint_sound. Qed.
Print Assumptions C12_checker_sound.

(* "FlattenBatches succeeds on every valid file" is false of the code as it
   stands: batches with equal headers and different entry categories are
   consolidated into a batch that fails isCategory (known finding) ... *)
Theorem C12_succeeds_refuted :
  exists inp, forallb category_ok inp = true /\ kinds_consistent inp /\ flatten_spec inp (flatten_stable inp)
              /\ checked (flatten_stable inp) = None.
Proof. exact mixed_category_refutes. Qed.
Print Assumptions C12_succeeds_refuted.

(* ... and when equal headers imply equal categories every result batch passes the
   category check (the full statement — Create, File.Create, Validate, the sanity
   checks — is C12_succeeds in Props/C12Full.v) *)
Theorem C12_category_uniform : forall inp out,
  kinds_consistent inp -> cat_uniform inp -> flatten_spec inp out -> checked out = Some out.
Proof. exact flatten_category. Qed.
Print Assumptions C12_category_uniform.

(* What consolidation itself supplies to Create / Validate: strictly ascending (hence
   unique) trace numbers in every batch, no empty batch, batch numbers 1..n, and
   every property of (header, entry) pairs that held in the input — trace number
   prefixed by the header's ODFI, entry fields valid for the SEC code of the
   header, ... — still holds.  Validity of the result against the Create models of
   C05 and the validator model of C03: C12_valid (Props/C12Full.v), C12_batch_arith_valid /
   C12_file_arith_valid (Props/C12Valid.v). *)
Theorem C12_wellformed : forall inp out,
  Forall traces_nodup inp -> Forall nonempty inp -> flatten_spec inp out ->
  Forall (fun b => StronglySorted trace_lt (b_entries b) /\ nonempty b) out
  /\ (forall i b, nth_error out i = Some b -> b_num b = (1 + Z.of_nat i)%Z).
Proof. exact flatten_wellformed. Qed.
Print Assumptions C12_wellformed.

Theorem C12_pairs_transported : forall inp out (P : bytes * entry -> Prop),
  kinds_consistent inp -> flatten_spec inp out -> Forall P (ids inp) -> Forall P (ids out).
Proof. exact flatten_pairs. Qed.
Print Assumptions C12_pairs_transported.

(* the string order used above is a strict total order *)
Theorem C12_trace_order : forall a b c,
  lex_ltb a a = false /\ (lex_ltb a b = true -> lex_ltb b c = true -> lex_ltb a c = true)
  /\ (lex_ltb a b = false -> lex_ltb b a = false -> a = b).
Proof. exact (fun a b c => conj (lex_ltb_irrefl a) (conj (lex_ltb_trans a b c) (lex_ltb_total a b))). Qed.
Print Assumptions C12_trace_order.

(* the source of this run has the constants and shapes the model assumes: the
   signature is the first 87 characters of the header for both kinds of batch,
   all sorts are ascending, the candidate loop is first-fit, nothing unrecognised *)
Theorem C12_source_facts :
  (forall w, ~ In (FUnknown w) flatten_src)
  /\ (forall r u w, In (FSigWidth r u w) flatten_src -> u = "rune"%string /\ w = sig_width)
  /\ (forall s k o, In (FSort s k o) flatten_src -> o = "<"%string)
  /\ In (FFirstFit true) flatten_src /\ ~ In (FFirstFit false) flatten_src.
Proof. exact flatten_src_facts. Qed.
Print Assumptions C12_source_facts.

(* ... and in the record layouts regenerated from the header sources the batch
   number starts right after column 87, the SEC code sits in columns 51-53 of
   both header types (so the kind of a batch is a function of its signature) *)
Theorem C12_signature_layout :
  header_layout_ok L_BatchHeader = true /\ header_layout_ok L_IATBatchHeader = true.
Proof. exact header_layouts_ok. Qed.
Print Assumptions C12_signature_layout.

(* C09, phase 5 — "merged files are VALID under the options they carry": C09_valid_partial left
   ValidateOpts out; since phase 3 the merge model carries options (Model/MergeOpts.v,
   Props/C08Opts.v).  Only statements here; every proof is `exact <lemma>`.

   Validity under options is the validator model of C03 written guard by guard under
   ValidateOpts (Model/ArithOpts.v): [validate_batch_o csem T ob] is Batch.Validate of a standard
   batch [ob] = (options stored on the batch, options stored on each entry record, the batch) —
   CheckTransactionCode / AllowInvalidCheckDigit on the records, UnequalServiceClassCode,
   UnequalAddendaCounts, CustomTraceNumbers, BypassOriginValidation on the batch —, and
   [file_valid_o csem T f] is File.Validate() of a file carrying options — SkipAll,
   AllowMissingFileHeader, the routing fields of the header under BypassOriginValidation /
   RequireABAOrigin / BypassDestinationValidation, AllowMissingFileControl, UnequalAddendaCounts,
   AllowUnorderedBatchNumbers.  [csem f c]: the CheckTransactionCode function f accepts code c.

   [m_obatch A mp mo rb] / [m_ofile A mp mo g]: an output batch / file of merge_files_o as the
   validator sees it after Batch.Create / File.Create (payload [mp]: code, routing number, check
   digit of an entry record; [mo]: the options stored on it). *)
From Coq Require Import List NArith ZArith Bool.
From ACH Require Import ValidOut ValidOutFacts Tables ArithOpts ArithOptsFacts ArithOptsTable.
From ACH Require Import Bytes Merge MergeFacts MergeOpts MergeOptsFacts MergeOptsGen C08OptsObl.
From ACH Require Import ValidMerge ValidMergeFacts ValidMergeOpts ValidMergeOptsFacts C09OptsObl.
Open Scope Z_scope.

(* the flag positions the validator model reads are the fields of that name in the struct of this run *)
Theorem C09_opt_positions : positions_ok gen_vo_fields = true.
Proof. exact opt_positions_ok. Qed.
Print Assumptions C09_opt_positions.

(* For ALL lists of input files and ALL Conditions: if every input batch validates under the options
   MergeFilesWith attaches to it (its file's merged with its own; whatever batch number and control
   record it holds), every input file header validates under the file's options, and Batch.build
   leaves the inputs' trace numbers alone (inputs are fixed points of Create), then for EVERY output
   file g — also those started at `overflow:` —
     Batch.Create changes no entry of any of its batches,
     every batch validates under the options it carries, and
     File.Validate() of g returns nil under the options g carries (the union).
   Assumed of the result, as in C09_file_arith_valid: the merged totals fit the control records. *)
Theorem C09_valid_opts : forall csem mp mo fs c,
  inputs_valid_o csem gen_tables mp mo fs -> inputs_header_valid fs -> inputs_stay fs ->
  forall g, In g (merge_files_o fs c) ->
  Forall (fun rb => AR.calc_debit gen_tables AR.KStd (map (m_entry mp) (rbo_entries rb)) <= AR.t_batch_limit gen_tables /\
                    AR.calc_credit gen_tables AR.KStd (map (m_entry mp) (rbo_entries rb)) <= AR.t_batch_limit gen_tables) (rfo_batches g) ->
  fctl_fits gen_tables (vf_ctl (m_ofile gen_tables mp mo g)) ->
  (forall rb, In rb (rfo_batches g) -> rbo_created rb = Some (rbo_entries rb))
  /\ Forall (fun rb => validate_batch_o csem gen_tables (m_obatch gen_tables mp mo rb) = AR.ROk) (rfo_batches g)
  /\ file_valid_o csem gen_tables (m_ofile gen_tables mp mo g) = true.
Proof. exact c09_valid_opts. Qed.
Print Assumptions C09_valid_opts.

(* the hypothesis on the batches follows from validity under the options stored on the batch ALONE
   (what Batch.Validate uses before the merge): relaxation flags only relax *)
Theorem C09_valid_opts_stored_suffice : forall csem mp mo fs,
  (forall f ib, In f fs -> In ib (fo_batches f) ->
     exists num c, validate_batch_o csem gen_tables
       (mkvb (ibo_opts ib) (m_eopts mo (ib_entries (ibo_batch ib)))
             (AR.mkbatch AR.KStd (h_scc (ib_header (ibo_batch ib))) (h_odfi (ib_header (ibo_batch ib))) num
                         (map (m_entry mp) (ib_entries (ibo_batch ib))) c)) = AR.ROk) ->
  inputs_valid_o csem gen_tables mp mo fs.
Proof. exact c09_stored_valid_inputs. Qed.
Print Assumptions C09_valid_opts_stored_suffice.

(* ... and both hypotheses on the inputs follow from "every input FILE passes File.Validate() under the
   options stored on it, not by SkipAll" ([views f v]: v is f as File.Validate sees it, with whatever batch
   numbers, batch controls and file control f holds) *)
Theorem C09_valid_opts_files : forall csem mp mo fs,
  input_files_valid csem gen_tables mp mo fs ->
  inputs_valid_o csem gen_tables mp mo fs /\ inputs_header_valid fs.
Proof. exact c09_input_files_valid_hyps. Qed.
Print Assumptions C09_valid_opts_files.

Theorem C09_opts_relax_only : forall csem o o' eos b,
  (forall i, oflag i o = true -> oflag i o' = true) ->
  validate_batch_o csem gen_tables (mkvb o eos b) = AR.ROk -> validate_batch_o csem gen_tables (mkvb o' eos b) = AR.ROk.
Proof. exact c09_opts_relax_only. Qed.
Print Assumptions C09_opts_relax_only.

(* with no option stored anywhere the validator under options IS the validator of C03 *)
Theorem C09_opts_none_is_arith : forall csem b, AR.bt_kind b = AR.KStd ->
  (validate_batch_o csem gen_tables (no_opts b) = AR.ROk <-> AR.validate_batch gen_tables b = AR.ROk).
Proof. exact c09_opts_none_is_arith. Qed.
Print Assumptions C09_opts_none_is_arith.

(* a file that validates under options other than SkipAll: every batch validates under its own *)
Theorem C09_opts_file_batches : forall csem f,
  file_valid_o csem gen_tables f = true -> oflag ix_skip_all (vf_opts f) = false ->
  Forall (fun ob => validate_batch_o csem gen_tables ob = AR.ROk) (vf_batches f).
Proof. exact c09_file_valid_batches. Qed.
Print Assumptions C09_opts_file_batches.

(* non-vacuity: two files of one routing pair whose destination fails the ABA test
   (BypassDestinationValidation), one with descending foreign trace numbers (CustomTraceNumbers),
   one whose batch holds a control record of another service class (UnequalServiceClassCode), an
   entry with a wrong check digit (AllowInvalidCheckDigit on the record) and one with code 62
   (CheckTransactionCode on the record); MaxLines 7 forces an overflow file.  The hypotheses hold;
   without the options the inputs fail (RAscending, RClass, header) *)
Theorem C09_valid_opts_example :
  input_files_valid ex_csem gen_tables xo_mp xo_mo xo_files /\
  (inputs_valid_o ex_csem gen_tables xo_mp xo_mo xo_files /\ inputs_header_valid xo_files /\ inputs_stay xo_files)
  /\ length (merge_files_o xo_files xo_conds) = 2%nat
  /\ forallb (fun g => file_valid_o ex_csem gen_tables (m_ofile gen_tables xo_mp xo_mo g)) (merge_files_o xo_files xo_conds) = true
  /\ header_ok None xo_origin xo_dest = false.
Proof.
  exact (conj ex_opts_files_valid (conj ex_opts_hyps (conj (f_equal (@length _) (proj1 ex_opts_outputs))
        (conj (proj1 (proj2 ex_opts_outputs)) (proj2 (proj2 ex_opts_needed_by_inputs)))))).
Qed.

(* the conclusion speaks about the carried options: every output file of the example fails
   File.Validate() once its file options are taken away (what an overflow file looked like before fix
   b342ca7c), and some output fails once the options of its batches are taken away *)
Theorem C09_valid_opts_needs_options :
  forallb (fun g => negb (file_valid_o ex_csem gen_tables (m_ofile gen_tables xo_mp xo_mo (strip_file g)))) (merge_files_o xo_files xo_conds) = true
  /\ existsb (fun g => negb (file_valid_o ex_csem gen_tables (m_ofile gen_tables xo_mp xo_mo (strip_batches g)))) (merge_files_o xo_files xo_conds) = true.
Proof. exact ex_opts_needed_by_outputs. Qed.

(* C14, phase 5 — aliasing writes, the server's validate operation, derived constructions.
   Only statements here; every proof is `exact <lemma>`. *)
From Coq Require Import String List Bool NArith.
Import ListNotations.
From ACH Require Import Bytes EffectTable Purity PurityFacts AliasTable PurityAlias PurityAliasFacts EffectsAlias C14AliasObl.

(* ---- the regenerated aliasing-write table (closure of the read-only entry points of package
   ach and of the server's validate operation) *)

(* every entry is one the model accounts for *)
Theorem C14_alias_table_ok : alias_ok alias_writes = true.
Proof. exact alias_table_ok. Qed.

(* the analysis started from the entry points of the property, the server's included *)
Theorem C14_alias_roots_ok : alias_roots_ok alias_roots alias_closure = true.
Proof. exact alias_table_roots_ok. Qed.

(* every writing entry is literally one of: SetHeader / SetControl on their receiver, the Writer's line counter *)
Theorem C14_alias_writes_listed : forall w, In w alias_writes -> is_write w = true ->
  exists c, In (w, c) writes_modelled.
Proof. exact alias_writes_listed. Qed.
Print Assumptions C14_alias_writes_listed.

(* no entry sorts, appends to, copies into, or stores by index into a slice that shares its
   backing array with a field of the receiver or of an argument; no map update *)
Theorem C14_alias_no_inplace : forall w, In w alias_writes -> ~ In (aw_kind w) inplace_kinds.
Proof. exact alias_no_inplace_entry. Qed.
Print Assumptions C14_alias_no_inplace.

(* no entry writes a ValidateOpts struct or a field holding one *)
Theorem C14_alias_opts_untouched : forall w, In w alias_writes -> is_write w = true ->
  opts_target (aw_target w) = false.
Proof. exact alias_opts_untouched_entry. Qed.

Theorem C14_alias_file_writes : file_writes_are_installs alias_writes = true.
Proof. exact alias_table_file_writes. Qed.

Theorem C14_alias_model_writes_in_table : alias_model_writes_present alias_writes = true.
Proof. exact alias_table_model_present. Qed.

(* each entry of the table: its instances are the identity on files without nil header / control,
   and never touch the stored options on any file *)
Theorem C14_alias_noop : forall w, In w alias_writes ->
  exists c, aclass_of w = Some c /\ (forall i s, inv (x_bats s) = true -> asem c i s = s) /\
            (forall i s, x_opts (asem c i s) = x_opts s).
Proof. exact alias_noop. Qed.
Print Assumptions C14_alias_noop.

Theorem C14_alias_trace_pure : forall tr s, Forall from_alias_table tr -> inv (x_bats s) = true -> arun tr s = s.
Proof. exact alias_trace_pure. Qed.

Theorem C14_alias_trace_opts : forall tr s, Forall from_alias_table tr -> x_opts (arun tr s) = x_opts s.
Proof. exact alias_trace_opts. Qed.

(* the literal model of every operation, the server's validate included, is a run of table instances *)
Theorem C14_xstep_refines : forall s o,
  xstep s o = arun (xop_trace s o) s /\ Forall from_alias_table (xop_trace s o).
Proof. exact xstep_from_table. Qed.
Print Assumptions C14_xstep_refines.

(* ---- histories over the extended operation set *)

(* library operations and validate requests in any order, any options: observation (batches
   and stored options) unchanged *)
Theorem C14_history_extended : forall ops s, prefix_inv (x_bats s) = true ->
  xobserve (fold_left xstep ops s) = xobserve s.
Proof. exact xhistory_prefix. Qed.
Print Assumptions C14_history_extended.

Theorem C14_pure_iff_extended : forall s,
  (forall ops, xobserve (fold_left xstep ops s) = xobserve s) <-> prefix_inv (x_bats s) = true.
Proof. exact xpure_iff. Qed.

Theorem C14_history_extended_general : forall ops s,
  x_opts (fold_left xstep ops s) = x_opts s /\
  (x_bats (fold_left xstep ops s) = x_bats s \/ x_bats (fold_left xstep ops s) = install (x_bats s)).
Proof. exact xhistory_general. Qed.

(* the server: any sequence of validate requests (any id, any options) leaves what every stored
   file shows unchanged *)
Theorem C14_history_server_validate : forall rqs st, store_ok st = true ->
  store_observe (fold_left serve rqs st) = store_observe st.
Proof. exact serve_history_observe. Qed.
Print Assumptions C14_history_server_validate.

(* validate requests interleaved with library operations on the stored files (the pointers are shared) *)
Theorem C14_history_server_mixed : forall rqs st, store_ok st = true ->
  store_observe (fold_left serve_x rqs st) = store_observe st.
Proof. exact serve_x_history_observe. Qed.
Print Assumptions C14_history_server_mixed.

(* ... and, with no condition on the stored files, their ids and stored options *)
Theorem C14_server_validate_opts_kept : forall rqs st,
  map (fun kf => (fst kf, x_opts (snd kf))) (fold_left serve rqs st) = map (fun kf => (fst kf, x_opts (snd kf))) st.
Proof. exact serve_history_keys_opts. Qed.
Print Assumptions C14_server_validate_opts_kept.

Theorem C14_server_validate_built_adv_refuted :
  exists st rqs, store_ok st = false /\ store_observe (fold_left serve rqs st) <> store_observe st.
Proof. exact server_validate_built_adv_refuted. Qed.

(* a ValidateFile that merges the request's options into the stored ones through an alias
   (seeded change C14_g) is not pure *)
Theorem C14_server_validate_aliasing_refuted :
  exists s req v, prefix_inv (x_bats s) = true /\ xobserve (xstep_aliasing req s v) <> xobserve s.
Proof. exact server_validate_aliasing_refuted. Qed.

(* ---- constructions, derived from the regenerated tables *)

Theorem C14_ctor_table_ok : ctor_table_ok newbatch_cases ctor_stmts = true.
Proof. exact ctor_table_checked. Qed.

Theorem C14_read_returns_ok : returns_ok isadv_returns "(*Reader).Read" = true.
Proof. exact read_returns_checked. Qed.

Theorem C14_create_returns_ok : returns_ok isadv_returns "(*File).Create" = true.
Proof. exact create_returns_checked. Qed.

Theorem C14_batch_sources_ok : sources_ok batch_sources = true.
Proof. exact batch_sources_checked. Qed.

Theorem C14_pointer_writes_ok : forallb pointer_write_ok pointer_writes = true.
Proof. exact pointer_writes_checked. Qed.

(* NewBatch as the switch and the constructors of the current source define it is new_batch of the model *)
Theorem C14_new_batch_derived : forall sec b, nb sec = Some b -> b = new_batch sec.
Proof. exact nb_sound. Qed.
Print Assumptions C14_new_batch_derived.

Theorem C14_built_derived : forall secs, built_src secs = built (filter accepted_src secs).
Proof. exact built_src_built. Qed.

(* what File.Create leaves when it returns nil: pure under every extended history, ADV batches included *)
Theorem C14_history_created : forall ops secs f o, result_of "(*File).Create" secs f false ->
  xobserve (fold_left xstep ops (mkx f o)) = xobserve (mkx f o).
Proof. exact xhistory_created. Qed.
Print Assumptions C14_history_created.

(* what Reader.Read returns on every path except its early error exits (nil scanner, line limit, scanner error) *)
Theorem C14_history_reader : forall ops secs f o, result_of "(*Reader).Read" secs f false ->
  xobserve (fold_left xstep ops (mkx f o)) = xobserve (mkx f o).
Proof. exact xhistory_reader. Qed.
Print Assumptions C14_history_reader.

(* on the early exits too, when no batch is ADV *)
Theorem C14_history_reader_any_return : forall ops secs f e o, no_adv secs = true ->
  result_of "(*Reader).Read" secs f e -> xobserve (fold_left xstep ops (mkx f o)) = xobserve (mkx f o).
Proof. exact xhistory_reader_any. Qed.

(* ... and not in general: cut short after an ADV batch, the file is modified by the first validate *)
Theorem C14_history_reader_cut_refuted :
  exists secs f ops, result_of "(*Reader).Read" secs f true /\
    xobserve (fold_left xstep ops (mkx f None)) <> xobserve (mkx f None).
Proof. exact reader_cut_adv_refuted. Qed.

(* NewBatch + AddBatch without Create, no ADV batch *)
Theorem C14_history_built : forall ops secs o, no_adv secs = true ->
  xobserve (fold_left xstep ops (mkx (built_src secs) o)) = xobserve (mkx (built_src secs) o).
Proof. exact xhistory_built. Qed.
Print Assumptions C14_history_built.

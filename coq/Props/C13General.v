(* C13, phase 3 — the general Reversal statements: no exclusion of batches described PRENOTE,
   return and NOC entries and the OFFSET entries of batches built with WithOffset included.
   Only statements here; every proof is `exact <lemma>`.  RT bundles the tables regenerated
   from reversal.go / batch.go / validators.go on this run.

   [ak id] is the addenda kind of an entry as ValidAmountForCodes sees it (Addenda98* -> ANoc:
   amount 0; Addenda99* -> AReturn: any amount; otherwise AForward: prenote code or batch
   described PRENOTE -> 0, else > 0), [off id] = "IndividualName is OFFSET"; both are functions
   of the entry identity, which Reversal does not touch.  [rbatch_valid_gen ak RT] is rbatch_valid
   of Reversal.v with the amount rule generalised by [ak] (equal to it when every entry is
   forward: C13_general_forward). *)
From Coq Require Import ZArith NArith List Bool.
Import ListNotations.
From ACH Require Import Bytes TxCodes RevTable Reversal ReversalFacts ReversalTable C13Obl.
From ACH Require Import ReversalGen ReversalGenFacts C13GenObl.
Open Scope Z_scope.

Theorem C13_general_forward : forall b, rbatch_valid_gen (fun _ => AForward) RT b = rbatch_valid RT b.
Proof. exact c13_valid_gen_forward. Qed.
Print Assumptions C13_general_forward.

(* For EVERY valid batch of reversible codes (any description, forward / return / NOC / offset
   entries, any size): amounts, identities and trace numbers unchanged, every code flipped within
   its account type to the opposite direction (credits and debits swapped entry by entry), control
   totals swapped, header = control class = the class of the new directions, description the
   literal, date the requested one, the structural part of validity (non-empty, class vs
   directions, standard codes, control totals = totals recomputed by calculateBatchAmounts)
   holds of the result and its codes are reversible again — AND the result passes the amount rule,
   hence validation, EXACTLY when every forward entry carries a prenote code or a positive amount
   (batch_survives). *)
Theorem C13_batch_general : forall ak d b,
  rbatch_valid_gen ak RT b = true -> all_reversible RT b = true ->
  batch_reversed_gen RT d b (reversal_batch RT d b)
  /\ rbatch_valid_gen ak RT (reversal_batch RT d b) = batch_survives ak RT b.
Proof. exact c13_batch_general. Qed.
Print Assumptions C13_batch_general.

(* A batch not described PRENOTE always survives ... *)
Theorem C13_survives_not_prenote : forall ak b,
  rbatch_valid_gen ak RT b = true -> is_prenote_desc (rb_desc b) = false -> batch_survives ak RT b = true.
Proof. exact c13_survives_not_prenote. Qed.
Print Assumptions C13_survives_not_prenote.

(* ... a batch described PRENOTE survives iff all its forward entries carry prenote codes (return
   and NOC entries never matter). *)
Theorem C13_survives_prenote : forall ak b,
  rbatch_valid_gen ak RT b = true -> is_prenote_desc (rb_desc b) = true ->
  batch_survives ak RT b = forallb (prenote_coded ak rev_prenote_codes) (rb_entries b).
Proof. exact c13_survives_prenote. Qed.
Print Assumptions C13_survives_prenote.

(* Hence: the reversal of every valid batch of reversible codes that is not described PRENOTE,
   or is described PRENOTE and holds prenote-coded forward entries only, is valid.  What is left
   out is exactly the known finding reversal:prenote-description-zero-amount (C13_batch_refuted,
   C13_general_examples). *)
Theorem C13_batch_general_valid : forall ak d b,
  rbatch_valid_gen ak RT b = true -> all_reversible RT b = true ->
  (is_prenote_desc (rb_desc b) = false \/ forallb (prenote_coded ak rev_prenote_codes) (rb_entries b) = true) ->
  rbatch_valid_gen ak RT (reversal_batch RT d b) = true.
Proof. exact c13_batch_general_valid. Qed.
Print Assumptions C13_batch_general_valid.

(* Every valid file of reversible codes: Reversal succeeds, every batch is reversed as above,
   creation date / time are the requested ones, the file totals are swapped, and the result is
   valid exactly when every batch survives. *)
Theorem C13_file_general : forall ak d t f,
  rfile_valid_gen ak RT f = true -> file_all_reversible RT f = true ->
  exists f', reversal_file RT d t f = ROk f' /\ file_reversed_gen RT ak d t f f'.
Proof. exact c13_file_general. Qed.
Print Assumptions C13_file_general.

(* Double reversal returns the original entries (codes, amounts, identities, trace numbers) and
   the original control totals. *)
Theorem C13_twice_general : forall d1 d2 b, all_reversible RT b = true ->
  let b2 := reversal_batch RT d2 (reversal_batch RT d1 b) in
  rb_entries b2 = rb_entries b /\ rb_debit b2 = rb_debit b /\ rb_credit b2 = rb_credit b.
Proof. exact c13_twice_general. Qed.
Print Assumptions C13_twice_general.

(* Offsets: the OFFSET entries are flipped like every other entry (their codes go through the
   switch), so they keep balancing the batch: "offset debits = other credits and offset credits =
   other debits" holds after the reversal iff it held before. *)
Theorem C13_offsets_reversed : forall off d b, all_reversible RT b = true ->
  offsets_consistent off rev_amount_arms (rb_entries (reversal_batch RT d b)) = offsets_consistent off rev_amount_arms (rb_entries b)
  /\ offset_codes off (rb_entries (reversal_batch RT d b)) = map (rev_code reversal_arms) (offset_codes off (rb_entries b)).
Proof. exact c13_offsets_reversed. Qed.
Print Assumptions C13_offsets_reversed.

(* The four codes upsertOffsets assigns (22 27 32 37) are exchanged pairwise by the regenerated switch. *)
Theorem C13_offset_codes : map (rev_code reversal_arms) [22; 27; 32; 37] = [27; 22; 37; 32].
Proof. exact offset_codes_reversed. Qed.
Print Assumptions C13_offset_codes.

(* Non-vacuity: a valid file of a PRENOTE batch of prenote codes, a NOC batch, a return batch
   (neither of which the forward-only validity of Reversal.v accepts) and a batch balanced by an
   OFFSET entry; its reversal; the reversal is valid and the offset still balances; and the known
   finding's witness: valid, reversible, does not survive, reversal invalid. *)
Theorem C13_general_examples :
  (rfile_valid_gen ex_ak RT g_file = true /\ file_all_reversible RT g_file = true
   /\ forallb (batch_survives ex_ak RT) (rf_batches g_file) = true
   /\ is_prenote_desc (rb_desc g_prenote) = true
   /\ offsets_consistent ex_off rev_amount_arms (rb_entries g_offset) = true
   /\ rbatch_valid RT g_noc = false /\ rbatch_valid RT g_return = false)
  /\ match reversal_file RT [51]%N [52]%N g_file with
     | ROk f' => rfile_valid_gen ex_ak RT f' = true
                 /\ forallb (fun b => offsets_consistent ex_off rev_amount_arms (rb_entries b)) [nth 3 (rf_batches f') g_noc] = true
     | RErrNoBatches => False
     end
  /\ (rbatch_valid_gen ex_ak RT prenote_batch = true /\ all_reversible RT prenote_batch = true
      /\ batch_survives ex_ak RT prenote_batch = false
      /\ rbatch_valid_gen ex_ak RT (reversal_batch RT [50]%N prenote_batch) = false).
Proof. exact (conj g_hyps (conj g_reversed_valid g_prenote_witness)). Qed.
Print Assumptions C13_general_examples.

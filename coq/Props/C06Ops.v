(* C06 (phase 2) — No input makes the library or the HTTP server panic: the nil-safety of the public
   operations, of the JSON post-processing and of the 18 routes, on SHAPES (which optional sub-record is
   nil, which list element is nil/null; TotalOps.v, TotalJson.v), for every outcome of the data-dependent
   checks (the oracle).  Only statements here; every proof is `exact <lemma>`.

   DESIGN.md names C06_ops_total, C06_json_total, C06_handlers_total.  As built:
   - C06_ops_total is FALSE for arbitrary shapes (C06_ops_total_refuted: nil Batcher, nil header, nil
     control, nil entry, nil addenda element, … — known findings shape:<class>, each replayed on the real
     code) and is proved under the well-formedness hypothesis that excludes exactly those classes
     (C06_ops_total_partial; C06_shape_classes_exhaustive);
   - C06_json_total_partial: the post-processing of a decoded document is total for ANY document; the
     decoding itself is encoding/json's (contract);
   - C06_handlers_total_partial: request lists against a repository of well-formed files; NACHA-text
     bodies are assumed to parse to well-formed files (the reader's invariants stay search-only). *)
From Coq Require Import String List Bool Arith.
Import ListNotations.
From ACH Require Import PartialTable PartialAccounted OpSiteTable OpsCovered OpSites TotalOps TotalOpsFacts TotalJson TotalJsonFacts C06OpsObl.

(* ---- operations *)

(* call sequences over {Validate, Create, Write (with and without validation), MarshalJSON, SegmentFile,
   MergeFiles, Reversal, Batch.Create, Batch.Validate}: on a well-formed file no step panics, whatever the
   data-dependent checks answer, whether the previous step returned an error or not *)
Theorem C06_ops_total_partial : forall (f : file) (xs : list op) (o : list bool),
  wf_file f = true -> ~ In OFlatten xs -> panics (run_ops xs f o) = false.
Proof. exact ops_total_wf. Qed.
Print Assumptions C06_ops_total_partial.

(* … FlattenBatches included (mergeableBatcher.Copy keeps a plain Batch when NewBatch rejects the SEC code; until that
   repair this needed every batch header to carry a SEC code NewBatch accepts, see the two statements below) *)
Theorem C06_ops_total_all_partial : forall (f : file) (xs : list op) (o : list bool),
  wf_file f = true -> panics (run_ops xs f o) = false.
Proof. exact ops_total_all. Qed.
Print Assumptions C06_ops_total_all_partial.

Theorem C06_ops_result_total_all_partial : forall (f : file) (xs : list op) (o : list bool),
  wf_file f = true -> panics (run_ops_result xs f o) = false.
Proof. exact ops_result_total_all. Qed.
Print Assumptions C06_ops_result_total_all_partial.

(* … the same under the stronger hypothesis that every batch header carries a SEC code NewBatch accepts
   (the shape invariant of the Reader's files) *)
Theorem C06_ops_total_strict_partial : forall (f : file) (xs : list op) (o : list bool),
  wf_file_strict f = true -> panics (run_ops xs f o) = false.
Proof. exact ops_total_strict. Qed.
Print Assumptions C06_ops_total_strict_partial.

(* … also when each operation continues on the file the previous one returned (SegmentFile: the credit
   file; FlattenBatches: the flattened file; MergeFiles: the merged file): the files the operations build
   are well-formed again *)
Theorem C06_ops_result_total_partial : forall (f : file) (xs : list op) (o : list bool),
  wf_file_strict f = true -> panics (run_ops_result xs f o) = false.
Proof. exact ops_result_total_strict. Qed.
Print Assumptions C06_ops_result_total_partial.

(* the full statement (no hypothesis) is false: one witness per class of ill-formed shape *)
Theorem C06_ops_total_refuted : exists (f : file) (xs : list op) (o : list bool), panics (run_ops xs f o) = true.
Proof. exact ops_total_refuted. Qed.
Print Assumptions C06_ops_total_refuted.

Theorem C06_ops_refuted_witnesses :
  (file_class nil_batcher_file = ShNilBatcher /\ run_op OValidate nil_batcher_file [] = PANIC) /\
  (file_class nil_header_file = ShNilHeader /\ run_op OBatchValidate nil_header_file [] = PANIC) /\
  (file_class adv_then_nil_header = ShNilHeader /\ run_op OValidate adv_then_nil_header [] = PANIC) /\
  (file_class nil_control_file = ShNilControl /\ run_op OBatchValidate nil_control_file [] = PANIC) /\
  (file_class nil_advcontrol_file = ShNilControl /\ run_op OCreate nil_advcontrol_file [] = PANIC) /\
  (file_class nil_entry_file = ShNilEntry /\ run_op OValidate nil_entry_file [] = PANIC) /\
  (file_class nil_addenda_file = ShNilAddenda /\ run_op OValidate nil_addenda_file [] = PANIC) /\
  (file_class nil_iat_header_file = ShNilIATHeader /\ run_op OCreate nil_iat_header_file [] = PANIC) /\
  (file_class nil_iat_control_file = ShNilIATControl /\ run_op OCreate nil_iat_control_file [] = PANIC) /\
  (file_class nil_iat_entry_file = ShNilIATEntry /\ run_op OWriteBypass nil_iat_entry_file [] = PANIC) /\
  (file_class nil_iat_addenda_file = ShNilIATAddenda /\ run_op OBatchCreate nil_iat_addenda_file [] = PANIC) /\
  (wf_file unknown_sec_file = true /\ wf_file_strict unknown_sec_file = false /\ panics (run_op OFlatten unknown_sec_file []) = false).
Proof. exact ops_total_refuted_witnesses. Qed.
Print Assumptions C06_ops_refuted_witnesses.

(* the classes are exhaustive: a shape that is in none of them satisfies the hypothesis of the partial theorem *)
Theorem C06_shape_classes_exhaustive : forall f : file, file_class f = ShWf -> wf_file f = true.
Proof. exact file_class_wf. Qed.
Print Assumptions C06_shape_classes_exhaustive.

(* ---- JSON *)

(* FileFromJSON / FileFromJSONWith after encoding/json decoded the document: every pointer of the decoded
   structs may be nil and every array element null; no oracle makes the post-processing panic *)
Theorem C06_json_total_partial : forall (doc : file) (o : list bool), panics (file_from_json doc tt o) = false.
Proof. exact json_total. Qed.
Print Assumptions C06_json_total_partial.

(* every file it returns, with or without error, is well-formed: C06_ops_total_partial applies to it *)
Theorem C06_json_result_wf : forall (doc : file) (o : list bool) f ok s o',
  file_from_json doc tt o = OK (f, ok) s o' -> wf_file f = true.
Proof. exact json_result_wf. Qed.
Print Assumptions C06_json_result_wf.

(* ---- server *)

(* request lists over the 18 routes against a repository of well-formed files: no panic, whatever the
   data-dependent checks answer.  strict = false: any JSON document, NACHA-text bodies that parse to
   well-formed files, no POST …/flatten; strict = true: flatten allowed, every SEC code of the stored files
   and of the documents is one NewBatch accepts *)
Theorem C06_handlers_total_partial : forall (strict : bool) (r : repo) (xs : list route) (o : list bool),
  Forall (fun p => wf_file_s strict (snd p) = true) r ->
  forallb (route_ok strict) xs = true ->
  panics (serve xs r o) = false.
Proof. exact handlers_total. Qed.
Print Assumptions C06_handlers_total_partial.

(* ---- ties to the source *)

Theorem C06_ops_sites_covered : covered_ok ops_functions ops_cover op_sites = true.
Proof. exact ops_sites_covered. Qed.
Print Assumptions C06_ops_sites_covered.

Theorem C06_ops_sites_covered_meaning : forall s,
  In s op_sites -> In (o_func s) ops_functions -> is_ptr s = true ->
  exists c, In c ops_cover /\ c_func c = o_func s /\ c_path c = o_path s.
Proof. exact ops_sites_covered_meaning. Qed.
Print Assumptions C06_ops_sites_covered_meaning.

Theorem C06_ops_cover_exact : cover_exact ops_functions ops_cover op_sites = true.
Proof. exact ops_cover_exact. Qed.
Print Assumptions C06_ops_cover_exact.

Theorem C06_accounted_refined : refined_ok ops_cover accounted op_sites = true.
Proof. exact accounted_refined. Qed.
Print Assumptions C06_accounted_refined.

Theorem C06_batchers_uniform : batchers_ok batcher_names batcher_types = true.
Proof. exact batchers_uniform. Qed.
Print Assumptions C06_batchers_uniform.

Theorem C06_nil_receivers_accepted : nil_safe_ok nil_safe_needed nil_safe_methods = true.
Proof. exact nil_receivers_accepted. Qed.
Print Assumptions C06_nil_receivers_accepted.

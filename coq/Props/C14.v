(* C14 — Validating, rendering and serialising never modify the file.
   Only statements here; every proof is `exact <lemma>`. *)
From Coq Require Import String List Bool NArith.
From ACH Require Import Bytes EffectTable Purity PurityFacts Effects C14Obl.

(* the write-set of the read-only entry points, regenerated from the SSA form of the
   source of this run, contains only modelled effects *)
Theorem C14_effect_table_ok : effects_ok effects = true.
Proof. exact effects_table_ok. Qed.

Theorem C14_effect_roots_ok : roots_ok effects_roots effects_closure = true.
Proof. exact effects_roots_ok. Qed.

Theorem C14_model_effects_in_table : model_effects_present effects = true.
Proof. exact effects_model_present. Qed.

(* each entry of the table is the identity on files without nil header / control *)
Theorem C14_noop : forall e, In e effects ->
  exists c, class_of e = Some c /\ forall i f, inv f = true -> sem c i f = f.
Proof. exact effects_noop. Qed.
Print Assumptions C14_noop.

(* any sequence of instances of table entries — any program the analysis accepts — is
   the identity on such files *)
Theorem C14_trace_pure : forall tr f, Forall from_table tr -> inv f = true -> run tr f = f.
Proof. exact effects_trace_pure. Qed.
Print Assumptions C14_trace_pure.

(* the literal model of every operation is such a sequence *)
Theorem C14_step_refines : forall f o,
  step f o = run (op_trace f o) f /\ Forall from_table (op_trace f o).
Proof. exact step_from_table. Qed.
Print Assumptions C14_step_refines.

(* the property: for every history over the operations the observation is unchanged, on
   every file that has no nil header / control up to and including its first ADV batch *)
Theorem C14_history : forall ops f, prefix_inv f = true -> observe (fold_left step ops f) = observe f.
Proof. exact history_prefix. Qed.
Print Assumptions C14_history.

Theorem C14_condition_kept : forall f o, prefix_inv f = true -> prefix_inv (step f o) = true.
Proof. exact prefix_inv_step. Qed.

(* ... which holds for what Reader.Read returns and for what File.Create leaves behind
   (both end with IsADV), ADV files included; the model of the two constructions is only
   "every batch comes from NewBatch, then IsADV runs" (partial: checked against the real
   Reader and generators by the oracle) *)
Theorem C14_reader_condition_partial : forall secs, prefix_inv (reader_file secs) = true.
Proof. exact prefix_inv_reader. Qed.

Theorem C14_history_reader_partial : forall ops secs,
  observe (fold_left step ops (reader_file secs)) = observe (reader_file secs).
Proof. exact history_reader. Qed.
Print Assumptions C14_history_reader_partial.

Theorem C14_history_created_partial : forall ops secs,
  observe (fold_left step ops (created secs)) = observe (created secs).
Proof. exact history_created. Qed.
Print Assumptions C14_history_created_partial.

(* files assembled with NewBatch / AddBatch only (no Create): pure when no batch is ADV *)
Theorem C14_history_built_partial : forall ops secs, no_adv secs = true ->
  observe (fold_left step ops (built secs)) = observe (built secs).
Proof. exact history_built. Qed.
Print Assumptions C14_history_built_partial.

(* ... and not in general: NewBatchADV leaves Control nil and the first Validate / Write
   installs one (known finding api:adv-batch-before-create) *)
Theorem C14_history_built_adv_refuted :
  exists secs ops, observe (fold_left step ops (built secs)) <> observe (built secs).
Proof. exact purity_built_adv_refuted. Qed.
Print Assumptions C14_history_built_adv_refuted.

Theorem C14_inv_step : forall f o, inv f = true -> inv (step f o) = true.
Proof. exact inv_step. Qed.

(* for all files, with nil pointers or not: a history ends in the file itself or in its
   normal form, and the operations are pure on exactly the files without a nil header /
   control up to and including the first ADV batch *)
Theorem C14_history_general : forall ops f,
  fold_left step ops f = f \/ fold_left step ops f = install f.
Proof. exact history_general. Qed.
Print Assumptions C14_history_general.

Theorem C14_pure_iff : forall f,
  (forall ops, observe (fold_left step ops f) = observe f) <-> prefix_inv f = true.
Proof. exact pure_observe_iff. Qed.
Print Assumptions C14_pure_iff.

Theorem C14_install_idempotent : forall f, install (install f) = install f.
Proof. exact install_idem. Qed.

(* without the invariant the statement is false of the code as it stands: Validate
   installs a default header and control into a batch that has none *)
Theorem C14_without_condition_refuted :
  exists f ops, prefix_inv f = false /\ observe (fold_left step ops f) <> observe f.
Proof. exact purity_without_inv_refuted. Qed.
Print Assumptions C14_without_condition_refuted.

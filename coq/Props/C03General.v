(* C03, phase 2: the GENERAL statements.  What the control record of an accepted batch
   equals for arbitrary routing-number strings and arbitrary mixes of accepted
   transaction codes — no side condition.  The `_partial` theorems of Props/C03.v
   (8 stored digits, codes_regular) are corollaries (C03_batch_arith_regular).
   Only statements; every proof is `exact <lemma>`. *)
From Coq Require Import List Bool ZArith.
From ACH Require Import ArithGenFacts Tables C03Obl C03GenObl.
Open Scope Z_scope.

(* every batch kind, every accepted batch:
     - hash   = (Σ atoi (aba8 RDFI)) rem 10^10   — aba8/atoi on the strings AS STORED
     - totals = sums over the codes of the batch's own family by direction
                (units digit; ADV: odd/even of 81..88); amounts carried by codes of
                the other family (81..88 in an IAT batch, anything else in an ADV batch)
                are in NEITHER total, and credit + debit + foreign = Σ amounts *)
Theorem C03_batch_arith_general : forall b, validate_batch T b = ROk ->
  bc_count (bt_ctl b) = spec_count (bt_entries b) /\
  bc_debit (bt_ctl b) = gen_debit (bt_kind b) (bt_entries b) /\
  bc_credit (bt_ctl b) = gen_credit (bt_kind b) (bt_entries b) /\
  bt_class b = bc_class (bt_ctl b) /\ bt_odfi b = bc_odfi (bt_ctl b) /\ bt_number b = bc_number (bt_ctl b) /\
  bc_hash (bt_ctl b) = gen_hash (bt_entries b) /\
  bc_credit (bt_ctl b) + bc_debit (bt_ctl b) + foreign_amount (bt_kind b) (bt_entries b) = sumz en_amount (bt_entries b).
Proof. exact c03_batch_arith_general. Qed.
Print Assumptions C03_batch_arith_general.

(* the ADV code list of the source is exactly 81..88, for every integer *)
Theorem C03_advcodes : forall c, memz c (t_advcodes T) = adv_code c.
Proof. exact c03_advcodes. Qed.
Print Assumptions C03_advcodes.

(* the hash summand, for ANY stored string: at most eight digits *)
Theorem C03_hash_summand_range : forall e, - 10 ^ 8 < aba8_num e < 10 ^ 8.
Proof. exact aba8_num_range. Qed.

(* ... hence no int64 wrap of the routing-number sum, whatever is stored *)
Theorem C03_no_overflow_hash_any : forall es, Z.of_nat (length es) < 9 * 10 ^ 8 -> - 2 ^ 63 < hash_sum es < 2 ^ 63.
Proof. exact no_overflow_hash_any. Qed.
Print Assumptions C03_no_overflow_hash_any.

(* closed form of the summand on digit strings of every length *)
Theorem C03_hash_summand_digits : forall r, forallb is_digit r = true -> atoi (aba8 r) = aba8_digits_num r.
Proof. exact aba8_num_digits. Qed.
Print Assumptions C03_hash_summand_digits.

(* the number in the 8 routing columns of the written record, digit strings of every length *)
Theorem C03_hash_field_digits : forall e, forallb is_digit (en_rdfi e) = true ->
  rdfi_num e = digits_val (firstn 8 (en_rdfi e)) 0.
Proof. exact rdfi_num_digits. Qed.

(* the two agree for 8 or 9 stored digits *)
Theorem C03_hash_summand_89 : forall e, rdfi_89 e -> aba8_num e = rdfi_num e.
Proof. exact aba8_num_89. Qed.

Theorem C03_hash_89 : forall es, Forall rdfi_89 es -> gen_hash es = spec_hash es.
Proof. exact gen_hash_89. Qed.
Print Assumptions C03_hash_89.

Theorem C03_hash_digits : forall es, Forall (fun e => forallb is_digit (en_rdfi e) = true) es ->
  gen_hash es = sumz (fun e => aba8_digits_num (en_rdfi e)) es mod 10 ^ 10.
Proof. exact gen_hash_digits. Qed.

(* without foreign codes: the declarative totals *)
Theorem C03_totals_regular : forall k es, codes_regular T k es ->
  gen_credit k es = spec_credit k es /\ gen_debit k es = spec_debit k es /\ foreign_amount k es = 0.
Proof. exact c03_totals_regular. Qed.

(* C03_batch_arith_partial as a corollary, with the hash hypothesis weakened from
   "8 stored digits" to "8 or 9 stored digits" and the conservation of amounts added *)
Theorem C03_batch_arith_regular : forall b,
  validate_batch T b = ROk -> codes_regular T (bt_kind b) (bt_entries b) ->
  bc_count (bt_ctl b) = spec_count (bt_entries b) /\
  bc_debit (bt_ctl b) = spec_debit (bt_kind b) (bt_entries b) /\
  bc_credit (bt_ctl b) = spec_credit (bt_kind b) (bt_entries b) /\
  bt_class b = bc_class (bt_ctl b) /\ bt_odfi b = bc_odfi (bt_ctl b) /\ bt_number b = bc_number (bt_ctl b) /\
  (Forall rdfi_89 (bt_entries b) -> bc_hash (bt_ctl b) = spec_hash (bt_entries b)) /\
  bc_credit (bt_ctl b) + bc_debit (bt_ctl b) = sumz en_amount (bt_entries b).
Proof. exact c03_batch_arith_regular. Qed.
Print Assumptions C03_batch_arith_regular.

(* non-vacuity / witnesses *)
Theorem C03_general_example_iat :
  validate_batch T iat_adv_code = ROk /\ foreign_amount KIAT (bt_entries iat_adv_code) = 700 /\
  gen_credit KIAT (bt_entries iat_adv_code) = 0 /\ gen_debit KIAT (bt_entries iat_adv_code) = 0.
Proof. exact general_example_iat. Qed.
Theorem C03_general_example_adv :
  validate_batch T adv_mixed = ROk /\ foreign_amount KADV (bt_entries adv_mixed) = 50 /\
  gen_credit KADV (bt_entries adv_mixed) = 900 /\ gen_debit KADV (bt_entries adv_mixed) = 300.
Proof. exact general_example_adv. Qed.
Theorem C03_general_example_nine :
  validate_batch T nine_batch = ROk /\ Forall rdfi_89 (bt_entries nine_batch) /\
  ~ Forall rdfi_wf (bt_entries nine_batch) /\ spec_hash (bt_entries nine_batch) = 23138010.
Proof. exact general_example_nine. Qed.
Theorem C03_general_example_short :
  gen_hash (bt_entries short_batch) = 0 /\ spec_hash (bt_entries short_batch) = 2313801.
Proof. exact general_example_short. Qed.
(* the hash equation against the written field fails for ten stored digits as well *)
Theorem C03_hash_ten_rdfi_refuted :
  validate_batch T ten_batch = ROk /\ bc_hash (bt_ctl ten_batch) = 23138010 /\
  spec_hash (bt_entries ten_batch) = 2313801 /\ gen_hash (bt_entries ten_batch) = 23138010.
Proof. exact hash_ten_rdfi. Qed.
(* why the general statement uses Go's remainder (rem), not mod *)
Theorem C03_hash_negative_summand :
  validate_batch T neg_batch = ROk /\ gen_hash (bt_entries neg_batch) = -1234567.
Proof. exact hash_negative_summand. Qed.

(* END TO END, phase 8: the file control of a file that was READ and validated, in terms
   of the ENTRIES of every batch of every kind (composition of C03_read_validate,
   C03_file_arith / C03_file_arith_adv and C03_batch_arith_general; no side condition):
     entry/addenda count = Σ_batches Σ_entries (1 + addenda)
     debit / credit      = Σ_batches of the batch's own-family totals by direction
     entry hash          = (Σ_batches ((Σ atoi (aba8 RDFI)) rem 10^10)) rem 10^10        *)
Theorem C03_read_validate_entries : forall f, read_validate T f = ROk -> is_adv_file f = false ->
  fc_count (fl_ctl f) = sumz (fun b => spec_count (bt_entries b)) (all_batches f) /\
  fc_debit (fl_ctl f) = sumz (fun b => gen_debit (bt_kind b) (bt_entries b)) (all_batches f) /\
  fc_credit (fl_ctl f) = sumz (fun b => gen_credit (bt_kind b) (bt_entries b)) (all_batches f) /\
  fc_hash (fl_ctl f) = Z.rem (sumz (fun b => gen_hash (bt_entries b)) (all_batches f)) (10 ^ 10).
Proof. exact c03_read_validate_entries. Qed.
Print Assumptions C03_read_validate_entries.

Theorem C03_read_validate_entries_adv : forall f, read_validate T f = ROk -> is_adv_file f = true ->
  fc_count (fl_ctl f) = sumz (fun b => spec_count (bt_entries b)) (fl_batches f) /\
  fc_debit (fl_ctl f) = sumz (fun b => gen_debit (bt_kind b) (bt_entries b)) (fl_batches f) /\
  fc_credit (fl_ctl f) = sumz (fun b => gen_credit (bt_kind b) (bt_entries b)) (fl_batches f) /\
  fc_hash (fl_ctl f) = Z.rem (sumz (fun b => gen_hash (bt_entries b)) (fl_batches f)) (10 ^ 10).
Proof. exact c03_read_validate_entries_adv. Qed.
Print Assumptions C03_read_validate_entries_adv.

Theorem C03_read_validate_entries_example :
  read_validate T ex_file = ROk /\ is_adv_file ex_file = false /\ all_batches ex_file <> [].
Proof. exact read_validate_entries_example. Qed.

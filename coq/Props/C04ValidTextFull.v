(* C04 — tampered or truncated files are never accepted as something else: the two TEXT-level
   theorems on the validating reader (Reader.Read with its validation + File.Validate()) that phase 6
   left _partial, now without the extra hypotheses.  Only statements.  Notation as in
   Props/C04ValidText.v:

     accepts LT RT AT text = Some g   ach.NewReader(text).Read() returns g, no batch was left without
                                      control record, g.Validate() finds nothing
     s : fileS, write le s            a structured list of record lines and its text (LF / CRLF, final
                                      block padding included)
     tamper s site col d              s with character col of the line of the site replaced by d
     bridge_okb LT s                  the structural and the typed reader agree on s
     body s                           the lines in front of the file control record
     nines                            a filler line (94 times '9')
     LT, RT, AT                       Gen/Layouts.v, Gen/RecRules.v, Gen/Tables.v of this run *)
From Coq Require Import String List NArith ZArith Bool.
From ACH Require Import Arith TamperText TamperTextFacts TamperTextLift TruncBytes TruncUtf8 TruncUtf8Facts NumFacts.
From ACH Require Import ReaderSkel TamperValidFacts TamperValidSurgery TruncValidFacts.
From ACH Require Import C01FileEx C01FileObl C01ValidObl C04ValidTextObl C04ValidTextFullObl C04ValidTruncObl C04ValidFullEx.
Import ListNotations.
Local Open Scope string_scope.
Local Open Scope nat_scope.

(* the list surgery: ANY line function that keeps, on the line of the site, the 94 well-formed
   characters and the record type — and on a batch header the batch kind as both readers decide it —
   keeps the three structure facts of the file *)
Theorem C04_map_line_keeps_structure : forall s site g l,
  site_line s site = Some l ->
  uline (g l) -> rtype (g l) = rtype l ->
  (forall bi, site = SBatchHdr bi -> kind_of_hdr (g l) = kind_of_hdr l /\ iat_line (g l) = iat_line l) ->
  file_typed s = true -> utf8_records s -> bridge_okb LT s = true ->
  file_typed (map_line s site g) = true /\ utf8_records (map_line s site g) /\ bridge_okb LT (map_line s site g) = true.
Proof. exact (map_line_keeps LT). Qed.
Print Assumptions C04_map_line_keeps_structure.

(* the lemma phase 6 named as missing, as stated there.  One character behind column 0 replaced by a
   digit; on a batch header behind column 53 (the batch kind is decided on characters / bytes 4..20
   and 50..53 by both readers; BatchHeader.Parse cuts the SEC code at characters 50..53: bh_sec_cut) *)
Theorem C04_tamper_keeps_structure : forall s site col d l,
  site_line s site = Some l -> 1 <= col -> is_digit d = true ->
  (forall bi, site = SBatchHdr bi -> 53 <= col) ->
  file_typed s = true -> utf8_records s -> bridge_okb LT s = true ->
  file_typed (tamper s site col d) = true /\ utf8_records (tamper s site col d) /\ bridge_okb LT (tamper s site col d) = true.
Proof. exact c04_tamper_keeps_general. Qed.
Print Assumptions C04_tamper_keeps_structure.

(* ... for a digit of any of the 46 protected columns (a protected column of a batch header lies at
   79..94, behind everything the batch kind is decided on): no side condition is left *)
Theorem C04_tamper_protected_keeps_structure : forall s site p line j d,
  file_typed s = true -> utf8_records s -> bridge_okb LT s = true ->
  In p protected_columns -> site_class s site = Some (p_class p) -> site_line s site = Some line ->
  j < p_hi p - p_lo p -> is_digit d = true ->
  digitsb (column line (p_lo p) (p_hi p)) = true ->
  nth j (column line (p_lo p) (p_hi p)) 0%N <> d ->
  (p_kind p = CKNum -> (digits_val (column line (p_lo p) (p_hi p)) 0 < max_int64)%Z) ->
  let s' := tamper s site (p_lo p + j) d in
  file_typed s' = true /\ utf8_records s' /\ bridge_okb LT s' = true.
Proof. exact c04_tamper_keeps. Qed.
Print Assumptions C04_tamper_protected_keeps_structure.

(* C04_valid_reader_tamper_text.  A written text that Read + Validate accept; one digit of one
   protected column (the 46 rows of protected_columns) of one of its lines replaced by another digit:
   Read + Validate do not accept the tampered text — as the original or as anything else.  Side
   conditions as in C04_tamper_text_line_rejected (batch_regular: IAT / ADV batches without foreign
   accounting codes, routing numbers stored as 8 digits; numeric column below max_int64).  Nothing is
   assumed about the tampered lines. *)
Theorem C04_valid_reader_tamper_text : forall s le g0 site p line j d,
  le_ok le -> file_typed s = true -> utf8_records s -> bridge_okb LT s = true ->
  accepts LT RT AT (write le s) = Some g0 ->
  Forall (batch_regular AT) (all_batches (skel s)) ->
  In p protected_columns -> site_class s site = Some (p_class p) -> site_line s site = Some line ->
  j < p_hi p - p_lo p -> is_digit d = true ->
  digitsb (column line (p_lo p) (p_hi p)) = true ->
  nth j (column line (p_lo p) (p_hi p)) 0%N <> d ->
  (p_kind p = CKNum -> (digits_val (column line (p_lo p) (p_hi p)) 0 < max_int64)%Z) ->
  accepts LT RT AT (write le (tamper s site (p_lo p + j) d)) = None.
Proof. exact c04_valid_reader_tamper_text_full. Qed.
Print Assumptions C04_valid_reader_tamper_text.

(* ... the line written through its layout from a record that fits (String() of the record) *)
Theorem C04_valid_reader_tamper_text_rendered : forall s le g0 site p r j d,
  le_ok le -> file_typed s = true -> utf8_records s -> bridge_okb LT s = true ->
  accepts LT RT AT (write le s) = Some g0 ->
  Forall (batch_regular AT) (all_batches (skel s)) ->
  In p protected_columns -> site_class s site = Some (p_class p) ->
  site_line s site = Some (render (p_layout p) r) -> fitsb (p_layout p) r = true -> col_value_ok p r ->
  j < p_hi p - p_lo p -> is_digit d = true ->
  nth j (column (render (p_layout p) r) (p_lo p) (p_hi p)) 0%N <> d ->
  accepts LT RT AT (write le (tamper s site (p_lo p + j) d)) = None.
Proof. exact c04_valid_reader_tamper_text_rendered_full. Qed.
Print Assumptions C04_valid_reader_tamper_text_rendered.

(* the second lemma phase 6 named as missing: a byte prefix of a written text that the STRUCTURAL
   reader does not read is not accepted by Read + Validate (any offset; behind the start of the
   control record the two cases are the cut control record spilling into a second line of U+FFFD
   characters and a filler line cut after its first character) *)
Theorem C04_valid_reader_unread_prefix : forall s le k,
  le_ok le -> file_typed s = true -> utf8_records s -> starts99 (f_ctl s) = false -> k < length (write le s) ->
  TamperText.read_text (firstn k (write le s)) = None -> accepts LT RT AT (firstn k (write le s)) = None.
Proof. exact c04_read_none_not_accepted. Qed.
Print Assumptions C04_valid_reader_unread_prefix.

(* C04_valid_reader_truncation.  EVERY proper byte prefix (any offset, inside multi-byte characters
   too, LF or CRLF) of the written text of an accepted file is either not accepted, or accepted as a
   file with exactly the protected values of the original.  Which of the two:
     k <= length (text_of le (body s))     (the cut is in front of the control record)  not accepted:
                                           C04_valid_reader_truncation_before_control;
     inside the control record              not accepted, or the same protected values (this theorem;
                                           which one depends on the columns that were cut off); at or
                                           behind the column from which the record is blank: the SAME
                                           tree, C04_valid_reader_truncation_blank_tail;
     behind the control record              the SAME tree, except one offset per filler line:
                                           C04_valid_reader_truncation_filler below. *)
Theorem C04_valid_reader_truncation : forall s le k g0,
  le_ok le -> file_typed s = true -> utf8_records s -> bridge_okb LT s = true ->
  accepts LT RT AT (write le s) = Some g0 -> k < length (write le s) ->
  accepts LT RT AT (firstn k (write le s)) = None
  \/ exists g, accepts LT RT AT (firstn k (write le s)) = Some g /\ p_file g = p_file g0.
Proof. exact c04_valid_reader_truncation. Qed.
Print Assumptions C04_valid_reader_truncation.

(* prefixes that end behind the control record and its line end — n whole filler lines and c <= 94
   characters of the next one — ARE the same file: Read + Validate return the very same tree g0.  The
   one exception is c = 1: the cut filler line is "9" and 93 blanks, a second file control record, and
   Read fails. *)
Theorem C04_valid_reader_truncation_filler : forall s le g0 n c,
  le_ok le -> file_typed s = true -> utf8_records s -> bridge_okb LT s = true ->
  accepts LT RT AT (write le s) = Some g0 ->
  n < pad_count (length (record_lines s)) -> c <= 94 ->
  accepts LT RT AT (firstn (length (text_of le (record_lines s ++ repeat nines n)) + c) (write le s))
  = if c =? 1 then None else Some g0.
Proof. exact c04_valid_reader_truncation_filler. Qed.
Print Assumptions C04_valid_reader_truncation_filler.

(* inside the control record: an ASCII control record (what the library writes) that is blank from
   column b on (b = 55, for ADV 71, for a record written through its layout: C04_truncation_blank_tail),
   cut after c >= b characters: the padded line IS the control record and the very same tree is
   returned *)
Theorem C04_valid_reader_truncation_blank_tail : forall s le g0 b c,
  le_ok le -> file_typed s = true -> utf8_records s -> bridge_okb LT s = true ->
  accepts LT RT AT (write le s) = Some g0 ->
  asciib (f_ctl s) = true -> skipn b (f_ctl s) = repeat sp (94 - b) -> b <= c <= 94 -> 1 <= c ->
  accepts LT RT AT (firstn (length (text_of le (body s)) + c) (write le s)) = Some g0.
Proof. exact c04_valid_reader_truncation_blank_tail. Qed.
Print Assumptions C04_valid_reader_truncation_blank_tail.

(* the reason of the verdict for the lines of every proper byte prefix: no control line / a line of
   U+FFFD / a second control record / the records and padding / the control record cut *)
Theorem C04_valid_reader_prefix_classes : forall s le k,
  le_ok le -> file_typed s = true -> utf8_records s -> starts99 (f_ctl s) = false -> k < length (write le s) ->
  exists L, all_lines (read_lines (firstn k (write le s))) = Some L /\ cut_class s L.
Proof. exact prefix_class. Qed.
Print Assumptions C04_valid_reader_prefix_classes.

(* non-vacuity.  The hypotheses of C04_valid_reader_tamper_text hold for a site of the written lines
   of the standard, the IAT and the ADV example file of C01 (the conclusions below are obtained from
   the THEOREM; the accept codes computed by the model agree: 1 = Read fails, 3 = Validate fails) *)
Theorem C04_valid_text_full_example_tamper :
  accepts LT RT AT (write CRLF_b (tamper vx (SBatchCtl 0) (10 + 9) 55)) = None
  /\ accepts LT RT AT (write LF_b (tamper vx_iat (SEntry 0 0) (29 + 8) 55)) = None
  /\ accepts LT RT AT (write LF_b (tamper vx_adv SFileCtl (13 + 7) 55)) = None.
Proof. exact (conj vx_tamper_by_theorem (conj vx_iat_tamper_by_theorem vx_adv_tamper_by_theorem)). Qed.

Theorem C04_valid_text_full_example_codes :
  accept_code LT RT AT (write CRLF_b (tamper vx (SBatchCtl 0) (10 + 9) 55)) = 1
  /\ accept_code LT RT AT (write LF_b (tamper vx_iat (SEntry 0 0) (29 + 8) 55)) = 1
  /\ accept_code LT RT AT (write LF_b (tamper vx_adv SFileCtl (13 + 7) 55)) = 3
  /\ bridge_okb LT (tamper vx_iat (SEntry 0 0) (29 + 8) 55) = true
  /\ bridge_okb LT (tamper vx_adv SFileCtl (13 + 7) 55) = true
  /\ file_typed (tamper vx_iat (SEntry 0 0) (29 + 8) 55) = true.
Proof. exact full_examples_codes. Qed.

Theorem C04_valid_text_full_example_hyps :
  (file_typed vx_iat = true /\ bridge_okb LT vx_iat = true /\ accept_code LT RT AT (write LF_b vx_iat) = 0
   /\ length (record_lines vx_iat) = 31 /\ pad_count (length (record_lines vx_iat)) = 9)
  /\ (file_typed vx_adv = true /\ bridge_okb LT vx_adv = true /\ accept_code LT RT AT (write LF_b vx_adv) = 0
      /\ adv_file vx_adv = true)
  /\ utf8_records vx_iat /\ utf8_records vx_adv.
Proof. exact (conj vx_iat_ok (conj vx_adv_ok (conj vx_iat_utf8 vx_adv_utf8))). Qed.

(* truncation of the three examples: the filler theorem applied (standard: 8 filler lines, IAT: 9),
   the general theorem on a cut inside the ADV control record (the ADV example has 10 records and no
   filler), and computed accept codes: body 1, control record cut at column 30 -> 3, behind its last
   significant column 0, filler cut after one character 1, after two 0 *)
Theorem C04_valid_text_full_example_truncation :
  ((exists g0, accepts LT RT AT (write CRLF_b vx) = Some g0
     /\ accepts LT RT AT (firstn (length (text_of CRLF_b (record_lines vx ++ repeat nines 3)) + 40) (write CRLF_b vx)) = Some g0
     /\ accepts LT RT AT (firstn (length (text_of CRLF_b (record_lines vx ++ repeat nines 0)) + 0) (write CRLF_b vx)) = Some g0)
   /\ accepts LT RT AT (firstn (length (text_of CRLF_b (record_lines vx ++ repeat nines 3)) + 1) (write CRLF_b vx)) = None
   /\ pad_count (length (record_lines vx)) = 8)
  /\ (accepts LT RT AT (firstn (length (text_of LF_b (record_lines vx_iat ++ repeat nines 8)) + 1) (write LF_b vx_iat)) = None
      /\ exists g0, accepts LT RT AT (firstn (length (text_of LF_b (record_lines vx_iat ++ repeat nines 8)) + 2) (write LF_b vx_iat)) = Some g0)
  /\ map (fun k => accept_code LT RT AT (firstn k (write LF_b vx_iat))) [95 * 20 + 7; 95 * 30 + 30; 95 * 30 + 60; 95 * 31; 95 * 31 + 1; 95 * 31 + 2; 95 * 33]
     = [1; 3; 0; 0; 1; 0; 0]
  /\ (map (fun k => accept_code LT RT AT (firstn k (write LF_b vx_adv))) [95 * 3 + 7; 95 * 9 + 30; 95 * 9 + 80; 95 * 10 - 1]
      = [1; 3; 0; 0] /\ length (record_lines vx_adv) = 10 /\ length (write LF_b vx_adv) = 950).
Proof. exact (conj vx_filler_by_theorem (conj vx_iat_filler_by_theorem (conj vx_iat_truncated vx_adv_truncated))). Qed.

Theorem C04_valid_text_full_example_blank_tail :
  exists g0, accepts LT RT AT (write CRLF_b vx) = Some g0
    /\ accepts LT RT AT (firstn (length (text_of CRLF_b (body vx)) + 60) (write CRLF_b vx)) = Some g0.
Proof. exact vx_blank_tail_by_theorem. Qed.

(* C20 — achcli masking never reveals protected account data or names.
   Only statements here; every proof is `exact <lemma>`. *)
From Coq Require Import String List Bool.
From ACH Require Import Utf8 Utf8Facts Mask MaskFacts DescribeTable Describe C20Obl.

(* maskNumber: at most four information-carrying bytes (neither blank nor '*')
   survive, none of them from the first two positions; hence any value with more
   significant bytes than that is not a substring of the masked text. *)
Theorem C20_number_budget : forall s,
  (count_sig (maskNumber s) <= Nat.min 4 (count_sig (skipn 2 s)))%nat.
Proof. exact maskNumber_count. Qed.
Print Assumptions C20_number_budget.

Theorem C20_number_hidden : forall s v,
  (Nat.min 4 (count_sig (skipn 2 s)) < count_sig v)%nat -> ~ substring v (maskNumber s).
Proof. exact maskNumber_hides. Qed.
Print Assumptions C20_number_hidden.

Theorem C20_number_hidden_long : forall s v,
  (5 <= count_sig v)%nat -> ~ substring v (maskNumber s).
Proof. exact maskNumber_hides_long. Qed.
Print Assumptions C20_number_hidden_long.

(* a value whose significant bytes are those of the field and that has one of
   them in the first two columns is never complete, whatever its length *)
Theorem C20_number_hidden_left_justified : forall s v,
  count_sig v = count_sig s -> (0 < count_sig (firstn 2 s))%nat -> ~ substring v (maskNumber s).
Proof. exact maskNumber_hides_left. Qed.
Print Assumptions C20_number_hidden_left_justified.

Theorem C20_number_length : forall s,
  length (maskNumber s) = if (rune_count s <? 5)%nat then 5%nat else rune_count s.
Proof. exact maskNumber_length. Qed.
Print Assumptions C20_number_length.

(* the full statement without the left-justification hypothesis is false of the
   code as it stands (known finding mask:number:leading-blanks-short) *)
Theorem C20_number_short_refuted :
  contains (maskNumber short_witness) [49; 50; 51; 52]%N = true /\ count_sig [49; 50; 51; 52]%N = 4%nat.
Proof. exact maskNumber_short_leak. Qed.
Print Assumptions C20_number_short_refuted.

(* maskName: no blank-free byte string with anything but '*' at byte index >= 2
   occurs in the output — in particular no word of four or more characters *)
Theorem C20_name_hidden : forall s w j,
  nospace w -> (2 <= j < length w)%nat -> nth j w 0%N <> star -> ~ substring w (maskName s).
Proof. exact maskName_hides. Qed.
Print Assumptions C20_name_hidden.

(* describe.File, as regenerated from the source of this run: every cell that
   derives from a protected accessor prints mask(value) when its flag is on,
   for every combination of the other flags ([on] is arbitrary) *)
Theorem C20_cells : forall c src flag fn on v,
  In c describe_cells -> In src (c_srcs c) -> protect src = Some (flag, fn) -> on flag = true ->
  exists s', eval_cell on c v = apply_fn fn s'.
Proof. exact describe_cells_masked. Qed.
Print Assumptions C20_cells.

Theorem C20_number_cells_hide : forall c src flag on v secret,
  In c describe_cells -> In src (c_srcs c) -> protect src = Some (flag, "maskNumber"%string) -> on flag = true ->
  (5 <= count_sig secret)%nat -> ~ substring secret (eval_cell on c v).
Proof. exact describe_number_cells_hide. Qed.
Print Assumptions C20_number_cells_hide.

Theorem C20_name_cells_hide : forall c src flag on v w j,
  In c describe_cells -> In src (c_srcs c) -> protect src = Some (flag, "maskName"%string) -> on flag = true ->
  nospace w -> (2 <= j < length w)%nat -> nth j w 0%N <> star -> ~ substring w (eval_cell on c v).
Proof. exact describe_name_cells_hide. Qed.
Print Assumptions C20_name_cells_hide.

Theorem C20_table_complete : table_complete describe_cells = true.
Proof. exact describe_table_complete. Qed.

Theorem C20_cli_flags : flag_map_ok describe_flag_map = true.
Proof. exact describe_flag_map_ok. Qed.

(* C06 — No input makes the library or the HTTP server panic or hang.
   Only statements here; every proof is `exact <lemma>`.

   Scope (see docs/C06.md): the theorems cover the slicing / indexing / optional-record logic
   that is modelled in Model/Totality.v and the slice and literal-index sites of the table
   regenerated from the source.  Everything else of the property (JSON decoding, the call
   sequences, the HTTP handlers, hangs) is search only: recover() + watchdog oracle. *)
From Coq Require Import String List Bool Arith.
Import ListNotations.
From ACH Require Import Utf8 Fields Totality TotalityFacts PartialTable PartialAccounted PartialSites C06Obl.
Open Scope nat_scope.

(* ---- reader: no line makes readLine / parseLine / parseBH / the addenda dispatch slice out of range *)

(* any line that is not the first line of the file, all byte strings *)
Theorem C06_read_line_total : forall line : bytes, is_panic (read_line false line) = false.
Proof. exact read_line_other_total. Qed.
Print Assumptions C06_read_line_total.

(* the first line, as Reader.Read cuts it (at most 94 runes).  Without the hypothesis the
   fixed-width branch (processFixedWidthFile) is entered; it is modelled (fixed_width) but not proved:
   partial, covered by the correspondence check and the oracle. *)
Theorem C06_read_first_line_total_partial : forall line : bytes,
  rune_count line <= record_length -> is_panic (read_line true line) = false.
Proof. exact read_line_first_total. Qed.
Print Assumptions C06_read_first_line_total_partial.

(* a whole file, line after line (an error of one line does not stop the reader) *)
Theorem C06_read_total_partial : forall ls : list bytes,
  match ls with l :: _ => rune_count l <= record_length | [] => True end ->
  is_panic (read_lines true ls) = false.
Proof. exact read_lines_total. Qed.
Print Assumptions C06_read_total_partial.

Theorem C06_parse_line_total : forall line : bytes, 53 <= length line -> is_panic (parse_line line) = false.
Proof. exact parse_line_total. Qed.
Print Assumptions C06_parse_line_total.

(* ---- C06_slicers: for each value-dependent slicer the exact condition under which it panics *)

Theorem C06_process_control_total : forall name, is_panic (process_control name) = false.
Proof. exact process_control_total. Qed.
Theorem C06_item_research_total : forall name, is_panic (item_research name) = false.
Proof. exact item_research_total. Qed.
Theorem C06_shr_card_exp_total : forall idn, is_panic (shr_card_exp idn) = false.
Proof. exact shr_card_exp_total. Qed.
Theorem C06_catx_addenda_records_total : forall name, is_panic (catx_addenda_records name) = false.
Proof. exact catx_addenda_records_total. Qed.
Theorem C06_catx_receiving_total : forall name, is_panic (catx_receiving name) = false.
Proof. exact catx_receiving_total. Qed.
Theorem C06_set_catx_addenda_records_total : forall i name, is_panic (set_catx_addenda_records i name) = false.
Proof. exact set_catx_addenda_records_total. Qed.
Theorem C06_set_catx_receiving_total : forall s name, is_panic (set_catx_receiving s name) = false.
Proof. exact set_catx_receiving_total. Qed.
Theorem C06_set_rdfi_total : forall rdfi, is_panic (set_rdfi rdfi) = false.
Proof. exact set_rdfi_total. Qed.
Theorem C06_aba8_total : forall rtn, is_panic (aba8 rtn) = false.
Proof. exact aba8_total. Qed.
Theorem C06_first_total : forall size data, is_panic (first size data) = false.
Proof. exact first_total. Qed.
Print Assumptions C06_aba8_total.

(* unguarded in the source: public accessors that panic exactly on short underlying values
   (known findings keyed by accessor; no validator or other library operation calls them) *)
Theorem C06_pop_check_serial_panics_iff : forall idn, pop_check_serial idn = Panic <-> length idn < 9.
Proof. exact pop_check_serial_iff. Qed.
Theorem C06_pop_terminal_city_panics_iff : forall idn, pop_terminal_city idn = Panic <-> length idn < 13.
Proof. exact pop_terminal_city_iff. Qed.
Theorem C06_pop_terminal_state_panics_iff : forall idn, pop_terminal_state idn = Panic <-> length idn < 15.
Proof. exact pop_terminal_state_iff. Qed.
Theorem C06_shr_doc_ref_panics_iff : forall idn, shr_doc_ref idn = Panic <-> length idn < 15.
Proof. exact shr_doc_ref_iff. Qed.
Theorem C06_catx_reserved_panics_iff : forall name, catx_reserved name = Panic <-> length name < 22.
Proof. exact catx_reserved_iff. Qed.
Theorem C06_iat_payment_amount_panics_iff : forall info, iat_payment_amount info = Panic <-> length info < 10.
Proof. exact iat_payment_amount_iff. Qed.
Theorem C06_iat_addenda_information_panics_iff : forall info, iat_addenda_information info = Panic <-> length info < 44.
Proof. exact iat_addenda_information_iff. Qed.
Theorem C06_a99_return_trace_panics_iff : forall info, a99_return_trace info = Panic <-> length info < 18.
Proof. exact a99_return_trace_iff. Qed.
Theorem C06_a99_settlement_date_panics_iff : forall info, a99_settlement_date info = Panic <-> length info < 21.
Proof. exact a99_settlement_date_iff. Qed.
Theorem C06_a99_reason_code_panics_iff : forall info, a99_reason_code info = Panic <-> length info < 23.
Proof. exact a99_reason_code_iff. Qed.
Theorem C06_a99_extra_panics_iff : forall info, a99_extra info = Panic <-> length info < 23.
Proof. exact a99_extra_iff. Qed.
Print Assumptions C06_a99_extra_panics_iff.

Theorem C06_unguarded_accessors_refuted :
  pop_check_serial (repeat 55%N 8) = Panic /\ pop_terminal_city (repeat 55%N 12) = Panic /\
  pop_terminal_state (repeat 55%N 14) = Panic /\ shr_doc_ref (repeat 55%N 14) = Panic /\
  catx_reserved (repeat 55%N 21) = Panic /\ iat_payment_amount (repeat 55%N 9) = Panic /\
  iat_addenda_information (repeat 55%N 43) = Panic /\ a99_return_trace (repeat 55%N 17) = Panic /\
  a99_settlement_date (repeat 55%N 20) = Panic /\ a99_reason_code (repeat 55%N 22) = Panic /\
  a99_extra (repeat 55%N 22) = Panic.
Proof. exact unguarded_accessors_refuted. Qed.

(* ---- validators that call the accessors are guarded, for every field value *)
Theorem C06_trc_xck_validate_entry_total : forall name, is_panic (trc_entry_check name) = false.
Proof. exact trc_entry_check_total. Qed.
Theorem C06_shr_validate_entry_total : forall idn, is_panic (shr_entry_check idn) = false.
Proof. exact shr_entry_check_total. Qed.
Print Assumptions C06_shr_validate_entry_total.

(* ---- optional sub-records, as the code stands after the fix commits (tiny models; partial:
   C06_ops_total / C06_json_total / C06_handlers_total of DESIGN.md are not modelled beyond these) *)
Theorem C06_reversal_control_total_partial : forall (A : Type) (d : A) c, is_panic (reversal_control d c) = false.
Proof. exact @reversal_control_total. Qed.
Theorem C06_segment_nil_file_total_partial : forall (F : Type) (f : option F), is_panic (segment_service f) = false.
Proof. exact @segment_service_total. Qed.
Theorem C06_json_null_entries_total_partial : forall (A : Type) (xs : list (option A)), is_panic (json_entries xs) = false.
Proof. exact @json_entries_total. Qed.

(* ---- C06_sites_covered: the table of partial operations regenerated from the source of this run *)

Theorem C06_sites_covered : sites_covered field_widths accounted partial_sites = true.
Proof. exact sites_ok. Qed.

Theorem C06_sites_covered_meaning : forall s, In s partial_sites -> site_needs s = true ->
  site_auto_safe field_widths s = true \/ exists a, In a accounted /\ a_func a = s_func s /\ a_text a = s_text s.
Proof. exact table_covered. Qed.
Print Assumptions C06_sites_covered_meaning.

(* a site the table discharges never panics, whatever the operand, provided the guards the
   source tests on the way to it hold ([sat x g true]: g evaluates to true on x under some
   valuation of its opaque parts) *)
Theorem C06_guarded_string_sites_safe : forall s, In s partial_sites -> site_auto_safe field_widths s = true ->
  s_op s = OpPath -> forall x : bytes, Forall (fun g => sat x g true) (s_guards s) ->
  is_panic (go_slice x (s_lo s) (s_hi s)) = false.
Proof. exact table_path_sites_safe. Qed.
Print Assumptions C06_guarded_string_sites_safe.

Theorem C06_guarded_rune_sites_safe : forall s, In s partial_sites -> site_auto_safe field_widths s = true ->
  s_op s = OpRunes -> forall x : bytes, Forall (fun g => sat x g true) (s_guards s) ->
  is_panic (go_slice (runes x) (s_lo s) (s_hi s)) = false.
Proof. exact table_rune_sites_safe. Qed.

Theorem C06_padded_field_sites_safe : forall s f, In s partial_sites -> site_auto_safe field_widths s = true ->
  s_op s = OpCall f -> exists conv w, lookup_width f field_widths = Some (conv, w) /\
  forall (v : bytes) (z : Z), is_panic (go_slice (conv_apply conv v z w) (s_lo s) (s_hi s)) = false.
Proof. exact table_call_sites_safe. Qed.
Print Assumptions C06_padded_field_sites_safe.

Theorem C06_model_sites_present : model_sites_ok model_sites partial_sites = true.
Proof. exact model_sites_present. Qed.

Theorem C06_validators_slice_free : slice_free_ok partial_sites = true.
Proof. exact validators_slice_free. Qed.

Theorem C06_accounted_live : accounted_live accounted partial_sites = true.
Proof. exact accounted_ok. Qed.

(* C04 — tampered files are never accepted as something else: the tamper theorems of Props/C04.v
   transferred to the model of the DEFAULT reader (Codec/ReaderValid.v).  Only statements.

   read_file_valid LT RT AT ls = Some (g, false)   Reader.Read (default validation) returns g and no
                                                   batch was left without control record
   p_file g                                        the arithmetic skeleton of g (Model/Arith.v)
   set_ctl / set_c / set_entries / set_amount      the in-memory tampers of Model/TamperFacts.v *)
From Coq Require Import String List NArith ZArith Bool.
From ACH Require Import Arith TamperFacts.
From ACH Require Import ReaderValid.
From ACH Require Import C01FileEx C01FileObl C01ValidObl.
Import ListNotations.

(* every batch of a returned file passed batch.Validate() (as far as Model/Arith.v models it) *)
Theorem C04_valid_reader_batches : forall ls g b,
  read_file_valid LT RT AT ls = Some (g, false) -> In b (all_batches (p_file g)) -> validate_batch AT b = ROk.
Proof. exact c04_valid_reader_batches. Qed.
Print Assumptions C04_valid_reader_batches.

(* C04_tamper_batch_control transferred: the returned file holds no batch that is a valid batch with
   one numeric control field (class, count, hash, debit, credit, batch number) changed *)
Theorem C04_valid_reader_rejects_tamper : forall ls g b0 p v,
  read_file_valid LT RT AT ls = Some (g, false) ->
  verify AT b0 = ROk -> v <> get_c p (Arith.bt_ctl b0) ->
  ~ In (set_ctl b0 (set_c p v (Arith.bt_ctl b0))) (all_batches (p_file g)).
Proof. exact c04_valid_reader_rejects_tamper. Qed.
Print Assumptions C04_valid_reader_rejects_tamper.

(* on two inputs: ls is accepted; ls' reads (validation skipped) as a file one of whose batches is a
   batch of the accepted file with a control field changed: the default reader does not return it —
   it reports an error, or the input also left a batch open *)
Theorem C04_valid_reader_tampered_input : forall ls ls' g g' b0 p v,
  read_file_valid LT RT AT ls = Some (g, false) -> In b0 (all_batches (p_file g)) ->
  v <> get_c p (Arith.bt_ctl b0) ->
  read_file LT ls' = Some g' -> In (set_ctl b0 (set_c p v (Arith.bt_ctl b0))) (all_batches (p_file g')) ->
  read_file_valid LT RT AT ls' = None \/ exists h, read_file_valid LT RT AT ls' = Some (h, true).
Proof. exact c04_valid_reader_tampered_input. Qed.
Print Assumptions C04_valid_reader_tampered_input.

(* C04_tamper_entry_amount transferred (standard batches) *)
Theorem C04_valid_reader_rejects_amount : forall ls g b pre e post a,
  read_file_valid LT RT AT ls = Some (g, false) ->
  Arith.bt_kind b = KStd -> Arith.bt_entries b = pre ++ e :: post -> validate_batch AT b = ROk -> a <> en_amount e ->
  ~ In (set_entries b (pre ++ set_amount e a :: post)) (all_batches (p_file g)).
Proof. exact c04_valid_reader_rejects_amount. Qed.
Print Assumptions C04_valid_reader_rejects_amount.

(* non-vacuity: the written example is accepted; with the entry hash of its first batch control
   raised by one the lines read, validation skipped, as the tampered tree, and the default reader
   answers None *)
Theorem C04_valid_reader_example :
  let f := bump_ctl ex_std in
  read_file_valid LT RT AT (write_file_padded LT ex_std) = Some (parsed_file LT ex_std, false)
  /\ (exists b0, nth_error (all_batches (p_file (parsed_file LT ex_std))) 0 = Some b0
        /\ nth_error (all_batches (p_file (parsed_file LT f))) 0 = Some (set_ctl b0 (set_c CHash (bc_hash (Arith.bt_ctl b0) + 1)%Z (Arith.bt_ctl b0))))
  /\ read_file LT (write_file_padded LT f) = Some (parsed_file LT f)
  /\ read_file_valid LT RT AT (write_file_padded LT f) = None.
Proof. exact c04_valid_example. Qed.

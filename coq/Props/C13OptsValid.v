(* C13, phase 5 — File.Reversal of a file that validates only under the ValidateOpts stored on it.
   Only statements here; every proof is `exact <lemma>`.

   Model (Model/ReversalOpts.v): a batch [rvb] = the Reversal model's batch + payload + the options
   stored on the batch ([rv_opts]) and on each entry record ([rv_eopts]); a file [rvf] carries its own
   options and the two routing fields of its header.  [reversal_file_o A T ep d t f]: every batch
   through the switch (options, record options, payload untouched; no rebuild: the `.( *Batch )` branch
   is dead for every file that validates, C13_opts_rebuild_dead), then File.Create under the FILE's
   options (header check unless SkipAll / AllowMissingFileHeader, at least one batch unless SkipAll /
   AllowZeroBatches, batch numbers <= 1 renumbered, file control re-tabulated).  Validity is
   [file_valid_o] / [validate_batch_o] of Model/ArithOpts.v (see Props/C09Opts.v) on the validator's
   view [rvf_arith ep f].

   [batch_ok csem RT x]: every code of x is reversible and the CheckTransactionCode function stored on
   an entry record, if any, accepts the code the switch assigns ([ctc_accepts]).
   [file_hyps csem A RT ep f]: f validates under its options, not by SkipAll; f has a batch or
   AllowZeroBatches; every batch is [batch_ok]; the file control's entry/addenda count is the sum of
   the batch controls' (f is a fixed point of File.Create). *)
From Coq Require Import ZArith NArith List Bool String.
From ACH Require Import ValidOut ValidOutFacts Tables ArithOpts ArithOptsFacts.
From ACH Require Import Bytes TxCodes RevTable Reversal ReversalFacts ReversalGenFacts ReversalTable C13Obl.
From ACH Require Import ValidReversal ValidReversalFacts ValidRevObl ReversalOptsFacts RevOptsTable RevOptsGen C13OptsObl.
Import ListNotations.
Open Scope Z_scope.

(* the source of this run is the source the model was written against *)
Theorem C13_opts_source : rev_pins_ok gen_rev_pins = true.
Proof. exact rev_pins_hold. Qed.
Print Assumptions C13_opts_source.

(* Reversal reads no option; it rebuilds a batch (Batch.build: trace numbers re-sequenced unless the
   batch holds BypassOriginValidation / CustomTraceNumbers, control re-tabulated) only behind the type
   assertion on the bare Batch, whose Validate returns an error unconditionally — no file that
   validates holds one *)
Theorem C13_opts_rebuild_dead :
  pin_of gen_rev_pins "Reversal:options" = Some ""%string
  /\ pin_of gen_rev_pins "Batch.Validate" = Some "{ return errors.New(""use an implementation of batch or NewBatch"") }"%string
  /\ pin_of gen_rev_pins "Reversal:rebuild"
     = Some "if bb, ok := f.Batches[i].(*Batch); ok { if err := bb.build(); err != nil { return fmt.Errorf(""rebuilding batch index %d failed: %v"", i, err) } }"%string
  /\ pin_of gen_rev_pins "Reversal:calls"
     = Some "Format,Format,GetHeader,Format,GetEntries,GetControl,NewBatchControl,SetHeader,SetControl,build,Errorf,Create"%string.
Proof. exact rev_rebuild_dead. Qed.
Print Assumptions C13_opts_rebuild_dead.

(* every batch, of any size and mix, that validates under the options stored on it and on its entry
   records validates under them after the reversal *)
Theorem C13_opts_batch_valid : forall csem ep d x,
  validate_batch_o csem gen_tables (rv_arith ep x) = Arith.ROk -> batch_ok csem RT x ->
  validate_batch_o csem gen_tables (rv_arith ep (reversal_batch_o RT d x)) = Arith.ROk.
Proof. exact c13_opts_batch_valid. Qed.
Print Assumptions C13_opts_batch_valid.

(* PARTIAL: every file under [file_hyps]: Reversal succeeds; the result validates under the SAME
   options (file, batches, entry records: all unchanged); every batch is the reversal of the batch
   in its place with trace numbers, amounts and identities of the entries untouched ([kept]); date /
   time as requested, header routing fields untouched, file totals swapped, file control = tabulation
   of the batch controls.  The two hypotheses of [file_hyps] beyond validity and reversibility
   (CheckTransactionCode accepts the new codes; file control count = sum) cannot be dropped:
   C13_opts_valid_refuted. *)
Theorem C13_opts_valid_partial : forall csem ep d t f, file_hyps csem gen_tables RT ep f ->
  exists f', reversal_file_o gen_tables RT ep d t f = RvOk f'
    /\ file_valid_o csem gen_tables (rvf_arith ep f') = true
    /\ rvf_opts f' = rvf_opts f /\ rvf_date f' = d /\ rvf_time f' = t
    /\ rvf_origin f' = rvf_origin f /\ rvf_dest f' = rvf_dest f
    /\ Forall2 (kept RT d) (rvf_batches f) (rvf_batches f')
    /\ fc_debit (rvf_ctl f') = fc_credit (rvf_ctl f) /\ fc_credit (rvf_ctl f') = fc_debit (rvf_ctl f)
    /\ rvf_ctl f' = tab_fctl_o gen_tables (map (ab ep) (rvf_batches f')).
Proof. exact c13_opts_file_valid. Qed.
Print Assumptions C13_opts_valid_partial.

(* under SkipAll nothing is checked by Create or Validate: Reversal succeeds, result "valid", batches kept *)
Theorem C13_opts_valid_skip_all : forall csem ep d t f, oflag ix_skip_all (rvf_opts f) = true ->
  exists f', reversal_file_o gen_tables RT ep d t f = RvOk f' /\ file_valid_o csem gen_tables (rvf_arith ep f') = true
    /\ rvf_opts f' = rvf_opts f /\ Forall2 (kept RT d) (rvf_batches f) (rvf_batches f').
Proof. exact c13_opts_skip_all. Qed.
Print Assumptions C13_opts_valid_skip_all.

(* REFUTED without the extra hypotheses, by two files that validate under their options, hold
   reversible codes only, are not under SkipAll, and whose reversal does NOT validate:
   (1) an entry record with a CheckTransactionCode that accepts credit codes only (file control count
       = sum holds);  (2) file and batch under UnequalAddendaCounts with a batch control count of 0
       (no CheckTransactionCode anywhere): File.Create writes a file control of 0 entries while money moves *)
Theorem C13_opts_valid_refuted :
  (exists f, refutes f /\ fc_count (rvf_ctl f) = sumz (fun b => bc_count (bt_ctl b)) (map (ab xr_ep) (rvf_batches f))
             /\ forallb (fun x => ctc_accepts xr_csem (rcode RT) (rv_eopts x) (codes (rv_b x))) (rvf_batches f) = false)
  /\ (exists f, refutes f /\ forallb (fun x => ctc_accepts xr_csem (rcode RT) (rv_eopts x) (codes (rv_b x))) (rvf_batches f) = true
                /\ fc_count (rvf_ctl f) <> sumz (fun b => bc_count (bt_ctl b)) (map (ab xr_ep) (rvf_batches f))).
Proof. exact c13_opts_valid_refuted. Qed.
Print Assumptions C13_opts_valid_refuted.

(* double reversal of such a file: both reversals succeed and validate under the unchanged options;
   entries (codes, amounts, identities, trace numbers), batch totals, options of batches and entry
   records, and the file totals are those of the original ([restored]) *)
Theorem C13_opts_twice_partial : forall csem ep d1 t1 d2 t2 f, file_hyps csem gen_tables RT ep f ->
  exists f1 f2, reversal_file_o gen_tables RT ep d1 t1 f = RvOk f1 /\ reversal_file_o gen_tables RT ep d2 t2 f1 = RvOk f2
    /\ file_valid_o csem gen_tables (rvf_arith ep f1) = true /\ file_valid_o csem gen_tables (rvf_arith ep f2) = true
    /\ rvf_opts f2 = rvf_opts f
    /\ Forall2 restored (rvf_batches f) (rvf_batches f2)
    /\ fc_debit (rvf_ctl f2) = fc_debit (rvf_ctl f) /\ fc_credit (rvf_ctl f2) = fc_credit (rvf_ctl f).
Proof. exact c13_opts_twice. Qed.
Print Assumptions C13_opts_twice_partial.

(* non-vacuity: origin 000000000 (BypassOriginValidation), batch numbers 3, 1
   (AllowUnorderedBatchNumbers), a batch of descending foreign trace numbers (CustomTraceNumbers), a
   batch with header class 225 / control class 200 (UnequalServiceClassCode) holding an entry with a
   wrong check digit (AllowInvalidCheckDigit on the record): the hypotheses hold; the reversal
   validates under the same options, batch number 1 became 2, classes 225/225 and 220/220, codes
   flipped, trace tags untouched; without the options neither file validates *)
Theorem C13_opts_valid_example :
  file_hyps xr_csem gen_tables RT xr_ep xr_file
  /\ match reversal_file_o gen_tables RT xr_ep [50]%N [51]%N xr_file with
     | RvOk f' =>
         file_valid_o xr_csem gen_tables (rvf_arith xr_ep f') = true
         /\ rvf_opts f' = rvf_opts xr_file
         /\ map (fun x => (bp_number (rv_pay x), rb_scc_h (rv_b x), rb_scc_c (rv_b x), codes (rv_b x), map e_trace (rb_entries (rv_b x))))
                (rvf_batches f')
            = [(3, 225, 225, [27; 37], [1%N; 2%N]); (2, 220, 220, [22], [3%N])]
         /\ file_valid_o xr_csem gen_tables (rvf_arith xr_ep (strip_rvf f')) = false
     | _ => False
     end
  /\ file_valid_o xr_csem gen_tables (rvf_arith xr_ep (strip_rvf xr_file)) = false.
Proof. exact (conj ex_rev_opts_hyps ex_rev_opts_result). Qed.

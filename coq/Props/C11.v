(* C11 — SegmentFile partitions a file into credits and debits without loss.
   Only statements here; every proof is `exact <lemma>`.  ST bundles the tables
   regenerated from file.go / batch.go / iatBatch.go / validators.go on this run. *)
From Coq Require Import ZArith NArith List Bool Permutation.
Import ListNotations.
From ACH Require Import TxCodes RevTable SegTable Segment SegmentFacts SegmentSuccess SegmentTable C11Obl.
Open Scope Z_scope.

(* The credit / debit lists of the three switches of SegmentFile (standard, IAT, ADV)
   classify EVERY integer code exactly as the lists of calculateBatchAmounts (Batch,
   IATBatch) and calculateADVBatchAmounts do. *)
Theorem C11_segment_lists_eq_amount_lists : forall c,
  classify seg_std_arms c = classify amount_std_arms c /\
  classify seg_iat_arms c = classify amount_iat_arms c /\
  classify seg_adv_arms c = classify amount_adv_arms c.
Proof. exact segment_lists_eq. Qed.
Print Assumptions C11_segment_lists_eq_amount_lists.

(* For every file (any number of standard, ADV and IAT batches of any sizes, any pre-set
   batch and trace numbers) that passes the modelled File.Validate and whose IAT / ADV
   batches are well-formed (input_wf): whenever SegmentFile returns two files,
   - the credit file holds only credit entries, the debit file only debit entries
     (by the arithmetic lists of each batch's kind),
   - the entry identities of both outputs together are a permutation of the input's,
   - credit and debit totals add up to the input's, the credit file has no debit
     total and the debit file no credit total,
   - each output is either the untouched empty file or passes the modelled
     validation and carries the input's origin and destination,
   - every output batch carries the identification of an input batch. *)
Theorem C11_partition : forall f cf df,
  input_wf ST f = true -> segment ST f = SOk cf df -> partition ST f cf df.
Proof. exact segment_partition_ok. Qed.
Print Assumptions C11_partition.

(* The witness of the former finding segment:batch-number-collision (a debits-only, a
   credits-only and a mixed batch numbered 1, 2, 3; fixed in the repository: a batch split off
   a mixed batch keeps that batch's number) now segments: the credit file carries the batch
   numbers 2, 3 and the debit file 1, 3. *)
Theorem C11_collision_witness_segments :
  validate ST collision_file = None /\ input_wf ST collision_file = true
  /\ match segment ST collision_file with
     | SOk cf df => map sb_num (sf_batches cf) = [2; 3] /\ map sb_num (sf_batches df) = [1; 3]
     | SErr _ => False
     end.
Proof. exact segment_collision_fixed. Qed.
Print Assumptions C11_collision_witness_segments.

(* The ascending-batch-number check of an output is the only way to fail: for every file passing
   the modelled validation with well-formed IAT / ADV batches, if the batch numbers File.Create
   leaves on the standard batches of both outputs are ascending (numbers_ok; vacuous for ADV
   files), SegmentFile returns two files — to which C11_partition applies.  The side condition
   is discharged for every valid file in Props/C11General.v (C11_succeeds). *)
Theorem C11_succeeds_partial : forall f,
  validate ST f = None -> input_wf ST f = true -> numbers_ok ST f = true ->
  exists cf df, segment ST f = SOk cf df.
Proof. exact segment_succeeds_ok. Qed.
Print Assumptions C11_succeeds_partial.

From ACH Require Import C11Obl.

(* C10, phase 2 — "MergeDir equals MergeFiles over the directory, under every schedule" as a
   theorem about CONTENT.  Only statements here; every proof is `exact <lemma>`.

   run_m / init_m / result_m (Proto/MergeDirMerge.v): the protocol of Proto/MergeDir.v whose state
   carries MergeDir's shared out-file list: the merger goroutine's sorted.add(file) is the Merge
   model's add_file (Model/Merge.v), executed when a file ARRIVES; the sync.Once that copies the
   first read file's header is executed by the worker; the return value is convert (=
   convertToFiles, the same function MergeFilesWith ends with).  [content f] is the parsed file
   behind the protocol's file id f;  dir_files = map content (files_of parse paths) = the parse
   results of the walked paths in directory order = the argument MergeFiles would be given.
   merge_files is the model of MergeFilesWith (C08/C09); ids_out / hkey / if_route as in Props/C08.v.
   All statements quantify over every schedule, worker count n, outcome assignment, file content,
   conditions, and both variants [sel] of the channel sends. *)
From Coq Require Import List NArith ZArith Bool Arith Permutation.
Import ListNotations.
From ACH Require Import ValidOut ValidOutFacts Tables.
From ACH Require Import Bytes Merge MergeFacts MergeDir MergeDirFacts MergeDirMerge MergeDirMergeFacts.
From ACH Require Import ValidMerge ValidMergeFacts ValidMergeObl C10MergeObl.

(* the extended system has exactly the schedules of the protocol of Props/C10.v (so C10_progress,
   C10_error_terminates, C10_schedule_bound, C10_trace_sound speak about the same runs) *)
Theorem C10_same_schedules : forall sel parse content add_ok n paths sched,
  (forall t, run sel parse add_ok sched (init n paths) = Some t ->
             exists s, run_m sel parse content add_ok sched (init_m n paths) = Some s /\ proto s = t) /\
  (forall s, run_m sel parse content add_ok sched (init_m n paths) = Some s ->
             run sel parse add_ok sched (init n paths) = Some (proto s)).
Proof. exact same_schedules. Qed.
Print Assumptions C10_same_schedules.

(* in every reachable state the shared out-file list is MergeFilesWith's internal state for
   [header of the seeding file] :: files received so far, in the order of their arrival *)
Theorem C10_sorted_is_merge_state : forall sel parse content add_ok n paths sched s,
  run_m sel parse content add_ok sched (init_m n paths) = Some s ->
  match seeded s with
  | None => sorted s = [zero_ofile] /\ arrivals s = []
  | Some f0 => sorted s = build_state (header_only (content f0) :: map content (arrivals s))
               /\ In f0 (files_of parse paths)
  end.
Proof. exact sorted_is_merge_state. Qed.
Print Assumptions C10_sorted_is_merge_state.

(* EXACT characterisation of the result of every run that returns without error: it is the
   MergeFilesWith result (structure, batch numbers, entry order) on the batch-less header of the
   seeding file followed by the files in arrival order; the arrivals are a permutation of the
   directory's files, the seeding file is one of them, no accepted path was unparseable *)
Theorem C10_output_exact : forall sel parse content add_ok n paths c sched s out,
  run_m sel parse content add_ok sched (init_m n paths) = Some s ->
  terminal (proto s) = true -> result_m c s = Some out ->
  Permutation (arrivals s) (files_of parse paths) /\
  (forall p, In p paths -> parse p <> PErr) /\
  match seeded s with None => arrivals s = [] | Some f0 => In f0 (arrivals s) end /\
  out = merge_files (as_mergefiles_input (option_map content (seeded s)) (map content (arrivals s))) c.
Proof. exact output_exact. Qed.
Print Assumptions C10_output_exact.

(* C10: for every schedule ending in Ok, MergeDir's output and MergeFiles' output over the
   directory's files hold the same entries under the same (origin, destination) and the same
   batch-header key, as multisets (uses C08 conservation / order independence) *)
Theorem C10_equals_mergefiles : forall sel parse content add_ok n paths c sched s out,
  run_m sel parse content add_ok sched (init_m n paths) = Some s ->
  terminal (proto s) = true -> result_m c s = Some out ->
  Permutation (ids_out out) (ids_out (merge_files (dir_files parse content paths) c)).
Proof. exact equals_mergefiles. Qed.
Print Assumptions C10_equals_mergefiles.

(* ... hence also for each routing pair (or any set of routing pairs) separately *)
Theorem C10_equals_mergefiles_per_route : forall sel parse content add_ok n paths c sched s out (pick : route_t -> bool),
  run_m sel parse content add_ok sched (init_m n paths) = Some s ->
  terminal (proto s) = true -> result_m c s = Some out ->
  Permutation (filter (fun i => pick (fst (fst i))) (ids_out out))
              (filter (fun i => pick (fst (fst i))) (ids_out (merge_files (dir_files parse content paths) c))).
Proof. exact equals_mergefiles_per_route. Qed.
Print Assumptions C10_equals_mergefiles_per_route.

(* when the seeding file is also the first to reach the merger the result IS a MergeFiles result,
   namely on the files in arrival order *)
Theorem C10_first_arrival_seeds : forall sel parse content add_ok n paths c sched s out f0 rest,
  run_m sel parse content add_ok sched (init_m n paths) = Some s ->
  terminal (proto s) = true -> result_m c s = Some out ->
  seeded s = Some f0 -> arrivals s = f0 :: rest ->
  out = merge_files (map content (arrivals s)) c /\ Permutation (map content (arrivals s)) (dir_files parse content paths).
Proof. exact output_is_a_mergefiles_result. Qed.
Print Assumptions C10_first_arrival_seeds.

(* ParseWorkers = 1: equality of the whole structure with MergeFiles over the directory *)
Theorem C10_single_worker_exact : forall sel parse content add_ok paths c sched s out,
  run_m sel parse content add_ok sched (init_m 1 paths) = Some s ->
  terminal (proto s) = true -> result_m c s = Some out ->
  arrivals s = files_of parse paths /\ out = merge_files (dir_files parse content paths) c.
Proof. exact single_worker_exact. Qed.
Print Assumptions C10_single_worker_exact.

(* ParseWorkers = 2: structure equality fails (two files of one routing pair with different batch
   headers, second one read first): same identities, different batch order and file header *)
Theorem C10_structure_equality_refuted :
  exists sched s out,
    run_m true dx_parse dx_content (fun _ => true) sched (init_m 2 [1; 2]%N) = Some s /\
    terminal (proto s) = true /\ result_m (mkConds 0 0) s = Some out /\
    out <> merge_files dx_dir2 (mkConds 0 0) /\
    Permutation (ids_out out) (ids_out (merge_files dx_dir2 (mkConds 0 0))).
Proof. exact structure_equality_refuted. Qed.
Print Assumptions C10_structure_equality_refuted.

(* ... and the result need not be the MergeFiles result of any ordering of the directory's files
   (header seeded by the file read first, batches in the order of arrival) *)
Theorem C10_any_ordering_refuted :
  exists sched s out,
    run_m true dx_parse dx_content (fun _ => true) sched (init_m 2 [1; 2]%N) = Some s /\
    terminal (proto s) = true /\ result_m (mkConds 0 0) s = Some out /\
    forall fs', Permutation dx_dir2 fs' -> out <> merge_files fs' (mkConds 0 0).
Proof. exact any_ordering_refuted. Qed.
Print Assumptions C10_any_ordering_refuted.

(* the limit theorems of C09 hold for MergeDir's output (same convertToFiles): line and dollar cap
   with the single-entry exception, no empty file or batch, batch numbers and trace numbers
   strictly ascending *)
Theorem C10_limits_valid : forall sel parse content add_ok n paths c sched s out,
  run_m sel parse content add_ok sched (init_m n paths) = Some s ->
  terminal (proto s) = true -> result_m c s = Some out ->
  forall g, In g out ->
  (0 < maxLines c -> file_lines g <= maxLines c \/ length (file_entries g) = 1%nat)%Z /\
  (0 < effective_dollar c -> file_amount g <= effective_dollar c \/ length (file_entries g) = 1%nat)%Z /\
  rf_batches g <> [] /\ Forall (fun rb => rb_entries rb <> []) (rf_batches g) /\
  asc 0 (map rb_number (rf_batches g)) /\
  Forall (fun rb => tasc (rb_entries rb)) (rf_batches g).
Proof. exact dir_limits. Qed.
Print Assumptions C10_limits_valid.

(* C08_no_mixing for MergeDir *)
Theorem C10_no_mixing : forall sel parse content add_ok n paths c sched s out,
  run_m sel parse content add_ok sched (init_m n paths) = Some s ->
  terminal (proto s) = true -> result_m c s = Some out ->
  forall g rb e, In g out -> In rb (rf_batches g) -> In e (rb_entries rb) ->
  exists f ib, In f (dir_files parse content paths) /\ In ib (if_batches f) /\ In e (ib_entries ib)
               /\ if_route f = rf_route g /\ hkey (ib_header ib) = hkey (rb_header rb).
Proof. exact dir_no_mixing. Qed.
Print Assumptions C10_no_mixing.

(* C09Valid for MergeDir: if every batch of every file of the directory passes the validator
   model of C03, so does every output batch after Create, and every output file (hypotheses on the
   totals as in C09_batch_arith_valid / C09_file_arith_valid) *)
Theorem C10_batch_arith_valid : forall sel parse content add_ok n paths c sched s out mp,
  run_m sel parse content add_ok sched (init_m n paths) = Some s ->
  terminal (proto s) = true -> result_m c s = Some out ->
  inputs_valid gen_tables mp (dir_files parse content paths) ->
  forall g rb, In g out -> In rb (rf_batches g) ->
  (AR.calc_debit gen_tables AR.KStd (map (m_entry mp) (rb_entries rb)) <= AR.t_batch_limit gen_tables)%Z ->
  (AR.calc_credit gen_tables AR.KStd (map (m_entry mp) (rb_entries rb)) <= AR.t_batch_limit gen_tables)%Z ->
  AR.validate_batch gen_tables (m_batch gen_tables mp rb) = AR.ROk.
Proof. exact dir_batch_arith_valid. Qed.
Print Assumptions C10_batch_arith_valid.

Theorem C10_file_arith_valid : forall sel parse content add_ok n paths c sched s out mp,
  run_m sel parse content add_ok sched (init_m n paths) = Some s ->
  terminal (proto s) = true -> result_m c s = Some out ->
  inputs_valid gen_tables mp (dir_files parse content paths) ->
  forall g, In g out ->
  Forall (fun rb => (AR.calc_debit gen_tables AR.KStd (map (m_entry mp) (rb_entries rb)) <= AR.t_batch_limit gen_tables)%Z /\
                    (AR.calc_credit gen_tables AR.KStd (map (m_entry mp) (rb_entries rb)) <= AR.t_batch_limit gen_tables)%Z) (rf_batches g) ->
  fctl_fits gen_tables (AR.fl_ctl (m_file gen_tables mp g)) ->
  AR.validate_file gen_tables (m_file gen_tables mp g) = AR.ROk.
Proof. exact dir_file_arith_valid. Qed.
Print Assumptions C10_file_arith_valid.

(* C15 — relaxation options only ever relax.
   Only statements here; every proof is `exact <lemma>`. *)
From Coq Require Import String List Bool.
Import ListNotations.
From ACH Require Import OptMono OptMonoFacts OptUsesTable OptTree OptTreeFacts OptUses C15Obl.

(* The property, for the model of Reader.SetValidation(O)+Read followed by
   File.ValidateWith(O): for ALL data checks, parsers and state updates (D), all
   texts (lists of lines), all pairs O <= O' over the 15 relaxation flags. *)
Theorem C15_monotone : forall (D : Sig) (o o' : opts) (s0 : St D) (text : list (Line D)),
  le o o' -> ach_accept D o s0 text = true -> ach_accept D o' s0 text = true.
Proof. exact ach_accept_mono. Qed.
Print Assumptions C15_monotone.

(* Stronger: a text is accepted under O exactly when every check that fails on its
   all-pass path is switched off by a flag of O (the failing checks do not depend on O). *)
Theorem C15_accept_cnf : forall (D : Sig) (o : opts) (s0 : St D) (text : list (Line D)),
  ach_accept D o s0 text = forallb (skip o) (mfails (prep D) (t_final D) s0 text).
Proof. exact ach_accept_cnf. Qed.
Print Assumptions C15_accept_cnf.

(* Hence accept(O) is determined by the observations accept(all flags but G), G a
   guard clause of the model: the statement the correspondence check tests on the
   real Reader/ValidateWith with the extracted [model_predict]. *)
Theorem C15_predict : forall (D : Sig) (o : opts) (s0 : St D) (text : list (Line D)),
  ach_accept D o s0 text = predict model_family (fun G => ach_accept D (all_but G) s0 text) o.
Proof. exact ach_accept_predict. Qed.
Print Assumptions C15_predict.

Theorem C15_extracted_predict : forall (D : Sig) (s0 : St D) (text : list (Line D)) (on : list flag),
  model_predict (map (fun G => ach_accept D (all_but G) s0 text) model_family) (map flag_idx on)
  = ach_accept D (opts_of on) s0 text.
Proof. exact model_predict_spec. Qed.
Print Assumptions C15_extracted_predict.

(* Generic form: ANY validator built from unguarded checks and relaxing guards, and
   ANY reader whose steps run such validators and whose next state depends on the
   verdicts only. *)
Theorem C15_validator_monotone : forall (X : Type) (t : vt X) (o o' : opts) (x : X),
  le o o' -> run t o x = true -> run t o' x = true.
Proof. exact @run_mono. Qed.
Print Assumptions C15_validator_monotone.

Theorem C15_reader_monotone : forall (S L : Type) (prep : S -> L -> prog S) (final : vt S)
  (o o' : opts) (s0 : S) (ls : list L),
  le o o' -> accept prep final o s0 ls = true -> accept prep final o' s0 ls = true.
Proof. exact @accept_mono. Qed.
Print Assumptions C15_reader_monotone.

(* the validators applied to objects that did not come from the reader *)
Theorem C15_file_validate_monotone : forall (D : Sig) (o o' : opts) (f : File D),
  le o o' -> run (t_File_ValidateWith D) o f = true -> run (t_File_ValidateWith D) o' f = true.
Proof. exact file_validate_mono. Qed.
Print Assumptions C15_file_validate_monotone.

Theorem C15_batch_validate_monotone : forall (D : Sig) (o o' : opts) (b : Batch D),
  le o o' -> run (t_Batch_Validate D) o b = true -> run (t_Batch_Validate D) o' b = true.
Proof. exact batch_validate_mono. Qed.
Print Assumptions C15_batch_validate_monotone.

Theorem C15_iat_batch_validate_monotone : forall (D : Sig) (o o' : opts) (b : IATBatch D),
  le o o' -> run (t_IATBatch_Validate D) o b = true -> run (t_IATBatch_Validate D) o' b = true.
Proof. exact iat_batch_validate_mono. Qed.
Print Assumptions C15_iat_batch_validate_monotone.

Theorem C15_file_create_prelude_monotone : forall (D : Sig) (o o' : opts) (f : File D),
  le o o' -> run (t_File_Create_prelude D) o f = true -> run (t_File_Create_prelude D) o' f = true.
Proof. exact file_create_prelude_mono. Qed.
Print Assumptions C15_file_create_prelude_monotone.

(* Tie to the source of this run: every read of a relaxation flag in package ach is
   a relaxing guard (by syntactic monotonicity) that is a guard site of the model —
   same function, flag and occurrence — or lies in a rendering / build / merge
   function; and every guard site of the model exists in the source. *)
Theorem C15_guard_sites_ok :
  (forall u f, In u opt_uses -> flag_of_name (u_flag u) = Some f ->
     (u_kind u = URelax /\ In (mksite (u_func u) f (u_occ u)) model_sites)
     \/ In (u_func u) nonvalidation_funcs)
  /\ (forall s, In s model_sites -> exists u, In u opt_uses /\ u_kind u = URelax /\ u_func u = s_func s
                                       /\ u_flag u = flag_name (s_flag s) /\ u_occ u = s_occ s).
Proof. exact guard_sites_ok. Qed.
Print Assumptions C15_guard_sites_ok.

Theorem C15_option_fields : fields_ok validate_opts_fields = true.
Proof. exact opt_fields_ok. Qed.

Theorem C15_other_options : others_ok opt_uses = true.
Proof. exact opt_others_ok. Qed.

Theorem C15_flags_covered : flags_covered opt_uses = true.
Proof. exact opt_flags_covered. Qed.

Theorem C15_merge_keeps_relaxations : merge_ok validate_opts_fields merge_or_fields = true.
Proof. exact opt_merge_ok. Qed.

(* why the guard polarity matters: the same check behind an inverted guard is not monotone *)
Theorem C15_inverted_guard_refuted :
  exists o o' x, le o o' /\ inverted_guard o x = true /\ inverted_guard o' x = false.
Proof. exact inverted_guard_refuted. Qed.

(* C02 — record width: every record of every regenerated layout is rendered as
   exactly 94 characters of valid UTF-8.  Only statements. *)
From Coq Require Import String List Bool NArith.
From ACH Require Import Bytes Utf8 Utf8Enc LayoutTypes Fields Layout LayoutOk Layouts C01Obl.
Open Scope string_scope.

Theorem C02_line_width : forall L r, In L all_layouts -> widthb L r = true -> rune_count (render L r) = 94%nat.
Proof. exact C02_record_width. Qed.
Print Assumptions C02_line_width.

Theorem C02_line_wellformed : forall L r, In L all_layouts -> widthb L r = true -> wf_utf8 (render L r) = true.
Proof. exact C02_record_wf. Qed.
Print Assumptions C02_line_wellformed.

(* the hypothesis is needed: with invalid UTF-8 in two adjacent full-width fields the record has 93 characters *)
Theorem C02_invalid_utf8_refuted :
  rune_count (gets a11_record "OriginatorName") = 35%nat /\
  rune_count (gets a11_record "OriginatorStreetAddress") = 35%nat /\
  widthb L_Addenda11 a11_record = false /\
  length (render L_Addenda11 a11_record) = 94%nat /\
  rune_count (render L_Addenda11 a11_record) = 93%nat.
Proof. exact a11_invalid_utf8_width. Qed.

(* C12, phase 6 — the WHOLE of ach.Flatten: consolidation (Flatten.v) composed with the Create
   models of C05 (Offsets.build, BuildIAT.iat_build, BuildADV.adv_build, FileCreateAll.file_create_all)
   and the validator model of C03 (Arith), Model/FlattenFull.v.  Only statements here; every
   proof is `exact <lemma>`.

   [flatten_full_spec A T TT hd sp ip ap inf inp r]: r = (outcome class, new file) is a result of
   the whole function on the batches [inp] of a file whose control record is [inf], for SOME
   admissible processing order and SOME iteration order of the map; [hd] / [sp] / [ip] / [ap] read
   what Create needs from the header signature / the entry identity (payload functions).
   GA / GT / GTT: the tables regenerated from the source on this run. *)
From Coq Require Import List ZArith Permutation Sorted.
From ACH Require Import ValidOut Tables OffsetTable TabulateTable.
From ACH Require Import OffsetsFacts FileCreateAll ValidOffsets ValidOutObl.
From ACH Require Import Bytes Flatten FlattenFacts ValidFlatten ValidFlatObl FlattenFull FlattenFullFacts C12FullObl.
Open Scope Z_scope.

(* ---- the category rule, explicit -------------------------------------------------------- *)

(* Batch.isCategory (standard and ADV branch) and IATBatch.isCategory, written as coded, are the
   check [category_ok] of the consolidation model on the batches Flatten hands to Create *)
Theorem C12_is_category : forall b,
  (b_entries b <> nil -> is_category_std false b = category_ok b) /\
  (b_entries b = nil -> b_adv b <> nil -> is_category_std true b = category_ok b) /\
  (b_entries b <> nil -> is_category_iat b = category_ok b).
Proof. exact (fun b => conj (is_category_std_ok b) (conj (is_category_adv_ok b) (is_category_iat_ok b))). Qed.
Print Assumptions C12_is_category.

(* the category rule of a file — one category per batch, one category per header signature,
   no batch with both kinds of entries — is what the consolidation needs ([cat_uniform]) *)
Theorem C12_category_rule : forall inp, cat_rule inp -> cat_uniform inp.
Proof. exact cat_rule_uniform. Qed.
Print Assumptions C12_category_rule.

(* Batch.Category() of such a batch: Return / NOC if that is its entries' category, Forward otherwise
   (a DishonoredReturn batch reports Forward — as coded) *)
Theorem C12_batch_category : forall b, cat_pure b -> b_entries b <> nil -> b_adv b = nil ->
  batch_category b = if is_ret_noc (head_cat b) then head_cat b else cat_forward.
Proof. exact batch_category_pure. Qed.
Print Assumptions C12_batch_category.

(* ---- Create of a consolidated batch is C05's Batch.build ------------------------------------ *)

(* header valid, entries present, every trace number carrying the header's ODFI: build succeeds,
   keeps every trace number, its control is the recomputation (ctl_ok), and the Arith skeleton of
   what it leaves IS the abstract batch [f_batch] of C12Valid — so C12_batch_arith_valid speaks
   about the batch the C05 model builds *)
Theorem C12_create_is_build : forall hd sp b,
  hd_ok (hd (b_sig b)) = true -> b_entries b <> nil -> traces_prefixed hd b ->
  exists b', Offsets.build GT (to_off hd sp b) = Offsets.Ret true b'
    /\ Offsets.b_entries b' = map (to_off_entry sp) (b_entries b)
    /\ ctl_ok GT b'
    /\ off_skeleton hd sp b b' = f_batch GA (hp_of hd) (fp_of sp) b.
Proof. exact c12_create_is_build. Qed.
Print Assumptions C12_create_is_build.

(* a consolidated batch that fails the category check fails Create (and is then not added) *)
Theorem C12_create_fails_category : forall hd sp b,
  b_entries b <> nil -> category_ok b = false -> create_std GA GT hd sp b = None.
Proof. exact (create_std_fails_category GA GT). Qed.
Print Assumptions C12_create_fails_category.

(* ---- FlattenBatches succeeds ------------------------------------------------------------------ *)

(* For EVERY file of standard batches that is valid in the Arith sense (every batch validates; its
   header is valid; trace numbers carry the ODFI; the file control is the tabulation of the entries
   and fits its fields) and satisfies the category rule, for every admissible processing order and
   map iteration order: no batch is dropped by AddToFile (Create = C05's build + Arith validation +
   isCategory succeeds on every consolidated batch), File.Create succeeds, none of the three
   ErrFlattenChanged... comparisons fires, and the new file control carries the original count and
   totals.  The one error return left open is FileControl.Validate of the NEW control
   (Arith.validate_fctl: entry hash truncated to 0 while money moves) — stated, not assumed away. *)
Theorem C12_succeeds : forall hd sp ip ap inf inp r,
  std_file inp -> inp <> nil -> i_hdr_ok inf = true ->
  kinds_consistent inp -> Forall traces_nodup inp ->
  Forall (fun b => Arith.validate_batch GA (f_batch GA (hp_of hd) (fp_of sp) b) = Arith.ROk) inp ->
  Forall (hdr_pair hd) (ids inp) ->
  i_count inf = sum_ids cnt_e inp -> i_debit inf = sum_ids (db_e GT sp) inp -> i_credit inf = sum_ids (cr_e GT sp) inp ->
  cat_rule inp ->
  i_debit inf <= Arith.t_file_limit GA -> i_credit inf <= Arith.t_file_limit GA ->
  flatten_full_spec GA GT GTT hd sp ip ap inf inp r ->
  (fst r = FOk \/ (fst r = FErrValidate /\ file_ctl_ok GA (snd r) = false))
  /\ af_iat (snd r) = nil
  /\ Offsets.fc_count (af_ctl (snd r)) = i_count inf
  /\ Offsets.fc_debit (af_ctl (snd r)) = i_debit inf
  /\ Offsets.fc_credit (af_ctl (snd r)) = i_credit inf.
Proof. exact c12_succeeds. Qed.
Print Assumptions C12_succeeds.

(* ... and with the last error return closed: if the ORIGINAL file control — count, totals, and the
   entry hash as the routing numbers of the entries cut to ten digits — passes FileControl.Validate
   (Arith.validate_fctl; this also bounds the totals), so does the new control, which carries the
   same figures (the truncated sum of truncated batch hashes is the truncated sum of all routing
   numbers): FlattenBatches returns no error. *)
Theorem C12_succeeds_ok : forall hd sp ip ap inf inp r,
  std_file inp -> inp <> nil -> i_hdr_ok inf = true ->
  kinds_consistent inp -> Forall traces_nodup inp ->
  Forall (fun b => Arith.validate_batch GA (f_batch GA (hp_of hd) (fp_of sp) b) = Arith.ROk) inp ->
  Forall (hdr_pair hd) (ids inp) ->
  i_count inf = sum_ids cnt_e inp -> i_debit inf = sum_ids (db_e GT sp) inp -> i_credit inf = sum_ids (cr_e GT sp) inp ->
  cat_rule inp ->
  (forall p, In p (ids inp) -> 0 <= rd_e sp (snd p)) ->
  Arith.validate_fctl GA (Arith.mkfctl 1 (i_count inf) ((sum_ids (rd_e sp) inp) mod Offsets.P10) (i_debit inf) (i_credit inf)) = Arith.ROk ->
  flatten_full_spec GA GT GTT hd sp ip ap inf inp r ->
  fst r = FOk.
Proof. exact c12_succeeds_ok. Qed.
Print Assumptions C12_succeeds_ok.

(* non-vacuity of the two additional hypotheses (the others: C12_succeeds_example) *)
Theorem C12_succeeds_ok_example :
  (forall p, In p (ids ex_inp) -> 0 <= rd_e fx_sp (snd p)) /\
  Arith.validate_fctl GA (Arith.mkfctl 1 (i_count fx_inf) ((sum_ids (rd_e fx_sp) ex_inp) mod Offsets.P10) (i_debit fx_inf) (i_credit fx_inf)) = Arith.ROk.
Proof. exact fx_ctl_hyps. Qed.
Print Assumptions C12_succeeds_ok_example.

(* Without the category rule the statement is false of the code: a valid file — every hypothesis
   above but the rule, every batch passing isCategory and holding one category — on which the whole
   function returns File.Create's error with no batch added (known finding
   flatten:error:mixed-category-same-header; witness corpus/C12/forward-and-return-same-header.json) *)
Theorem C12_succeeds_refuted :
  exists hd sp ip ap inf inp,
    std_file inp /\ kinds_consistent inp /\ Forall traces_nodup inp /\
    Forall (fun b => Arith.validate_batch GA (f_batch GA (hp_of hd) (fp_of sp) b) = Arith.ROk) inp /\
    Forall (hdr_pair hd) (ids inp) /\
    i_count inf = sum_ids cnt_e inp /\ i_debit inf = sum_ids (db_e GT sp) inp /\ i_credit inf = sum_ids (cr_e GT sp) inp /\
    Forall (fun b => is_category_std false b = true /\ cat_pure b) inp /\
    exists r, flatten_full_spec GA GT GTT hd sp ip ap inf inp r /\ fst r = FErrCreate /\ af_std (snd r) = nil.
Proof. exact c12_succeeds_refuted. Qed.
Print Assumptions C12_succeeds_refuted.

(* ---- the result is valid ----------------------------------------------------------------------- *)

(* Under the same hypotheses every batch handed to AddToFile ([pre all], the consolidated batches
   of a result of the consolidation model, in file order) is [created]: standard, Create by the
   C05 model returns b' with control = recomputation and the caller's entries, the Arith skeleton
   of b' passes Arith.validate_batch (count, hash, totals, class, ODFI, ascending trace numbers
   carrying the ODFI, admissible entries), isCategory passes — and its entries are strictly
   ascending in Go's string order after the sort. *)
Theorem C12_valid : forall hd sp ip ap inf inp r,
  std_file inp -> i_hdr_ok inf = true ->
  kinds_consistent inp -> Forall traces_nodup inp ->
  Forall (fun b => Arith.validate_batch GA (f_batch GA (hp_of hd) (fp_of sp) b) = Arith.ROk) inp ->
  Forall (hdr_pair hd) (ids inp) ->
  i_debit inf = sum_ids (db_e GT sp) inp -> i_credit inf = sum_ids (cr_e GT sp) inp ->
  cat_rule inp ->
  i_debit inf <= Arith.t_file_limit GA -> i_credit inf <= Arith.t_file_limit GA ->
  flatten_full_spec GA GT GTT hd sp ip ap inf inp r ->
  exists all, r = finish GA GT GTT hd sp ip ap inf all /\ flatten_spec inp (finalize all) /\
    Forall (fun x => created GA GT hd sp x /\ StronglySorted trace_lt (b_entries x)) (pre all).
Proof. exact c12_valid. Qed.
Print Assumptions C12_valid.

(* ---- files of standard AND IAT batches ---------------------------------------------------------- *)

(* Create of a consolidated IAT batch is C05's IATBatch.build followed by IATBatch.isCategory: header
   valid, ODFI numeric, every entry with its mandatory addenda records and a numeric trace number:
   build succeeds and tabulates the control from the caller's entries *)
Theorem C12_create_iat : forall hd ip x,
  hd_ok (hd (b_sig x)) = true -> hd_odfi_num (hd (b_sig x)) = true -> b_entries x <> nil ->
  Forall (fun e => BuildIAT.incl_ok (to_iat_entry ip e) = true /\ ip_tr_num (ip (e_core e)) = true) (b_entries x) ->
  category_ok x = true ->
  exists b', create_iat GTT hd ip x = Some b'
    /\ Offsets.c_count (BuildIAT.ib_ctl b') = BuildIAT.icount (map (to_iat_entry ip) (b_entries x))
    /\ Offsets.c_credit (BuildIAT.ib_ctl b') = BuildIAT.icredits GTT (map (to_iat_entry ip) (b_entries x))
    /\ Offsets.c_debit (BuildIAT.ib_ctl b') = BuildIAT.idebits GTT (map (to_iat_entry ip) (b_entries x)).
Proof. exact c12_create_iat. Qed.
Print Assumptions C12_create_iat.

(* C12_succeeds and C12_valid for files that hold standard and IAT batches ([kiat]: the kind that goes
   with a header signature).  Standard batches valid in the Arith sense, IAT batches accepted by
   IATBatch.build (per entry: addendaFieldInclusion, numeric trace number; numeric ODFI), the file
   control the tabulation of all entries (IAT: isBatchEntryCount, calculateBatchAmounts of C05Iat):
   every consolidated batch of either kind passes Create, none is dropped, File.Create (one
   running sequence over Batches then IATBatches) succeeds, the three comparisons with the
   original control hold, entries strictly ascending by trace number in every batch. *)
Theorem C12_succeeds_iat : forall hd sp ip ap kiat inf inp r,
  mixed_file kiat inp -> inp <> nil -> i_hdr_ok inf = true ->
  kinds_consistent inp -> Forall traces_nodup inp ->
  Forall (fun b => kiat (b_sig b) = false -> Arith.validate_batch GA (f_batch GA (hp_of hd) (fp_of sp) b) = Arith.ROk) inp ->
  Forall (mixed_pair hd ip kiat) (ids inp) ->
  i_count inf = sum_pairs (cnt_p ip kiat) inp ->
  i_debit inf = sum_pairs (db_p GT GTT sp ip kiat) inp -> i_credit inf = sum_pairs (cr_p GT GTT sp ip kiat) inp ->
  cat_rule inp ->
  i_debit inf <= Arith.t_file_limit GA -> i_credit inf <= Arith.t_file_limit GA ->
  flatten_full_spec GA GT GTT hd sp ip ap inf inp r ->
  (fst r = FOk \/ (fst r = FErrValidate /\ file_ctl_ok GA (snd r) = false))
  /\ Offsets.fc_count (af_ctl (snd r)) = i_count inf
  /\ Offsets.fc_debit (af_ctl (snd r)) = i_debit inf
  /\ Offsets.fc_credit (af_ctl (snd r)) = i_credit inf
  /\ exists all, r = finish GA GT GTT hd sp ip ap inf all /\ flatten_spec inp (finalize all)
       /\ (length (af_std (snd r)) + length (af_iat (snd r)) = length all)%nat
       /\ Forall (fun x => (created_s GA GT hd sp kiat x \/ created_i GTT hd ip kiat x) /\ StronglySorted trace_lt (b_entries x)) (pre all).
Proof. exact c12_succeeds_iat. Qed.
Print Assumptions C12_succeeds_iat.

(* non-vacuity: two standard batches with one header and two IAT batches with one header; the whole
   function returns OK with one batch of each kind, IAT entries in trace order, original figures *)
Theorem C12_succeeds_iat_example :
  (mixed_file mx_kiat mx_inp /\ mx_inp <> nil /\ i_hdr_ok mx_inf = true /\ kinds_consistent mx_inp /\ Forall traces_nodup mx_inp /\
   Forall (fun b => mx_kiat (b_sig b) = false -> Arith.validate_batch GA (f_batch GA (hp_of mx_hd) (fp_of fx_sp) b) = Arith.ROk) mx_inp /\
   Forall (mixed_pair mx_hd mx_ip mx_kiat) (ids mx_inp) /\
   i_count mx_inf = sum_pairs (cnt_p mx_ip mx_kiat) mx_inp /\
   i_debit mx_inf = sum_pairs (db_p GT GTT fx_sp mx_ip mx_kiat) mx_inp /\
   i_credit mx_inf = sum_pairs (cr_p GT GTT fx_sp mx_ip mx_kiat) mx_inp /\
   cat_rule mx_inp /\ i_debit mx_inf <= Arith.t_file_limit GA /\ i_credit mx_inf <= Arith.t_file_limit GA) /\
  (let r := flatten_full_stable GA GT GTT mx_hd fx_sp mx_ip fx_ap mx_inf mx_inp in
   fst r = FOk /\ length (af_std (snd r)) = 1%nat /\ length (af_iat (snd r)) = 1%nat /\
   map (fun b => map BuildIAT.ie_trace (BuildIAT.ib_entries b)) (af_iat (snd r)) = (231380100000003 :: 231380100000005 :: nil) :: nil /\
   Offsets.fc_count (af_ctl (snd r)) = 21 /\ Offsets.fc_credit (af_ctl (snd r)) = 3800).
Proof. exact (conj mx_hyps mx_result). Qed.
Print Assumptions C12_succeeds_iat_example.

(* ---- ADV batches ----------------------------------------------------------------------------------- *)

(* Create of a consolidated ADV batch (C05's ADV branch of Batch.build, then isCategory over the ADV
   entries) succeeds exactly when it holds at most 9998 ADV entries *)
Theorem C12_create_adv : forall hd ap x,
  hd_ok (hd (b_sig x)) = true -> b_entries x = nil -> b_adv x <> nil -> category_ok x = true ->
  (create_adv GTT hd ap x <> None <-> BuildIAT.zlen (b_adv x) <= 9998).
Proof. exact c12_create_adv_iff. Qed.
Print Assumptions C12_create_adv.

(* C12_succeeds for ADV files: every batch an ADV batch with a valid header, the category rule, at most
   9998 ADV entries in the file (File.Control of an ADV file is zero, so are the three figures Flatten
   compares): every consolidated batch passes Create (C05's ADV branch of Batch.build + isCategory),
   none is dropped, File.Create takes the createFileADV branch and succeeds; what is left open is
   ADVFileControl.Validate of the new control (Arith.validate_adv_fctl) *)
Theorem C12_succeeds_adv : forall hd sp ip ap inf inp r,
  Forall (fun b => b_kind b = KStd /\ b_entries b = nil /\ b_adv b <> nil) inp -> inp <> nil ->
  i_hdr_ok inf = true -> i_count inf = 0 -> i_debit inf = 0 -> i_credit inf = 0 ->
  Forall (fun p => hd_adv (hd (fst p)) = true /\ hd_ok (hd (fst p)) = true) (adv_ids inp) ->
  cat_rule inp -> BuildIAT.zlen (adv_ids inp) <= 9998 ->
  flatten_full_spec GA GT GTT hd sp ip ap inf inp r ->
  (fst r = FOk \/ (fst r = FErrValidate /\ file_ctl_ok GA (snd r) = false))
  /\ af_iat (snd r) = nil /\ forallb sb_is_adv (af_std (snd r)) = true
  /\ exists all, r = finish GA GT GTT hd sp ip ap inf all /\ flatten_spec inp (finalize all)
       /\ length (af_std (snd r)) = length all /\ Forall (created_a GTT hd ap) (pre all).
Proof. exact c12_succeeds_adv. Qed.
Print Assumptions C12_succeeds_adv.

Theorem C12_succeeds_adv_example :
  (Forall (fun b => b_kind b = KStd /\ b_entries b = nil /\ b_adv b <> nil) ay_inp /\ ay_inp <> nil /\
   Forall (fun p => hd_adv (ax_hd (fst p)) = true /\ hd_ok (ax_hd (fst p)) = true) (adv_ids ay_inp) /\
   cat_rule ay_inp /\ BuildIAT.zlen (adv_ids ay_inp) <= 9998) /\
  (let r := flatten_full_stable GA GT GTT ax_hd fx_sp fx_ip ax_ap ax_inf ay_inp in
   fst r = FOk /\ length (af_std (snd r)) = 1%nat /\ af_actl (snd r) = Offsets.mkfctl 1 1 3 69414030 0 425).
Proof. exact (conj ay_hyps ay_result). Qed.
Print Assumptions C12_succeeds_adv_example.

(* ... and consolidation knows no such limit: two ADV batches of 5000 entries with one header, each
   accepted by Create, on which the whole function returns File.Create's error with no batch added
   (known finding flatten:error:adv-sequence-limit; the real FlattenBatches is replayed on
   corpus/C12/full-adv-two-batches-of-5000.json on every run) *)
Theorem C12_succeeds_adv_limit_refuted :
  exists hd sp ip ap inf inp,
    Forall (fun b => create_adv GTT hd ap b <> None /\ is_category_std true b = true) inp /\ kinds_consistent inp /\
    exists r, flatten_full_spec GA GT GTT hd sp ip ap inf inp r /\ fst r = FErrCreate /\ af_std (snd r) = nil.
Proof. exact c12_succeeds_adv_limit_refuted. Qed.
Print Assumptions C12_succeeds_adv_limit_refuted.

(* ---- flatten (flatten f) ------------------------------------------------------------------------------ *)

(* The consolidation-level statement C12_idempotent (Props/C12.v) has no hypothesis.  Whole function:
   under the hypotheses of C12_succeeds, applying FlattenBatches to ANY result [out] of the first
   application (the new file control carries the original figures, so [inf] describes it too)
   succeeds in the same sense, every batch passes Create again, and nothing is consolidated: the
   result list of the second application is [out] itself — for every processing order and map
   order of the second run.  (The file header's creation date / time is not part of the model.) *)
Theorem C12_reflatten : forall hd sp ip ap inf inp out r',
  std_file inp -> inp <> nil -> i_hdr_ok inf = true ->
  kinds_consistent inp -> Forall traces_nodup inp ->
  Forall (fun b => Arith.validate_batch GA (f_batch GA (hp_of hd) (fp_of sp) b) = Arith.ROk) inp ->
  Forall (hdr_pair hd) (ids inp) ->
  i_count inf = sum_ids cnt_e inp -> i_debit inf = sum_ids (db_e GT sp) inp -> i_credit inf = sum_ids (cr_e GT sp) inp ->
  cat_rule inp ->
  i_debit inf <= Arith.t_file_limit GA -> i_credit inf <= Arith.t_file_limit GA ->
  flatten_spec inp out ->
  flatten_full_spec GA GT GTT hd sp ip ap inf out r' ->
  (fst r' = FOk \/ (fst r' = FErrValidate /\ file_ctl_ok GA (snd r') = false))
  /\ Offsets.fc_count (af_ctl (snd r')) = i_count inf
  /\ Offsets.fc_debit (af_ctl (snd r')) = i_debit inf
  /\ Offsets.fc_credit (af_ctl (snd r')) = i_credit inf
  /\ exists all', r' = finish GA GT GTT hd sp ip ap inf all' /\ finalize all' = out
       /\ Forall (fun x => created GA GT hd sp x /\ StronglySorted trace_lt (b_entries x)) (pre all').
Proof. exact c12_reflatten. Qed.
Print Assumptions C12_reflatten.

(* ---- the executable models of the correspondence are instances of the specification ------------ *)

Theorem C12_full_stable_admissible : forall hd sp ip ap inf inp,
  flatten_full_spec GA GT GTT hd sp ip ap inf inp (flatten_full_stable GA GT GTT hd sp ip ap inf inp).
Proof. exact (flatten_full_stable_spec GA GT GTT). Qed.
Print Assumptions C12_full_stable_admissible.

Theorem C12_full_checker_sound : forall hd sp ip ap inf inp hint r,
  flatten_full_hint GA GT GTT hd sp ip ap inf inp hint = Some r -> flatten_full_spec GA GT GTT hd sp ip ap inf inp r.
Proof. exact (flatten_full_hint_sound GA GT GTT). Qed.
Print Assumptions C12_full_checker_sound.

(* ---- non-vacuity: a concrete file satisfies every hypothesis of C12_succeeds / C12_valid; the
   whole function returns OK with one batch and the original figures --------------------------- *)
Theorem C12_succeeds_example :
  (std_file ex_inp /\ ex_inp <> nil /\ i_hdr_ok fx_inf = true /\ kinds_consistent ex_inp /\ Forall traces_nodup ex_inp /\
   Forall (fun b => Arith.validate_batch GA (f_batch GA (hp_of fx_hd) (fp_of fx_sp) b) = Arith.ROk) ex_inp /\
   Forall (hdr_pair fx_hd) (ids ex_inp) /\
   i_count fx_inf = sum_ids cnt_e ex_inp /\ i_debit fx_inf = sum_ids (db_e GT fx_sp) ex_inp /\
   i_credit fx_inf = sum_ids (cr_e GT fx_sp) ex_inp /\ cat_rule ex_inp /\
   i_debit fx_inf <= Arith.t_file_limit GA /\ i_credit fx_inf <= Arith.t_file_limit GA) /\
  (let r := flatten_full_stable GA GT GTT fx_hd fx_sp fx_ip fx_ap fx_inf ex_inp in
   fst r = FOk /\ length (af_std (snd r)) = 1%nat /\ af_ctl (snd r) = Offsets.mkfctl 1 1 3 35242298 0 300).
Proof. exact (conj fx_hyps fx_result). Qed.
Print Assumptions C12_succeeds_example.

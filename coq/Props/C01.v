(* C01 — write then read returns the same file, for every physical line layout.
   Only statements; every proof is `exact <lemma>`.  (Record-level codec
   theorems over the regenerated layouts are in Props/C01Records.v.) *)
From Coq Require Import List Bool NArith.
From ACH Require Import Bytes Utf8 Framing FramingFacts FileStruct FileStructFacts C01Frame.
Open Scope list_scope.

(* every physical layout of the same records — LF, CR LF, CR, one unbroken
   stream, blank lines interleaved, in any mixture — is cut into the same lines *)
Theorem C01_framing : forall recs n, Forall rec_ok recs ->
  map snd (frame (layout_text recs) [] 0 n) = map (fun p => concat (fst p)) recs.
Proof. exact frame_layout. Qed.
Print Assumptions C01_framing.

Theorem C01_framing_leading_blank_lines : forall js recs n, Forall junk_ok js -> Forall rec_ok recs ->
  map snd (frame (flat_map junk_chars js ++ layout_text recs) [] 0 n) = map (fun p => concat (fst p)) recs.
Proof. exact frame_layout_lead. Qed.
Print Assumptions C01_framing_leading_blank_lines.

Theorem C01_layout_independent : forall recs1 recs2 n1 n2,
  Forall rec_ok recs1 -> Forall rec_ok recs2 -> map fst recs1 = map fst recs2 ->
  map snd (frame (layout_text recs1) [] 0 n1) = map snd (frame (layout_text recs2) [] 0 n2).
Proof. exact frame_layout_indep. Qed.
Print Assumptions C01_layout_independent.

(* trailing blanks trimmed: the short line is handed over when its line break
   arrives, and right-padding restores the 94-character record (ASCII records;
   the general statement needs the UTF-8 append lemma, see C01Records) *)
Theorem C01_short_line : forall pre c rest n,
  Forall not_nl pre -> (0 < length pre < 94)%nat -> is_nl c = true ->
  frame (pre ++ c :: rest) [] 0 n = emit (S n) (concat pre) (frame rest [] 0 (S n)).
Proof. exact frame_short. Qed.
Print Assumptions C01_short_line.

Theorem C01_trimmed_padded_ascii : forall s k,
  forallb (fun b => (b <? 128)%N) s = true -> length s = 94%nat ->
  skipn (94 - k) s = repeat sp k -> (0 < k <= 94)%nat ->
  norm_line (firstn (94 - k) s) = NLine s.
Proof. exact norm_line_trimmed. Qed.
Print Assumptions C01_trimmed_padded_ascii.

(* the reader's record dispatch inverts the writer's record order; all-9 filler
   records may be missing or in excess (any k) *)
Theorem C01_records_roundtrip : forall f k, file_typed f = true -> starts99 (f_ctl f) = false ->
  read_struct (record_lines f ++ repeat nines k) = Some f.
Proof. exact read_struct_written. Qed.
Print Assumptions C01_records_roundtrip.

Theorem C01_physical_roundtrip : forall f, file_typed f = true -> starts99 (f_ctl f) = false ->
  read_struct (physical_lines f) = Some f.
Proof. exact read_struct_physical. Qed.
Print Assumptions C01_physical_roundtrip.

(* non-vacuity *)
Theorem C01_example_layouts :
  map snd (frame (layout_text [(ex_rec 65, [JNl CR; JNl LF; JBlank 3 LF]); (ex_rec 66, [JNl LF])]) [] 0 0)
  = map snd (frame (layout_text [(ex_rec 65, []); (ex_rec 66, [])]) [] 0 0)
  /\ length (frame (layout_text [(ex_rec 65, []); (ex_rec 66, [])]) [] 0 0) = 2%nat.
Proof. exact ex_layouts_agree. Qed.

(* C13, phase 4 — Reversal and the ValidateOpts stored on the file and its batches.
   Only statements here; every proof is `exact <lemma>`.

   Reversal works on the batches of the file in place (it rebuilds *Batch values with
   Batch.build and calls File.Create): the options stored on the file and on every batch
   are what they were, provided no statement of reversal.go stores an option value.  That
   is what the regenerated table says (Gen/OptSites.v lists every X.SetValidation(E) and
   every assignment to a validateOpts field of FlattenBatches, SegmentFile and Reversal);
   a Reversal that resets the options of the batch it rebuilds adds a site and breaks the
   obligation.  The oracle side (harness/internal/optsdom.Reversal, harness/cmd/c1113x rev
   kind 5) observes the stored options and the trace numbers before and after. *)
From Coq Require Import String List.
From ACH Require Import OptSitesTable OptSites OptSitesObl.

Theorem C13_reversal_stores_no_options :
  forall x, In x opt_sites -> site_func x <> "File.Reversal"%string.
Proof. exact (proj1 (proj2 opt_sites_facts)). Qed.
Print Assumptions C13_reversal_stores_no_options.

Theorem C13_opt_sites : opt_sites = expected_sites.
Proof. exact (proj1 opt_sites_facts). Qed.
Print Assumptions C13_opt_sites.

(* C02 — the control records of a file tabulated by Create declare what is
   physically written (design theorem C02_create_counts).  Only statements; every
   proof is `exact <lemma>`.

   f                 a file tree (Codec/Dispatch.v): records are (layout name, field values)
   write_file f      the record lines Writer.Write emits; write_file_padded adds the filler
   physical, on the lines of the text:
     batch_header_lines    number of '5' lines
     entry_addenda_lines   number of '6' and '7' lines
     batch_segments        per '5' line: the lines up to the next '8' line, and that '8' line
     block_lines           lines / 10
   declared, columns of the control lines (parseNumField of the layout's columns):
     bc_entry_count  '8' line, columns 4..10       fc_batch_count  '9' line, columns 1..7
     fc_block_count  '9' line, columns 7..13       fc_entry_count  '9' line, columns 13..21
   hypotheses (all boolean, all evaluated on f):
     shape_ok      every record's layout starts with the record-type digit of its place in the tree
     rec_fitsb     the record fits its regenerated layout (94 characters)
     tabulatedb    the control fields hold what Batch.build / IATBatch.build / File.Create /
                   createFileADV compute — Model/Offsets.v [count] and [file_control] (C05) over
                   the projection [o_batch] of the tree
     adv_no_iat    an ADV file carries no IAT batch (needed: C02_adv_with_iat_refuted)
     count_boundsb the counts fit their columns: 6 digits per batch, 6 / 6 / 8 digits in the
                   file control (needed: C02_count_overflow_refuted) *)
From Coq Require Import String List Bool NArith ZArith.
From ACH Require Import Bytes LayoutTypes Layout LayoutOk FileStruct Dispatch WrittenCounts WrittenCountsFacts
  Layouts CountStmtTypes CountStmts C01FileEx C02CountsEx C02CountsObl.
Import ListNotations.
Local Open Scope nat_scope.
Open Scope list_scope.

(* the tabulation code of this run is the one the model transcribes: File.Create and createFileADV
   add 1 batch, the batch control's entry/addenda count and 2 + that count records per batch
   (f.Batches then f.IATBatches; f.Batches only for ADV), starting from 2 records, and store
   batchSeq - 1, ceil(records / 10) and the count sum; Batch.build / IATBatch.build count 1 per entry
   plus exactly the addenda the writer emits for the entry (the writer's slots of Codec/Dispatch.v) *)
Theorem C02_count_statements_checked :
  count_stmts_ok counts_File_Create counts_File_createFileADV counts_Batch_build counts_EntryDetail_addendaCount
                 counts_IATBatch_build counts_IATBatch_isBatchEntryCount std_slots adv_slots iat_slots = true.
Proof. exact count_stmts_checked. Qed.

(* the count columns of BatchControl / ADVBatchControl / FileControl / ADVFileControl of this run *)
Theorem C02_count_columns_checked : count_cols_ok all_layouts = true.
Proof. exact count_cols_checked. Qed.

(* ... and are written through numericField only: storing a count keeps a fitting control record fitting *)
Theorem C02_count_fields_plain_checked : count_fields_plain all_layouts = true.
Proof. exact count_fields_plain_checked. Qed.

(* the shape of the tree types the written lines (record-type digits of the regenerated layouts) *)
Theorem C02_shape_typed : forall f, shape_ok all_layouts f = true -> file_typed (struct_of all_layouts f) = true.
Proof. exact counts_shape_typed. Qed.
Print Assumptions C02_shape_typed.

(* what is physically written, in terms of the tree — no tabulation involved *)
Theorem C02_physical_counts : forall f, shape_ok all_layouts f = true -> adv_only f = true ->
  let ls := write_file_padded all_layouts f in
  batch_header_lines ls = length (all_batches f)
  /\ entry_addenda_lines ls = list_sum (map tree_count (all_batches f))
  /\ length (write_file all_layouts f) = 2 + list_sum (map (fun b => 2 + tree_count b) (all_batches f))
  /\ block_lines ls = blocks_of (length (write_file all_layouts f))
  /\ 10 * block_lines ls = length ls
  /\ map (fun s => (entry_addenda_lines (fst s), snd s)) (batch_segments ls)
     = map (fun b => (tree_count b, render_rec all_layouts (bt_ctl b))) (all_batches f).
Proof. exact counts_physical_tree. Qed.
Print Assumptions C02_physical_counts.

(* the file control line is the last record before the filler *)
Theorem C02_file_control_line : forall f,
  last (write_file all_layouts f) [] = render_rec all_layouts (fl_ctl f).
Proof. exact counts_file_control_line. Qed.

(* C02_create_counts: standard, IAT and ADV files *)
Theorem C02_create_counts : forall f,
  shape_ok all_layouts f = true -> all_file (rec_fitsb all_layouts) f = true ->
  tabulatedb f = true -> adv_no_iat f = true -> count_boundsb f = true ->
  let ls := write_file_padded all_layouts f in
  let fc := last (write_file all_layouts f) [] in
  fc_batch_count fc = Z.of_nat (batch_header_lines ls)
  /\ fc_entry_count fc = Z.of_nat (entry_addenda_lines ls)
  /\ (fc_block_count fc * 10)%Z = Z.of_nat (length ls)
  /\ length (batch_segments ls) = length (all_batches f)
  /\ Forall (fun s => bc_entry_count (snd s) = Z.of_nat (entry_addenda_lines (fst s))) (batch_segments ls).
Proof. exact counts_exact. Qed.
Print Assumptions C02_create_counts.

(* the same with Create as a function on the tree ([tabulate]: every batch's Create sets the batch control's
   count, File.Create / createFileADV the file control's three; [create_counts_of] = None when createFileADV
   refuses a file that mixes ADV and other batches): its result is tabulated and still fits, so for EVERY
   fitting tree of the right shape the file written after Create declares what is physically present *)
Theorem C02_create_tabulates : forall f, adv_only f = true -> tabulatedb (tabulate f) = true.
Proof. exact counts_tabulated. Qed.
Print Assumptions C02_create_tabulates.

Theorem C02_create_then_write_counts : forall f g,
  create_counts_of f = Some g ->
  shape_ok all_layouts f = true -> adv_no_iat f = true ->
  all_file (rec_fitsb all_layouts) f = true -> count_boundsb g = true ->
  let ls := write_file_padded all_layouts g in
  let fc := last (write_file all_layouts g) [] in
  all_file (rec_fitsb all_layouts) g = true
  /\ fc_batch_count fc = Z.of_nat (batch_header_lines ls)
  /\ fc_entry_count fc = Z.of_nat (entry_addenda_lines ls)
  /\ (fc_block_count fc * 10)%Z = Z.of_nat (length ls)
  /\ length (batch_segments ls) = length (all_batches f)
  /\ Forall (fun s => bc_entry_count (snd s) = Z.of_nat (entry_addenda_lines (fst s))) (batch_segments ls).
Proof. exact counts_tabulate. Qed.
Print Assumptions C02_create_then_write_counts.

(* without the bounds: the columns hold the counts modulo 10^6 / 10^8 *)
Theorem C02_create_counts_mod : forall f,
  shape_ok all_layouts f = true -> all_file (rec_fitsb all_layouts) f = true ->
  tabulatedb f = true -> adv_no_iat f = true ->
  let ls := write_file_padded all_layouts f in
  let fc := last (write_file all_layouts f) [] in
  (fc_batch_count fc = Z.of_nat (batch_header_lines ls) mod pow10 6)%Z
  /\ (fc_entry_count fc = Z.of_nat (entry_addenda_lines ls) mod pow10 8)%Z
  /\ (fc_block_count fc = Z.of_nat (block_lines ls) mod pow10 6)%Z
  /\ (10 * block_lines ls)%nat = length ls
  /\ length (batch_segments ls) = length (all_batches f)
  /\ Forall (fun s => bc_entry_count (snd s) = Z.of_nat (entry_addenda_lines (fst s)) mod pow10 6)%Z (batch_segments ls).
Proof. exact counts_mod. Qed.
Print Assumptions C02_create_counts_mod.

(* the bounds are bounds on the written text *)
Theorem C02_count_bounds_physical : forall f,
  shape_ok all_layouts f = true -> tabulatedb f = true -> adv_no_iat f = true -> count_boundsb f = true ->
  let ls := write_file_padded all_layouts f in
  (Z.of_nat (batch_header_lines ls) < pow10 6)%Z /\ (Z.of_nat (entry_addenda_lines ls) < pow10 8)%Z
  /\ (Z.of_nat (block_lines ls) < pow10 6)%Z
  /\ Forall (fun s => (Z.of_nat (entry_addenda_lines (fst s)) < pow10 6)%Z) (batch_segments ls).
Proof. exact counts_bounds_physical. Qed.

(* every residue r of the record count: (10 - r) mod 10 filler lines and an exact block count *)
Theorem C02_block_count_residues : forall f r,
  shape_ok all_layouts f = true -> all_file (rec_fitsb all_layouts) f = true ->
  tabulatedb f = true -> adv_no_iat f = true -> count_boundsb f = true ->
  (length (write_file all_layouts f) mod 10)%nat = r ->
  let ls := write_file_padded all_layouts f in
  ls = write_file all_layouts f ++ repeat nines ((10 - r) mod 10)%nat
  /\ length ls = (length (write_file all_layouts f) + (10 - r) mod 10)%nat
  /\ (fc_block_count (last (write_file all_layouts f) []) * 10)%Z
     = Z.of_nat (length (write_file all_layouts f) + (10 - r) mod 10).
Proof. exact counts_residues. Qed.
Print Assumptions C02_block_count_residues.

(* non-vacuity: files generated by the harness and tabulated by the real Create — standard (forward,
   returns, NOC), IAT, ADV; residues 0, 1 and 9 of each kind — satisfy every hypothesis *)
Theorem C02_counts_generated_files :
  forallb hypsb [ex_std; ex_ret; ex_iat; ex_adv; cx_r0; cx_r0_adv; cx_r0_iat; cx_r1; cx_r9; cx_r9_adv; cx_r9_iat] = true.
Proof. exact generated_files_hyps. Qed.

(* ... and the model of Create leaves their count fields as the real Create set them *)
Theorem C02_counts_generated_files_fixed :
  forallb (fun f => match create_counts_of f with
                    | Some g => if list_eq_dec Z.eq_dec (fst (count_fields g)) (fst (count_fields f)) then
                                  let '(a, b, c) := snd (count_fields g) in let '(a', b', c') := snd (count_fields f) in
                                  (a =? a')%Z && (b =? b')%Z && (c =? c')%Z
                                else false
                    | None => false
                    end)
          [ex_std; ex_ret; ex_iat; ex_adv; cx_r0; cx_r0_adv; cx_r0_iat; cx_r1; cx_r9; cx_r9_adv; cx_r9_iat] = true.
Proof. exact generated_files_fixed. Qed.

(* (records, residue, filler lines, declared block count, '5' lines, '6'+'7' lines) *)
Theorem C02_counts_residue_0 : map residue_row [cx_r0; cx_r0_adv; cx_r0_iat]
  = [(10, 0, 0, 1%Z, 2, 4); (10, 0, 0, 1%Z, 2, 4); (40, 0, 0, 4%Z, 2, 34)]%nat.
Proof. exact residue_0. Qed.
Theorem C02_counts_residue_1 : map residue_row [cx_r1; ex_iat]
  = [(11, 1, 9, 2%Z, 2, 5); (31, 1, 9, 4%Z, 2, 25)]%nat.
Proof. exact residue_1. Qed.
Theorem C02_counts_residue_9 : map residue_row [cx_r9; cx_r9_adv; cx_r9_iat]
  = [(19, 9, 1, 2%Z, 2, 13); (9, 9, 1, 1%Z, 2, 3); (49, 9, 1, 5%Z, 2, 43)]%nat.
Proof. exact residue_9. Qed.

(* every residue 0..9 (re-tabulated trees of 7..16 records): (residue, filler lines, blocks * 10 - records) *)
Theorem C02_counts_every_residue :
  forallb (fun k => hypsb (sized k)) (seq 0 10) = true
  /\ map (fun k => let '(n, r, pad, blocks, _, _) := residue_row (sized k) in (r, pad, (blocks * 10 - Z.of_nat n)%Z)) (seq 0 10)
     = [(7, 3, 3%Z); (8, 2, 2%Z); (9, 1, 1%Z); (0, 0, 0%Z); (1, 9, 9%Z); (2, 8, 8%Z); (3, 7, 7%Z); (4, 6, 6%Z); (5, 5, 5%Z); (6, 4, 4%Z)]%nat.
Proof. exact every_residue. Qed.

(* the hypotheses are needed.
   (a) an ADV file with an IAT batch, controls as createFileADV leaves them: 3 batch headers,
       13 entry/addenda lines, 30 lines; declared 2, 3 and 1 block *)
Theorem C02_adv_with_iat_refuted :
  shape_ok all_layouts adv_with_iat = true /\ all_file (rec_fitsb all_layouts) adv_with_iat = true
  /\ tabulatedb adv_with_iat = true /\ count_boundsb adv_with_iat = true /\ adv_no_iat adv_with_iat = false
  /\ let ls := write_file_padded all_layouts adv_with_iat in
     let fc := last (write_file all_layouts adv_with_iat) [] in
     fc_batch_count fc = 2%Z /\ batch_header_lines ls = 3%nat
     /\ fc_entry_count fc = 3%Z /\ entry_addenda_lines ls = 13%nat
     /\ fc_block_count fc = 1%Z /\ length ls = 30%nat.
Proof. exact adv_with_iat_refuted. Qed.

(* (b) a batch of 10^6 entries: a million '6' lines between the '5' and the '8' line, which declares 000000 *)
Theorem C02_count_overflow_refuted :
  shape_ok all_layouts big_file = true /\ all_file (rec_fitsb all_layouts) big_file = true
  /\ tabulatedb big_file = true /\ adv_no_iat big_file = true /\ count_boundsb big_file = false
  /\ exists inner ctl, batch_segments (write_file_padded all_layouts big_file) = [(inner, ctl)]
       /\ Z.of_nat (entry_addenda_lines inner) = 1000000%Z /\ bc_entry_count ctl = 0%Z.
Proof. exact overflow_refuted. Qed.
Print Assumptions C02_count_overflow_refuted.

(* C05 — Create tabulates a valid, stable file; offsets balance every batch.
   Only statements here; every proof is `exact <lemma>`.

   [offset_table] is regenerated from batch.go on every run (coq/Gen/OffsetTable.v): the two
   code lists of calculateBatchAmounts, the codes the removal loop of upsertOffsets books
   against the credit total, the low bound of its tail slice, the [i--], and the transaction
   codes of the two offset entries.  [build] is Batch.build (non-ADV, validateOpts == nil)
   including upsertOffsets with its removal loop written with its index arithmetic and fuel;
   [file_create] is File.Create (renumbering only numbers <= 1).  Model: coq/Model/Offsets.v. *)
From Coq Require Import List ZArith Bool.
From ACH Require Import Offsets OffsetsFacts OffsetTable C05Obl.
Open Scope Z_scope.

(* A successful build leaves the batch control equal to the values recomputed from the
   entries (entry/addenda count, entry hash, total credit, total debit; service class and
   batch number equal to the header's).  With an offset configured the hypothesis on entries
   the caller named OFFSET is needed (no addenda, a code the removal loop books the way
   calculateBatchAmounts counts it); [offset_named_gl_credit_outside_wf] in C05Obl shows it
   cannot be dropped. *)
Theorem C05_create_valid : forall b b',
  (b_off b <> None -> wf_entries offset_table (b_entries b) = true) ->
  build offset_table b = Ret true b' -> ctl_ok offset_table b'.
Proof. exact c05_create_valid. Qed.
Print Assumptions C05_create_valid.

(* Trace numbers are assigned where absent: afterwards every entry not named OFFSET carries
   the header's ODFI in its first eight digits; pre-set ones are kept as they are; a batch
   without any pre-set trace gets ODFI*10^7 + 1, 2, 3, ... *)
Theorem C05_traces_assigned : forall b b', odfi_ok (b_odfi b) ->
  (b_off b <> None -> wf_entries offset_table (b_entries b) = true) ->
  build offset_table b = Ret true b' ->
  forallb (has_prefix (b_odfi b)) (filter nonoff (b_entries b')) = true.
Proof. exact c05_traces_assigned. Qed.
Print Assumptions C05_traces_assigned.

Theorem C05_traces_kept : forall b b' e,
  (b_off b <> None -> wf_entries offset_table (b_entries b) = true) ->
  build offset_table b = Ret true b' ->
  In e (b_entries b) -> e_off e = false -> has_prefix (b_odfi b) e = true -> In e (b_entries b').
Proof. exact c05_traces_kept. Qed.
Print Assumptions C05_traces_kept.

Theorem C05_traces_fresh : forall odfi es s,
  forallb (fun e => negb (has_prefix odfi e)) es = true ->
  map e_trace (retrace odfi s es) = map (fun i => odfi * P7 + (s + Z.of_nat i) mod P7) (seq 0 (length es)).
Proof. exact c05_traces_fresh. Qed.
Print Assumptions C05_traces_fresh.

(* ... and these are strictly ascending, the offsets' trace numbers included. *)
Theorem C05_traces_ascending : forall b b', 0 <= b_odfi b ->
  (b_off b <> None -> wf_entries offset_table (b_entries b) = true) ->
  all_absent (b_odfi b) (b_entries b) = true -> Z.of_nat (length (b_entries b)) < P7 - 1 ->
  build offset_table b = Ret true b' -> asc 0 (map e_trace (b_entries b')).
Proof. exact c05_traces_ascending. Qed.
Print Assumptions C05_traces_ascending.

(* Calling Create again changes nothing: the second build returns the very same batch
   (entries, traces, control, header fields).  [b_entries b' <> []] holds whenever the
   batch validates (a batch all of whose entries were named OFFSET ends up empty). *)
Theorem C05_idempotent : forall b b', odfi_ok (b_odfi b) -> wf_entries offset_table (b_entries b) = true ->
  build offset_table b = Ret true b' -> b_entries b' <> [] -> build offset_table b' = Ret true b'.
Proof. exact c05_idempotent. Qed.
Print Assumptions C05_idempotent.

(* With an offset configured, after n >= 1 creates the batch is balanced (total debits =
   total credits), holds at most one OFFSET entry per direction, its control equals the
   recomputation, and its entries are the caller's entries not named OFFSET followed by the
   offsets — the same batch for every n. *)
Theorem C05_offset_balanced : forall n b o, (1 <= n)%nat ->
  b_hdr_ok b = true -> b_off b = Some o -> o_routing_ok o = true -> o_kind o <> BadKind ->
  odfi_ok (b_odfi b) -> wf_entries offset_table (b_entries b) = true -> existsb nonoff (b_entries b) = true ->
  exists b', iter_build offset_table n b = Ret true b' /\ balanced offset_table b' /\ ctl_ok offset_table b' /\
    (length (off_credits offset_table (b_entries b')) <= 1)%nat /\
    (length (off_debits offset_table (b_entries b')) <= 1)%nat /\
    b_entries b' = body b ++ new_offsets offset_table o (last_trace (body b))
                                         (credits offset_table (body b)) (debits offset_table (body b)).
Proof. exact c05_offset_balanced. Qed.
Print Assumptions C05_offset_balanced.

(* No batch whatsoever makes build panic (slice bounds) or loop forever (fuel exhausted). *)
Theorem C05_build_total : forall b, build offset_table b <> Panic /\ build offset_table b <> Hang.
Proof. exact c05_build_total. Qed.
Print Assumptions C05_build_total.

(* Histories: any sequence of Batch.Create / AddEntry / File.Create on any file returns. *)
Theorem C05_history : forall ops f, run offset_table ops f <> Panic /\ run offset_table ops f <> Hang.
Proof. exact c05_history_total. Qed.
Print Assumptions C05_history.

(* ... and after any history (every added entry that is named OFFSET being of the kind
   above) a batch that Create has just tabulated has a control equal to the recomputation
   and, with an offset configured, is balanced through at most one offset per direction. *)
Theorem C05_history_create : forall ops i f f' b',
  file_wf offset_table f = true -> forallb (op_wf offset_table) ops = true ->
  run offset_table (ops ++ [BatchCreate i]) f = Ret true f' -> nth_error (f_batches f') i = Some b' ->
  ctl_ok offset_table b' /\
  (b_off b' <> None -> balanced offset_table b' /\ (length (off_credits offset_table (b_entries b')) <= 1)%nat
                       /\ (length (off_debits offset_table (b_entries b')) <= 1)%nat).
Proof. exact c05_history_create. Qed.
Print Assumptions C05_history_create.

(* File.Create twice = File.Create once, after any history. *)
Theorem C05_history_file_stable : forall ops f f',
  run offset_table (ops ++ [FileCreate]) f = Ret true f' ->
  run offset_table (ops ++ [FileCreate; FileCreate]) f = Ret true f'.
Proof. exact c05_history_file_stable. Qed.
Print Assumptions C05_history_file_stable.

Theorem C05_file_idempotent : forall f f', file_create f = Ret true f' -> file_create f' = Ret true f'.
Proof. exact c05_file_idempotent. Qed.
Print Assumptions C05_file_idempotent.

(* File.Create leaves a file control that is the tabulation of the batch controls (batch
   count, block count, entry/addenda count, entry hash mod 10^10, totals) and does not touch
   the entries. *)
Theorem C05_file_create_valid : forall f f', file_create f = Ret true f' ->
  f_ctl f' = file_control (f_batches f') /\ map b_entries (f_batches f') = map b_entries (f_batches f) /\
  fc_batches (f_ctl f') = Z.of_nat (length (f_batches f)).
Proof. exact c05_file_tabulates. Qed.
Print Assumptions C05_file_create_valid.

(* Batch numbers absent everywhere (<= 1) come out as 1, 2, 3, ... in header and control,
   and the file control is the tabulation of the batch controls.  (Partial with respect to
   the full statement "ascending": File.Create keeps every number > 1 the caller provided,
   whatever its position — see docs/C05.md.) *)
Theorem C05_file_numbers_partial : forall f f' i b,
  forallb (fun b => b_num b <=? 1) (f_batches f) = true ->
  file_create f = Ret true f' -> nth_error (f_batches f') i = Some b ->
  b_num b = 1 + Z.of_nat i /\ c_num (b_ctl b) = 1 + Z.of_nat i /\ f_ctl f' = file_control (f_batches f').
Proof. exact c05_file_numbers. Qed.
Print Assumptions C05_file_numbers_partial.

(* The code as it was before the repair (tail slice Entries[i+i:]), same table otherwise. *)
Theorem C05_unfixed_second_create_panics_refuted :
  exists b1, build unfixed_table three_entries = Ret true b1 /\ build unfixed_table b1 = Panic.
Proof. exact unfixed_second_create_panics. Qed.
Print Assumptions C05_unfixed_second_create_panics_refuted.

Theorem C05_table_ok : table_ok offset_table = true.
Proof. exact offset_table_ok. Qed.

(* C20, ENR / DNE payment information (phase 2): masking survives the
   reassembly done by ENRPaymentInformation.String / DNEPaymentInformation.String.
   Only statements here; every proof is `exact <lemma>`. *)
From Coq Require Import String List Bool.
From ACH Require Import Utf8 Mask MaskFacts Fields PaymentInfo PaymentInfoFacts PayShapeTable PayShape C20EnrObl.

(* ---- the reassembly itself (ENRPaymentInformation.String, local individualName) ---- *)

(* For EVERY name given to String() and both branches (consumer: Fields, surname
   first, joined with '*'; business: %15.15s + '*' + %7.7s of the byte slice
   name[15:], both TrimSpace'd): a non-empty byte string without blank and
   without '*' that occurs in the reassembled name occurs in the name itself.
   The reassembly creates no new words - not by re-ordering, not by the 15/7
   split, not by slicing bytes of multi-byte characters. *)
Theorem C20_enr_reassembly_no_new_words : forall name code w,
  w <> [] -> nospace w -> nostar w = true ->
  substring w (enr_name_out name code) -> substring w name.
Proof. exact enr_name_out_substring. Qed.
Print Assumptions C20_enr_reassembly_no_new_words.

(* hence with the name masked first, no blank-free, asterisk-free string of
   three or more bytes is printed in the name position *)
Theorem C20_enr_name_position_hidden : forall name code w,
  nospace w -> nostar w = true -> (3 <= length w)%nat ->
  ~ substring w (enr_name_out (maskName name) code).
Proof. exact enr_name_out_hides. Qed.
Print Assumptions C20_enr_name_position_hidden.

(* the asterisk-freeness of w cannot be dropped from the statement about
   String(): a name that contains '*' itself leaks a word through the business
   branch (multi-byte character before column 15) ... *)
Theorem C20_enr_name_star_needed_refuted :
  In (bs "AB*B*") (fields star_name) /\ noblank (bs "AB*B*") = true /\
  nth 3 (bs "AB*B*") 0%N <> star /\ nostar (bs "AB*B*") = false /\
  contains (enr_name_out (maskName star_name) [66%N]) (bs "AB*B*") = true.
Proof. exact enr_name_out_star_witness. Qed.
Print Assumptions C20_enr_name_star_needed_refuted.

(* ... but describe never gives String() such a name: every field of a parsed
   ENR payment information is free of '*' *)
Theorem C20_enr_parsed_fields_star_free : forall pri i, parse_enr pri = Some i ->
  nostar (e_rdfi i) = true /\ nostar (e_check i) = true /\ nostar (e_acct i) = true /\
  nostar (e_ident i) = true /\ nostar (e_name i) = true /\ nostar (e_code i) = true.
Proof. exact parse_enr_nostar. Qed.
Print Assumptions C20_enr_parsed_fields_star_free.

(* ---- the printed cell: parse, mask the parsed fields, String() ---- *)

(* MaskNames on, MaskAccountNumbers arbitrary: a blank-free, asterisk-free
   string of three or more bytes that occurs anywhere in the printed cell occurs
   in one of the OTHER printed fields (transaction code, RDFI, check digit,
   account, identification - masked or not -, classification code) - the name
   contributes nothing.  '*' is both the separator and the mask character, hence
   the claim is about asterisk-free strings. *)
Theorem C20_enr_name_hidden : forall pri i accts w,
  parse_enr pri = Some i ->
  nospace w -> nostar w = true -> (3 <= length w)%nat ->
  substring w (describe_enr true accts pri) ->
  exists f, In f (enr_beside_name (mask_enr true accts i)) /\ substring w f.
Proof. exact enr_name_hidden. Qed.
Print Assumptions C20_enr_name_hidden.

(* for the strings that matter - the words of the parsed name, of its surname
   and first-name components, any blank-free part of them - asterisk-freeness
   follows from the parse: no hypothesis on the content is left *)
Theorem C20_enr_name_words_hidden : forall pri i accts w,
  parse_enr pri = Some i ->
  substring w (e_name i) -> nospace w -> (3 <= length w)%nat ->
  substring w (describe_enr true accts pri) ->
  exists f, In f (enr_beside_name (mask_enr true accts i)) /\ substring w f.
Proof. exact enr_name_words_hidden. Qed.
Print Assumptions C20_enr_name_words_hidden.

(* MaskAccountNumbers on: an asterisk-free string with five or more significant
   bytes (neither blank nor '*') that occurs in the printed cell occurs in a
   field other than the account number and the identification *)
Theorem C20_enr_numbers_hidden : forall pri i names v,
  parse_enr pri = Some i ->
  nostar v = true -> (5 <= count_sig v)%nat ->
  substring v (describe_enr names true pri) ->
  exists f, In f (enr_beside_numbers (mask_enr names true i)) /\ substring v f.
Proof. exact enr_numbers_hidden. Qed.
Print Assumptions C20_enr_numbers_hidden.

Theorem C20_enr_account_hidden : forall pri i names v,
  parse_enr pri = Some i ->
  substring v (e_acct i) \/ substring v (e_ident i) -> (5 <= count_sig v)%nat ->
  substring v (describe_enr names true pri) ->
  exists f, In f (enr_beside_numbers (mask_enr names true i)) /\ substring v f.
Proof. exact enr_account_hidden. Qed.
Print Assumptions C20_enr_account_hidden.

(* achcli -mask (both flags): only the unprotected fields can show a blank-free,
   asterisk-free string with five significant bytes *)
Theorem C20_enr_all_hidden : forall pri i w,
  parse_enr pri = Some i ->
  nospace w -> nostar w = true -> (5 <= count_sig w)%nat ->
  substring w (describe_enr true true pri) ->
  exists f, In f (enr_unprotected i) /\ substring w f.
Proof. exact enr_all_hidden. Qed.
Print Assumptions C20_enr_all_hidden.

(* DNE: the customer SSN is masked when either flag is on *)
Theorem C20_dne_ssn_hidden : forall pri i names accts v,
  parse_dne pri = Some i -> names || accts = true ->
  nostar v = true -> (5 <= count_sig v)%nat ->
  substring v (describe_dne names accts pri) ->
  exists f, In f (dne_beside_ssn i) /\ substring v f.
Proof. exact dne_ssn_hidden. Qed.
Print Assumptions C20_dne_ssn_hidden.

Theorem C20_dne_customer_ssn_hidden : forall pri i names accts v,
  parse_dne pri = Some i -> names || accts = true ->
  substring v (d_ssn i) -> (5 <= count_sig v)%nat ->
  substring v (describe_dne names accts pri) ->
  exists f, In f (dne_beside_ssn i) /\ substring v f.
Proof. exact dne_customer_ssn_hidden. Qed.
Print Assumptions C20_dne_customer_ssn_hidden.

(* scope boundary (properties.jsonl: well-formed payment information): a value
   that does not parse is printed as the raw 80-column field, flags or not *)
Theorem C20_enr_malformed_raw : forall names accts pri,
  enr_wellformed pri = false -> describe_enr names accts pri = alphaField pri 80.
Proof. exact describe_enr_malformed. Qed.

Theorem C20_dne_malformed_raw : forall names accts pri,
  dne_wellformed pri = false -> describe_dne names accts pri = alphaField pri 80.
Proof. exact describe_dne_malformed. Qed.

Theorem C20_enr_malformed_unmasked_refuted :
  enr_wellformed ex_malformed = false /\
  contains (describe_enr true true ex_malformed) (bs "123987654") = true.
Proof. exact enr_malformed_witness. Qed.

(* ---- the model IS the current source ---- *)

(* The bodies of the functions as regenerated from batchENR.go / batchDNE.go /
   cmd/achcli/describe/file.go by the translator on this run, executed by the
   interpreter of Model/PayShapeTable.v, return the model functions' results
   for ALL inputs. *)
Theorem C20_enr_string_source : forall i,
  run_func gen_enr_string (enr_rec i) [] = Some [VBy (enr_string i)].
Proof. exact gen_enr_string_ok. Qed.
Print Assumptions C20_enr_string_source.

Theorem C20_dne_string_source : forall i,
  run_func gen_dne_string (dne_rec i) [] = Some [VBy (dne_string i)].
Proof. exact gen_dne_string_ok. Qed.
Print Assumptions C20_dne_string_source.

Theorem C20_enr_parse_source : forall pri seq eseq,
  run_func gen_enr_parse VNil [addenda_rec pri seq eseq] = Some (enr_parse_result pri).
Proof. exact gen_enr_parse_ok. Qed.
Print Assumptions C20_enr_parse_source.

Theorem C20_dne_parse_source : forall pri seq eseq,
  run_func gen_dne_parse VNil [addenda_rec pri seq eseq] = Some (dne_parse_result pri).
Proof. exact gen_dne_parse_ok. Qed.
Print Assumptions C20_dne_parse_source.

(* the whole pipeline: dumpAddenda05 (regenerated) calling the parse function and
   String() (regenerated) writes the header line and the row whose first cell is
   [describe_enr] / [describe_dne], for every payment string and every flag set;
   for other batch types the raw field *)
Theorem C20_dump_enr_source : forall names accts corr pri seq eseq,
  run_proc (ext_table pay_funcs) gen_dump_addenda05 (dump_args "BatchENR" names accts corr pri seq eseq)
  = Some [VBy (addenda05_lines (describe_enr names accts pri) seq eseq)].
Proof. exact gen_dump_enr_ok. Qed.
Print Assumptions C20_dump_enr_source.

Theorem C20_dump_dne_source : forall names accts corr pri seq eseq,
  run_proc (ext_table pay_funcs) gen_dump_addenda05 (dump_args "BatchDNE" names accts corr pri seq eseq)
  = Some [VBy (addenda05_lines (describe_dne names accts pri) seq eseq)].
Proof. exact gen_dump_dne_ok. Qed.
Print Assumptions C20_dump_dne_source.

Theorem C20_enr_source_name_hidden : forall pri i accts corr seq eseq w,
  parse_enr pri = Some i -> nospace w -> nostar w = true -> (3 <= length w)%nat ->
  exists cell,
    run_proc (ext_table pay_funcs) gen_dump_addenda05 (dump_args "BatchENR" true accts corr pri seq eseq)
      = Some [VBy (addenda05_lines cell seq eseq)] /\
    (substring w cell -> exists f, In f (enr_beside_name (mask_enr true accts i)) /\ substring w f).
Proof. exact gen_dump_enr_name_hidden. Qed.
Print Assumptions C20_enr_source_name_hidden.

Theorem C20_dump_other_batches_source : forall names accts corr pri seq eseq,
  run_proc (ext_table pay_funcs) gen_dump_addenda05 (dump_args "Batch" names accts corr pri seq eseq)
  = Some [VBy (addenda05_lines (alphaField pri 80) seq eseq)].
Proof. exact gen_dump_other_ok. Qed.

Theorem C20_enr_struct_fields : gen_enr_struct = enr_struct_fields.
Proof. exact gen_enr_struct_ok. Qed.

Theorem C20_dne_struct_fields : gen_dne_struct = dne_struct_fields.
Proof. exact gen_dne_struct_ok. Qed.

Theorem C20_payment_information_single_path :
  gen_dump_other_uses = ["dumpAddenda17:PaymentRelatedInformationField"]%string.
Proof. exact gen_dump_other_uses_ok. Qed.

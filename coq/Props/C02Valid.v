(* C02 — valid => width: the columns whose width only validation guarantees.
   Only statements; proofs in Codec/RecValidFacts.v and Oblig/C02ValidObl.v.

   rec_validb R r      the record r passes every rule of R (the reject conditions of the Go
                       Validate() method, regenerated into Gen/RecRules.v, default options)
   rules_of L          the rules of the record type of layout L
   utf8b L r           every string String() reads is valid UTF-8
   widthb L r          every raw / Itoa / custom column renders to its nominal width
                       (the hypothesis of C02_line_width, Props/C02Records.v)
   unbounded_columns L the raw / Itoa / custom columns of L that no rule bounds
   unbounded_fit L r   those columns render to their nominal width *)
From Coq Require Import String List Bool NArith ZArith.
From ACH Require Import Bytes Utf8 Utf8Enc LayoutTypes Fields Layout LayoutOk RecValid Layouts RecRules C01Obl C02ValidObl.
Import ListNotations.
Open Scope string_scope.

(* the record types all of whose columns are bounded by the regenerated rules
   (complete_layouts = the layouts of all_layouts with no unbounded column, partial_layouts = the others) *)
Theorem C02_complete_layouts :
  map l_name complete_layouts =
  [ "ADVBatchControl"; "ADVFileControl"; "Addenda02"; "Addenda05"; "Addenda10"; "Addenda11"; "Addenda12"
  ; "Addenda13"; "Addenda14"; "Addenda15"; "Addenda16"; "Addenda17"; "Addenda18"; "Addenda98"
  ; "Addenda98Refused"; "Addenda99"; "Addenda99Contested"; "Addenda99Dishonored"; "BatchControl"
  ; "BatchHeader"; "FileControl"; "IATBatchHeader" ].
Proof. exact complete_layouts_names. Qed.
Print Assumptions C02_complete_layouts.

(* valid => width, and with C02_line_width: a valid record is 94 characters of valid UTF-8 *)
Theorem C02_valid_width : forall L r, In L complete_layouts ->
  rec_validb (rules_of L) r = true -> utf8b L r = true -> widthb L r = true.
Proof. exact C02_valid_widthb. Qed.
Print Assumptions C02_valid_width.

Theorem C02_valid_line_width : forall L r, In L complete_layouts ->
  rec_validb (rules_of L) r = true -> utf8b L r = true -> rune_count (render L r) = 94%nat.
Proof. exact C02_valid_record_width. Qed.
Print Assumptions C02_valid_line_width.

Theorem C02_valid_line_wellformed : forall L r, In L complete_layouts ->
  rec_validb (rules_of L) r = true -> utf8b L r = true -> wf_utf8 (render L r) = true.
Proof. exact C02_valid_record_wf. Qed.
Print Assumptions C02_valid_line_wellformed.

(* the columns no rule of the Go code bounds, for the four remaining record types *)
Theorem C02_unbounded_columns :
  map (fun L => (l_name L, unbounded_columns L)) partial_layouts =
  [ ("ADVEntryDetail", ["CheckDigit"; "AddendaRecordIndicator"])
  ; ("EntryDetail", ["CheckDigit"; "AddendaRecordIndicator"])
  ; ("FileHeader", ["priorityCode"; "FileHeader.FileCreationDateField"; "FileHeader.FileCreationTimeField"])
  ; ("IATEntryDetail", ["CheckDigit"; "AddendaRecordIndicator"]) ].
Proof. exact unbounded_reviewed. Qed.
Print Assumptions C02_unbounded_columns.

(* every record type, the unbounded columns as an explicit hypothesis *)
Theorem C02_valid_width_partial : forall L r, In L all_layouts ->
  rec_validb (rules_of L) r = true -> utf8b L r = true -> unbounded_fit L r = true -> widthb L r = true.
Proof. exact C02_valid_widthb_partial. Qed.
Print Assumptions C02_valid_width_partial.

Theorem C02_valid_line_width_partial : forall L r, In L all_layouts ->
  rec_validb (rules_of L) r = true -> utf8b L r = true -> unbounded_fit L r = true ->
  rune_count (render L r) = 94%nat.
Proof. exact C02_valid_record_width_partial. Qed.
Print Assumptions C02_valid_line_width_partial.

(* the hypothesis is needed (each witness replayed on the Go code, docs/C02.md):
   a check digit "04" for a computed 4 is accepted and gives 95 columns *)
Theorem C02_checkdigit_refuted :
  let r := ("CheckDigit", VS (bs "04")) :: ed_record in
  rec_validb (rules_of L_EntryDetail) r = true /\ utf8b L_EntryDetail r = true /\
  unbounded_fit L_EntryDetail r = false /\ rune_count (render L_EntryDetail r) = 95%nat.
Proof. exact ed_checkdigit_refuted. Qed.

Theorem C02_indicator_refuted :
  let r := ("AddendaRecordIndicator", VI 10) :: ed_record in
  rec_validb (rules_of L_EntryDetail) r = true /\ utf8b L_EntryDetail r = true /\
  rune_count (render L_EntryDetail r) = 95%nat.
Proof. exact ed_indicator_refuted. Qed.

Theorem C02_fileheader_refuted :
  rec_validb (rules_of L_FileHeader) fh_record = true /\
  unbounded_fit L_FileHeader fh_record = true /\
  (let r := ("FileCreationTime", VS (bs "12")) :: fh_record in
   rec_validb (rules_of L_FileHeader) r = true /\ rune_count (render L_FileHeader r) = 90%nat) /\
  (let r := ("FileCreationDate", VS (bs "1908")) :: fh_record in
   rec_validb (rules_of L_FileHeader) r = true /\ rune_count (render L_FileHeader r) = 88%nat) /\
  (let r := ("priorityCode", VS (bs "1")) :: fh_record in
   rec_validb (rules_of L_FileHeader) r = true /\ rune_count (render L_FileHeader r) = 93%nat).
Proof. exact fh_unbounded_refuted. Qed.

(* the type code of a valid addenda record is the one of its record type *)
Theorem C02_valid_addenda_typecode : forall L code r, In (l_name L, code) typecode_table ->
  rec_validb (rules_of L) r = true -> gets r "TypeCode" = code.
Proof. exact C02_valid_typecode. Qed.
Print Assumptions C02_valid_addenda_typecode.

(* batch level (Batch.isAddendaSequence / IATBatch.isAddendaSequence, regenerated as batch_entry_rules and
   batch_loop_exits; batch_entries_valid name es = the rules hold of every entry the loop inspects):
   a standard entry that carries any optional sub-record has indicator 1; an IAT entry the loop inspects has
   indicator 1, and the loop stops inspecting at the first correction entry (`return nil` inside the loop);
   with the record rules only the one-character CheckDigit is left as a hypothesis *)
Theorem C02_indicator_with_addenda_batch : forall es r g, In g (subrecords_of "EntryDetail") ->
  batch_entries_valid "EntryDetail" es = true -> In r es -> (0 < geti r g)%Z ->
  geti r "AddendaRecordIndicator" = 1%Z.
Proof. exact C02_indicator_with_addenda. Qed.
Print Assumptions C02_indicator_with_addenda_batch.

Theorem C02_entry_with_addenda_line_width : forall es r g, In g (subrecords_of "EntryDetail") ->
  batch_entries_valid "EntryDetail" es = true -> In r es -> (0 < geti r g)%Z ->
  rec_validb (rules_of L_EntryDetail) r = true ->
  utf8b L_EntryDetail r = true -> rune_count (gets r "CheckDigit") = 1%nat ->
  rune_count (render L_EntryDetail r) = 94%nat.
Proof. exact C02_entry_with_addenda_width. Qed.
Print Assumptions C02_entry_with_addenda_line_width.

Theorem C02_iat_entry_line_width : forall es r,
  batch_entries_valid "IATEntryDetail" es = true -> In r (batch_inspected "IATEntryDetail" es) ->
  rec_validb (rules_of L_IATEntryDetail) r = true ->
  utf8b L_IATEntryDetail r = true -> rune_count (gets r "CheckDigit") = 1%nat ->
  rune_count (render L_IATEntryDetail r) = 94%nat.
Proof. exact C02_iat_entry_width. Qed.
Print Assumptions C02_iat_entry_line_width.

Theorem C02_iat_inspected_all : forall es, (forall e, In e es -> geti e "#Addenda98" = 0%Z) ->
  batch_inspected "IATEntryDetail" es = es.
Proof. exact iat_inspected_all. Qed.

(* the entries after the first correction entry of an IAT batch are not inspected by isAddendaSequence *)
Theorem C02_iat_later_correction_refuted :
  let c1 := [("AddendaRecordIndicator", VI 1); ("#Addenda98", VI 1)] in
  let c2 := [("AddendaRecordIndicator", VI 10); ("#Addenda98", VI 1)] in
  batch_entries_valid "IATEntryDetail" [c1; c2] = true /\
  batch_inspected "IATEntryDetail" [c1; c2] = [c1] /\
  length (itoa (geti c2 "AddendaRecordIndicator")) = 2%nat /\
  batch_entries_valid "IATEntryDetail" [c2; c1] = false.
Proof. exact iat_later_correction_refuted. Qed.

(* C14, phase 5 — what the two observations of the oracle (JSON tree, NACHA text) cover.
   Only statements here; every proof is `exact <lemma>`. *)
From Coq Require Import String List Bool NArith.
Import ListNotations.
From ACH Require Import Bytes JsonCodec JsonTags EffectTable Purity PurityAlias PurityObs PurityObsFacts C14ObsObl.

(* state unchanged => observation (JSON tree by the encoder model, record lines) unchanged *)
Theorem C14_obs_of_state : forall s s', s = s' -> obs s = obs s'.
Proof. exact obs_of_eq. Qed.

(* the converse on the modelled state: the observation determines it, so "observation unchanged"
   is "modelled state unchanged"; the JSON tree alone suffices *)
Theorem C14_obs_determines_state : forall s s', obs s = obs s' <-> xobserve s = xobserve s'.
Proof. exact obs_iff. Qed.
Print Assumptions C14_obs_determines_state.

Theorem C14_obs_json_decodes : forall s, x_of_json (obs_json s) = Some s.
Proof. exact x_of_obs_json. Qed.

(* the encoder model ignores exactly the key-less fields of a struct *)
Theorem C14_enc_ignores_keyless : forall n fs vs vs', agree_keyed fs vs vs' ->
  enc (TStruct n fs) (VRec vs) = enc (TStruct n fs) (VRec vs').
Proof. exact enc_struct_agree. Qed.
Print Assumptions C14_enc_ignores_keyless.

(* the checked table: apart from the embedded validator / converters and the per-record option
   pointers, the components of an ach.File that neither observation shows *)
Theorem C14_unobservable_table :
  same_set (filter (fun p => negb (boilerplate p)) (dedup (hidden T_File))) expected_hidden = true.
Proof. exact hidden_table. Qed.

Theorem C14_text_only_table : same_set (dedup (text_only T_File)) expected_text_only = true.
Proof. exact text_only_table. Qed.

Theorem C14_file_opts_observable :
  existsb (pair_eqb2 ("File", "validateOpts")%string) (hidden T_File ++ text_only T_File) = false.
Proof. exact file_opts_keyed. Qed.

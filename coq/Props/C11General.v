(* C11, phase 3 — SegmentFile succeeds for EVERY valid file, and the ReturnEntries /
   NotificationOfChange bookkeeping of AddBatch.  Only statements here; every proof is
   `exact <lemma>`.

   Since the repository fix "split batches keep the number of the batch they come from"
   (createSegmentFileBatchHeader copies BatchNumber) the side condition numbers_ok of
   C11_succeeds_partial is a theorem: the former finding segment:batch-number-collision is gone.

   [validate ST f] is the validation gate of the Segment model (Segment.v); the validator model of
   C03 (Arith.validate_file over gen_tables, tied to the real Validate() by the C03 and validout
   correspondences) implies it through the abstraction [s_file] of ValidSegment
   (C11_arith_valid_passes_gate), so the headline statement C11_succeeds_arith reads: for every
   non-ADV file that File.Validate accepts, SegmentFile returns two files. *)
From Coq Require Import ZArith NArith List Bool Permutation.
Import ListNotations.
From ACH Require Import ValidOut ValidOutFacts Tables.
From ACH Require Import Bytes TxCodes RevTable SegTable Segment SegmentFacts SegmentSuccess SegmentTable C11Obl.
From ACH Require Import ValidSegment ValidSegmentFacts ValidSegObl SegmentGen SegmentGenFacts C11GenObl.
Open Scope Z_scope.

(* A batch of f.Batches contributes at most one batch to the credit (debit) file, and that batch
   carries the contributing batch's number — reused or freshly split. *)
Theorem C11_part_number : forall cr b,
  part ST cr b = [] \/ exists y, part ST cr b = [y] /\ sb_num y = sb_num b.
Proof. exact c11_part_number. Qed.
Print Assumptions C11_part_number.

(* The exact arithmetic side condition of C11_succeeds_partial holds for every file that passes
   the validation gate. *)
Theorem C11_numbers_ok : forall f, validate ST f = None -> numbers_ok ST f = true.
Proof. exact c11_numbers_ok. Qed.
Print Assumptions C11_numbers_ok.

(* Every non-ADV file (any number of standard and IAT batches, any pre-set batch and trace
   numbers, IAT batches of ANY content) that passes File.Validate is segmented: SegmentFile
   returns two files.  No further hypothesis. *)
Theorem C11_succeeds : forall f,
  validate ST f = None -> is_adv_file (sf_batches f) = false ->
  exists cf df, segment ST f = SOk cf df.
Proof. exact c11_succeeds_std. Qed.
Print Assumptions C11_succeeds.

(* Every file including ADV files: File.Validate does not look into the batches of an ADV file
   (nor into IAT batches), so what it does not read is the explicit hypothesis input_wf
   (class 280, ADV codes, tabulated controls, no IAT batches next to ADV batches). *)
Theorem C11_succeeds_all : forall f,
  validate ST f = None -> input_wf ST f = true -> exists cf df, segment ST f = SOk cf df.
Proof. exact c11_succeeds_all. Qed.
Print Assumptions C11_succeeds_all.

(* The standard batches of both outputs carry, in order, the batch numbers of the input batches
   they come from (File.Create renumbers nothing): a sub-list of the input's numbers. *)
Theorem C11_numbers_kept : forall f cf df,
  is_adv_file (sf_batches f) = false -> segment ST f = SOk cf df ->
  map sb_num (sf_batches cf) = map sb_num (flat_map (part ST true) (sf_batches f)) /\
  map sb_num (sf_batches df) = map sb_num (flat_map (part ST false) (sf_batches f)) /\
  sublist (map sb_num (sf_batches cf)) (map sb_num (sf_batches f)) /\
  sublist (map sb_num (sf_batches df)) (map sb_num (sf_batches f)).
Proof. exact c11_numbers_kept. Qed.
Print Assumptions C11_numbers_kept.

(* Reflection over the tables of this run: every code EntryDetail.Validate accepts, except the
   ADV codes ValidTranCodeForServiceClassCode refuses, is a standard entry code of the segment tables. *)
Theorem C11_codes_agree : seg_codes_agree gen_tables ST = true.
Proof. exact gen_seg_codes_agree. Qed.
Print Assumptions C11_codes_agree.

(* A non-ADV file the validator model of C03 accepts passes the validation gate of the Segment
   model (and each of its standard batches is accepted by Arith.validate_batch). *)
Theorem C11_arith_valid_passes_gate : forall ep sp f,
  forallb (fun b => negb (sb_adv b)) (sf_batches f) = true ->
  AR.validate_file gen_tables (s_file gen_tables ep sp f) = AR.ROk ->
  validate ST f = None /\ is_adv_file (sf_batches f) = false
  /\ Forall (fun b => sb_adv b = false /\ AR.validate_batch gen_tables (s_batch gen_tables ep sp b) = AR.ROk) (sf_batches f).
Proof. exact c11_arith_gate. Qed.
Print Assumptions C11_arith_valid_passes_gate.

(* For every non-ADV file that File.Validate (validator model) accepts: SegmentFile returns two
   files, whose standard batches keep the numbers of their sources, and each non-empty output
   is again accepted by the validator model (given the field-width condition fctl_fits). *)
Theorem C11_succeeds_arith : forall ep sp f,
  forallb (fun b => negb (sb_adv b)) (sf_batches f) = true ->
  AR.validate_file gen_tables (s_file gen_tables ep sp f) = AR.ROk ->
  exists cf df, segment ST f = SOk cf df
    /\ sublist (map sb_num (sf_batches cf)) (map sb_num (sf_batches f))
    /\ sublist (map sb_num (sf_batches df)) (map sb_num (sf_batches f))
    /\ forall g, g = cf \/ g = df -> (sf_batches g <> [] \/ sf_iat g <> []) ->
         fctl_fits gen_tables (AR.fl_ctl (s_file gen_tables ep sp g)) ->
         AR.validate_file gen_tables (s_file gen_tables ep sp g) = AR.ROk.
Proof. exact c11_arith_segments. Qed.
Print Assumptions C11_succeeds_arith.

(* ---- AddBatch: ReturnEntries / NotificationOfChange ------------------------------------------ *)

(* A file built batch by batch with AddBatch: the two lists (positions = shared pointers) denote
   exactly its batches whose Category() is Return / NOC, in order. *)
Theorem C11_built_lists : forall cat bs,
  sel bs (bl_ret (built cat bs)) = filter (is_ret cat) bs /\ sel bs (bl_noc (built cat bs)) = filter (is_noc cat) bs.
Proof. exact c11_built_lists. Qed.
Print Assumptions C11_built_lists.

(* The batches handed to AddBatch for the credit (debit) file are the batch list of the Segment
   model (segment_gen adds nothing to what `segment` computes but the two lists). *)
Theorem C11_walk_batches : forall cat cr bs, bl_batches (walk cat ST cr bs) = flat_map (part ST cr) bs.
Proof. exact c11_walk_batches. Qed.
Print Assumptions C11_walk_batches.

(* For every input: after File.Create, ReturnEntries (NotificationOfChange) of either output
   denotes exactly the output's batches whose own Category() is Return (NOC). *)
Theorem C11_output_lists : forall cat f gc gd,
  input_wf ST f = true -> segment_cat cat ST f = GOk gc gd ->
  g_returns gc = filter (is_ret cat) (sf_batches (g_file gc)) /\ g_nocs gc = filter (is_noc cat) (sf_batches (g_file gc)) /\
  g_returns gd = filter (is_ret cat) (sf_batches (g_file gd)) /\ g_nocs gd = filter (is_noc cat) (sf_batches (g_file gd)).
Proof. exact c11_output_lists. Qed.
Print Assumptions C11_output_lists.

(* The union of the two halves' lists equals the input's — for files whose batches are
   category-uniform (every entry makes Category() give the batch's answer; what the reader
   produces): the entries of the batches in ReturnEntries of the credit and of the debit file
   together are a permutation of the entries of the batches in the input's ReturnEntries, and
   likewise for NotificationOfChange.  (_partial: without uniformity see C11_lists_union_refuted.) *)
Theorem C11_lists_union_partial : forall cat f gc gd,
  input_wf ST f = true -> forallb (cat_uniform cat) (sf_batches f) = true ->
  segment_cat cat ST f = GOk gc gd ->
  let inp := built cat (sf_batches f) in
  Permutation (ids_of (g_returns gc) ++ ids_of (g_returns gd)) (ids_of (sel (sf_batches f) (bl_ret inp))) /\
  Permutation (ids_of (g_nocs gc) ++ ids_of (g_nocs gd)) (ids_of (sel (sf_batches f) (bl_noc inp))).
Proof. exact c11_lists_union. Qed.
Print Assumptions C11_lists_union_partial.

(* Without uniformity the union statement is false of the code: Batch.isCategory accepts a mixed
   batch of a returned credit and a debit labelled NOC (NOC labels are skipped); the batch sits
   in the input's ReturnEntries with both entries, after segmentation the credit half is a
   Return batch and the debit half a NOC batch. *)
Theorem C11_lists_union_refuted :
  exists cat f gc gd,
    validate_cat cat ST f = None /\ input_wf ST f = true /\ forallb (is_category_ok cat) (sf_batches f) = true
    /\ segment_cat cat ST f = GOk gc gd
    /\ ~ Permutation (ids_of (g_returns gc) ++ ids_of (g_returns gd))
                     (ids_of (sel (sf_batches f) (bl_ret (built cat (sf_batches f))))).
Proof. exact lists_union_refuted. Qed.
Print Assumptions C11_lists_union_refuted.


(* ---- the category check of validation (Batch.isCategory) ------------------------------------- *)

(* [validate_cat cat ST] is the gate with isCategory of every batch of a non-ADV file, [segment_cat]
   SegmentFile with that check on the input and on both outputs.  Without category labels they are
   the gate / SegmentFile of the category-free model: *)
Theorem C11_cat_forward : forall f, validate_cat (fun _ => CForward) ST f = validate ST f.
Proof. exact c11_cat_forward. Qed.
Print Assumptions C11_cat_forward.

(* SegmentFile — gate, walk with AddBatch, File.Create, File.Validate with isCategory on both
   outputs — succeeds for every non-ADV file that passes validation and whose batches are
   category-uniform (what the reader produces).  _partial: see C11_succeeds_cat_refuted. *)
Theorem C11_succeeds_cat_partial : forall cat f,
  validate_cat cat ST f = None -> is_adv_file (sf_batches f) = false ->
  forallb (cat_uniform cat) (sf_batches f) = true ->
  exists gc gd, segment_cat cat ST f = GOk gc gd.
Proof. exact c11_succeeds_cat. Qed.
Print Assumptions C11_succeeds_cat_partial.

(* Without uniformity "SegmentFile succeeds for every valid file" is false of the code (known
   finding segment:error:category-split): isCategory takes the first entry's label as reference and
   skips NOC labels, so a valid mixed batch [forward credit; debit labelled NOC; forward debit] has
   a debit half [NOC; forward] that fails it.  The category-free model (C11_succeeds) segments the
   same file. *)
Theorem C11_succeeds_cat_refuted :
  validate_cat cs_cat ST cs_file = None /\ input_wf ST cs_file = true /\ is_adv_file (sf_batches cs_file) = false
  /\ forallb (cat_uniform cs_cat) (sf_batches cs_file) = false
  /\ (exists cf df, segment ST cs_file = SOk cf df)
  /\ segment_cat cs_cat ST cs_file = GErr (EOutput VBatch).
Proof. exact succeeds_cat_refuted. Qed.
Print Assumptions C11_succeeds_cat_refuted.

(* Non-vacuity: a valid, category-uniform file (forward, return and NOC batches, pre-set numbers
   1 2 3 5 8) accepted by the validator model, and what SegmentFile makes of it. *)
Theorem C11_general_example :
  (validate ST ex_gfile = None /\ validate_cat ex_cat ST ex_gfile = None /\ input_wf ST ex_gfile = true /\ is_adv_file (sf_batches ex_gfile) = false
   /\ forallb (cat_uniform ex_cat) (sf_batches ex_gfile) = true
   /\ forallb (is_category_ok ex_cat) (sf_batches ex_gfile) = true
   /\ bl_ret (built ex_cat (sf_batches ex_gfile)) = [1; 2]%nat /\ bl_noc (built ex_cat (sf_batches ex_gfile)) = [3]%nat)
  /\ (AR.validate_file gen_tables (s_file gen_tables ex_gep ex_ssp ex_gfile) = AR.ROk
      /\ forallb (fun b => negb (sb_adv b)) (sf_batches ex_gfile) = true)
  /\ match segment_cat ex_cat ST ex_gfile with
     | GOk gc gd =>
         map sb_num (sf_batches (g_file gc)) = [2; 3; 5; 8] /\ map sb_num (sf_batches (g_file gd)) = [1; 3; 5; 8]
         /\ g_ret gc = [0; 1]%nat /\ g_noc gc = [2]%nat /\ g_ret gd = [1]%nat /\ g_noc gd = [2]%nat
         /\ ids_of (g_returns gc) = [3; 5]%N /\ ids_of (g_returns gd) = [4]%N
         /\ ids_of (g_nocs gc) = [6]%N /\ ids_of (g_nocs gd) = [7]%N
     | GErr _ => False
     end.
Proof. exact (conj ex_gfile_hyps (conj ex_gfile_arith_valid ex_gfile_segments)). Qed.
Print Assumptions C11_general_example.

(* Non-vacuity of C11_succeeds_all on an ADV file. *)
Theorem C11_general_example_adv :
  validate ST ex_advfile = None /\ input_wf ST ex_advfile = true /\ is_adv_file (sf_batches ex_advfile) = true
  /\ match segment ST ex_advfile with
     | SOk cf df => map sb_num (sf_batches cf) = [4] /\ map sb_num (sf_batches df) = [4; 9]
                    /\ sf_credit cf = 50 /\ sf_debit df = 75
     | SErr _ => False
     end.
Proof. exact ex_advfile_segments. Qed.
Print Assumptions C11_general_example_adv.

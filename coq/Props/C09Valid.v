(* C09, phase 2 — "merged files are VALID": every batch and every file MergeFiles emits is
   accepted by the validator model of C03 (Arith.validate_batch / validate_file over
   [gen_tables]) when the input batches are.  Closes C09_valid_partial for the part of
   validation Arith models, by instantiating its two parameters:
     entry_ok  := the per-entry half of Arith's validity under the header's identity key,
     batch_valid := Arith.validate_batch of the batch Create tabulates.
   Only statements here; every proof is `exact <lemma>`.

   [m_batch A mp rb]: the Arith skeleton of the output batch after Batch.Create — service class
   and ODFI from the model's header, code / routing number / check digit a function [mp] of the
   entry's id, control = [tabulate] (tied to Batch.build by C05_control_ok_arith_valid).
   [m_file]: File.Create over them.

   Still outside (as in C09_valid_partial): cross-entry rules other than trace order
   (isCategory), SEC specific rules, ValidateOpts; IAT batches (not merged as standard batches). *)
From Coq Require Import List NArith ZArith Bool.
From ACH Require Import ValidOut ValidOutFacts Tables.
From ACH Require Import Bytes Merge MergeFacts.
From ACH Require Import ValidMerge ValidMergeFacts ValidMergeObl.
Open Scope Z_scope.

Theorem C09_valid_payload_preserved : forall mp fs c g rb e,
  In g (merge_files fs c) -> In rb (rf_batches g) -> In e (rb_entries rb) ->
  exists f ib, In f fs /\ In ib (if_batches f) /\ In (m_entry mp e) (map (m_entry mp) (ib_entries ib))
               /\ h_scc (ib_header ib) = h_scc (rb_header rb) /\ h_odfi (ib_header ib) = h_odfi (rb_header rb).
Proof. exact c09_payload_preserved. Qed.
Print Assumptions C09_valid_payload_preserved.

(* For ALL file lists and ALL conditions: if every input batch validates (under some batch
   number), every output batch validates after Create.  Discharged: non-empty (C09_limits),
   entries admissible under a header with the same class and ODFI (C08 no-mixing), trace numbers
   strictly ascending in Go's string order and above "0" (C09_traces_ascending), prefix = ODFI,
   control = tabulation.  Assumed of the result: the merged totals fit the control record. *)
Theorem C09_batch_arith_valid : forall mp fs c, inputs_valid gen_tables mp fs ->
  forall g rb, In g (merge_files fs c) -> In rb (rf_batches g) ->
  AR.calc_debit gen_tables AR.KStd (map (m_entry mp) (rb_entries rb)) <= AR.t_batch_limit gen_tables ->
  AR.calc_credit gen_tables AR.KStd (map (m_entry mp) (rb_entries rb)) <= AR.t_batch_limit gen_tables ->
  AR.validate_batch gen_tables (m_batch gen_tables mp rb) = AR.ROk.
Proof. exact c09_batch_arith_valid. Qed.
Print Assumptions C09_batch_arith_valid.

(* ... and every output file passes File.Validate (batch count, every batch, file control, sums,
   ascending batch numbers — C09_batch_numbers_ascending —, hash) *)
Theorem C09_file_arith_valid : forall mp fs c, inputs_valid gen_tables mp fs ->
  forall g, In g (merge_files fs c) ->
  Forall (fun rb => AR.calc_debit gen_tables AR.KStd (map (m_entry mp) (rb_entries rb)) <= AR.t_batch_limit gen_tables /\
                    AR.calc_credit gen_tables AR.KStd (map (m_entry mp) (rb_entries rb)) <= AR.t_batch_limit gen_tables) (rf_batches g) ->
  fctl_fits gen_tables (AR.fl_ctl (m_file gen_tables mp g)) ->
  AR.validate_file gen_tables (m_file gen_tables mp g) = AR.ROk.
Proof. exact c09_file_arith_valid. Qed.
Print Assumptions C09_file_arith_valid.

(* non-vacuity: two files whose batches have Equal headers are merged into one two-entry batch;
   the inputs satisfy the hypothesis, the output file validates, and the same batch under a
   header of the wrong service class is refused (class/direction rule) *)
Theorem C09_valid_example :
  inputs_valid gen_tables ex_mp ex_mfiles /\ length (merge_files ex_mfiles ex_conds) = 1%nat /\
  Forall (fun g => AR.validate_file gen_tables (m_file gen_tables ex_mp g) = AR.ROk) (merge_files ex_mfiles ex_conds).
Proof. exact (conj (proj1 ex_merge_hyps) (conj (proj1 (proj2 ex_merge_hyps)) ex_merge_valid)). Qed.

Theorem C09_valid_wrong_class_refuted :
  Forall (fun g => Forall (fun rb =>
     AR.validate_batch gen_tables (m_tab gen_tables ex_mp (mkHeader 225 (65 :: nil)%N (49 :: nil)%N (80 :: 80 :: 68 :: nil)%N (80 :: nil)%N
                                                            (49 :: 57 :: nil)%N (dsb (1 :: 2 :: 1 :: 0 :: 4 :: 2 :: 8 :: 8 :: nil)) 1)
                                 (rb_number rb) (rb_entries rb)) = AR.RDirection) (rf_batches g))
         (merge_files ex_mfiles ex_conds).
Proof. exact ex_merge_wrong_class_refused. Qed.

(* C04, phase 2: truncation at EVERY byte offset for files whose records are ARBITRARY
   well-formed UTF-8 (94 characters per record) — the restriction `ascii_records` of
   C04_truncation_bytes_partial (Props/C04Text.v) is removed.
   Only statements; every proof is `exact <lemma>`. *)
From Coq Require Import String List NArith ZArith Bool.
From ACH Require Import TamperText TamperTextFacts TruncBytes TruncUtf8 Utf8Prefix TruncUtf8Facts FramingBytes Utf8Enc NumFacts.
From ACH Require Import ArithFacts Tables C03Obl C04TextObl C04Utf8Obl.
Import ListNotations.
Local Open Scope list_scope.
Local Open Scope nat_scope.

(* the missing lemma.  s well-formed UTF-8, k <= |s|.  split_at (chars s) k = (c, j):
   c complete characters fit into the first k bytes, j bytes are left over.  The
   characters bufio.ScanRunes yields for the first k bytes are those c characters followed
   by one U+FFFD per leftover byte; at most 3 bytes are left over, they are a strict prefix
   of character number c, and the first k bytes are the c characters plus those bytes. *)
Theorem C04_chars_of_byte_prefix : forall s k c j,
  wf_utf8 s = true -> k <= length s -> split_at (chars s) k = (c, j) ->
  chars (firstn k s) = firstn c (chars s) ++ repeat U_b j /\
  j <= 3 /\ c <= rune_count s /\
  (0 < j -> c < rune_count s /\ j < length (nth c (chars s) [])) /\
  firstn k s = concat (firstn c (chars s)) ++ firstn j (nth c (chars s) []).
Proof. exact chars_firstn. Qed.
Print Assumptions C04_chars_of_byte_prefix.

(* a strict non-empty byte prefix of ONE encoded character: one U+FFFD per byte, 1..3 *)
Theorem C04_chars_of_cut_character : forall r x y, encode_rune r = x ++ y -> x <> [] -> y <> [] ->
  chars x = repeat U_b (length x) /\ length x < length (encode_rune r) /\ length x <= 3.
Proof. exact chars_strict_prefix. Qed.
Print Assumptions C04_chars_of_cut_character.

(* the closed form is the extracted function the correspondence check runs against bufio.ScanRunes *)
Theorem C04_chars_prefix_closed : forall s k, wf_utf8 s = true -> k <= length s -> chars (firstn k s) = prefix_chars s k.
Proof. exact chars_firstn_closed. Qed.

(* the lines the reader is handed for a text cut inside a record: the whole records
   before it, then tail_u (none / one padded line with U+FFFD characters / a full line and
   a second line of U+FFFD characters) *)
Theorem C04_truncation_lines_utf8 : forall le ls k, le_ok le -> Forall uline ls -> k < length (text_of le ls) ->
  exists i c j, i < length ls /\ c <= 94 /\ j <= 3 /\
    (0 < j -> c < 94 /\ j < length (nth c (chars (nth i ls [])) [])) /\
    read_text (firstn k (text_of le ls)) = read_struct (firstn i ls ++ tail_u (nth i ls []) c j).
Proof. exact read_text_prefix_u. Qed.
Print Assumptions C04_truncation_lines_utf8.

(* C04_truncation_bytes — no restriction on the characters of the records.  f any
   structured file whose record lines are well-formed UTF-8 of 94 characters and whose
   file control record is what FileControl.String() / ADVFileControl.String() writes;
   EVERY byte offset k of the written text (LF or CRLF): the truncated text reads as no
   file, or as exactly the original, or as the original with its control record cut at a
   column c — and then it fails read_validate unless every protected field still parses
   to the original value.  A cut inside a multi-byte character always falls in the first
   alternative or is harmless (the character is in a record before the file control, so
   the control record is lost). *)
Theorem C04_truncation_bytes : forall f le k adv rc,
  le_ok le -> file_typed f = true -> starts99 (f_ctl f) = false -> utf8_records f ->
  f_ctl f = render (fctl_layout adv) rc ->
  read_validate T (skel f) = ROk -> k < length (write le f) ->
  let r := read_text (firstn k (write le f)) in
  r = None \/ r = Some f \/
  exists c, 1 <= c < 94 /\ r = Some (with_ctl f (cut_line (f_ctl f) c)) /\
    (read_validate T (skel (with_ctl f (cut_line (f_ctl f) c))) <> ROk \/
     skel (with_ctl f (cut_line (f_ctl f) c)) = skel f).
Proof. exact c04_truncation_bytes_written. Qed.
Print Assumptions C04_truncation_bytes.

(* the same for ANY well-formed control record (also one with multi-byte characters in its
   unparsed reserved area): the cut record is c complete characters, j U+FFFD characters
   (the j leftover bytes of character number c), blanks *)
Theorem C04_truncation_bytes_utf8 : forall f le k,
  le_ok le -> file_typed f = true -> starts99 (f_ctl f) = false -> utf8_records f ->
  read_validate T (skel f) = ROk -> k < length (write le f) ->
  let r := read_text (firstn k (write le f)) in
  r = None \/ r = Some f \/
  exists c j, 1 <= c < 94 /\ c + j <= 94 /\ j <= 3 /\ (0 < j -> j < length (nth c (chars (f_ctl f)) [])) /\
    r = Some (with_ctl f (cut_ctl (f_ctl f) c j)) /\
    (read_validate T (skel (with_ctl f (cut_ctl (f_ctl f) c j))) <> ROk \/
     skel (with_ctl f (cut_ctl (f_ctl f) c j)) = skel f).
Proof. exact c04_truncation_bytes_u. Qed.
Print Assumptions C04_truncation_bytes_utf8.

(* the accepted alternative, as in C04_truncation_ctl_identical but without ascii_records:
   with a non-zero original entry/addenda count Parse assigns the cut control record
   exactly the values of the original one *)
Theorem C04_truncation_ctl_identical_utf8 : forall f c,
  utf8_records f -> asciib (f_ctl f) = true -> 1 <= c < 94 -> digitsb (column (f_ctl f) 13 21) = true ->
  fc_count (fl_ctl (skel f)) <> 0%Z ->
  skel (with_ctl f (cut_line (f_ctl f) c)) = skel f ->
  parse (fctl_layout (adv_file f)) (cut_line (f_ctl f) c) = parse (fctl_layout (adv_file f)) (f_ctl f).
Proof. exact truncated_ctl_identical_u. Qed.
Print Assumptions C04_truncation_ctl_identical_utf8.

(* the two file control layouts of the source render ASCII for every record value *)
Theorem C04_fctl_layouts_ascii : forall adv rc, asciib (render (fctl_layout adv) rc) = true.
Proof. exact fctl_render_ascii. Qed.
Print Assumptions C04_fctl_layouts_ascii.

(* the ASCII theorem of phase 2a is the special case *)
Theorem C04_ascii_records_are_utf8 : forall f, ascii_records f -> utf8_records f.
Proof. exact ascii_utf8_records. Qed.

(* non-vacuity: a file written through the layouts with 2-, 3- and 4-byte characters
   (not ascii_records), cut inside each of them; the 4-byte character in the last column
   of the file header spills into a second line (2 lines for 95 / 96 characters) *)
Theorem C04_utf8_example_valid :
  read_validate T (skel ux_file) = ROk /\ file_typed ux_file = true /\ starts99 (f_ctl ux_file) = false /\
  utf8_records ux_file /\ ~ ascii_records ux_file /\ asciib (f_ctl ux_file) = true /\
  fitsb L_EntryDetail ux_e1 = true /\ length (write LF_b ux_file) = 956.
Proof. exact ux_file_ok. Qed.

Theorem C04_utf8_example_truncation :
  map (fun k => verdict_code (firstn k (write LF_b ux_file))) [94; 95; 96; 251; 254; 255; 955]
  = [99; 99; 99; 99; 99; 99; 0]%Z /\
  map (fun k => List.length (read_lines (firstn k (write LF_b ux_file)))) [93; 94; 95; 96; 97; 251]
  = [1; 1; 2; 2; 1; 3] /\
  read_text (write LF_b ux_file) = Some ux_file.
Proof. exact ux_truncation_examples. Qed.

(* a control record with a 4-byte character in its last column: one leftover byte gives
   94 characters (accepted, skeleton unchanged, record differs); two or three give a
   second line of an unknown record type: no file *)
Theorem C04_utf8_example_ctl :
  read_validate T (skel uc_file) = ROk /\ file_typed uc_file = true /\ starts99 (f_ctl uc_file) = false /\
  utf8_records uc_file /\ asciib (f_ctl uc_file) = false /\ length (write LF_b uc_file) = 953.
Proof. exact uc_file_ok. Qed.

Theorem C04_utf8_example_ctl_truncation :
  map (fun k => verdict_code (firstn k (write LF_b uc_file))) [570; 571; 600; 624; 625; 663; 664; 665; 666; 667; 668]
  = [99; 16; 18; 19; 0; 0; 0; 99; 99; 0; 0]%Z /\
  read_text (firstn 664 (write LF_b uc_file)) = Some (with_ctl uc_file (cut_ctl uc_ctl 93 1)) /\
  split_at (chars uc_ctl) 94 = (93, 1) /\ split_at (chars uc_ctl) 96 = (93, 3) /\
  skel (with_ctl uc_file (cut_ctl uc_ctl 93 1)) = skel uc_file /\
  cut_ctl uc_ctl 93 1 <> uc_ctl /\
  read_text (firstn 665 (write LF_b uc_file)) = None.
Proof. exact uc_truncation_examples. Qed.

(* C02 — the reader domain: every byte string the DEFAULT reader accepts yields a tree that the Writer writes
   as physically well-formed NACHA.  Only statements; proofs in Codec/ReaderWidthFacts.v, Oblig/C02ReaderObl.v.

   LT / RT / AT            layouts (Gen/Layouts.v), record rules (Gen/RecRules.v), arithmetic tables (Gen/Tables.v)
                           regenerated from the source of this run
   read_text_valid         ach.NewReader(text).Read() with default validation (Codec/ReaderValid.v, Props/C01Valid.v):
                           framing of arbitrary bytes, record dispatch, Parse of the 26 record types, every record's
                           Validate(), every closed batch's Validate(); result (tree, flag), flag = a batch was left
                           without control record
   write_file_padded LT g  Writer.Write of the tree: String() of every record in the writer's order + the final block
                           of all-9 records (Codec/Dispatch.v, Props/C01File.v, C02.v)
   stamp clk f             f with the clock made explicit: a file header whose FileCreationTime Parse left empty (the
                           four columns were no valid time; no rule rejects that) is written by FileCreationTimeField()
                           as time.Now().Format("1504") = clk.  A header that holds a time is untouched
                           (C02_reader_domain_partial needs no clock)
   line_ok94 l             94 characters, valid UTF-8
   grammar_ok              the automaton 1 (5 (6 7^* )^* 8)^* 9 filler^* of Props/C02.v
   shape_ok LT g           the hypothesis of C02_physical_counts (Props/C02Counts.v): every record's layout starts with
                           the record-type character of its place in the tree *)
From Coq Require Import String List NArith ZArith Bool.
From ACH Require Import Arith.
From ACH Require Import ReaderValid WrittenCountsFacts DispatchBytes ReaderWidth ReaderWidthFacts.
From ACH Require Import Layouts RecRules Tables C01Obl C01FileEx C01FileObl C01ValidObl C02ValidObl C02ReaderObl.
Import ListNotations.
Local Open Scope string_scope.
Local Open Scope list_scope.

(* the design's C02_reader_domain, for ALL byte strings *)
Theorem C02_reader_domain : forall text f clk,
  read_text_valid LT RT AT text = Some (f, false) -> wf_utf8 clk = true -> rune_count clk = 4%nat ->
  let g := stamp clk f in
  let out := write_file_padded LT g in
  Forall line_ok94 out
  /\ (length out mod 10 = 0)%nat
  /\ (exists k, (k < 10)%nat /\ out = write_file LT g ++ repeat nines k)
  /\ grammar_ok out = true
  /\ shape_ok LT g = true.
Proof. exact c02_reader_domain. Qed.
Print Assumptions C02_reader_domain.

(* ach.NewReader first hands the bytes to a character-set decoder (charset.NewReader: input that is not UTF-8 is
   decoded as windows-1252) and frames what the decoder delivers: whatever that decoder is, the statement holds —
   it quantifies over all byte strings (the instance of C02_reader_domain at [dec raw]; the correspondence runs the
   real decoder and the sniffing constructor on texts that are not UTF-8) *)
Theorem C02_reader_domain_decoded : forall (dec : bytes -> bytes) raw f clk,
  read_text_valid LT RT AT (dec raw) = Some (f, false) -> wf_utf8 clk = true -> rune_count clk = 4%nat ->
  let out := write_file_padded LT (stamp clk f) in
  Forall line_ok94 out /\ (length out mod 10 = 0)%nat
  /\ (exists k, (k < 10)%nat /\ out = write_file LT (stamp clk f) ++ repeat nines k) /\ grammar_ok out = true.
Proof. exact c02_reader_domain_decoded. Qed.
Print Assumptions C02_reader_domain_decoded.

(* the statement literally about write_file_padded LT f (the writer of Codec/Dispatch.v, whose hand model of
   FileCreationTimeField covers non-empty values only) holds under the exact hypothesis that no file header of the
   tree needs the clock; without it it is refuted IN THE MODEL (C02_reader_domain_clockless_refuted below) — the real
   accessor formats time.Now(), which C02_reader_domain covers *)
Theorem C02_reader_domain_partial : forall text f,
  read_text_valid LT RT AT text = Some (f, false) -> all_file has_time f = true ->
  let out := write_file_padded LT f in
  Forall line_ok94 out
  /\ (length out mod 10 = 0)%nat
  /\ (exists k, (k < 10)%nat /\ out = write_file LT f ++ repeat nines k)
  /\ grammar_ok out = true
  /\ shape_ok LT f = true.
Proof. exact c02_reader_domain_timed. Qed.
Print Assumptions C02_reader_domain_partial.

(* the written text of a reader-produced tree holds what the tree holds: C02_physical_counts without its shape
   hypothesis (adv_only: the ErrFileADVOnly test — an ADV batch is not mixed with batches of another SEC code) *)
Theorem C02_reader_physical_counts : forall text f clk,
  read_text_valid LT RT AT text = Some (f, false) -> wf_utf8 clk = true -> rune_count clk = 4%nat ->
  let g := stamp clk f in
  adv_only g = true ->
  let ls := write_file_padded LT g in
  batch_header_lines ls = length (all_batches g)
  /\ entry_addenda_lines ls = list_sum (map tree_count (all_batches g))
  /\ length (write_file LT g) = (2 + list_sum (map (fun b => 2 + tree_count b) (all_batches g)))%nat
  /\ block_lines ls = blocks_of (length (write_file LT g))
  /\ (10 * block_lines ls = length ls)%nat
  /\ map (fun s => (entry_addenda_lines (fst s), snd s)) (batch_segments ls)
     = map (fun b => (tree_count b, render_rec LT (bt_ctl b))) (all_batches g).
Proof. exact c02_reader_physical_counts. Qed.
Print Assumptions C02_reader_physical_counts.

(* no written record holds a CR or LF (so the physical lines of the written text ARE these records, and the
   94 characters are a statement about the text); the hypothesis rec_no_nl of C01_valid_text_roundtrip holds of
   reader-produced trees.  Needs neither validity nor width: Parse assigns substrings of a line the framing cut at
   every CR / LF, String() adds blanks, zeros, digits and literals *)
Theorem C02_reader_no_line_break : forall text f clk,
  read_text_valid LT RT AT text = Some (f, false) -> wf_utf8 clk = true -> no_nl clk = true ->
  forallb no_nl (write_file_padded LT (stamp clk f)) = true /\ all_file (rec_no_nl LT) (stamp clk f) = true.
Proof. exact c02_reader_no_line_break. Qed.
Print Assumptions C02_reader_no_line_break.

Theorem C02_reader_lines_no_break : forall text ls, norm_lines (read_lines text) = Some ls ->
  Forall (fun l => wf_utf8 l = true /\ no_nl l = true) ls.
Proof. exact c02_reader_lines_no_break. Qed.
Print Assumptions C02_reader_lines_no_break.

(* after the framing: lines of valid UTF-8 (any lines, not only those [read_lines] yields) *)
Theorem C02_reader_domain_lines : forall ls f clk,
  Forall (fun l => wf_utf8 l = true) ls -> read_file_valid LT RT AT ls = Some (f, false) ->
  wf_utf8 clk = true -> rune_count clk = 4%nat ->
  forallb lineb (write_file_padded LT (stamp clk f)) = true /\ shape_ok LT (stamp clk f) = true
  /\ tree_validb RT AT f = true.
Proof. exact c02_reader_domain_lines. Qed.
Print Assumptions C02_reader_domain_lines.

(* the framing hands only valid UTF-8 to parseLine, whatever the bytes of the input (an invalid byte is U+FFFD) *)
Theorem C02_reader_lines_utf8 : forall text ls,
  norm_lines (read_lines text) = Some ls -> Forall (fun l => wf_utf8 l = true) ls.
Proof. exact c02_reader_lines_utf8. Qed.
Print Assumptions C02_reader_lines_utf8.

(* one record: Parse of a 94-character line; if the record passes its rules, the explicit hypothesis of
   C02_valid_width_partial (the columns no rule bounds) holds, hence widthb, hence 94 characters — all 26 layouts *)
Theorem C02_parsed_unbounded_fit : forall L l clk, In L all_layouts ->
  wf_utf8 l = true -> rune_count l = 94%nat -> wf_utf8 clk = true -> rune_count clk = 4%nat ->
  let r := overlay (parse L l) [] in
  rec_validb (rules_of L) r = true -> unbounded_fit L (stamp_for clk (l_name L) r) = true.
Proof. exact c02_parsed_unbounded_fit. Qed.
Print Assumptions C02_parsed_unbounded_fit.

Theorem C02_parsed_record_width : forall L l clk, In L all_layouts ->
  wf_utf8 l = true -> rune_count l = 94%nat -> wf_utf8 clk = true -> rune_count clk = 4%nat ->
  let r := overlay (parse L l) [] in
  rec_validb (rules_of L) r = true -> widthb L (stamp_for clk (l_name L) r) = true.
Proof. exact c02_parsed_record_widthb. Qed.
Print Assumptions C02_parsed_record_width.

Theorem C02_parsed_record_line : forall L l clk, In L all_layouts ->
  wf_utf8 l = true -> rune_count l = 94%nat -> wf_utf8 clk = true -> rune_count clk = 4%nat ->
  let r := overlay (parse L l) [] in
  rec_validb (rules_of L) r = true ->
  rune_count (render L (stamp_for clk (l_name L) r)) = 94%nat /\ wf_utf8 (render L (stamp_for clk (l_name L) r)) = true.
Proof. exact c02_parsed_record_line. Qed.
Print Assumptions C02_parsed_record_line.

(* reflection on this run's tables: every unbounded column is filled by Parse, for the reason listed; the record
   types the reader constructs sit where the writer expects them; no rule of the file header reads the creation time *)
Theorem C02_parsed_columns_checked :
  forallb (parse_fills all_rules) all_layouts = true /\ reader_kinds_ok all_layouts = true
  /\ rules_skip (rules_of L_FileHeader) TIME = true /\ forallb lits_no_nl all_layouts = true.
Proof. exact (conj parse_fills_checked (conj reader_kinds_checked (conj header_rules_skip_time lits_no_nl_checked))). Qed.

Theorem C02_parsed_columns :
  map (fun L => (l_name L, map (fun x => (seg_name (cs_seg x), fill_reason (rules_of L) L x)) (unbounded_in all_rules L))) partial_layouts =
  [ ("ADVEntryDetail", [ ("CheckDigit", "columns sliced and trimmed, one column, a rule rejects the empty string")
                       ; ("AddendaRecordIndicator", "one column read by parseNumField") ])
  ; ("EntryDetail", [ ("CheckDigit", "columns sliced as they are")
                    ; ("AddendaRecordIndicator", "one column read by parseNumField") ])
  ; ("FileHeader", [ ("priorityCode", "constant assigned by Parse")
                   ; ("FileHeader.FileCreationDateField", "six columns kept only if a date, a rule rejects the empty string")
                   ; ("FileHeader.FileCreationTimeField", "four columns kept only if a time, else the clock") ])
  ; ("IATEntryDetail", [ ("CheckDigit", "columns sliced and trimmed, one column, a rule rejects the empty string")
                       ; ("AddendaRecordIndicator", "one column read by parseNumField") ]) ].
Proof. exact parsed_columns_reviewed. Qed.

(* non-vacuity: the writer's text of the generated file ex_std (20 lines) is accepted, and the theorem applies *)
Theorem C02_reader_domain_example :
  read_text_valid LT RT AT ex_text = Some (tree_of ex_text, false)
  /\ all_file has_time (tree_of ex_text) = true /\ length ex_lines = 20%nat
  /\ Forall line_ok94 (write_file_padded LT (tree_of ex_text)) /\ grammar_ok (write_file_padded LT (tree_of ex_text)) = true
  /\ adv_only (stamp (bstr "0815") (tree_of ex_text)) = true.
Proof.
  exact (conj (proj1 ex_text_accepted) (conj (proj1 (proj2 ex_text_accepted)) (conj (proj2 (proj2 ex_text_accepted))
          (conj (proj1 ex_text_domain) (conj (proj2 ex_text_domain) ex_text_adv_only))))).
Qed.

(* the design's anticipated finding (fixed: c36410fd): an accepted 798 record with data in columns 65..70 is
   written back with that data in its columns, 94 characters *)
Theorem C02_reader_798_iat_columns :
  read_text_valid LT RT AT ex_text_798 = Some (tree_of ex_text_798, false)
  /\ all_file has_time (tree_of ex_text_798) = true
  /\ nth 9 (write_file_padded LT (tree_of ex_text_798)) [] = set_cols 64 (bstr "IATX1 ") (nth 9 ex_lines [])
  /\ existsb (fun x => String.eqb (r_kind x) "Addenda98" && bytes_eqb (gets (r_val x) "iatCorrectedData") (bstr "IATX1"))
             (file_records (tree_of ex_text_798)) = true
  /\ map rune_count (write_file_padded LT (tree_of ex_text_798)) = repeat 94%nat 20.
Proof. exact ex_text_798_accepted. Qed.

(* the clock is needed IN THE MODEL: 9999 in the creation-time columns is accepted, FileCreationTime is empty, the
   model's writer without the clock gives a 90-column header (the accessor is outside its hand model), with the clock
   94.  The real FileCreationTimeField() formats time.Now(): replayed every run (corpus/C02/reader-domain.json) *)
Theorem C02_reader_domain_clockless_refuted :
  read_text_valid LT RT AT ex_text_notime = Some (tree_of ex_text_notime, false)
  /\ gets (r_val (fl_hdr (tree_of ex_text_notime))) TIME = []
  /\ all_file has_time (tree_of ex_text_notime) = false
  /\ map rune_count (write_file_padded LT (tree_of ex_text_notime)) = 90%nat :: repeat 94%nat 19
  /\ map rune_count (write_file_padded LT (stamp (bstr "0815") (tree_of ex_text_notime))) = repeat 94%nat 20
  /\ nth 0 (write_file_padded LT (stamp (bstr "0815") (tree_of ex_text_notime))) [] = set_cols 29 (bstr "0815") (nth 0 ex_lines []).
Proof. exact ex_text_notime_refuted. Qed.

(* the flag is needed: a batch never closed by a control record is returned (flag true) with the constructor's
   control record; the statement does not extend to it.  The real Writer refuses that file (File.Validate) *)
Theorem C02_reader_domain_unclosed_batch_refuted :
  (exists g, read_text_valid LT RT AT ex_text_unclosed = Some (g, true)
     /\ existsb (fun l => negb (rune_count l =? 94)%nat) (write_file_padded LT g) = true)
  /\ read_then_validate LT RT AT (drop_nth 6 ex_lines) = None.
Proof. exact ex_text_unclosed_refuted. Qed.

(* C18 — The file repository is linearizable under concurrent clients.
   Only statements here; every proof is `exact <lemma>`.

   Machine (Proto/RWLock.v): any number of threads; a schedule is any list of
   (thread, label) steps the reader-writer lock allows; labels: call, acquire,
   one micro-step of the body, return.  [run (init s0) tr g] ranges over ALL
   schedules.  The atomic machine [arun] performs an operation in one step. *)
From Coq Require Import String List Bool NArith.
Import ListNotations.
From ACH Require Import RWLock RWLockFacts Repo LockTable RepoFacts Locks C18Obl.

(* ---- generic reader-writer lock theorems: any store, operations, bodies *)

Theorem C18_rw_invariant :
  forall (St Arg Res Loc Op : Type) (bodies : Op -> body St Arg Res Loc) (modes : Op -> mode),
  discipline bodies modes ->
  forall s0 tr (g : gstate St Arg Res Loc Op),
    run bodies modes (init s0) tr g -> Inv St Arg Res Loc Op bodies modes g.
Proof. exact inv_reachable. Qed.
Print Assumptions C18_rw_invariant.

Theorem C18_rw_linearizable :
  forall (St Arg Res Loc Op : Type) (bodies : Op -> body St Arg Res Loc) (modes : Op -> mode),
  discipline bodies modes ->
  forall s0 tr (g : gstate St Arg Res Loc Op),
    run bodies modes (init s0) tr g ->
    exists a, arun bodies (ainit s0) (erase tr) a /\ sim g a.
Proof. exact rw_linearizable. Qed.
Print Assumptions C18_rw_linearizable.

Theorem C18_rw_return_is_logged :
  forall (St Arg Res Loc Op : Type) (bodies : Op -> body St Arg Res Loc) (modes : Op -> mode)
         s0 tr (g : gstate St Arg Res Loc Op) t r g',
  discipline bodies modes ->
  run bodies modes (init s0) tr g -> step bodies modes g t (LRet r) g' ->
  exists o a, last_entry t (glog g) = Some (t, o, a, r).
Proof. exact ret_matches_log. Qed.
Print Assumptions C18_rw_return_is_logged.

Theorem C18_rw_log_legal :
  forall (St Arg Res Loc Op : Type) (bodies : Op -> body St Arg Res Loc) (modes : Op -> mode)
         s0 tr (g : gstate St Arg Res Loc Op),
  run bodies modes (init s0) tr g -> legal bodies s0 (glog g) (ghost g).
Proof. exact glog_legal. Qed.
Print Assumptions C18_rw_log_legal.

(* the log lists operations in the order of their acquire events, and every
   thread's visible events go call -> acquire -> return: each linearization
   point lies between the call and the return of its operation *)
Theorem C18_rw_log_order :
  forall (St Arg Res Loc Op : Type) (bodies : Op -> body St Arg Res Loc) (modes : Op -> mode)
         s0 tr (g : gstate St Arg Res Loc Op),
  run bodies modes (init s0) tr g -> map entry_tid (glog g) = acq_tids tr.
Proof. exact glog_order. Qed.
Print Assumptions C18_rw_log_order.

(* real-time order: continuing a run only appends to the log, one entry per new
   acquire; so an operation already returned (its entry is in [glog g], theorem
   C18_rw_return_is_logged) precedes every operation called afterwards *)
Theorem C18_rw_log_grows :
  forall (St Arg Res Loc Op : Type) (bodies : Op -> body St Arg Res Loc) (modes : Op -> mode)
         (g : gstate St Arg Res Loc Op) tr g',
  run bodies modes g tr g' ->
  exists rest, glog g' = (glog g ++ rest)%list /\ map entry_tid rest = acq_tids tr.
Proof. exact run_log_grows. Qed.
Print Assumptions C18_rw_log_grows.

Theorem C18_rw_acquire_between_call_and_return :
  forall (St Arg Res Loc Op : Type) (bodies : Op -> body St Arg Res Loc) (modes : Op -> mode)
         s0 tr (g : gstate St Arg Res Loc Op) t,
  discipline bodies modes -> run bodies modes (init s0) tr g -> proto 0 (tproj t (erase tr)) = true.
Proof. exact rw_acquire_between. Qed.
Print Assumptions C18_rw_acquire_between_call_and_return.

(* the boolean checker on lock tables implies the discipline for the repository bodies *)
Theorem C18_checker_sound :
  forall t, discipline_ok t = true -> discipline repo_body (mode_of t).
Proof. exact discipline_ok_sound. Qed.
Print Assumptions C18_checker_sound.

(* ---- the repository, with the lock table regenerated from the source of this run *)

Theorem C18_lock_table : discipline_ok lock_table = true.
Proof. exact lock_table_ok. Qed.

(* every schedule of the nine operations refines the atomic machine over Repo.spec *)
Theorem C18_repo :
  forall s0 tr (g : gstate St arg res loc op),
    run repo_body (mode_of lock_table) (init s0) tr g ->
    exists a, arun repo_body (ainit s0) (erase tr) a /\ sim g a.
Proof. exact lock_table_linearizable. Qed.
Print Assumptions C18_repo.

Theorem C18_repo_return_is_logged :
  forall s0 tr (g : gstate St arg res loc op) tid r g',
    run repo_body (mode_of lock_table) (init s0) tr g ->
    step repo_body (mode_of lock_table) g tid (LRet r) g' ->
    exists o a, last_entry tid (glog g) = Some (tid, o, a, r).
Proof. exact lock_table_ret_matches_log. Qed.
Print Assumptions C18_repo_return_is_logged.

Theorem C18_repo_log_legal :
  forall s0 tr (g : gstate St arg res loc op),
    run repo_body (mode_of lock_table) (init s0) tr g -> legal repo_body s0 (glog g) (ghost g).
Proof. exact lock_table_log_legal. Qed.
Print Assumptions C18_repo_log_legal.

(* with no operation in flight the map holds exactly what the sequential history produced *)
Theorem C18_repo_quiescent :
  forall s0 tr (g : gstate St arg res loc op),
    run repo_body (mode_of lock_table) (init s0) tr g ->
    (forall tid, ~ insec (th g tid)) -> store g = ghost g.
Proof. exact lock_table_quiescent. Qed.
Print Assumptions C18_repo_quiescent.

Theorem C18_repo_acquire_between_call_and_return :
  forall s0 tr (g : gstate St arg res loc op) t,
    run repo_body (mode_of lock_table) (init s0) tr g -> proto 0 (tproj t (erase tr)) = true.
Proof. exact lock_table_acquire_between. Qed.
Print Assumptions C18_repo_acquire_between_call_and_return.

Theorem C18_repo_log_order :
  forall s0 tr (g : gstate St arg res loc op),
    run repo_body (mode_of lock_table) (init s0) tr g -> map entry_tid (glog g) = acq_tids tr.
Proof. exact lock_table_log_order. Qed.

(* from the empty repository every sequential state the history goes through has
   distinct file ids and distinct batch ids per file (side conditions of the
   specification facts below) *)
Theorem C18_repo_store_wellformed :
  forall tr (g : gstate St arg res loc op),
    run repo_body (mode_of lock_table) (init []) tr g -> good (ghost g).
Proof. exact lock_table_ghost_good. Qed.
Print Assumptions C18_repo_store_wellformed.

(* non-vacuity of the discipline hypothesis: one downgraded (Lock -> RLock) or
   dropped lock makes the checker fail AND allows a schedule on which a thread
   returns a value other than the specification's *)
Theorem C18_discipline_needed :
  discipline_ok (relock "StoreBatch" LkR lock_table) = false /\
  violating (relock "StoreBatch" LkR lock_table) /\
  discipline_ok (relock "FindAllFiles" LkNone lock_table) = false /\
  violating (relock "FindAllFiles" LkNone lock_table).
Proof. exact (conj lock_table_downgrade_flips (conj lock_table_downgrade_violates (conj lock_table_drop_flips lock_table_drop_violates))). Qed.
Print Assumptions C18_discipline_needed.

(* ---- map semantics of the sequential specification (the property's wording) *)

Theorem C18_spec_second_store_fails :
  forall a s f, lookup (a_fid a) s = Some f -> repo_spec StoreFile a s = (s, RErr EExists).
Proof. exact spec_store_existing. Qed.

Theorem C18_spec_find_after_store :
  forall a a' s, a_fid a' = a_fid a -> lookup (a_fid a) s = None ->
  snd (repo_spec FindFile a' (fst (repo_spec StoreFile a s))) = RFile (a_tok a).
Proof. exact spec_find_after_store. Qed.

Theorem C18_spec_find_after_delete :
  forall a a' s, a_fid a' = a_fid a ->
  snd (repo_spec FindFile a' (fst (repo_spec DeleteFile a s))) = RErr ENotFound.
Proof. exact spec_find_after_delete. Qed.

Theorem C18_spec_list_is_stored_set :
  forall a s, wf s -> repo_spec FindAllFiles a s = (s, RFiles (map (fun kv => Some (f_tok (snd kv))) s)).
Proof. exact spec_list_files. Qed.

Theorem C18_spec_batch_found_after_store :
  forall a a' s, a_fid a' = a_fid a -> a_bid a' = a_bid a ->
  snd (repo_spec StoreBatch a s) = ROk ->
  snd (repo_spec FindBatch a' (fst (repo_spec StoreBatch a s))) = RBatch (a_bid a).
Proof. exact spec_find_after_store_batch. Qed.

Theorem C18_spec_batch_gone_after_delete :
  forall a a' s f, a_fid a' = a_fid a -> a_bid a' = a_bid a ->
  lookup (a_fid a) s = Some f -> NoDup (f_batches f) ->
  snd (repo_spec DeleteBatch a s) = ROk ->
  snd (repo_spec FindBatch a' (fst (repo_spec DeleteBatch a s))) = RErr ENotFound.
Proof. exact spec_find_after_delete_batch. Qed.
Print Assumptions C18_spec_batch_gone_after_delete.

Theorem C18_spec_preserves_wellformed :
  forall o a s, good s -> good (fst (repo_spec o a s)).
Proof. exact spec_good. Qed.
Print Assumptions C18_spec_preserves_wellformed.

(* C11, phase 2 — "both segment files are VALID": the batches SegmentFile puts into the credit and
   the debit file, and the two files after File.Create, are accepted by the validator model of
   C03 (Arith.validate_batch / validate_file over [gen_tables]) when the input's standard batches
   are.  Only statements here; every proof is `exact <lemma>`.

   [s_batch A ep sp b]: the Arith skeleton of the Segment model's batch; ODFI a function [sp] of
   the identification tag, routing number / check digit / trace string / addenda count a function
   [ep] of the entry's (id, trace); the control's count and hash, which the Segment model lacks,
   are the tabulation (Create for a fresh half; C03_batch_arith for a reused valid batch).

   Scope: standard non-ADV batches (IAT batches are carried in the file but File.Validate does not
   re-validate them — C03 known finding; ADV files are outside).  That SegmentFile returns two
   files is a precondition here ([segment ... = SOk]); it is a theorem for every valid file in
   Props/C11General.v (the former finding segment:batch-number-collision is fixed). *)
From Coq Require Import ZArith NArith List Bool.
Import ListNotations.
From ACH Require Import ValidOut ValidOutFacts Tables.
From ACH Require Import Bytes TxCodes RevTable SegTable Segment SegmentFacts SegmentTable C11Obl.
From ACH Require Import ValidSegment ValidSegmentFacts ValidSegObl.
Open Scope Z_scope.

(* the arithmetic lists of the segment tables (= the segment switch lists, C11_segment_lists_eq_
   amount_lists) are the validator's lists of calculateBatchAmounts, for every integer code *)
Theorem C11_valid_tables_agree : seg_tables_agree gen_tables ST = true.
Proof. exact gen_seg_tables_agree. Qed.
Print Assumptions C11_valid_tables_agree.

Theorem C11_valid_payload_preserved : forall b cr y e,
  sb_adv b = false -> In y (part ST cr b) -> In e (sb_entries y) ->
  In e (sb_entries b) /\ sb_ident y = sb_ident b.
Proof. exact c11_payload_preserved. Qed.
Print Assumptions C11_valid_payload_preserved.

(* Batch level, every standard batch of any size: what it contributes to the credit (cr = true)
   or debit file validates.  A mixed batch gives a fresh batch of class 220 / 225 whose entries
   are the sub-list the switch selected: per-entry validity, ascending traces and the ODFI prefix
   are inherited, the class allows exactly the selected direction, the control totals are the
   sums the validator recomputes (one of them the input's, the other 0).  A 220 / 225 batch is
   handed over as it is.  No other class passes validation. *)
Theorem C11_part_arith_valid : forall ep sp b cr y,
  sb_adv b = false -> AR.validate_batch gen_tables (s_batch gen_tables ep sp b) = AR.ROk -> In y (part ST cr b) ->
  AR.validate_batch gen_tables (s_batch gen_tables ep sp y) = AR.ROk /\ sb_adv y = false.
Proof. exact c11_part_arith_valid. Qed.
Print Assumptions C11_part_arith_valid.

(* File level: whenever SegmentFile returns two files, each non-empty one passes File.Validate —
   batch count, every standard batch (renumbered by File.Create), file control, sums over the
   standard and IAT batch controls, ascending batch numbers (the model's own gate), hash. *)
Theorem C11_file_arith_valid : forall ep sp f cf df,
  Forall (fun b => sb_adv b = false /\ AR.validate_batch gen_tables (s_batch gen_tables ep sp b) = AR.ROk) (sf_batches f) ->
  segment ST f = SOk cf df ->
  forall g, g = cf \/ g = df -> (sf_batches g <> [] \/ sf_iat g <> []) ->
  fctl_fits gen_tables (AR.fl_ctl (s_file gen_tables ep sp g)) ->
  AR.validate_file gen_tables (s_file gen_tables ep sp g) = AR.ROk.
Proof. exact c11_file_arith_valid. Qed.
Print Assumptions C11_file_arith_valid.

(* non-vacuity: a mixed three-entry batch is split into [22; 32] under 220 and [27] under 225;
   both files validate; the credit half with the mixed batch's totals is refused *)
Theorem C11_valid_example :
  AR.validate_batch gen_tables (s_batch gen_tables ex_sep ex_ssp ex_sbatch) = AR.ROk /\
  AR.validate_file gen_tables (s_file gen_tables ex_sep ex_ssp ex_sfile) = AR.ROk /\
  map (fun y => (sb_scc y, map e_code (sb_entries y))) (part ST true ex_sbatch) = [(220, [22; 32])] /\
  map (fun y => (sb_scc y, map e_code (sb_entries y))) (part ST false ex_sbatch) = [(225, [27])].
Proof. exact ex_seg_hyps. Qed.

Theorem C11_valid_stale_totals_refuted :
  Forall (fun y => AR.validate_batch gen_tables (s_batch gen_tables ex_sep ex_ssp
                     (mksb (sb_adv y) (sb_scc y) (sb_num y) (sb_ident y) (sb_credit ex_sbatch) (sb_debit ex_sbatch) (sb_entries y)))
                   = AR.RDebit) (part ST true ex_sbatch).
Proof. exact ex_seg_stale_totals_refused. Qed.

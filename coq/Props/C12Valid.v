(* C12, phase 2 — "the flattened file is VALID": every consolidated batch FlattenBatches hands
   to Batch.Create, and the new file after File.Create, are accepted by the validator model of
   C03 (Arith.validate_batch / validate_file over [gen_tables]) when the input batches are.
   Only statements here; every proof is `exact <lemma>`.

   [f_batch A hp fp b]: the Arith skeleton of the Flatten model's batch [b] after Create —
   service class and ODFI are functions [hp] of the header signature, transaction code /
   routing number / check digit functions [fp] of the entry's opaque identity, the control is
   [tabulate] (= what Batch.build writes, C05_control_ok_arith_valid / C05_create_valid).
   Flatten moves whole entry records under unchanged signatures, so the payloads are
   preserved by construction ([C12_valid_payload_preserved]).

   Scope: files of standard, non-ADV batches.  Outside Arith and therefore outside these
   statements: isCategory (C12_category_uniform / known finding mixed-category), SEC specific
   rules, addenda sequence numbers.  IAT batches are not re-validated by File.Validate
   (C03 known finding) and are left out. *)
From Coq Require Import List ZArith Permutation Sorted.
From ACH Require Import ValidOut ValidOutFacts Tables.
From ACH Require Import Bytes Flatten FlattenFacts.
From ACH Require Import ValidFlatten ValidFlattenFacts ValidFlatObl.
Open Scope Z_scope.

Theorem C12_valid_payload_preserved : forall fp inp out, kinds_consistent inp -> flatten_spec inp out ->
  Permutation (map (fun p => (fst p, f_entry fp (snd p))) (ids out))
              (map (fun p => (fst p, f_entry fp (snd p))) (ids inp)).
Proof. exact c12_payload_preserved. Qed.
Print Assumptions C12_valid_payload_preserved.

(* For all inputs, all admissible processing orders and map iteration orders: if every input
   batch validates, every consolidated batch validates after Create.  From the input's validity
   each (signature, entry) pair is admissible — accepted class, ODFI, EntryDetail.Validate, code
   allowed by the class, trace above "0" and prefixed by the ODFI — and C12_pairs_transported
   carries that to the result; C12_wellformed supplies non-emptiness and the strictly
   ascending trace order; the control is Create's tabulation.  Assumed of the result: the
   consolidated totals still fit the control record (Create fails otherwise). *)
Theorem C12_batch_arith_valid : forall hp fp inp out,
  kinds_consistent inp -> Forall traces_nodup inp -> Forall (fun b => b_entries b <> nil /\ b_adv b = nil) inp ->
  flatten_spec inp out ->
  Forall (fun b => AR.validate_batch gen_tables (f_batch gen_tables hp fp b) = AR.ROk) inp ->
  forall b, In b out ->
  AR.calc_debit gen_tables AR.KStd (map (f_entry fp) (b_entries b)) <= AR.t_batch_limit gen_tables ->
  AR.calc_credit gen_tables AR.KStd (map (f_entry fp) (b_entries b)) <= AR.t_batch_limit gen_tables ->
  AR.validate_batch gen_tables (f_batch gen_tables hp fp b) = AR.ROk.
Proof. exact c12_batch_arith_valid. Qed.
Print Assumptions C12_batch_arith_valid.

(* ... and the new file (File.Create over the consolidated batches, numbers 1..n) passes
   File.Validate: batch count, every batch, file control, sums, ascending numbers, hash *)
Theorem C12_file_arith_valid : forall hp fp inp out,
  kinds_consistent inp -> Forall traces_nodup inp -> Forall (fun b => b_entries b <> nil /\ b_adv b = nil) inp ->
  flatten_spec inp out -> out <> nil ->
  Forall (fun b => AR.validate_batch gen_tables (f_batch gen_tables hp fp b) = AR.ROk) inp ->
  Forall (fun b => AR.calc_debit gen_tables AR.KStd (map (f_entry fp) (b_entries b)) <= AR.t_batch_limit gen_tables /\
                   AR.calc_credit gen_tables AR.KStd (map (f_entry fp) (b_entries b)) <= AR.t_batch_limit gen_tables) out ->
  fctl_fits gen_tables (AR.fl_ctl (f_file gen_tables hp fp out)) ->
  AR.validate_file gen_tables (f_file gen_tables hp fp out) = AR.ROk.
Proof. exact c12_file_arith_valid. Qed.
Print Assumptions C12_file_arith_valid.

(* non-vacuity: two one-entry batches with one header, consolidated into one two-entry batch in
   trace order; hypotheses and conclusion hold; a stale entry hash would be refused *)
Theorem C12_valid_example :
  kinds_consistent ex_inp /\ Forall traces_nodup ex_inp /\ Forall (fun b => b_entries b <> nil /\ b_adv b = nil) ex_inp /\
  flatten_spec ex_inp ex_out /\ length ex_out = 1%nat /\
  Forall (fun b => AR.validate_batch gen_tables (f_batch gen_tables ex_hp ex_fp b) = AR.ROk) ex_inp.
Proof. exact ex_flat_hyps. Qed.

Theorem C12_valid_stale_hash_refuted :
  match ex_out with
  | b :: _ =>
      let x := f_batch gen_tables ex_hp ex_fp b in
      let c := AR.bt_ctl x in
      AR.validate_batch gen_tables (AR.mkbatch AR.KStd (AR.bt_class x) (AR.bt_odfi x) (AR.bt_number x) (AR.bt_entries x)
                             (AR.mkbctl (AR.bc_class c) (AR.bc_count c) 12104288 (AR.bc_debit c) (AR.bc_credit c) (AR.bc_odfi c) (AR.bc_number c)))
  | nil => AR.ROk
  end = AR.RHash.
Proof. exact ex_flat_stale_hash_refused. Qed.

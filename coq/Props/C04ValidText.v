(* C04 — tampered or truncated files are never accepted as something else: the TEXT-level theorems
   of Props/C04Text.v / C04Utf8.v transferred to the model of the DEFAULT reader (Reader.Read with its
   validation, Codec/ReaderValid.v) followed by File.Validate().  Only statements.

   accepts LT RT AT text = Some g   ach.NewReader(text).Read() returns g, no batch was left without
                                    control record, g.Validate() finds nothing (ReaderSkel.accepts =
                                    read_text_valid + validate_file on the projection p_file)
   s : fileS                        a structured list of record lines (header, batches, control)
   write le s                       its text, final block padding included, line end le (LF / CRLF)
   skel s                           the arithmetic skeleton of the lines (Model/TamperText.v): the object of
                                    the text-level theorems
   p_file g                         the arithmetic skeleton of a tree of the typed reader
   bridge_okb LT s                  the structural reader and the typed reader agree on s: IAT detection on
                                    bytes = on characters for every batch header, every '7' line of an entry
                                    is kept as one addenda record
   tamper s site col d              s with one character of one line replaced (Model/TamperText.v)
   LT, RT, AT                       Gen/Layouts.v, Gen/RecRules.v, Gen/Tables.v of this run *)
From Coq Require Import String List NArith ZArith Bool.
From ACH Require Import Arith TamperText TamperTextFacts TamperTextLift TruncBytes TruncUtf8 TruncUtf8Facts NumFacts.
From ACH Require Import ReaderSkel TamperValidFacts C01FileEx C01FileObl C01ValidObl C04ValidTextObl.
Import ListNotations.
Local Open Scope string_scope.
Local Open Scope nat_scope.

(* the two readers of the development, run on the SAME lines (any lines): the projection of the typed
   reader's tree is the skeleton of the structural reader's result, computed with the typed reader's
   decisions (skelD); under bridge_okb that is skel *)
Theorem C04_readers_agree : forall ls g s,
  read_file LT ls = Some g -> read_struct ls = Some s ->
  p_file g = skelD LT s /\ (bridge_okb LT s = true -> p_file g = skel s).
Proof. exact (fun ls g s Hg Hs => conj (c04_read_file_skelD ls g s Hg Hs) (c04_read_file_skel ls g s Hg Hs)). Qed.
Print Assumptions C04_readers_agree.

(* the projection lemma left open in phase 3 (docs/C01.md): for a tree the writer can write and the
   reader dispatches back (fits, dispatchb), p_file (parsed_file f) = skel (struct_of f) *)
Theorem C04_valid_reader_projection : forall f,
  all_file (rec_fitsb LT) f = true -> dispatchb LT f = true ->
  file_typed (struct_of LT f) = true -> starts99 (f_ctl (struct_of LT f)) = false ->
  bridge_okb LT (struct_of LT f) = true ->
  p_file (parsed_file LT f) = skel (struct_of LT f).
Proof. exact c04_projection. Qed.
Print Assumptions C04_valid_reader_projection.

(* an accepted written text: the tree returned projects to the skeleton of the lines, which passes
   read_validate — the hypothesis of every text-level theorem *)
Theorem C04_valid_reader_accepted : forall s le g,
  le_ok le -> file_typed s = true -> utf8_records s -> bridge_okb LT s = true ->
  accepts LT RT AT (write le s) = Some g ->
  starts99 (f_ctl s) = false /\ p_file g = skel s /\ read_validate AT (skel s) = ROk.
Proof. exact accepted_struct. Qed.
Print Assumptions C04_valid_reader_accepted.

(* C04_valid_reader_tamper_text / C04_valid_reader_tamper_text_rendered: since phase 7 in
   Props/C04ValidTextFull.v, WITHOUT the three hypotheses about the tampered lines that the phase-6
   statements (…_partial, removed here: they were instances of the full theorems) carried. *)

(* a text without a file control line ('9', not starting "99") is never accepted *)
Theorem C04_valid_reader_needs_control : forall text ls,
  all_lines (read_lines text) = Some ls -> Forall not_ctl ls -> accepts LT RT AT text = None.
Proof. exact not_accepted_without_ctl. Qed.
Print Assumptions C04_valid_reader_needs_control.

(* C04_valid_reader_truncation, first part: EVERY prefix that ends before the file control record
   begins — any byte offset, also inside a multi-byte character, LF or CRLF, any typed file of
   well-formed 94-character records — is rejected by Read + Validate *)
Theorem C04_valid_reader_truncation_before_control : forall s le k,
  le_ok le -> file_typed s = true -> utf8_records s ->
  k <= length (text_of le (body s)) ->
  accepts LT RT AT (firstn k (write le s)) = None.
Proof. exact c04_valid_reader_truncation_before_ctl. Qed.
Print Assumptions C04_valid_reader_truncation_before_control.

(* second part (every other offset): C04_valid_reader_truncation and
   C04_valid_reader_truncation_filler in Props/C04ValidTextFull.v (the phase-6 statement
   C04_valid_reader_truncation_partial assumed that the structural reader reads the prefix; that is
   now proved: C04_valid_reader_unread_prefix) *)

(* the columns the protected Parse methods read, as of this run: FileControl.Parse reads the
   entry/addenda count from characters [13, 21), EntryDetail.Parse the amount from characters
   [29, 39), both with parseNumField, and so for all 46 protected columns *)
Theorem C04_parse_columns_pinned :
  parse_columns (mkpcol (RCFileCtl false) "EntryAddendaCount" 13 21 CKNum) = ("FileControl", "EntryAddendaCount", true, Some (13, 21, true))
  /\ parse_columns (mkpcol (RCEntry KStd) "Amount" 29 39 CKNum) = ("EntryDetail", "Amount", true, Some (29, 39, true))
  /\ map parse_columns protected_columns = map expected_columns protected_columns.
Proof. exact (conj fctl_parse_count_columns (conj (proj1 entry_parse_amount_columns) parse_columns_pinned)). Qed.
Print Assumptions C04_parse_columns_pinned.

(* non-vacuity: the written lines of the generated example file of C01 (two standard batches with
   addenda, 12 records) satisfy every hypothesis; three tampered versions (entry hash of the first batch
   control; FIRST digit of the first entry's amount; FIRST digit of the file control's entry/addenda
   count) are still typed structured files on which the readers agree and are rejected
   (1 = Read fails, 3 = File.Validate() fails); truncations around the file control record *)
Theorem C04_valid_text_example :
  file_typed vx = true /\ bridge_okb LT vx = true /\ accept_code LT RT AT (write CRLF_b vx) = 0
  /\ In vx_hash protected_columns /\ In vx_amount protected_columns /\ In vx_count protected_columns
  /\ site_class vx (SBatchCtl 0) = Some (p_class vx_hash) /\ site_class vx (SEntry 0 0) = Some (p_class vx_amount)
  /\ site_class vx SFileCtl = Some (p_class vx_count).
Proof. exact vx_ok. Qed.

Theorem C04_valid_text_example_utf8 : utf8_records vx /\ utf8_records (tamper vx (SBatchCtl 0) (10 + 9) 55)
  /\ exists g, accepts LT RT AT (write CRLF_b vx) = Some g.
Proof. exact (conj vx_utf8 (conj vx_tampered_utf8 vx_accepted)). Qed.

Theorem C04_valid_text_example_tamper :
  let t1 := tamper vx (SBatchCtl 0) (10 + 9) 55 in
  let t2 := tamper vx (SEntry 0 0) (29 + 0) 55 in
  let t3 := tamper vx SFileCtl (13 + 0) 55 in
  (file_typed t1 = true /\ bridge_okb LT t1 = true /\ accept_code LT RT AT (write CRLF_b t1) = 1)
  /\ (file_typed t2 = true /\ bridge_okb LT t2 = true /\ accept_code LT RT AT (write CRLF_b t2) = 1)
  /\ (file_typed t3 = true /\ bridge_okb LT t3 = true /\ accept_code LT RT AT (write CRLF_b t3) = 3).
Proof. exact vx_tampered. Qed.

Theorem C04_valid_text_example_truncation :
  map (fun k => accept_code LT RT AT (firstn k (write CRLF_b vx))) [400; 96 * 11 + 30; 96 * 11 + 54; 96 * 11 + 55; 96 * 11 + 94; 96 * 12 + 1; 96 * 12 + 2]
  = [1; 3; 3; 0; 0; 1; 0] /\ List.length (record_lines vx) = 12.
Proof. exact vx_truncated. Qed.

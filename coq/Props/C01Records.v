(* C01 — record level: parsing a rendered record recovers every field through
   its conversion, and rendering again is a fixed point, for every record layout
   regenerated from the Go source of this run.  Only statements. *)
From Coq Require Import String List Bool NArith.
From ACH Require Import Bytes Utf8 LayoutTypes Fields Layout LayoutOk LayoutFacts LayoutRoundtrip Layouts C01Obl.
Open Scope string_scope.

(* the checker holds on all 26 regenerated layouts *)
Theorem C01_layouts_checked : forallb layout_ok all_layouts = true.
Proof. exact all_layouts_ok. Qed.
Print Assumptions C01_layouts_checked.

Theorem C01_layouts_count : length all_layouts = 26%nat.
Proof. exact all_layouts_26. Qed.

(* every parsed field is the conversion of exactly the text its segment wrote *)
Theorem C01_record_parse_render : forall L r, In L all_layouts -> fitsb L r = true ->
  forall c, In c (l_cuts L) -> c_const c = None -> c_field c <> "" ->
  exists s, aligned_seg L c = Some s /\ In s (l_segs L) /\ seg_field s = Some (c_field c)
    /\ sub (units (l_ix L) (render L r)) (c_lo c) (c_hi c) = render_seg r s
    /\ lookup (parse L (render L r)) (c_field c) = conv_value (c_conv c) (render_seg r s).
Proof. exact C01_parse_render. Qed.
Print Assumptions C01_record_parse_render.

(* a field read back from its own columns is the record's own value (canonical values) *)
Theorem C01_record_value_roundtrip : forall L r s f c, In L all_layouts -> fitsb L r = true -> canonb L r = true ->
  In s (l_segs L) -> simple_field s = Some f -> find_key (l_cuts L) f = Some c -> c_const c = None ->
  lookup (parse L (render L r)) f = canon_value s r.
Proof. exact C01_parse_render_value. Qed.
Print Assumptions C01_record_value_roundtrip.

(* write, read, write again: byte for byte *)
Theorem C01_record_fixed_point : forall L r, In L all_layouts -> fitsb L r = true -> stableb L r = true ->
  render L (overlay (parse L (render L r)) r) = render L r.
Proof. exact C01_reparse_fixed. Qed.
Print Assumptions C01_record_fixed_point.

(* known finding, as a theorem about the faithful model: the IAT OFAC indicators do not survive *)
Theorem C01_iat_ofac_refuted :
  fitsb L_IATEntryDetail iat_record = true /\
  sub (units IRune (render L_IATEntryDetail iat_record)) 76 77 = bs "1" /\
  lookup (parse L_IATEntryDetail (render L_IATEntryDetail iat_record)) "OFACScreeningIndicator" = Some (VS (bs " ")) /\
  stableb L_IATEntryDetail iat_record = false /\
  render L_IATEntryDetail (overlay (parse L_IATEntryDetail (render L_IATEntryDetail iat_record)) iat_record)
    <> render L_IATEntryDetail iat_record.
Proof. exact iat_ofac_lossy_refuted. Qed.

(* non-vacuity: a concrete EntryDetail (with multi-byte characters) meets every hypothesis *)
Theorem C01_record_example : In L_EntryDetail all_layouts /\ fitsb L_EntryDetail ed_record = true /\
  stableb L_EntryDetail ed_record = true /\ rune_count (render L_EntryDetail ed_record) = 94%nat.
Proof. exact (conj ed_in (conj ed_fits (conj ed_stable ed_width))). Qed.

(* C10 — MergeDir equals MergeFiles over the directory, under every schedule.
   Only statements here; every proof is `exact <lemma>`. *)
From Coq Require Import String List NArith Bool Arith Permutation.
Import ListNotations.
From ACH Require Import Bytes Walk WalkFacts MergeDirTable MergeDirGen MergeDir MergeDirFacts MergeDirTrace MergeDirTraceFacts C10Obl.

(* walkDir (loop shape regenerated from the source) sends exactly the files of the tree, nested
   ones when SubDirectories is set, and the ones MergeDir goes on to read are those the
   documented acceptor takes (extension table regenerated from DefaultFileAcceptor) *)
Theorem C10_walk_complete : forall sub items p,
  In p (accepted_as_coded sub items) <-> reach sub p items /\ accepted p = true.
Proof. exact accepted_as_coded_complete. Qed.
Print Assumptions C10_walk_complete.

Theorem C10_walk_all_files : forall sub items p,
  In p (walk_as_coded sub [] items) <-> reach sub p items.
Proof. exact walk_as_coded_complete. Qed.
Print Assumptions C10_walk_all_files.

Theorem C10_walk_once : forall sub items,
  well_formed items = true -> NoDup (walk_as_coded sub [] items) /\ NoDup (accepted_as_coded sub items).
Proof. exact (fun sub items W => conj (walk_as_coded_nodup sub items W) (accepted_as_coded_nodup sub items W)). Qed.
Print Assumptions C10_walk_once.

Theorem C10_acceptor_table : forall p, default_accept p = spec_accept p.
Proof. exact default_accept_spec. Qed.
Print Assumptions C10_acceptor_table.

(* every write of a parser goroutine to the accumulator the merger reads is inside a sync.Once *)
Theorem C10_shared_writes_once : shared_writes_ok mergedir_shared_writes = true.
Proof. exact mergedir_shared_writes_ok. Qed.
Print Assumptions C10_shared_writes_once.

(* … and none of the goroutines MergeDir starts assigns to a captured variable (source table of this run) *)
Theorem C10_no_captured_writes : mergedir_captured_writes = [].
Proof. exact mergedir_no_captured_writes. Qed.
Print Assumptions C10_no_captured_writes.

(* the walk before the repair loses the file listed after a sub-directory *)
Theorem C10_walk_complete_unfixed_refuted :
  reach true [[122%N]] unfixed_witness /\ ~ In [[122%N]] (walk_unfixed true [] unfixed_witness)
  /\ In [[122%N]] (walk true [] unfixed_witness).
Proof. exact walk_unfixed_loses. Qed.
Print Assumptions C10_walk_complete_unfixed_refuted.

(* conservation, for every schedule, worker count, outcome assignment and both variants of the
   sends: tokens (files to come, files in flight, merged files, pending errors) are never
   duplicated or invented, and none is dropped unless a goroutine has returned an error *)
Theorem C10_conservation : forall sel parse add_ok n paths sched s,
  run sel parse add_ok sched (init n paths) = Some s ->
  exists d, Permutation (total parse s ++ d) (flat_map (ptoks parse) paths) /\ (gcancel s = false -> d = []).
Proof. exact conservation. Qed.
Print Assumptions C10_conservation.

(* whenever MergeDir returns without error it has merged exactly the files MergeFiles would be
   handed (parse results of the accepted paths, as a multiset), whatever the interleaving *)
Theorem C10_result_ok : forall sel parse add_ok n paths sched s m,
  run sel parse add_ok sched (init n paths) = Some s -> terminal s = true -> result_of s = ROk m ->
  Permutation m (files_of parse paths) /\ (forall p, In p paths -> parse p <> PErr).
Proof. exact result_ok. Qed.
Print Assumptions C10_result_ok.

(* an unparseable accepted file makes every completed run return an error *)
Theorem C10_result_err : forall sel parse add_ok n paths sched s p,
  run sel parse add_ok sched (init n paths) = Some s -> terminal s = true ->
  In p paths -> parse p = PErr -> result_of s = RErr.
Proof. exact result_err. Qed.
Print Assumptions C10_result_err.

(* termination: every schedule is at most measure(init) = 6*|paths| + n + 4 steps long *)
Theorem C10_schedule_bound : forall sel parse add_ok n paths sched s,
  run sel parse add_ok sched (init n paths) = Some s ->
  length sched + measure s <= 6 * length paths + n + 4.
Proof.
  exact (fun sel parse add_ok n paths sched s H =>
           eq_ind _ (fun k => length sched + measure s <= k)
                  (schedule_bound sel parse add_ok n paths sched s H) _ (measure_init n paths)).
Qed.
Print Assumptions C10_schedule_bound.

(* error-free runs: no reachable state is stuck (with or without the selects), and a completed
   run returns Ok with every file *)
Theorem C10_progress : forall sel parse add_ok n paths sched s,
  (forall p, parse p <> PErr) -> (forall f, add_ok f = true) -> 1 <= n ->
  run sel parse add_ok sched (init n paths) = Some s ->
  (terminal s = false -> exists l, fire sel parse add_ok l s <> None) /\
  (terminal s = true -> exists m, result_of s = ROk m /\ Permutation m (files_of parse paths)).
Proof. exact progress_error_free. Qed.
Print Assumptions C10_progress.

(* with failures (read errors, sorted.add errors): the protocol whose sends select on the
   errgroup context — which is what the send table regenerated from merge.go shows — never
   gets stuck, so with the bound above every maximal schedule ends in a terminal state *)
Theorem C10_error_terminates : forall parse add_ok n paths sched s,
  1 <= n -> run mergedir_sel parse add_ok sched (init n paths) = Some s -> terminal s = false ->
  exists l, fire mergedir_sel parse add_ok l s <> None.
Proof. exact error_terminates. Qed.
Print Assumptions C10_error_terminates.

(* the protocol as it was before the repair (plain sends): one worker, first file unparseable,
   walker blocked for ever on the second path *)
Theorem C10_error_terminates_unfixed_refuted :
  run false bad_parse (fun _ => true) [LHand 0; LStart 0; LParse 0; LParseCancel; LMergerExit] (init 1 [1%N; 2%N]) = Some stuck_state
  /\ terminal stuck_state = false
  /\ forall l, fire false bad_parse (fun _ => true) l stuck_state = None.
Proof. exact unfixed_deadlock. Qed.
Print Assumptions C10_error_terminates_unfixed_refuted.

(* trace validation is sound: an accepted observation of the real MergeDir is the visible
   part of a complete schedule of the model with the observed result *)
Theorem C10_trace_sound : forall sel parse add_ok n paths trace observed,
  accept sel parse add_ok n paths trace observed = true ->
  exists sched s,
    run sel parse add_ok sched (init n paths) = Some s /\ terminal s = true /\
    trace_of sel parse add_ok sched (init n paths) = trace /\
    match observed with
    | None => result_of s = RErr
    | Some ids => exists m, result_of s = ROk m /\ forall x, count_N x m = count_N x ids
    end.
Proof. exact accept_sound. Qed.
Print Assumptions C10_trace_sound.

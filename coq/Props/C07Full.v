(* C07 (phase 4) — JSON and NACHA text are interchangeable: the file-level statement with the text, the validation
   options (on the file AND on its header) and the batch offsets in the conclusion, ADV files included.
   Statements only; proofs are in Model/JsonDefaultsTable.v, Model/JsonFullFacts.v, Oblig/C07FullObl.v.

   The original is a File VALUE of the C07 value model (JsonCodec.val typed by the regenerated type tree T_File): it is
   the only model that carries what the statement talks about besides the records — the stored ValidateOpts (file,
   header, batches), the offsets and the unexported fields — and the one json.Marshal is defined on.  Its text is
   [write_full (tree_full v)]: the writer on the tree of the value with the three excused fields the writer reads made
   visible (FileHeader.validateOpts, Batch.ADVControl, File.ADVControl).  FileHeader.Validate, BatchHeader.Validate and
   File.Validate are abstract predicates: the theorems hold for every choice of them. *)
From Coq Require Import String Ascii List Bool ZArith NArith.
Import ListNotations.
From ACH Require Import Bytes JsonCodec JsonCodecFacts JsonSurvive JsonPostTable Layout LayoutOk FileStruct JsonFile JsonFileFacts JsonFileCurrent.
From ACH Require Import JsonTags JsonPost Offsets OffsetTable Layouts RecValid RecValidFacts RecRules C07Obl C07FileObl.
From ACH Require Import JsonDefaultsTable JsonDefaults JsonFull JsonFullFacts JsonKeepFacts C07FullObl.
Local Open Scope string_scope.
Local Open Scope list_scope.

(* ------------------------------------------------------------ (b) constructor defaults and omitempty *)

(* For ANY struct: if every omitempty field that the value the decoder starts from sets to a non-zero value is listed
   in [present], and the present fields of v are not empty, then whatever omitempty drops from v is already in that
   value — and every omitempty scalar read back under its own key comes back as written. *)
Theorem C07_omit_default_sound : forall n present fs cs vs,
  forallb (fun p => inb p present) (omit_nonzero_fields n fs cs) = true ->
  typed_fields fs vs = true ->
  present_nonempty n present fs vs = true ->
  omit_lossless fs cs vs = true /\ omit_fields_back fs (surv_fields fs cs vs) vs = true.
Proof. exact omit_default_sound_full. Qed.
Print Assumptions C07_omit_default_sound.

(* Current source: for every struct the decoder visits, every omitempty field holds its zero value in the value the
   decoder starts from (zero, or the regenerated value of the struct's New… constructor), except FileHeader.FileIDModifier
   ("A"; the regenerated rules of FileHeader.Validate reject an empty modifier) and Batch.ADVControl (absent only on
   batches whose ADV control the writer does not write); every non-zero start value is a listed constructor's value;
   every constructor the decoder starts from passes the same test. *)
Theorem C07_defaults_omitempty :
  defaults_ok json_structs T_File (always_present ++ unrendered_absent) json_ctor_values = true /\
  forallb (fun p => reject_if_empty (rules_named (fst p)) (snd p)) always_present = true /\
  (forall n f r, In (n, f) always_present -> rec_validb (rules_named n) r = true -> gets r f <> []) /\
  (forall layouts b c, hdr_is_adv b = false ->
     batch_lines layouts false (set_kid b "ADVControl" c) = batch_lines layouts false b).
Proof. exact defaults_stmt. Qed.
Print Assumptions C07_defaults_omitempty.

(* the defect pattern of the seeded change (constructor default 1 under omitempty): rejected by the checker, and the
   value 0 comes back as 1 *)
Theorem C07_default_under_omitempty_refuted :
  defaults_ok [("demoHeader", TStruct "demoHeader" [ (mkF "Status" (Some "status") (Some "status") true None false, TInt) ])]
              T_default_demo [] [("demoHeader", "NewDemoHeader", Some (VRec [VInt 1]))] = false
  /\ dec T_default_demo (start T_default_demo) (enc T_default_demo (VRec [VRec [VInt 0]])) = VRec [VRec [VInt 1]].
Proof. exact default_demo_rejected. Qed.
Print Assumptions C07_default_under_omitempty_refuted.

(* ------------------------------------------------------------ (a) the options on the file header *)

(* Current source: File.SetValidation stores the options on the file and on its header; FileFromJSONWith decodes the
   JSON header INTO the header that carries them and assigns it back; the header accessors read exactly the two bypass
   flags, from the header's own copy; File.Create validates the header under that copy; the two accessors are the
   functions whose source the layout table hashes. *)
Theorem C07_opts_flow :
  opts_flow_ok json_opts_flow = true /\
  existsb (fun s => match s with SCustom n h => String.eqb n "FileHeader.ImmediateDestinationField" && String.eqb h "f332511f84a1" | _ => false end) (l_segs L_FileHeader)
  && existsb (fun s => match s with SCustom n h => String.eqb n "FileHeader.ImmediateOriginField" && String.eqb h "1da7f3123d8e" | _ => false end) (l_segs L_FileHeader) = true.
Proof. exact (conj opts_flow_checked header_accessors_pinned). Qed.
Print Assumptions C07_opts_flow.

(* Current source: the four checks of FileHeader.ValidateWith that [valid] relies on — len(FileIDModifier) != 1 and the
   three constants — are top-level rejects before the first option-dependent statement (applied under every option
   set), and the regenerated rules of those shapes pin the constants and make FileIDModifier non-empty. *)
Theorem C07_header_core_checks :
  header_checks_ok json_opts_flow
    ["len(FileIDModifier) != 1"; "recordSize != ""094"""; "blockingFactor != ""10"""; "formatCode != ""1"""] = true /\
  len_pinned hdr_core_rules "FileIDModifier" = true /\
  pins hdr_core_rules "recordSize" (bstr "094") = true /\ pins hdr_core_rules "blockingFactor" (bstr "10") = true /\
  pins hdr_core_rules "formatCode" (bstr "1") = true.
Proof. exact header_core_checks. Qed.
Print Assumptions C07_header_core_checks.

(* without the two bypass flags the option-aware header line is the line the layout interpreter renders *)
Theorem C07_header_line_default : forall o L r,
  flag o "BypassDestinationValidation" = false -> flag o "BypassOriginValidation" = false ->
  render_o o L r = render L r.
Proof. exact render_o_default. Qed.
Print Assumptions C07_header_line_default.

(* the header constants: one literal per field in the whole package, equal to the decode-time value; three are pinned
   by the regenerated validation rules as well *)
Theorem C07_header_constants :
  (const_field json_opts_flow "priorityCode" (bstr "01") = true /\
   const_field json_opts_flow "recordSize" (bstr "094") = true /\
   const_field json_opts_flow "blockingFactor" (bstr "10") = true /\
   const_field json_opts_flow "formatCode" (bstr "1") = true /\
   pins V_FileHeader "recordSize" (bstr "094") = true /\ pins V_FileHeader "blockingFactor" (bstr "10") = true /\
   pins V_FileHeader "formatCode" (bstr "1") = true) /\
  match field_default T_File "Header" with
  | VRec hs => map (fun f => match field_val (struct_fields T_FileHeader) hs f with Some (_, x) => x | None => VNil end)
                   ["priorityCode"; "recordSize"; "blockingFactor"; "formatCode"; "FileIDModifier"]
  | _ => []
  end = [VStr (bstr "01"); VStr (bstr "094"); VStr (bstr "10"); VStr (bstr "1"); VStr (bstr "A")].
Proof. exact (conj header_constants header_constants_decode_time). Qed.
Print Assumptions C07_header_constants.

(* ------------------------------------------------------------ (c) achcli *)

(* Current source: readValidationOpts returns a fresh set with SkipAll under -skip-validation, the set read from the
   file under -validate, and nil otherwise; the value reaches ach.FileFromJSONWith unchanged.  Hence: without the two
   flags the options stored in the document are used; with one of them they are replaced. *)
Theorem C07_achcli_precedence :
  cli_flow_ok achcli_flow = true /\
  (forall fields doc, final_opts fields (achcli_passed false []) doc = doc) /\
  (forall fields o doc, final_opts fields (achcli_passed false [o]) doc = [o]) /\
  (forall fields vfile doc, final_opts fields (achcli_passed true vfile) doc = [skip_all_opts]) /\
  (forall fhv bhv fv j, achcli_reformat fhv bhv fv false [] j = from_json fhv bhv fv [] j).
Proof.
  exact (conj cli_flow_checked (conj achcli_keeps_stored (conj achcli_validate_replaces (conj achcli_skip_replaces achcli_reformat_plain)))).
Qed.
Print Assumptions C07_achcli_precedence.

(* ------------------------------------------------------------ the post-processing, tree level, ANY environment and layouts *)

(* Non-ADV: as C07_post_ready, with what else comes back: the options on the file and on the header, the offsets. *)
Theorem C07_post_ready_full : forall layouts E passed d ho cs fc,
  fc_layout_ok layouts E = true ->
  ready E passed d = true ->
  ho = final_opts (pe_merge_fields E) passed (kid d "validateOpts") ->
  exists f, post E passed d = (if pe_file_valid E f then POk f else PInvalid f)
            /\ comes_back layouts f d (final_opts (pe_merge_fields E) passed (kid d "validateOpts")) ho cs fc.
Proof. exact full_plain. Qed.
Print Assumptions C07_post_ready_full.

(* ADV: [d] is the tree that survives JSON (no ADV controls), [cs] / [fc] the ADV controls of the original's batches and
   file; ready_adv: every batch is ADV, build gives back exactly those batch controls, numbers as createFileADV assigns
   them, the file control holds createFileADV's sums. *)
Theorem C07_post_ready_adv : forall layouts E passed d ho cs fc,
  afc_layout_ok layouts E = true ->
  ready_adv E passed d cs fc = true ->
  ho = final_opts (pe_merge_fields E) passed (kid d "validateOpts") ->
  exists f, post E passed d = (if pe_file_valid E f then POk f else PInvalid f)
            /\ comes_back layouts f d (final_opts (pe_merge_fields E) passed (kid d "validateOpts")) ho cs fc.
Proof. exact full_adv. Qed.
Print Assumptions C07_post_ready_adv.

(* ------------------------------------------------------------ the round trip *)

(* For ANY type tree: a selector that names no (struct, field) of the tree imposes no condition on typed values. *)
Theorem C07_quiet_selector : forall sel t,
  wf t = true -> sel_quiet sel t = true -> forall cur v, typed t cur = true -> typed t v = true -> safe_sel sel t cur v = true.
Proof. exact safe_quiet. Qed.
Print Assumptions C07_quiet_selector.

(* Current source: the kept excused fields hold their decode-time values ([keep_ok], the hypothesis of
   C07_roundtrip_partial) as soon as the file header passes the regenerated rules of FileHeader.Validate (they pin
   recordSize / blockingFactor / formatCode and reject an empty FileIDModifier), priorityCode is the package's literal,
   and no Addenda98 record carries iatCorrectedData. *)
Theorem C07_keep_from_valid : forall fhv bhv fv v,
  typed T_File v = true -> in_domain v = true -> valid fhv bhv fv v = true -> a98_clean v = true -> keep_ok v = true.
Proof. exact keep_ok_of_valid. Qed.
Print Assumptions C07_keep_from_valid.

(* Current source, any validators.  For every typed File value that is
     in the domain  (options stored through File.SetValidation: the header's copy is the file's; priorityCode is the one
                     literal the package assigns; the five timestamp fields in their NACHA forms),
     valid          (as far as the round trip needs: file header accepted by the option-independent regenerated rules
                     of FileHeader.Validate, batch headers present, addenda type codes, ADV categories, Create's
                     preconditions),
     tabulated      (Batch.build / IATBatch.build under the file's options and File.Create leave it alone; ADV files:
                     build yields the stored ADV controls, createFileADV's numbers and sums),
     json-safe      (exactly the known findings: no Addenda98 record carries iatCorrectedData; the CTX/ATX name
                     heuristic of setBatchesFromJSON does not fire),
   FileFromJSON(json.Marshal(v)) returns a file f — with a nil error when File.Validate accepts it — such that
     write f = write v (header line under the header's own options, ADV control lines included),
     the options of f are those of v, the header of f carries them too, and every batch keeps its offset. *)
Theorem C07_roundtrip : forall fhv bhv fv v,
  typed T_File v = true ->
  in_domain v = true -> valid fhv bhv fv v = true -> tabulated fhv bhv fv v = true -> json_safe v = true ->
  exists f, from_json fhv bhv fv [] (to_json v) = (if fv f then POk f else PInvalid f)
            /\ lines_full f = lines_full (tree_full v)
            /\ write_full f = write_full (tree_full v)
            /\ file_opts f = file_opts (tree_of_file v)
            /\ header_opts f = [file_opts (tree_of_file v)]
            /\ offsets_of f = offsets_of (tree_of_file v).
Proof. exact roundtrip_final. Qed.
Print Assumptions C07_roundtrip.

(* achcli -reformat (no -validate, no -skip-validation) on the JSON form of such a file *)
Theorem C07_achcli_roundtrip : forall fhv bhv fv v,
  typed T_File v = true ->
  in_domain v = true -> valid fhv bhv fv v = true -> tabulated fhv bhv fv v = true -> json_safe v = true ->
  exists f, achcli_reformat fhv bhv fv false [] (to_json v) = (if fv f then POk f else PInvalid f)
            /\ write_full f = write_full (tree_full v)
            /\ file_opts f = file_opts (tree_of_file v).
Proof. exact achcli_roundtrip_final. Qed.
Print Assumptions C07_achcli_roundtrip.

(* Current source: the fields whose struct-level survival can fail (the excused list of C07_tags_ok_partial, reported
   exactly by the checker) are all accounted for by the file-level statement: a field outside the full tree is read by
   no record layout (and the post-processing model runs on a tree that does not contain it); the three fields the full
   tree carries are restored (C07_roundtrip's conclusion: header options, ADV control lines); the header constants and
   FileIDModifier follow from validity (C07_keep_from_valid); Addenda98.iatCorrectedData is the known finding. *)
Theorem C07_tags_ok :
  tags_ok excused T_File (start T_File) = true /\
  forallb (fun p => inb p (problems T_File (start T_File))) excused = true /\
  forallb (fun p => inb p hid_full || inb p full_fields || inb p valid_implied || inb p known_finding_fields) excused = true /\
  forallb (fun p => negb (layout_reads_field p)) hid_full = true /\
  forallb (fun p => inb p keep_fields) (valid_implied ++ known_finding_fields) = true /\
  forallb (fun p => inb p (valid_implied ++ known_finding_fields)) keep_fields = true.
Proof. exact excused_accounted. Qed.
Print Assumptions C07_tags_ok.

(* Non-vacuity: a generated ADV file with two batches (8 record lines) and a file with a 10-character ImmediateOrigin
   under BypassOriginValidation satisfy every hypothesis; for the latter the header's own options decide the line. *)
Theorem C07_roundtrip_witness_adv :
  typed T_File adv_witness = true /\ keep_ok adv_witness = true /\ roundtrip_hyps true adv_witness = true /\
  is_adv_value adv_witness = true /\ length (lines_full (tree_full adv_witness)) = 8%nat /\
  match roundtrip_run true false [] adv_witness with
  | Some f => write_full f = write_full (tree_full adv_witness)
  | None => False
  end.
Proof. exact adv_witness_ok. Qed.
Print Assumptions C07_roundtrip_witness_adv.

Theorem C07_roundtrip_witness_header_opts :
  typed T_File bypass_witness = true /\ keep_ok bypass_witness = true /\ roundtrip_hyps true bypass_witness = true /\
  flag (file_opts (tree_of_file bypass_witness)) "BypassOriginValidation" = true /\
  match roundtrip_run true false [] bypass_witness with
  | Some f => write_full f = write_full (tree_full bypass_witness)
              /\ header_opts f = [file_opts (tree_of_file bypass_witness)]
              /\ write_full f <> write_cur f
  | None => False
  end.
Proof. exact bypass_witness_ok. Qed.
Print Assumptions C07_roundtrip_witness_header_opts.

(* The hypotheses are needed.  Outside the domain: options stored on the header only are not part of the JSON form. *)
Theorem C07_header_only_opts_refuted :
  exists v, typed T_File v = true /\ keep_ok v = true /\
    valid (fun _ _ => true) (fun _ _ => true) (fun _ => true) v = true /\
    tabulated (fun _ _ => true) (fun _ _ => true) (fun _ => true) v = true /\ json_safe v = true /\
    in_domain v = false /\
    match roundtrip_run true false [] v with
    | Some f => lines_full f <> lines_full (tree_full v)
    | None => True
    end.
Proof. exact header_only_opts_refuted. Qed.
Print Assumptions C07_header_only_opts_refuted.

(* Known finding json:catx:offset-entry-repacked (json:catx:zero-addenda-records is C07_roundtrip_catx_refuted). *)
Theorem C07_roundtrip_catx_offset_refuted :
  exists v, typed T_File v = true /\ keep_ok v = true /\ in_domain v = true /\
    valid (fun _ _ => true) (fun _ _ => true) (fun _ => true) v = true /\
    tabulated (fun _ _ => true) (fun _ _ => true) (fun _ => true) v = true /\ a98_clean v = true /\
    catx_clean v = false /\
    match roundtrip_run true false [] v with
    | Some f => lines_full f <> lines_full (tree_full v)
    | None => True
    end.
Proof. exact catx_offset_refuted. Qed.
Print Assumptions C07_roundtrip_catx_offset_refuted.

(* C08 — Merging conserves entries: nothing lost, duplicated or invented.
   Only statements here; every proof is `exact <lemma>`.

   merge_files is the model of ach.MergeFilesWith (coq/Model/Merge.v); an identity
   (ids_in / ids_out) is the triple (routing pair of the file, the seven header
   fields compared by BatchHeader.Equal with the company name case-folded, the
   entry: trace, amount, addenda count and an id standing for all other content). *)
From Coq Require Import List NArith ZArith Bool Permutation.
From ACH Require Import Bytes Merge MergeFacts C08Obl.

(* for ALL lists of files (any length, repeated files, colliding traces, any
   number of routing pairs) and ALL conditions (any integers) *)
Theorem C08_conservation : forall (fs : list ifile) (c : conds),
  Permutation (ids_out (merge_files fs c)) (ids_in fs).
Proof. exact merge_conservation. Qed.
Print Assumptions C08_conservation.

Theorem C08_order_independent : forall (fs fs' : list ifile) (c : conds),
  Permutation fs fs' -> Permutation (ids_out (merge_files fs c)) (ids_out (merge_files fs' c)).
Proof. exact merge_order_independent. Qed.
Print Assumptions C08_order_independent.

(* every entry of an output file stems from an input file with the output file's
   origin/destination and from a batch whose header has the same identifying fields *)
Theorem C08_no_mixing : forall fs c g rb e,
  In g (merge_files fs c) -> In rb (rf_batches g) -> In e (rb_entries rb) ->
  exists f ib, In f fs /\ In ib (if_batches f) /\ In e (ib_entries ib)
               /\ if_route f = rf_route g /\ hkey (ib_header ib) = hkey (rb_header rb).
Proof. exact merge_no_mixing. Qed.
Print Assumptions C08_no_mixing.

(* convertToFiles re-emits the stored entries in exactly the stored order *)
Theorem C08_convert_exact : forall c st, ids_out (convert c st) = ids_state st.
Proof. exact convert_ids. Qed.
Print Assumptions C08_convert_exact.

(* the identity really distinguishes: BatchHeader.Equal holds exactly when the header keys agree *)
Theorem C08_header_key : forall a b, header_equal a b = true <-> hkey a = hkey b.
Proof. exact header_equal_hkey. Qed.
Print Assumptions C08_header_key.

(* C07 — JSON and NACHA text are interchangeable representations of a file.
   Statements only; proofs are in Model/JsonCodecFacts.v and Oblig/C07Obl.v.

   Proved here: the struct <-> JSON-object layer (every record, batch, file, option set
   and offset) for the type tree regenerated from the source.  The text-level statement
   (Create / build / Validate / writer after decoding) is NOT modelled: it is evaluated on
   the implementation by the oracle (see docs/C07.md, "partial"). *)
From Coq Require Import String List Bool ZArith NArith.
Import ListNotations.
From ACH Require Import Bytes JsonCodec JsonCodecFacts JsonTags C07Obl.
Open Scope string_scope.

(* For ANY type tree: a value survives json.Marshal + json.Unmarshal (into a variable
   holding [cur]) exactly when every field that is dropped by omitempty, not written,
   not read, or read under another key already holds in [cur] what the value holds. *)
Theorem C07_struct_codec : forall t cur v,
  wf t = true -> typed t cur = true -> typed t v = true ->
  (dec t cur (enc t v) = v <-> safeb t cur v = true).
Proof. exact codec_roundtrip. Qed.
Print Assumptions C07_struct_codec.

(* For ANY type tree: if the table checker reports only fields from [ex], a value survives
   as soon as the local conditions of the [ex] fields hold. *)
Theorem C07_tags_sound : forall ex t cur v,
  wf t = true -> typed t cur = true -> typed t v = true ->
  tags_ok ex t cur = true ->
  safe_sel (sel_of ex) t cur v = true ->
  dec t cur (enc t v) = v.
Proof. exact codec_roundtrip_excused. Qed.
Print Assumptions C07_tags_sound.

(* The File type of the current source: well-formed keys, and the checker reports exactly
   the excused fields (each of them is needed). *)
Theorem C07_tags_ok_partial :
  wf T_File = true /\ tags_ok excused T_File (start T_File) = true /\
  forallb (fun p => inb p (problems T_File (start T_File))) excused = true.
Proof. exact (conj file_type_wf (conj table_ok excused_all_needed)). Qed.
Print Assumptions C07_tags_ok_partial.

(* Every File value of the current source's types survives the JSON round trip at struct
   level, provided the excused fields hold their decode-time values (partial: the excused
   fields are argued harmless for the text in docs/C07.md, one is a known finding). *)
Theorem C07_file_codec_partial : forall v,
  typed T_File v = true -> excused_conditions v = true ->
  dec T_File (start T_File) (enc T_File v) = v.
Proof. exact file_codec_excused. Qed.
Print Assumptions C07_file_codec_partial.

Theorem C07_file_codec_iff : forall v,
  typed T_File v = true ->
  (dec T_File (start T_File) (enc T_File v) = v <-> safeb T_File (start T_File) v = true).
Proof. exact file_codec_iff. Qed.
Print Assumptions C07_file_codec_iff.

(* Validation options (all boolean fields, whatever their values) and batch offsets survive;
   both are written and read under one key without omitempty; merge ORs every boolean field. *)
Theorem C07_opts_offset_survive :
  (forall bs, length bs = length opts_bool_fields ->
     typed T_ValidateOpts (opts_val bs) = true /\
     dec T_ValidateOpts (start T_ValidateOpts) (enc T_ValidateOpts (opts_val bs)) = opts_val bs) /\
  (forall v, typed T_Offset v = true -> dec T_Offset (start T_Offset) (enc T_Offset v) = v) /\
  opts_merge_fields = opts_bool_fields /\
  (forall a, merge_opts a (map (fun _ => false) a) = a).
Proof. exact (conj opts_survive (conj offset_survives (conj opts_merge_complete merge_opts_nil_r))). Qed.
Print Assumptions C07_opts_offset_survive.

Theorem C07_opts_offset_keys :
  (exists m, In (m, TPtr T_ValidateOpts) (match T_File with TStruct _ fs => fs | _ => [] end)
             /\ f_enc m = Some "validateOpts" /\ f_dec m = Some "validateOpts" /\ f_omit m = false) /\
  (exists m, In (m, TPtr T_Offset) (match T_Batch with TStruct _ fs => fs | _ => [] end)
             /\ f_enc m = Some "offset" /\ f_dec m = Some "offset" /\ f_omit m = false).
Proof. exact opts_offset_keys. Qed.
Print Assumptions C07_opts_offset_keys.

(* unexported fields that String() / ...Field() read *)
Theorem C07_rendered_unexported :
  flat_map (fun nt => rendered_unexported (snd nt)) json_structs =
  [ ("FileHeader", "priorityCode"); ("FileHeader", "recordSize"); ("FileHeader", "blockingFactor"); ("FileHeader", "formatCode");
    ("FileHeader", "validateOpts"); ("Addenda98", "iatCorrectedData") ].
Proof. exact rendered_unexported_fields. Qed.
Print Assumptions C07_rendered_unexported.

(* the full statement fails on the code as it stands: *)
Theorem C07_addenda98_iat_refuted :
  typed T_Addenda98 a98_witness = true /\
  dec T_Addenda98 (start T_Addenda98) (enc T_Addenda98 a98_witness) <> a98_witness.
Proof. exact addenda98_iat_refuted. Qed.
Print Assumptions C07_addenda98_iat_refuted.

Theorem C07_batch_advcontrol_refuted :
  exists v, typed T_Batch v = true /\ safeb T_Batch (start T_Batch) v = false.
Proof. exact batch_advcontrol_refuted. Qed.
Print Assumptions C07_batch_advcontrol_refuted.

(* the defect pattern that was fixed in BatchHeader (omitempty with a non-zero decode-time value) *)
Theorem C07_omitempty_default_refuted :
  wf T_omit_demo = true /\ problems T_omit_demo (start T_omit_demo) = [("demo", "Status")] /\
  dec T_omit_demo (start T_omit_demo) (enc T_omit_demo (VRec [VInt 0])) = VRec [VInt 1].
Proof. exact omitempty_default_refuted. Qed.
Print Assumptions C07_omitempty_default_refuted.

(* C05, phase 2 — "Create tabulates a VALID file": the result of Batch.build (offsets
   included) and of File.Create is accepted by the validator model of C03
   (Arith.validate_batch / Arith.validate_file over [gen_tables]).
   Only statements here; every proof is `exact <lemma>`.

   [o_batch b des] is the Arith skeleton of the Offsets batch [b]: trace numbers as the
   15-digit strings of the model's integers, ODFI as the 8-digit string of b_odfi, the control
   record field by field; [des] pairs each entry with its payload (routing number and check
   digit as stored, which the Offsets model does not keep).  [d_build] carries the payloads
   through build; its first components are exactly the entries of build's result and every
   payload is the one of the input entry it came with, or the offset account's.

   Outside Arith (hence outside these statements): everything Arith does not model of
   Validate — field inclusion of the other fields, character sets, the SEC specific rules
   each Batch<SEC>.Validate appends, addenda sequence numbers, isCategory, ValidateOpts. *)
From Coq Require Import List ZArith Bool.
From ACH Require Import ValidOut ValidOutFacts Tables.
From ACH Require Import Offsets OffsetsFacts OffsetTable.
From ACH Require Import ValidOffsets ValidOffsetsFacts ValidOutObl.
Open Scope Z_scope.

(* the code tables of the two models are the same lists in the current source *)
Theorem C05_valid_tables_agree : tables_agree gen_tables offset_table = true.
Proof. exact gen_tables_agree. Qed.
Print Assumptions C05_valid_tables_agree.

(* payload transport: first components = entries of build's result; payloads untouched *)
Theorem C05_valid_payload_entries : forall b b' des poff,
  (b_off b <> None -> wf_entries offset_table (b_entries b) = true) ->
  build offset_table b = Ret true b' -> map fst des = b_entries b ->
  map fst (d_build offset_table b des poff) = b_entries b'.
Proof. exact c05_d_build_entries. Qed.
Print Assumptions C05_valid_payload_entries.

Theorem C05_valid_payload_preserved : forall b des poff d',
  In d' (d_build offset_table b des poff) ->
  (exists d, In d des /\ same_static d d') \/
  (exists o, b_off b = Some o /\ snd d' = poff /\ e_off (fst d') = true).
Proof. exact c05_payload_preserved. Qed.
Print Assumptions C05_valid_payload_preserved.

(* A batch of the Offsets model whose control equals the recomputation (what C05_create_valid
   proves of every successful build) is accepted by Batch.Validate as modelled by Arith, given
   an accepted service class, admissible entries (EntryDetail.Validate, code not an ADV code,
   direction allowed by the class), ascending 15-digit trace numbers carrying the ODFI, and
   totals that fit the control record. *)
Theorem C05_control_ok_arith_valid : forall b des,
  ctl_ok offset_table b -> map fst des = b_entries b -> forallb pay_ok des = true ->
  class_okb gen_tables (b_svc b) = true -> b_entries b <> nil ->
  Forall (fun d => entry_static gen_tables (o_entry d) = true) des ->
  Forall (fun d => class_dir_ok gen_tables (b_svc b) (o_entry d) = true) des ->
  asc 0 (map e_trace (b_entries b)) -> Forall (trace_in (b_odfi b)) (b_entries b) ->
  debits offset_table (b_entries b) <= AR.t_batch_limit gen_tables ->
  credits offset_table (b_entries b) <= AR.t_batch_limit gen_tables ->
  AR.validate_batch gen_tables (o_batch b des) = AR.ROk.
Proof. exact c05_o_batch_valid. Qed.
Print Assumptions C05_control_ok_arith_valid.

(* Create of a freshly assembled batch (no trace number pre-set), with or without an offset
   account: the result validates.  The input entries are individually admissible, the header's
   class is accepted and allows their directions, an entry the caller named OFFSET is of the
   kind C05 requires and at least one entry is not; of the RESULT only the field widths are
   assumed (amount of the offset entries, batch totals).  Everything else Batch.verify checks —
   control = recomputation, header = control, trace numbers ascending and prefixed by the
   ODFI (offsets included), service class 200 after offsets — is derived. *)
Theorem C05_fresh_build_arith_valid : forall b b' des poff,
  build offset_table b = Ret true b' -> map fst des = b_entries b ->
  (b_off b <> None -> wf_entries offset_table (b_entries b) = true /\ existsb nonoff (b_entries b) = true) ->
  odfi_ok (b_odfi b) -> all_absent (b_odfi b) (b_entries b) = true -> Z.of_nat (length (b_entries b)) + 2 < P7 ->
  class_okb gen_tables (b_svc b) = true ->
  forallb pay_ok des = true ->
  Forall (fun d => entry_static gen_tables (o_entry d) = true) des ->
  Forall (fun d => class_dir_ok gen_tables (b_svc b) (o_entry d) = true) des ->
  (forall o, b_off b = Some o -> poff_ok o poff = true) ->
  Forall (fun e => e_amount e <= AR.t_amount_limit gen_tables) (b_entries b') ->
  debits offset_table (b_entries b') <= AR.t_batch_limit gen_tables ->
  credits offset_table (b_entries b') <= AR.t_batch_limit gen_tables ->
  AR.validate_batch gen_tables (o_batch b' (d_build offset_table b des poff)) = AR.ROk.
Proof. exact c05_fresh_build_arith_valid. Qed.
Print Assumptions C05_fresh_build_arith_valid.

(* PARTIAL — batches with pre-set trace numbers (build keeps a trace number whose first eight
   digits are the ODFI): that the kept numbers ascend, stay below 10^15 and that the offsets'
   numbers (last + 1, last + 2) still carry the ODFI is assumed of the result, not derived;
   the real Create returns an error otherwise.  Missing lemma: none can exist — build does not
   sort or check the caller's trace numbers (docs/C05.md). *)
Theorem C05_build_arith_valid_partial : forall b b' des poff,
  build offset_table b = Ret true b' -> map fst des = b_entries b ->
  (b_off b <> None -> wf_entries offset_table (b_entries b) = true) ->
  class_okb gen_tables (b_svc b) = true ->
  forallb pay_ok des = true ->
  Forall (fun d => entry_static gen_tables (o_entry d) = true) des ->
  Forall (fun d => class_dir_ok gen_tables (b_svc b) (o_entry d) = true) des ->
  (forall o, b_off b = Some o -> poff_ok o poff = true) ->
  b_entries b' <> nil ->
  asc 0 (map e_trace (b_entries b')) -> Forall (trace_in (b_odfi b)) (b_entries b') ->
  Forall (fun e => e_amount e <= AR.t_amount_limit gen_tables) (b_entries b') ->
  debits offset_table (b_entries b') <= AR.t_batch_limit gen_tables ->
  credits offset_table (b_entries b') <= AR.t_batch_limit gen_tables ->
  AR.validate_batch gen_tables (o_batch b' (d_build offset_table b des poff)) = AR.ROk.
Proof. exact c05_build_arith_valid. Qed.
Print Assumptions C05_build_arith_valid_partial.

(* File.Create over batches that validate: File.Validate (Arith.validate_file: batch count,
   every standard batch, file control, sums over the batch controls, ascending batch numbers,
   truncated hash) accepts.  PARTIAL like C05_file_numbers_partial: batch numbers absent
   (File.Create keeps any provided number > 1 wherever it stands).  [fctl_fits]: the file
   totals fit their fields and the truncated hash is not 0 when money moves — conditions of
   FileControl.Validate that are no arithmetic identities. *)
Theorem C05_file_create_arith_valid_partial : forall f f' dess,
  file_create f = Ret true f' -> length dess = length (f_batches f) ->
  Forall (fun x => AR.validate_batch gen_tables x = AR.ROk) (o_batches (f_batches f) dess) ->
  forallb (fun b => b_num b <=? 1) (f_batches f) = true ->
  fctl_fits gen_tables (o_fctl (f_ctl f')) ->
  AR.validate_file gen_tables (o_file f' dess) = AR.ROk.
Proof. exact c05_file_create_arith_valid. Qed.
Print Assumptions C05_file_create_arith_valid_partial.

(* non-vacuity: a two-entry credits-only batch with an offset account is built into a
   three-entry class-200 batch that the validator accepts; File.Create of it validates *)
Theorem C05_valid_example :
  AR.validate_batch gen_tables (o_batch ex_b' (d_build offset_table ex_b ex_des ex_p2)) = AR.ROk /\
  AR.validate_file gen_tables (o_file ex_f' (d_build offset_table ex_b ex_des ex_p2 :: nil)) = AR.ROk.
Proof. exact (conj ex_fresh_valid (proj2 ex_file_valid)). Qed.

(* END TO END with C03, phase 8: under the hypotheses of C05_file_create_arith_valid_partial the
   file control that File.Create tabulated equals sums over the ENTRIES of the created file:
   count = ΣΣ (1 + addenda), debit / credit = Σ of the batch totals by direction, hash =
   (Σ_batches ((Σ atoi (aba8 RDFI)) rem 10^10)) rem 10^10 — composition with C03_file_arith and
   C03_batch_arith_general (Props/C03General.v).  PARTIAL exactly as the theorem it composes. *)
Theorem C05_file_create_entries_partial : forall f f' dess,
  file_create f = Ret true f' -> length dess = length (f_batches f) ->
  Forall (fun x => AR.validate_batch gen_tables x = AR.ROk) (o_batches (f_batches f) dess) ->
  forallb (fun b => b_num b <=? 1) (f_batches f) = true ->
  fctl_fits gen_tables (o_fctl (f_ctl f')) ->
  AR.is_adv_file (o_file f' dess) = false ->
  let bs := o_batches (f_batches f') dess in
  AR.fc_count (AR.fl_ctl (o_file f' dess)) = AR.sumz (fun b => ACH.Model.ArithSpec.spec_count (AR.bt_entries b)) bs /\
  AR.fc_debit (AR.fl_ctl (o_file f' dess)) = AR.sumz (fun b => ACH.Model.ArithGen.gen_debit (AR.bt_kind b) (AR.bt_entries b)) bs /\
  AR.fc_credit (AR.fl_ctl (o_file f' dess)) = AR.sumz (fun b => ACH.Model.ArithGen.gen_credit (AR.bt_kind b) (AR.bt_entries b)) bs /\
  AR.fc_hash (AR.fl_ctl (o_file f' dess)) = Z.rem (AR.sumz (fun b => ACH.Model.ArithGen.gen_hash (AR.bt_entries b)) bs) (10 ^ 10).
Proof. exact c05_file_create_entries. Qed.
Print Assumptions C05_file_create_entries_partial.

Theorem C05_file_create_entries_example :
  AR.is_adv_file (o_file ex_f' (d_build offset_table ex_b ex_des ex_p2 :: nil)) = false /\
  o_batches (f_batches ex_f') (d_build offset_table ex_b ex_des ex_p2 :: nil) <> nil.
Proof. exact ex_file_entries. Qed.

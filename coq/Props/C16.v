(* C16 — I/O failures are reported, never swallowed.
   Only statements here; every proof is `exact <lemma>`.  The writer theorems hold for
   every record list (arbitrary byte strings, any number of them), every line ending,
   every fault offset, every fault kind (hard error, short write with or without
   io.ErrShortWrite, error reported after taking all bytes) and both a persistent and a
   transient fault; the reader theorems for every input, offset and chunking. *)
From Coq Require Import String List Bool NArith.
From ACH Require Import Bytes BufIO BufIOFacts WriterIOTable WriterIO WriterIOCurrent C16Obl.
Open Scope N_scope.

(* writer.go as regenerated in this run: every call through the Writer is one the model
   accounts for, its error is propagated or left to bufio's sticky error, the final
   Flush result is returned, no stray `return nil`, bufio.NewWriter is the buffer *)
Theorem C16_writer_table :
  writer_table_ok writer_sites writer_threshold writer_nil_returns writer_bufio_ctor = true.
Proof. exact writer_table_checks. Qed.

Theorem C16_reader_table : reader_table_ok reader_facts = true.
Proof. exact reader_table_checks. Qed.

(* the design's C16_write, for the call sequence of this source tree:
   (1) a fault at any offset inside the output makes Write and the following Flush fail;
   (2) a nil result of either means the sink holds exactly the complete output *)
Theorem C16_write : forall le recs,
  (forall f, f_k f < blen (full_output le recs) ->
     let r := writer_run current_wpolicy le recs (Some f) in wr_write r <> None /\ wr_flush r <> None) /\
  (forall fo, let r := writer_run current_wpolicy le recs fo in
     (wr_write r = None \/ wr_flush r = None) ->
     s_got (wr_sink r) = full_output le recs /\ s_tripped (wr_sink r) = false).
Proof. exact current_write. Qed.
Print Assumptions C16_write.

(* the same for every call-site policy that satisfies the checker (so a refactoring
   that keeps the checker true keeps the property) *)
Theorem C16_write_any_policy : forall p le, policy_ok p = true -> forall fo recs,
  let r := writer_run p le recs fo in
  (wr_write r = None \/ wr_flush r = None) ->
  s_got (wr_sink r) = full_output le recs /\ s_tripped (wr_sink r) = false.
Proof. exact writer_safe. Qed.
Print Assumptions C16_write_any_policy.

Theorem C16_write_detects_any_policy : forall p le, policy_ok p = true -> forall recs f,
  f_k f < blen (full_output le recs) ->
  let r := writer_run p le recs (Some f) in wr_write r <> None /\ wr_flush r <> None.
Proof. exact writer_detects. Qed.
Print Assumptions C16_write_detects_any_policy.

(* no false alarm: Write / Flush fail only if the sink's fault was actually hit, and a
   healthy sink receives the complete output (so the theorems above are not satisfied
   by a model that always fails) *)
Theorem C16_write_no_false_error : forall le recs fo,
  let r := writer_run current_wpolicy le recs fo in
  s_tripped (wr_sink r) = false ->
  wr_write r = None /\ wr_flush r = None /\ s_got (wr_sink r) = full_output le recs.
Proof. exact current_writer_no_false_error. Qed.
Print Assumptions C16_write_no_false_error.

Theorem C16_write_healthy : forall le recs,
  let r := writer_run current_wpolicy le recs None in
  wr_write r = None /\ wr_flush r = None /\ s_got (wr_sink r) = full_output le recs.
Proof. exact current_writer_healthy. Qed.
Print Assumptions C16_write_healthy.

(* the explicit recursion fuel of the model's WriteString loop is never exhausted *)
Theorem C16_model_fuel_enough : forall le recs fo,
  let r := writer_run current_wpolicy le recs fo in wr_write r <> Some EFuel /\ wr_flush r <> Some EFuel.
Proof. exact current_fuel_enough. Qed.
Print Assumptions C16_model_fuel_enough.

(* the checker's demands are needed: dropping the final Flush result, or answering a
   failed padding WriteString with `return nil`, reports success for partial output *)
Theorem C16_write_ignored_final_flush_refuted :
  let r := writer_run (with_final Ignore) lf recs3 (Some (mkfault 100 Hard false)) in
  wr_write r = None /\ blen (s_got (wr_sink r)) = 100 /\ policy_ok (with_final Ignore) = false.
Proof. exact ignored_final_flush_refuted. Qed.

Theorem C16_write_pad_return_nil_refuted :
  let r := writer_run (with_pad_line ReturnNil) lf recs41 (Some (mkfault 4000 Hard false)) in
  wr_write r = None /\ blen (s_got (wr_sink r)) = 4000 /\ blen (full_output lf recs41) = 4750.
Proof. exact pad_return_nil_refuted. Qed.

(* the design's C16_read restricted to errors other than io.ErrUnexpectedEOF: a source
   that yields text[:k], in pieces of any size, and then fails, makes Read fail (in
   NewReader's preview: "nil scanner"; later: the scanner's error) — never a parsed file *)
Theorem C16_read_partial : forall text k c,
  reader_run current_rpolicy (failing_source text k c RInj) = RCtorErr \/
  reader_run current_rpolicy (failing_source text k c RInj) = RScanErr RInj.
Proof. exact current_reader_detects. Qed.
Print Assumptions C16_read_partial.

(* when no I/O error surfaces, what was parsed is the complete input *)
Theorem C16_read_complete : forall text c,
  reader_run current_rpolicy (healthy_source text c) = RParsed text.
Proof. exact current_reader_complete. Qed.
Print Assumptions C16_read_complete.

(* the full statement (every non-EOF error) is false of the code as it stands: inside
   charset's 1024-byte preview io.ErrUnexpectedEOF is taken for the end of the input
   (known finding read:nil-error:charset-preview:unexpected-eof); after the preview it is reported *)
Theorem C16_read_unexpected_eof : forall text k c,
  reader_run current_rpolicy (failing_source text k c RUnexpectedEOF) =
  if preview_size <=? blen (firstn k text) then RScanErr RUnexpectedEOF else RParsed (firstn k text).
Proof. exact current_reader_unexpected_eof. Qed.
Print Assumptions C16_read_unexpected_eof.

Theorem C16_read_refuted : exists text k, (k < length text)%nat /\
  reader_run current_rpolicy (failing_source text k 0 RUnexpectedEOF) = RParsed (firstn k text)
  /\ firstn k text <> text.
Proof. exact unexpected_eof_in_preview_swallowed. Qed.
Print Assumptions C16_read_refuted.

(* for every reader policy satisfying the checker, the complete input/output relation *)
Theorem C16_read_any_policy : forall p chunks t, rpolicy_ok p = true ->
  reader_run p (mksrc chunks t) =
  let d := concat chunks in
  match t with
  | TEOF => RParsed d
  | TErr RInj => if preview_size <=? blen d then RScanErr RInj else RCtorErr
  | TErr RUnexpectedEOF => if preview_size <=? blen d then RScanErr RUnexpectedEOF else RParsed d
  end.
Proof. exact reader_run_spec. Qed.
Print Assumptions C16_read_any_policy.

Theorem C16_read_dropped_scanner_err_refuted :
  reader_run (mkrpol Propagate Absent) (failing_source text2000 1500 0 RInj) = RParsed (firstn 1500 text2000)
  /\ rpolicy_ok (mkrpol Propagate Absent) = false.
Proof. exact dropped_scanner_err_refuted. Qed.

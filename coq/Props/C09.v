(* C09 — Merged files are valid and respect the line and dollar limits.
   Only statements here; every proof is `exact <lemma>`.

   merge_files is the model of ach.MergeFilesWith (coq/Model/Merge.v).  file_lines g is the
   number of records of the rendered file without 9-filler (2 + 2 per batch + entries +
   addenda), file_amount g the sum of its entry amounts. *)
From Coq Require Import List NArith ZArith Bool Permutation.
From ACH Require Import Bytes Merge MergeFacts C08Obl C09Obl.
Open Scope Z_scope.

(* for ALL file lists and ALL conditions (the limits are universally quantified integers):
   an output file exceeds MaxLines / the effective dollar cap only if it holds exactly one
   entry; no output file or batch is empty *)
Theorem C09_limits : forall fs c g,
  In g (merge_files fs c) ->
  (0 < maxLines c -> file_lines g <= maxLines c \/ length (file_entries g) = 1%nat) /\
  (0 < effective_dollar c -> file_amount g <= effective_dollar c \/ length (file_entries g) = 1%nat) /\
  rf_batches g <> nil /\ Forall (fun rb => rb_entries rb <> nil) (rf_batches g).
Proof. exact merge_limits. Qed.
Print Assumptions C09_limits.

(* "dollar cap forced into NACHA range": 0 or anything beyond 999,999,999,999 means that limit *)
Theorem C09_effective_cap : forall c,
  (maxDollar c < 0 -> effective_dollar c = maxDollar c) /\
  (0 <= maxDollar c -> 0 < effective_dollar c <= nacha_limit) /\
  (0 < maxDollar c <= nacha_limit -> effective_dollar c = maxDollar c).
Proof. exact effective_dollar_spec. Qed.
Print Assumptions C09_effective_cap.

(* batch numbers inside every output file are positive and strictly ascending
   (after File.Create's renumbering, which is shown to be the identity here) *)
Theorem C09_batch_numbers_ascending : forall fs c g,
  In g (merge_files fs c) -> asc 0 (map rb_number (rf_batches g)).
Proof. exact merge_numbers. Qed.
Print Assumptions C09_batch_numbers_ascending.

(* trace numbers inside every output batch are strictly ascending in Go's string order,
   hence unique *)
Theorem C09_traces_ascending : forall fs c g rb,
  In g (merge_files fs c) -> In rb (rf_batches g) -> tasc (rb_entries rb).
Proof. exact merge_traces. Qed.
Print Assumptions C09_traces_ascending.

Theorem C09_traces_unique : forall x l,
  tasc (x :: l) -> Forall (fun y => bcmp (e_trace x) (e_trace y) = Lt) l.
Proof. exact tasc_all_lt. Qed.
Print Assumptions C09_traces_unique.

(* Maximal merging.  "No limit binds" = the whole content stored for each routing pair fits
   (fits: 2 + sum over its batches of (2 + records) <= MaxLines when MaxLines > 0, and the sum
   of amounts <= the effective dollar cap when that is > 0; amounts and addenda counts >= 0).
   Then the result is the plain conversion of the tree-map state (exactly one output file per
   out-file of the state, one output batch per stored batch, nothing split), the state has one
   out-file per origin/destination pair (NoDup), and two stored batches with Equal headers
   exist only if every trace number of the later one is already present in the earlier one. *)
Theorem C09_maximal : forall fs c,
  Forall (fun o => fits c (effective_dollar c) o /\ ofile_nonneg o) (build_state fs) ->
  merge_files fs c = plain (build_state fs) /\
  NoDup (map of_route (build_state fs)) /\
  Forall (fun o => coll_ok (of_batches o) /\ batches_nonempty (of_batches o)) (build_state fs).
Proof. exact merge_maximal. Qed.
Print Assumptions C09_maximal.

(* Validity of the outputs, PARTIAL: relative to the validator (owned by C03/C06).  For any
   per-entry admissibility predicate entry_ok (depending on the header only through the fields
   BatchHeader.Equal compares) and any batch_valid that follows from "non-empty, traces strictly
   ascending, every entry admissible under the header", valid inputs give valid output batches.
   Not covered: cross-entry rules other than trace order (isCategory: forward and return entries
   under Equal headers make Batch.Create fail and MergeFiles return an error), field widths of
   the totals, ValidateOpts. *)
Theorem C09_valid_partial :
  forall (entry_ok : hkey_t -> entry -> Prop) (batch_valid : header -> list entry -> Prop),
  (forall h es, es <> nil -> tasc es -> (forall e, In e es -> entry_ok (hkey h) e) -> batch_valid h es) ->
  forall fs c,
  (forall f ib e, In f fs -> In ib (if_batches f) -> In e (ib_entries ib) -> entry_ok (hkey (ib_header ib)) e) ->
  forall g rb, In g (merge_files fs c) -> In rb (rf_batches g) -> batch_valid (rb_header rb) (rb_entries rb).
Proof. exact merge_valid_relative. Qed.
Print Assumptions C09_valid_partial.

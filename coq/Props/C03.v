(* C03 — files that pass validation satisfy the NACHA control arithmetic.
   Only statements here; every proof is `exact <lemma>`.  T is the table set
   regenerated from the source of this run (Gen/Tables.v); validate_batch /
   validate_file / read_validate are the Gallina renderings of Batcher.Validate,
   File.ValidateWith(nil) and Reader.Read + File.Validate (Model/Arith.v). *)
From Coq Require Import String List Bool ZArith Sorting.Sorted.
From ACH Require Import ArithFacts Tables C03Obl.
Open Scope Z_scope.

(* the credit / debit case lists of the source = NACHA direction (units digit),
   for every integer transaction code and both list pairs (standard, IAT) *)
Theorem C03_tables_direction : forall c k, k <> KADV ->
  adds_credit T k c = (std_code T c && spec_is_credit k c) /\
  adds_debit T k c = (std_code T c && spec_is_debit k c).
Proof. exact gen_direction. Qed.
Print Assumptions C03_tables_direction.

Theorem C03_tables_ok : tables_ok T = true /\ tables_problems = [].
Proof. exact (conj gen_tables_ok gen_no_problems). Qed.

(* every required check is called, in order, guarded only by its documented option *)
Theorem C03_verify_calls :
  calls_ok req_batch_verify checks_batch_verify = true /\
  calls_ok req_iat_verify checks_iat_verify = true /\
  calls_ok req_iat_validate checks_iat_validate = true /\
  calls_ok req_file_validate checks_file_validate = true /\
  calls_ok req_entry_validate checks_entry_validate = true /\
  calls_ok req_iat_entry_validate checks_iat_entry_validate = true /\
  calls_ok req_adv_entry_validate checks_adv_entry_validate = true /\
  calls_ok req_field_inclusion checks_field_inclusion = true /\
  calls_ok req_iat_field_inclusion checks_iat_field_inclusion = true /\
  sec_ok checks_sec_validate = true.
Proof.
  exact (conj gen_batch_verify_calls (conj gen_iat_verify_calls (conj gen_iat_validate_calls (conj gen_file_validate_calls
        (conj gen_entry_validate_calls (conj gen_iat_entry_validate_calls (conj gen_adv_entry_validate_calls
        (conj gen_field_inclusion_calls (conj gen_iat_field_inclusion_calls gen_sec_validate_calls))))))))).
Qed.

(* a standard batch that validates: count, totals by units digit, header/control
   agreement; the hash equation for routing numbers stored as 8 digits *)
Theorem C03_batch_arith : forall b, bt_kind b = KStd -> validate_batch T b = ROk ->
  bc_count (bt_ctl b) = spec_count (bt_entries b) /\
  bc_debit (bt_ctl b) = spec_debit KStd (bt_entries b) /\
  bc_credit (bt_ctl b) = spec_credit KStd (bt_entries b) /\
  bt_class b = bc_class (bt_ctl b) /\ bt_odfi b = bc_odfi (bt_ctl b) /\ bt_number b = bc_number (bt_ctl b) /\
  (Forall rdfi_wf (bt_entries b) -> bc_hash (bt_ctl b) = spec_hash (bt_entries b)).
Proof. exact c03_batch_arith_std. Qed.
Print Assumptions C03_batch_arith.

(* all three kinds; IAT needs "no ADV accounting code", ADV "only ADV codes"
   (codes_regular) — without it the statement is refuted below *)
Theorem C03_batch_arith_partial : forall b,
  validate_batch T b = ROk -> codes_regular T (bt_kind b) (bt_entries b) ->
  bc_count (bt_ctl b) = spec_count (bt_entries b) /\
  bc_debit (bt_ctl b) = spec_debit (bt_kind b) (bt_entries b) /\
  bc_credit (bt_ctl b) = spec_credit (bt_kind b) (bt_entries b) /\
  bt_class b = bc_class (bt_ctl b) /\ bt_odfi b = bc_odfi (bt_ctl b) /\ bt_number b = bc_number (bt_ctl b) /\
  (Forall rdfi_wf (bt_entries b) -> bc_hash (bt_ctl b) = spec_hash (bt_entries b)).
Proof. exact c03_batch_arith. Qed.
Print Assumptions C03_batch_arith_partial.

Theorem C03_entries : forall b, validate_batch T b = ROk ->
  Forall (fun e => rdfi_wf e -> check_value (bt_kind b) e = Some (spec_check_digit (digit_vals (en_rdfi e)))) (bt_entries b) /\
  (bt_kind b <> KADV -> Sorted bytes_lt (map en_trace (bt_entries b)) /\
     Forall (fun e => trace_prefix (bt_kind b) e = stringField (bt_odfi b) 8) (bt_entries b)) /\
  (bt_kind b = KStd ->
     Forall (fun e => 0 <= en_amount e < 10 ^ 10) (bt_entries b) /\
     (bt_class b = 220 -> Forall (fun e => units_in 1 4 (en_code e)) (bt_entries b)) /\
     (bt_class b = 225 -> Forall (fun e => units_in 5 9 (en_code e)) (bt_entries b))).
Proof. exact c03_entries. Qed.
Print Assumptions C03_entries.

Theorem C03_trace_order_strict : (forall a, ~ bytes_lt a a) /\ (forall a b c, bytes_lt a b -> bytes_lt b c -> bytes_lt a c).
Proof. exact (conj bytes_lt_irrefl bytes_lt_trans). Qed.

(* the loop of CalculateCheckDigit (with roundUp10) = the closed form *)
Theorem C03_check_digit_closed : forall s, digits8 s -> calc_check_digit s = spec_check_digit (digit_vals s).
Proof. exact calc_check_digit_closed. Qed.
Print Assumptions C03_check_digit_closed.

(* file control = sums over the batch controls; every standard batch was validated *)
Theorem C03_file_arith : forall f, validate_file T f = ROk -> is_adv_file f = false ->
  fc_batches (fl_ctl f) = Z.of_nat (length (fl_batches f)) + Z.of_nat (length (fl_iat f)) /\
  file_sums_spec f (all_batches f) /\
  Forall (fun b => validate_batch T b = ROk) (fl_batches f) /\
  numbers_ascending 0 (fl_batches f) = true.
Proof. exact c03_file_arith. Qed.
Print Assumptions C03_file_arith.

Theorem C03_file_arith_adv : forall f, validate_file T f = ROk -> is_adv_file f = true ->
  fc_batches (fl_ctl f) = Z.of_nat (length (fl_batches f)) /\ file_sums_spec f (fl_batches f).
Proof. exact c03_file_arith_adv. Qed.
Print Assumptions C03_file_arith_adv.

(* what a file that was READ and validated satisfies: every batch of every kind *)
Theorem C03_read_validate : forall f, read_validate T f = ROk ->
  Forall (fun b => validate_batch T b = ROk) (all_batches f) /\ validate_file T f = ROk.
Proof. exact c03_read_validate. Qed.
Print Assumptions C03_read_validate.

(* Go int = int64: no total and no routing-number sum can wrap *)
Theorem C03_no_overflow : forall p es,
  Forall (fun e => 0 <= en_amount e <= 10 ^ 10 - 1) es -> Z.of_nat (length es) < 9 * 10 ^ 8 ->
  0 <= sum_where p es < 2 ^ 63.
Proof. exact no_overflow_amounts. Qed.
Print Assumptions C03_no_overflow.

Theorem C03_no_overflow_hash : forall es,
  Forall rdfi_wf es -> Z.of_nat (length es) < 9 * 10 ^ 8 -> 0 <= hash_sum es < 2 ^ 63.
Proof. exact no_overflow_hash. Qed.

(* non-vacuity *)
Theorem C03_example :
  read_validate T ex_file = ROk /\ validate_file T ex_file = ROk /\ is_adv_file ex_file = false /\
  validate_batch T ex_batch = ROk /\ validate_batch T ex_iat = ROk.
Proof. exact ex_file_valid. Qed.
Theorem C03_example_truncated_hash : validate_batch T big_batch = ROk /\ 10 ^ 10 <= sumz rdfi_num (bt_entries big_batch).
Proof. exact big_batch_valid. Qed.

(* the code as it stands: the in-memory File.Validate() does not re-validate IAT
   batches nor the batches of an ADV file (known findings file-validate:iat-batch-not-validated / adv-batch-not-validated) *)
Theorem C03_file_iat_refuted :
  validate_file T bad_iat_file = ROk /\ validate_batch T bad_iat = RCount /\
  bc_count (bt_ctl bad_iat) <> spec_count (bt_entries bad_iat).
Proof. exact file_iat_not_validated. Qed.
Theorem C03_file_adv_refuted : validate_file T bad_adv_file = ROk /\ validate_batch T bad_adv = RDebit.
Proof. exact file_adv_not_validated. Qed.

(* hash equation without the 8-digit hypothesis *)
Theorem C03_hash_short_rdfi_refuted :
  validate_batch T short_batch = ROk /\ bc_hash (bt_ctl short_batch) <> spec_hash (bt_entries short_batch).
Proof. exact hash_short_rdfi. Qed.

(* IAT totals without codes_regular *)
Theorem C03_iat_adv_code_refuted :
  validate_batch T iat_adv_code = ROk /\
  bc_credit (bt_ctl iat_adv_code) + bc_debit (bt_ctl iat_adv_code) <> sumz en_amount (bt_entries iat_adv_code).
Proof. exact iat_adv_code_uncounted. Qed.

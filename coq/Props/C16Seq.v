(* C16, phase 4 — I/O failures are reported: per call site, for sinks and sources that
   answer with an arbitrary sequence of responses, and with Reader.Read's maxLines
   return.  Only statements; every proof is `exact <lemma>`.

   Writer: the file is the sequence of writeLine calls of one Write (header, calls of
   writeBatch and of writeIATBatch tagged with the ordinal of their call site, file
   control of an ADV or non-ADV file), records are arbitrary byte strings, the line
   ending is arbitrary.  Reader: the source is an arbitrary list of (data, optional
   event) responses; nothing makes it repeat an error. *)
From Coq Require Import String List Bool NArith.
Import ListNotations.
From ACH Require Import Bytes BufIO BufIOFacts WriterIOTable WriterIO WriterIOCurrent C16Obl.
From ACH Require Import Framing BufIOSeq BufIOSeqFacts BufIOSeqInst WriterSiteTable WriterIOSeq WriterSiteCurrent C16SeqObl.
Open Scope list_scope.
Open Scope N_scope.

(* writer.go, call site by call site, as regenerated in this run: the 13 + 14 writeLine
   calls of writeBatch / writeIATBatch are the expected ones in the expected order, each
   propagates, drops or (inside the batch functions) answers with `return nil`; at the
   level of Write no `return nil`; Flush has no shortcut; bufio.NewWriter *)
Theorem C16_site_table :
  site_table_ok writer_sites writer_threshold writer_nil_returns writer_bufio_ctor writer_flush_shortcut = true.
Proof. exact site_table_checks. Qed.

Theorem C16_reader_table3 : reader_table3_ok reader_facts read_maxlines = true.
Proof. exact reader_table3_checks. Qed.

(* ------------------------------------------------------------------ writer *)

(* a sink that answers its i-th Write call with the i-th element of an arbitrary script
   (bytes taken, optional error; afterwards healthy): (1) a nil result of Write or of
   the following Flush means the sink holds exactly the complete output and every answer
   was complete and error free; (2) one faulty answer makes both fail; (3) after a faulty
   answer the sink is never called again — whether the failure was transient is never
   even observed (bufio's sticky error) *)
Theorem C16_seq_write : forall le f script, sfile_in_range f current_spolicy = true ->
  let r := seq_writer_run current_spolicy le f script in
  ((gr_write r = None \/ gr_flush r = None) ->
     ss_got (gr_sink r) = sfull_output le f /\ ss_bad (gr_sink r) = false) /\
  (ss_bad (gr_sink r) = true -> gr_write r <> None /\ gr_flush r <> None) /\
  ss_late (gr_sink r) = 0.
Proof. exact current_seq_write. Qed.
Print Assumptions C16_seq_write.

(* the same for every per-site policy that the checker accepts on the call sites the
   file exercises *)
Theorem C16_seq_write_any_policy : forall p le f, spolicy_ok_on f p = true -> forall script,
  let r := seq_writer_run p le f script in
  (gr_write r = None \/ gr_flush r = None) ->
  ss_got (gr_sink r) = sfull_output le f /\ ss_bad (gr_sink r) = false.
Proof. exact seq_writer_safe. Qed.
Print Assumptions C16_seq_write_any_policy.

Theorem C16_seq_write_reports_any_policy : forall p le f, spolicy_ok_on f p = true -> forall script,
  let r := seq_writer_run p le f script in
  ss_bad (gr_sink r) = true -> gr_write r <> None /\ gr_flush r <> None.
Proof. exact seq_writer_reports. Qed.
Print Assumptions C16_seq_write_reports_any_policy.

Theorem C16_seq_write_sticky_any_policy : forall p le f, spolicy_ok_on f p = true -> forall script,
  ss_late (gr_sink (seq_writer_run p le f script)) = 0.
Proof. exact seq_writer_never_called_again. Qed.
Print Assumptions C16_seq_write_sticky_any_policy.

(* Write and the Flush that follows return the same value *)
Theorem C16_seq_write_flush_agree : forall le f script, sfile_in_range f current_spolicy = true ->
  let r := seq_writer_run current_spolicy le f script in gr_write r = gr_flush r.
Proof. exact current_seq_results_agree. Qed.
Print Assumptions C16_seq_write_flush_agree.

(* no false alarm, and non-vacuity of the above *)
Theorem C16_seq_write_no_false_error : forall le f script, sfile_in_range f current_spolicy = true ->
  let r := seq_writer_run current_spolicy le f script in
  ss_bad (gr_sink r) = false ->
  gr_write r = None /\ gr_flush r = None /\ ss_got (gr_sink r) = sfull_output le f.
Proof. exact current_seq_no_false_error. Qed.
Print Assumptions C16_seq_write_no_false_error.

Theorem C16_seq_write_healthy : forall le f, sfile_in_range f current_spolicy = true ->
  let r := seq_writer_run current_spolicy le f [] in
  gr_write r = None /\ gr_flush r = None /\ ss_got (gr_sink r) = sfull_output le f.
Proof. exact current_seq_healthy. Qed.
Print Assumptions C16_seq_write_healthy.

Theorem C16_seq_model_fuel_enough : forall le f script, sfile_in_range f current_spolicy = true ->
  let r := seq_writer_run current_spolicy le f script in gr_write r <> Some EFuel /\ gr_flush r <> Some EFuel.
Proof. exact current_seq_fuel. Qed.
Print Assumptions C16_seq_model_fuel_enough.

(* C16_write of Props/C16.v for the per-site call sequence: a fault at any byte offset
   inside the output (any kind, persistent or transient) makes Write and Flush fail;
   a nil result means the complete output arrived *)
Theorem C16_site_write : forall le f, sfile_in_range f current_spolicy = true ->
  (forall flt, f_k flt < blen (sfull_output le f) ->
     let r := off_writer_run current_spolicy le f (Some flt) in gr_write r <> None /\ gr_flush r <> None) /\
  (forall fo, let r := off_writer_run current_spolicy le f fo in
     (gr_write r = None \/ gr_flush r = None) ->
     s_got (gr_sink r) = sfull_output le f /\ s_tripped (gr_sink r) = false).
Proof. exact current_site_write. Qed.
Print Assumptions C16_site_write.

Theorem C16_site_write_healthy : forall le f, sfile_in_range f current_spolicy = true ->
  let r := off_writer_run current_spolicy le f None in
  gr_write r = None /\ gr_flush r = None /\ s_got (gr_sink r) = sfull_output le f.
Proof. exact current_site_healthy. Qed.
Print Assumptions C16_site_write_healthy.

(* the generic form: any sink whatsoever — a state machine sw with an observation `got`,
   a flag `bad` and an invariant `Inv` that obey the four laws — and any accepted policy *)
Theorem C16_any_sink_write : forall (K : Type) (sw : K -> bytes -> K * N * option werr)
  (got : K -> bytes) (bad : K -> bool) (Inv : K -> Prop),
  (forall s p s' n, sw s p = (s', n, None) -> blen p <= n -> 0 < blen p -> got s' = (got s ++ p)%list /\ bad s' = bad s) ->
  (forall s p s' n e, sw s p = (s', n, e) -> e <> None \/ n < blen p -> bad s' = true) ->
  (forall s p s' n e, sw s p = (s', n, Some e) -> e <> EFuel) ->
  (forall s p s' n e, Inv s -> bad s = false -> sw s p = (s', n, e) -> Inv s') ->
  forall p le, spolicy_common_ok p = true ->
  forall f, soft (ctl_handler p (sf_adv f)) = true ->
  sites_lsoft (sp_batch p) (sf_batch f) = true -> sites_lsoft (sp_iat p) (sf_iat f) = true ->
  forall s, Inv s -> got s = [] -> bad s = false ->
  let r := gwriter_run sw p le f s in
  (gr_write r = None \/ gr_flush r = None) ->
  got (gr_sink r) = sfull_output le f /\ bad (gr_sink r) = false /\ Inv (gr_sink r).
Proof. exact gwriter_safe. Qed.
Print Assumptions C16_any_sink_write.

(* per site: the handler of a call site the file does not reach has no influence on its
   run (so the model of "site i drops the error" differs from the current one exactly on
   the files that reach site i) *)
Theorem C16_unused_sites_irrelevant : forall (K : Type) (sw : K -> bytes -> K * N * option werr) p le f s hb hi,
  same_on (sp_batch p) hb (sf_batch f) -> same_on (sp_iat p) hi (sf_iat f) ->
  gwriter_run sw (with_sites p hb hi) le f s = gwriter_run sw p le f s.
Proof. exact unused_sites_irrelevant. Qed.
Print Assumptions C16_unused_sites_irrelevant.

Theorem C16_unused_ctl_irrelevant : forall (K : Type) (sw : K -> bytes -> K * N * option werr) p le f s hc ha,
  (if sf_adv f then ha = sp_advctl p else hc = sp_ctl p) ->
  gwriter_run sw (with_ctls p hc ha) le f s = gwriter_run sw p le f s.
Proof. exact unused_ctl_irrelevant. Qed.
Print Assumptions C16_unused_ctl_irrelevant.

(* one site of the former "control" group answers an error with `return nil`: refuted by an
   ADV file (success reported with 100 of 4750 bytes written), invisible on a non-ADV file *)
Theorem C16_advctl_return_nil_refuted :
  let flt := Some (mkfault 100 Hard false) in
  (let r := off_writer_run pol_advctl_nil lf (sf43 true) flt in
   gr_write r = None /\ blen (s_got (gr_sink r)) = 100 /\ blen (sfull_output lf (sf43 true)) = 4750) /\
  (let r := off_writer_run pol_advctl_nil lf (sf43 false) flt in gr_write r = Some EInj /\ gr_flush r = Some EInj) /\
  spolicy_ok pol_advctl_nil = false /\ spolicy_ok_on (sf43 false) pol_advctl_nil = true
  /\ spolicy_ok_on (sf43 true) pol_advctl_nil = false.
Proof. exact advctl_return_nil_refuted. Qed.

Theorem C16_call_batch_return_nil_refuted :
  let r := off_writer_run pol_call_batch_nil lf (sf_big 1 58 false) (Some (mkfault 100 Hard false)) in
  gr_write r = None /\ blen (s_got (gr_sink r)) = 100 /\ spolicy_ok pol_call_batch_nil = false.
Proof. exact call_batch_return_nil_refuted. Qed.

(* the grouped model of phase 1 predicted a swallowed error for `return nil` at one batch
   site; the per-site model predicts (as the code does) that it is still reported *)
Theorem C16_grouped_model_refuted :
  let flt := Some (mkfault 100 Hard false) in
  wr_write (writer_run (with_body ReturnNil) lf recs60 flt) = None /\
  gr_write (off_writer_run (pol_site 1 ReturnNil) lf (sf_big 1 58 false) flt) = Some EInj /\
  bytes_eqb (full_output lf recs60) (sfull_output lf (sf_big 1 58 false)) = true.
Proof. exact grouping_was_coarser. Qed.

(* `if w.w.Buffered() == 0 { return nil }` in Writer.Flush: the Flush after a failed Write
   reports success *)
Theorem C16_flush_shortcut_refuted :
  let r := seq_writer_run pol_flush_shortcut lf sf5 [mksresp 4096 (Some SInj)] in
  gr_write r = Some EInj /\ gr_flush r = None /\ ss_bad (gr_sink r) = true /\ spolicy_ok pol_flush_shortcut = false.
Proof. exact flush_shortcut_refuted. Qed.

(* ------------------------------------------------------------------ reader *)

(* every response list is free of events or has a first one *)
Theorem C16_seq_read_cases : forall rs, plain rs = true \/
  exists pre r post t, rs = pre ++ r :: post /\ plain pre = true /\ rr_term r = Some t.
Proof. exact first_event. Qed.

(* no event: every response is consumed, the complete data is scanned; the result is
   "file too long" when it holds more than maxLines lines, else it is parsed *)
Theorem C16_seq_read_complete : forall m rs, plain rs = true ->
  reader_seq current_rpolicy3 m rs = (scan_spec m (data_of rs) TEOF, nlen rs).
Proof. exact current_seq_read_plain. Qed.
Print Assumptions C16_seq_read_complete.

(* first event t at response r, after n bytes, r carrying c bytes:
   (a) n + c < 1024: charset.NewReader meets it.  An error other than io.ErrUnexpectedEOF
       fails Read ("nil scanner"); io.EOF / io.ErrUnexpectedEOF end a short input *)
Theorem C16_seq_read_short : forall p m, rpolicy3_ok p = true -> forall pre post r t,
  plain pre = true -> rr_term r = Some t ->
  blen (data_of pre) + blen (rr_data r) < preview_size ->
  reader_seq p m (pre ++ r :: post) =
  (match t with TErr RInj => QCtorErr | _ => scan_spec m (data_of pre ++ rr_data r) TEOF end, nlen pre + 1).
Proof. exact reader_seq_short. Qed.
Print Assumptions C16_seq_read_short.

(*  (b) the event comes with the byte that completes the 1024-byte preview: io.ReadFull
       drops it (n >= min => err = nil); the run is that of the same source without it *)
Theorem C16_seq_read_boundary : forall p m pre post r t,
  plain pre = true -> rr_term r = Some t ->
  blen (data_of pre) < preview_size -> blen (data_of pre) + blen (rr_data r) = preview_size ->
  reader_seq p m (pre ++ r :: post) = reader_seq p m (pre ++ mkrresp (rr_data r) None :: post).
Proof. exact reader_seq_boundary. Qed.
Print Assumptions C16_seq_read_boundary.

(*  (c) otherwise the event reaches the scanner: the data up to it is scanned, then it is
       what Read returns (unless the data already holds more than maxLines lines), and
       the source is never asked again *)
Theorem C16_seq_read_stream : forall p m, rpolicy3_ok p = true -> forall pre post r t,
  plain pre = true -> rr_term r = Some t ->
  (preview_size <= blen (data_of pre) \/ preview_size < blen (data_of pre) + blen (rr_data r)) ->
  reader_seq p m (pre ++ r :: post) = (scan_spec m (data_of pre ++ rr_data r) t, nlen pre + 1).
Proof. exact reader_seq_stream. Qed.
Print Assumptions C16_seq_read_stream.

(* a source whose error is not sticky is treated exactly like a sticky one: outside case
   (b) nothing that follows the first event has any influence *)
Theorem C16_seq_read_after_event_irrelevant : forall p m pre post r t,
  plain pre = true -> rr_term r = Some t -> forall post',
  ~ (blen (data_of pre) < preview_size /\ blen (data_of pre) + blen (rr_data r) = preview_size) ->
  reader_seq p m (pre ++ r :: post) = reader_seq p m (pre ++ r :: post').
Proof. exact reader_seq_after_event_irrelevant. Qed.
Print Assumptions C16_seq_read_after_event_irrelevant.

(* C16_read for an arbitrary source, with its two exact exceptions: the first event is an
   error other than io.ErrUnexpectedEOF and does not sit at the preview boundary => Read
   returns an error (nil scanner, the error itself, or file too long) *)
Theorem C16_seq_read_partial : forall m pre r post,
  plain pre = true -> rr_term r = Some (TErr RInj) ->
  ~ (blen (data_of pre) < preview_size /\ blen (data_of pre) + blen (rr_data r) = preview_size) ->
  reports_error (fst (reader_seq current_rpolicy3 m (pre ++ r :: post))) = true.
Proof. exact current_seq_read_partial. Qed.
Print Assumptions C16_seq_read_partial.

(* the converse, for every source: Read reports no I/O error (QParsed) only if the source
   had no event at all, or its first event is io.EOF, or io.ErrUnexpectedEOF inside the
   preview (known finding), or sits at the preview boundary (known finding) *)
Theorem C16_seq_read_nil_only_if : forall m rs d,
  fst (reader_seq current_rpolicy3 m rs) = QParsed d ->
  (plain rs = true /\ d = data_of rs) \/
  exists pre r post t, rs = pre ++ r :: post /\ plain pre = true /\ rr_term r = Some t /\
    (at_boundary pre r \/
     (d = data_of pre ++ rr_data r /\
      (t = TEOF \/ (t = TErr RUnexpectedEOF /\ blen (data_of pre) + blen (rr_data r) < preview_size)))).
Proof. exact current_seq_read_nil_only_if. Qed.
Print Assumptions C16_seq_read_nil_only_if.

(* io.ErrUnexpectedEOF is reported once the preview is full (below: the known finding) *)
Theorem C16_seq_read_ueof_partial : forall p m pre r post,
  rpolicy3_ok p = true -> plain pre = true -> rr_term r = Some (TErr RUnexpectedEOF) ->
  (preview_size <= blen (data_of pre) \/ preview_size < blen (data_of pre) + blen (rr_data r)) ->
  reports_error (fst (reader_seq p m (pre ++ r :: post))) = true.
Proof. exact reader_seq_ueof_reported. Qed.
Print Assumptions C16_seq_read_ueof_partial.

(* the full statement is false at the boundary: an error response is consumed, the source
   goes on, Read parses all the data and reports no I/O error *)
Theorem C16_seq_read_boundary_refuted :
  exists rs, existsb (fun r => match rr_term r with Some (TErr RInj) => true | _ => false end) rs = true /\
    reader_seq current_rpolicy3 1000 rs = (QParsed (data_of rs), nlen rs).
Proof. exact boundary_error_swallowed. Qed.
Print Assumptions C16_seq_read_boundary_refuted.

(* maxLines: a nil error is never returned for data with more than maxLines lines *)
Theorem C16_seq_read_maxlines : forall m d t d',
  scan_spec m d t = QParsed d' -> too_long m d' = false /\ d' = d /\ t = TEOF.
Proof. exact scan_spec_parsed. Qed.
Print Assumptions C16_seq_read_maxlines.

Theorem C16_seq_read_maxl_return_nil_refuted :
  fst (reader_seq (mkrpol3 Propagate Propagate ReturnNil) 5 (failing_once text2000 1500 RInj)) = QCutNil
  /\ rpolicy3_ok (mkrpol3 Propagate Propagate ReturnNil) = false.
Proof. exact maxl_return_nil_refuted. Qed.

(* the sticky source of phase 1 is the special case "chunks, then one empty response with
   the event": below maxLines the two models agree *)
Theorem C16_seq_read_extends : forall m chunks t, too_long m (concat chunks) = false ->
  fst (reader_seq current_rpolicy3 m (resps_of_source (mksrc chunks t))) = qresult_of (reader_run current_rpolicy (mksrc chunks t)).
Proof. exact current_seq_read_extends. Qed.
Print Assumptions C16_seq_read_extends.

(* C13, phase 2 — "Reversal yields a VALID reversing file": the reversal of a batch / file that
   the validator model of C03 accepts (Arith.validate_batch / validate_file over [gen_tables])
   is accepted again.  Only statements here; every proof is `exact <lemma>`.

   [r_batch ep bp b] is the Arith skeleton of the Reversal model's batch [b]; what that model
   does not keep travels as payload: [bp] (header ODFI and number; control count, hash, ODFI,
   number) and [ep id trace] (routing number, check digit, trace string, addenda count).
   File.Reversal touches none of them ([C13_valid_payload_*]).

   Unlike C13_batch_partial these statements need neither the model's own [rbatch_valid] nor
   the PRENOTE exclusion: the amount rule of ValidAmountForCodes is not part of Arith (it is a
   SEC level rule; known finding reversal:prenote-description-zero-amount stays with C13).
   Also outside Arith: field inclusion of untouched fields, addenda rules, isCategory. *)
From Coq Require Import ZArith NArith List Bool.
Import ListNotations.
From ACH Require Import ValidOut ValidOutFacts Tables.
From ACH Require Import Bytes TxCodes RevTable Reversal ReversalFacts ReversalTable C13Obl.
From ACH Require Import ValidReversal ValidReversalFacts ValidRevObl.
Open Scope Z_scope.

(* every standard entry code of the reversal tables is an accepted non-ADV code of Arith's tables *)
Theorem C13_valid_tables_agree : rev_tables_agree gen_tables RT = true.
Proof. exact gen_rev_tables_agree. Qed.
Print Assumptions C13_valid_tables_agree.

(* payload preservation, entry and batch level: only the code changes in an entry; ODFI, number,
   control count / hash / ODFI / number stay, the two totals are exchanged *)
Theorem C13_valid_payload_entry : forall ep e,
  r_entry ep (rev_entry (rt_arms RT) e) = recode (rev_code (rt_arms RT)) (r_entry ep e).
Proof. exact c13_payload_preserved. Qed.

Theorem C13_valid_payload_batch : forall ep d bp b,
  let b' := r_batch ep bp (reversal_batch RT d b) in
  let b0 := r_batch ep bp b in
  AR.bt_odfi b' = AR.bt_odfi b0 /\ AR.bt_number b' = AR.bt_number b0 /\
  AR.bc_count (AR.bt_ctl b') = AR.bc_count (AR.bt_ctl b0) /\ AR.bc_hash (AR.bt_ctl b') = AR.bc_hash (AR.bt_ctl b0) /\
  AR.bc_odfi (AR.bt_ctl b') = AR.bc_odfi (AR.bt_ctl b0) /\ AR.bc_number (AR.bt_ctl b') = AR.bc_number (AR.bt_ctl b0) /\
  AR.bc_debit (AR.bt_ctl b') = AR.bc_credit (AR.bt_ctl b0) /\ AR.bc_credit (AR.bt_ctl b') = AR.bc_debit (AR.bt_ctl b0) /\
  AR.bt_entries b' = map (recode (rev_code (rt_arms RT))) (AR.bt_entries b0).
Proof. exact c13_batch_payload_preserved. Qed.
Print Assumptions C13_valid_payload_batch.

(* Every batch of reversible codes, of any size and mix, that Batch.Validate (as modelled by
   Arith) accepts: the reversed batch is accepted.  Discharged one by one: entries stay valid
   (new codes accepted, amounts / routing numbers / check digits untouched); control class
   accepted and = header class; count, ascending traces, hash, trace prefix unchanged; the
   SWAPPED totals equal what calculateBatchAmounts computes for the flipped codes; no ADV code;
   class 220 / 225 only if all new codes are credits / debits. *)
Theorem C13_batch_arith_valid : forall ep d bp b,
  AR.validate_batch gen_tables (r_batch ep bp b) = AR.ROk -> all_reversible RT b = true ->
  AR.validate_batch gen_tables (r_batch ep bp (reversal_batch RT d b)) = AR.ROk.
Proof. exact c13_batch_arith_valid. Qed.
Print Assumptions C13_batch_arith_valid.

(* Every file of such batches that File.Validate (Arith.validate_file) accepts: Reversal
   succeeds and its result is accepted — batch count, every batch, file control (the two
   totals exchanged), sums over the batch controls, ascending batch numbers, hash.  The three
   file control fields the Reversal model lacks (batch count, entry/addenda count, hash) are in
   [r_file] what File.Create writes, the tabulation of the batch controls. *)
Theorem C13_file_arith_valid : forall ep d t bps f,
  length bps = length (rf_batches f) -> rf_batches f <> [] ->
  AR.validate_file gen_tables (r_file gen_tables ep bps f) = AR.ROk ->
  forallb (all_reversible RT) (rf_batches f) = true ->
  exists f', reversal_file RT d t f = ROk f' /\ AR.validate_file gen_tables (r_file gen_tables ep bps f') = AR.ROk.
Proof. exact c13_file_arith_valid. Qed.
Print Assumptions C13_file_arith_valid.

(* non-vacuity (hypotheses hold of a concrete two-batch file) and sensitivity of the conclusion
   (the same reversed batch with the totals NOT swapped is refused with the debit-total rule) *)
Theorem C13_valid_example :
  AR.validate_batch gen_tables (r_batch ex_ep ex_bp1 ex_batch) = AR.ROk /\ all_reversible RT ex_batch = true /\
  AR.validate_file gen_tables (r_file gen_tables ex_ep [ex_bp1; ex_bp2] ex_file) = AR.ROk /\
  forallb (all_reversible RT) (rf_batches ex_file) = true.
Proof. exact ex_rev_hyps. Qed.

Theorem C13_valid_unswapped_refuted :
  let b' := reversal_batch RT [50]%N ex_batch in
  AR.validate_batch gen_tables (r_batch ex_ep ex_bp1 (mkrbatch (rb_scc_h b') (rb_scc_c b') (rb_desc b') (rb_date b')
                                                     (rb_debit ex_batch) (rb_credit ex_batch) (rb_entries b'))) = AR.RDebit.
Proof. exact ex_rev_unswapped_refused. Qed.

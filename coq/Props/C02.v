(* C02 — every successfully written file is physically well-formed NACHA.
   Only statements; every proof is `exact <lemma>`. *)
From Coq Require Import String List Bool NArith.
From ACH Require Import Bytes LayoutTypes Layouts WriterOrderTypes WriterOrder FileStruct FileStructFacts C02Obl.
Open Scope list_scope.

(* shape: nothing but records, each followed by the configured line ending *)
Theorem C02_shape : forall le f, write le f = concat (map (fun l => l ++ le) (physical_lines f)).
Proof. exact (fun le f => eq_refl). Qed.
Print Assumptions C02_shape.

(* blocking: the record count is a multiple of ten, for every number of records *)
Theorem C02_blocking : forall f, (length (physical_lines f) mod 10 = 0)%nat.
Proof. exact physical_lines_blocked. Qed.
Print Assumptions C02_blocking.

(* nothing but all-9 filler (fewer than ten records of it) after the file control *)
Theorem C02_filler : forall f, exists k, (k < 10)%nat /\
  physical_lines f = (f_hdr f :: flat_map batch_lines (f_batches f)) ++ [f_ctl f] ++ repeat nines k.
Proof. exact physical_lines_tail. Qed.
Print Assumptions C02_filler.

(* order: file header, batches of (header, entries each immediately followed by
   their own addenda, control), one file control, filler *)
Theorem C02_grammar : forall f, file_typed f = true -> grammar_ok (physical_lines f) = true.
Proof. exact grammar_written. Qed.
Print Assumptions C02_grammar.

(* the record order of writer.go (regenerated this run) is the order of the model *)
Theorem C02_writer_order : writer_order_ok writer_Write writer_writeBatch writer_writeIATBatch = true.
Proof. exact writer_order_checked. Qed.

(* every record class starts with its record-type character (regenerated layouts) *)
Theorem C02_record_types : forallb first_lit_ok all_layouts = true.
Proof. exact record_types_checked. Qed.

(* non-vacuity *)
Theorem C02_example : file_typed ex_file = true /\ starts99 (f_ctl ex_file) = false /\
  read_struct (physical_lines ex_file) = Some ex_file /\ grammar_ok (physical_lines ex_file) = true /\
  length (physical_lines ex_file) = 20%nat.
Proof. exact ex_file_ok. Qed.

(* C17 — The HTTP server is a faithful store: what goes in comes out.
   Only statements here; every proof is `exact <lemma>`.

   cstep / crun : the server as it is (IDs -> pointers -> file objects, objects = terms over
                  library calls); gstep false / grun false : a plain map ID -> term;
   gstep true (istep) : the ideal store of the property text.  Booleans on requests are
   the library's answers, so "forall request lists" covers every library behaviour. *)
From Coq Require Import List NArith Bool String.
From ACH Require Import Server ServerFacts RouteTable ServerRoutes C17Obl.
Import ListNotations.
Open Scope N_scope.

(* Over ALL request histories in which no balance succeeds, the pointer machine answers
   exactly like the plain map of terms and ends in the abstraction of the same map:
   GET returns the stored term, contents is Write le (Created t), validate/build/flatten/
   segment/batch answers are the library terms on the stored file. *)
Theorem C17_refines_map : forall rs,
  forallb (fun r => negb (is_balance_ok r)) rs = true ->
  snd (crun cinit rs) = snd (grun false minit rs) /\
  absm (fst (crun cinit rs)) = fst (grun false minit rs).
Proof. exact refines_from_init. Qed.
Print Assumptions C17_refines_map.

(* the same from any reachable state, with the invariant that makes it go through *)
Theorem C17_refines_map_from : forall rs c,
  Inv c -> forallb (fun r => negb (is_balance_ok r)) rs = true ->
  absm (fst (crun c rs)) = fst (grun false (absm c) rs) /\
  snd (crun c rs) = snd (grun false (absm c) rs) /\
  Inv (fst (crun c rs)).
Proof. exact crun_refines. Qed.
Print Assumptions C17_refines_map_from.

(* with a successful balance the statement is false of the code as it stands: the balanced
   object is stored under two IDs (known finding server:balance-overwrites-id) *)
Theorem C17_refines_map_balance_refuted :
  snd (crun cinit alias_witness) <> snd (grun false minit alias_witness) /\
  nth 3 (snd (crun cinit alias_witness)) (Resp BadBody 0 PNone)
  = Resp Found 200 (PFile (WithBatch (Balanced (WithID (Parsed Text 1 0) (Client 1)) 0 (Gen 0)) 2)).
Proof. exact balance_aliasing. Qed.
Print Assumptions C17_refines_map_balance_refuted.

Theorem C17_balance_overwrites_id_refuted :
  snd (crun cinit [RCreate Text 1 0 (Some 1) None; RBalance (Client 1) 0 true; RGet (Client 1)])
  = [Resp Found 0 (PFile (WithID (Parsed Text 1 0) (Client 1)));
     Resp Found 0 (PBal (WithID (Parsed Text 1 0) (Client 1)) 0 (Gen 0));
     Resp Found 200 (PFile (Balanced (WithID (Parsed Text 1 0) (Client 1)) 0 (Gen 0)))].
Proof. exact balance_overwrites_id. Qed.
Print Assumptions C17_balance_overwrites_id_refuted.

(* DELETE then anything addressed to that ID: not found — immediately … *)
Theorem C17_delete_then_not_found : forall c r i,
  target r = Some i -> rcls (snd (cstep (fst (cstep c (RDelete i))) r)) = NotFound.
Proof. exact delete_then_any. Qed.
Print Assumptions C17_delete_then_not_found.

(* … and after any history that does not create that ID again (IDs of derived files and
   generated IDs never collide with an existing one) *)
Theorem C17_delete_then_not_found_history : forall c i rs r,
  old c i -> forallb (fun r => negb (names r i)) rs = true -> target r = Some i ->
  rcls (snd (cstep (fst (crun (fst (cstep c (RDelete i))) rs)) r)) = NotFound.
Proof. exact delete_then_history. Qed.
Print Assumptions C17_delete_then_not_found_history.

(* IDs are unique: create on an existing ID is refused and changes nothing *)
Theorem C17_create_existing_refused : forall c f b o url bodyid,
  Inv c -> lookup (store c) (fst (resolve url bodyid (nid c))) <> None ->
  rcls (snd (cstep c (RCreate f b o url bodyid))) = Refused /\
  fst (cstep c (RCreate f b o url bodyid)) = c.
Proof. exact create_existing_refused. Qed.
Print Assumptions C17_create_existing_refused.

(* what goes in comes out: create on a free ID stores exactly the decoded file *)
Theorem C17_create_then_get : forall c f b o url bodyid,
  lookup (store c) (fst (resolve url bodyid (nid c))) = None ->
  let c' := fst (cstep c (RCreate f b o url bodyid)) in
  let i := fst (resolve url bodyid (nid c)) in
  rcls (snd (cstep c (RCreate f b o url bodyid))) = Found /\
  snd (cstep c' (RGet i)) = Resp Found 200 (PFile (WithID (Parsed f b o) i)).
Proof. exact create_fresh_stored. Qed.
Print Assumptions C17_create_then_get.

Theorem C17_generated_id_never_refused : forall c f b o,
  Inv c -> rcls (snd (cstep c (RCreate f b o None None))) = Found.
Proof. exact create_generated_never_refused. Qed.
Print Assumptions C17_generated_id_never_refused.

(* Read endpoints re-tabulate the stored object.  For ANY library (value type V, any
   functions), if File.Create is the identity on what an ID shows (the file is tabulated,
   C05) and FlattenBatches/SegmentFile leave a tabulated receiver alone (C14), no history
   of read requests changes what that ID shows. *)
Theorem C17_unchanged_if_tabulated :
  forall (V : Type) parse parseb setid (create flatsrc segsrc : V -> V) addb delb flat cred deb bal,
  (forall v, tabulated V create v -> flatsrc v = v) ->
  (forall v, tabulated V create v -> segsrc v = v) ->
  forall rs m j v,
  forallb readonly rs = true -> mold m j ->
  shows V parse parseb setid create flatsrc segsrc addb delb flat cred deb bal m j = Some v ->
  tabulated V create v ->
  shows V parse parseb setid create flatsrc segsrc addb delb flat cred deb bal (fst (grun false m rs)) j = Some v.
Proof. exact read_run_preserves. Qed.
Print Assumptions C17_unchanged_if_tabulated.

(* without "tabulated" it is false: a toy library in which Create recomputes a control count *)
Theorem C17_unchanged_untabulated_refuted :
  toy_shows retab_witness_state (Client 1) = Some (2, 1) /\
  ~ tabulated toyV tcreate (2, 1) /\
  toy_shows (fst (mstep retab_witness_state (RContents (Client 1) LF))) (Client 1) = Some (2, 2).
Proof. exact read_changes_untabulated. Qed.
Print Assumptions C17_unchanged_untabulated_refuted.

(* without purity of FlattenBatches it is false as well *)
Theorem C17_unchanged_impure_flatten_refuted :
  let m := MState [(Client 1, Parsed Text 1 0)] 0 in
  toy_shows_impure m (Client 1) = Some (1, 1) /\ tabulated toyV tcreate (1, 1) /\
  toy_shows_impure (fst (mstep m (RFlatten (Client 1) true))) (Client 1) = Some (1, 0).
Proof. exact flatten_changes_if_impure. Qed.
Print Assumptions C17_unchanged_impure_flatten_refuted.

(* the ideal store: a read request never changes what any ID shows (build on a tabulated file) *)
Theorem C17_ideal_read_unchanged :
  forall (V : Type) parse parseb setid (create flatsrc segsrc : V -> V) addb delb flat cred deb bal m r j,
  readonly r = true -> mold m j ->
  (r = RBuild j -> forall v, shows V parse parseb setid create flatsrc segsrc addb delb flat cred deb bal m j = Some v -> tabulated V create v) ->
  shows V parse parseb setid create flatsrc segsrc addb delb flat cred deb bal (fst (istep m r)) j
  = shows V parse parseb setid create flatsrc segsrc addb delb flat cred deb bal m j /\ mold (fst (istep m r)) j.
Proof. exact ideal_read_step. Qed.
Print Assumptions C17_ideal_read_unchanged.

(* the routes of MakeHTTPHandler, regenerated from server/routing.go on this run, are the
   ones the requests of the model stand for (endpoint, decoder, encoder), each registered once *)
Theorem C17_routes : forall r, In r expected_routes -> In r server_routes.
Proof. exact routes_registered. Qed.
Print Assumptions C17_routes.

Theorem C17_status_table : status_check server_status = true.
Proof. exact status_ok. Qed.
Print Assumptions C17_status_table.

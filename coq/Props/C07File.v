(* C07 (phase 2) — JSON and NACHA text are interchangeable: the file-level statements.
   Statements only; proofs are in Model/JsonSurvive.v, Model/JsonFileFacts.v, Oblig/C07FileObl.v.

   Layers: [enc]/[dec] (struct <-> JSON object, JsonCodec.v), [view] (a File value as a tree of
   record field maps), [post] (what FileFromJSONWith does after the decode), [lines]/[write_rt]
   (Writer.Write through the regenerated layouts).  FileHeader.Validate, BatchHeader.Validate and
   File.Validate are abstract predicates: the theorems hold for every choice of them. *)
From Coq Require Import String Ascii List Bool ZArith NArith.
Import ListNotations.
From ACH Require Import Bytes JsonCodec JsonCodecFacts JsonSurvive JsonPostTable Layout LayoutOk FileStruct JsonFile JsonFileFacts JsonFileCurrent.
From ACH Require Import JsonTags JsonPost Offsets OffsetTable Layouts WriterOrderTypes WriterOrder C07Obl C07FileObl.
Local Open Scope string_scope.
Local Open Scope list_scope.

(* For ANY type tree: decoding the encoding of v into a variable holding cur yields exactly [surv t cur v]:
   fields written and read back under one key survive (recursively), every other field keeps cur's value. *)
Theorem C07_decode_of_encode : forall t,
  wf t = true -> forall cur v, typed t cur = true -> typed t v = true ->
  dec t cur (enc t v) = surv t cur v.
Proof. exact surv_law. Qed.
Print Assumptions C07_decode_of_encode.

(* For ANY type tree whose problem fields are covered by [hid] (not looked at) and [keep] (local
   survival condition assumed of v): the tree of what comes back is the tree of what was written. *)
Theorem C07_tree_survives : forall hid keep t cur v,
  wf t = true -> typed t cur = true -> typed t v = true ->
  covers hid keep (problems t cur) = true ->
  safe_sel (sel_of keep) t cur v = true ->
  view (sel_of hid) t (dec t cur (enc t v)) = view (sel_of hid) t v.
Proof. exact view_roundtrip. Qed.
Print Assumptions C07_tree_survives.

(* A record line depends only on the fields its layout reads. *)
Theorem C07_render_reads : forall L r1 r2,
  (forall g, In g (layout_reads L) -> LayoutTypes.lookup r1 g = LayoutTypes.lookup r2 g) -> render L r1 = render L r2.
Proof. exact render_reads. Qed.
Print Assumptions C07_render_reads.

(* Current source: every field that a layout segment of any of the 26 record types reads is written by
   json.Marshal and read back under the same key as a scalar, or is one of the six kept excused fields
   (the four FileHeader constants, FileHeader.FileIDModifier, and the known finding Addenda98.iatCorrectedData);
   none of them is a hidden field; hidden + kept = the excused fields of C07_tags_ok_partial. *)
Theorem C07_rendered_fields_serialised :
  forallb rendered_ok all_layouts = true /\
  (forallb (fun p => inb p excused) (hid_fields ++ keep_fields) = true /\
   forallb (fun p => inb p (hid_fields ++ keep_fields)) excused = true /\
   forallb (fun p => negb (inb p keep_fields)) hid_fields = true) /\
  forallb (fun p => existsb (fun L => String.eqb (l_name L) (fst p) && existsb (String.eqb (snd p)) (layout_reads L)) all_layouts) keep_fields = true.
Proof. exact (conj rendered_fields_serialised (conj excused_partition keep_fields_rendered)). Qed.
Print Assumptions C07_rendered_fields_serialised.

(* Current source: the table read off the post-processing code is the one the model implements
   (ConvertBatchType maps each SEC code of NewBatch to the batch type of that name; type-code literals
   equal the field's number; CTX/ATX only; the three RFC 3339 layouts; the five rewritten date fields;
   the order of the calls per batch and of the steps of FileFromJSONWith); the removal loop of
   upsertOffsets has the shape the model assumes; every addenda field of EntryDetail / IATEntryDetail gets a type code; the writer emits addenda in the order [lines] uses. *)
Theorem C07_post_table_ok :
  post_table_ok json_post_table = true /\
  (forall sec, convert_type json_post_table sec =
     (if existsb (fun p => String.eqb sec (fst p)) (pt_convert json_post_table) then "Batch" ++ sec else "Batch")%string) /\
  (match t_tail offset_table with TailSucc => true | _ => false end) && t_redo offset_table && negb (t_unknown offset_table) = true /\
  (map fst (pt_typecodes json_post_table) = ["EntryDetail"; "IATEntryDetail"] /\
   forallb (fun e => match struct_named (fst e) with
                     | Some t => forallb (fun f => existsb (fun p => String.eqb f (fst p)) (snd e)) (addenda_fields t)
                                 && negb (Nat.eqb (length (addenda_fields t)) 0)
                     | None => false
                     end) (pt_typecodes json_post_table) = true).
Proof. exact (conj post_table_checked (conj convert_type_current (conj offset_loop_shape typecodes_complete))). Qed.
Print Assumptions C07_post_table_ok.

(* Timestamps too short to be RFC 3339 (fewer than 19 bytes: every YYMMDD / HHmm value) are left alone. *)
Theorem C07_datetime_short : forall s, (length s <= 18)%nat -> datetime_parse s = None.
Proof. exact datetime_parse_short. Qed.
Print Assumptions C07_datetime_short.

(* Options passed to FileFromJSONWith replace the options stored in the document; without them the document's are used. *)
Theorem C07_opts_passed_override :
  (forall fields passed from_doc, passed <> [] -> final_opts fields passed from_doc = passed) /\
  (forall fields from_doc, final_opts fields [] from_doc = from_doc).
Proof. exact (conj opts_passed_override opts_nil_passed). Qed.
Print Assumptions C07_opts_passed_override.

(* Tree level, ANY environment (tables, constructors, validators) and ANY layouts: on a tree that is
   [ready] — not ADV; headers present; addenda type codes as inferred; CTX/ATX counts set; build under the
   file's options is the identity on every batch (tabulated); timestamps short; batch numbers as Create
   assigns them; file control = the sums Create computes; Create's preconditions — the post-processing
   returns a file whose record lines are those of the tree. *)
Theorem C07_post_ready : forall layouts E passed d,
  fc_layout_ok layouts E = true ->
  ready E passed d = true ->
  exists f, pres_tree (post E passed d) = Some f
            /\ (pe_file_valid E f = true -> post E passed d = POk f)
            /\ lines layouts f = lines layouts d.
Proof. exact post_ready. Qed.
Print Assumptions C07_post_ready.

(* Current source, file values: write (from_json (to_json v)) = write v for every typed File value whose
   kept excused fields hold their decode-time values (no Addenda98.iatCorrectedData: PARTIAL, known finding
   json:unexported:Addenda98.iatCorrectedData) and whose tree is ready (CTX/ATX counts set: PARTIAL, known
   finding json:catx:zero-addenda-records; not ADV: ADV files are covered by correspondence and oracle only). *)
Theorem C07_roundtrip_partial : forall fhv bhv fv passed v,
  typed T_File v = true ->
  keep_ok v = true ->
  ready (env_cur fhv bhv fv) passed (tree_of_file v) = true ->
  exists f, pres_tree (from_json fhv bhv fv passed (to_json v)) = Some f
            /\ (fv f = true -> from_json fhv bhv fv passed (to_json v) = POk f)
            /\ lines_cur f = lines_cur (tree_of_file v)
            /\ write_cur f = write_cur (tree_of_file v).
Proof. exact roundtrip_partial. Qed.
Print Assumptions C07_roundtrip_partial.

(* Non-vacuity: a generated BOC file satisfies every hypothesis; its five record lines come back. *)
Theorem C07_roundtrip_witness :
  typed T_File witness_file = true /\ keep_ok witness_file = true /\
  ready (env_cur (fun _ _ => true) (fun _ _ => true) (fun _ => true)) [] (tree_of_file witness_file) = true /\
  length (lines_cur (tree_of_file witness_file)) = 5%nat /\
  match from_json_run true [] (to_json witness_file) with
  | POk f => write_cur f = write_cur (tree_of_file witness_file)
  | _ => False
  end.
Proof. exact witness_ready. Qed.
Print Assumptions C07_roundtrip_witness.

(* Without the CTX/ATX condition the statement is false (the faithful model contains the known finding). *)
Theorem C07_roundtrip_catx_refuted :
  exists v,
    typed T_File v = true /\ keep_ok v = true /\
    ready_but_catx (env_cur (fun _ _ => true) (fun _ _ => true) (fun _ => true)) [] (tree_of_file v) = true /\
    match from_json_run true [] (to_json v) with
    | POk f | PInvalid f => lines_cur f <> lines_cur (tree_of_file v)
    | PErr _ => True
    end.
Proof. exact roundtrip_catx_refuted. Qed.
Print Assumptions C07_roundtrip_catx_refuted.

(* C08 with ValidateOpts — what MergeFilesWith does with the options stored on the input
   files and batches.  Only statements here; every proof is `exact <lemma>`.

   merge_files_o (coq/Model/MergeOpts.v) is the model of ach.MergeFilesWith on inputs that
   carry options: an input file has File.GetValidation() (fo_opts) and every input batch the
   options stored with Batch.SetValidation (ibo_opts); an option value is nil (None) or the
   vector of the boolean fields of ValidateOpts plus the identity of CheckTransactionCode.
   batch_in_opts f ib = the options an input batch was validated with (file's merged with its
   own).  osub a b: b holds every boolean field a holds, is not nil when a is not, has a
   CheckTransactionCode when a has.  rbo_entries are the entries added to an output batch,
   rbo_created the entries after Batch.Create (None: Create fails on a trace-number rule). *)
From Coq Require Import List NArith ZArith Bool Permutation.
From ACH Require Import Bytes Merge MergeFacts MergeOpts MergeOptsFacts MergeOptsTable MergeOptsGen C08OptsObl.

(* ---------------------------------------------------------------- the structure does not depend on options *)

(* forgetting the options commutes with merging: files, batches, batch numbers, entries and their
   order are those of the model of Props/C08.v, C09.v -- every theorem there holds for inputs with
   options *)
Theorem C08_opts_erasure : forall (fs : list ifileo) (c : conds),
  map erase_rf (merge_files_o fs c) = merge_files (map erase_ifile fs) c.
Proof. exact merge_o_erase. Qed.
Print Assumptions C08_opts_erasure.

Theorem C08_opts_conservation : forall (fs : list ifileo) (c : conds),
  Permutation (ids_out (map erase_rf (merge_files_o fs c))) (ids_in (map erase_ifile fs)).
Proof. exact merge_o_conservation. Qed.
Print Assumptions C08_opts_conservation.

(* ---------------------------------------------------------------- option sets of the outputs *)

(* conservation with options: the input entries and the output entries correspond one-to-one
   (same routing pair, header key and entry) such that the output batch holding an entry carries
   at least the options the entry's input batch was validated with *)
Theorem C08_opts_union : forall (fs : list ifileo) (c : conds),
  matched tle (tids_in fs) (tids_out (merge_files_o fs c)).
Proof. exact merge_o_opts_union. Qed.
Print Assumptions C08_opts_union.

(* read per entry, both directions *)
Theorem C08_opts_union_entry : forall fs c f ib e,
  In f fs -> In ib (fo_batches f) -> In e (ib_entries (ibo_batch ib)) ->
  exists g rb, In g (merge_files_o fs c) /\ In rb (rfo_batches g) /\ In e (rbo_entries rb)
               /\ fo_route f = rfo_route g /\ hkey (ib_header (ibo_batch ib)) = hkey (rbo_header rb)
               /\ osub (batch_in_opts (fo_opts f) ib) (rbo_opts rb).
Proof. exact merge_o_entry_target. Qed.
Print Assumptions C08_opts_union_entry.

Theorem C08_opts_no_mixing : forall fs c g rb e,
  In g (merge_files_o fs c) -> In rb (rfo_batches g) -> In e (rbo_entries rb) ->
  exists f ib, In f fs /\ In ib (fo_batches f) /\ In e (ib_entries (ibo_batch ib))
               /\ fo_route f = rfo_route g /\ hkey (ib_header (ibo_batch ib)) = hkey (rbo_header rb)
               /\ osub (batch_in_opts (fo_opts f) ib) (rbo_opts rb).
Proof. exact merge_o_entry_source. Qed.
Print Assumptions C08_opts_no_mixing.

(* every output file (also the ones started when a limit is exceeded) carries at least the
   options of every input file of its routing pair *)
Theorem C08_opts_file_union : forall fs c g f,
  In g (merge_files_o fs c) -> In f fs -> fo_route f = rfo_route g -> osub (fo_opts f) (rfo_opts g).
Proof. exact merge_o_file_union. Qed.
Print Assumptions C08_opts_file_union.

(* ... and exactly those: a boolean field is set on an output file iff it is set on an input file
   of the routing pair; the output file has nil options iff all of them have *)
Theorem C08_opts_file_exact : forall fs c g i, In g (merge_files_o fs c) ->
  (oflag i (rfo_opts g) = true <->
   exists f, In f fs /\ fo_route f = rfo_route g /\ oflag i (fo_opts f) = true).
Proof. exact merge_o_file_flags. Qed.
Print Assumptions C08_opts_file_exact.

Theorem C08_opts_file_nil : forall fs c g, In g (merge_files_o fs c) ->
  (rfo_opts g = None <-> forall f, In f fs -> fo_route f = rfo_route g -> fo_opts f = None).
Proof. exact merge_o_file_nil. Qed.
Print Assumptions C08_opts_file_nil.

(* nothing invented on batches: a boolean field set on an output batch is set on a non-empty
   input batch (or its file) with the same routing pair and header key *)
Theorem C08_opts_batch_no_invention : forall fs c g rb i,
  In g (merge_files_o fs c) -> In rb (rfo_batches g) -> oflag i (rbo_opts rb) = true ->
  exists f ib, In f fs /\ In ib (fo_batches f) /\ fo_route f = rfo_route g
               /\ hkey (ib_header (ibo_batch ib)) = hkey (rbo_header rb)
               /\ ib_entries (ibo_batch ib) <> []
               /\ oflag i (batch_in_opts (fo_opts f) ib) = true.
Proof. exact merge_o_batch_flag_source. Qed.
Print Assumptions C08_opts_batch_no_invention.

(* ---------------------------------------------------------------- trace numbers *)

(* entry identity conservation including the trace number: with CustomTraceNumbers stored on
   every input file (and numeric trace prefixes / ODFIs, otherwise Batch.build returns an
   error), Batch.Create on every output batch succeeds on the trace-number rules and returns
   the entries it was given, trace numbers included *)
Theorem C08_traces_preserved_under_custom : forall fs c g rb,
  (forall f, In f fs -> custom (fo_opts f) = true) -> inputs_numeric fs ->
  In g (merge_files_o fs c) -> In rb (rfo_batches g) ->
  rbo_created rb = Some (rbo_entries rb).
Proof. exact merge_o_traces_custom. Qed.
Print Assumptions C08_traces_preserved_under_custom.

(* in general: when every input entry starts with the ODFI of its batch header or was validated
   under BypassOriginValidation / CustomTraceNumbers (file or batch), Batch.build changes nothing *)
Theorem C08_traces_preserved : forall fs c g rb,
  inputs_stay fs -> In g (merge_files_o fs c) -> In rb (rfo_batches g) ->
  build_entries (rbo_header rb) (rbo_opts rb) 1 (rbo_entries rb) = Some (rbo_entries rb).
Proof. exact merge_o_traces_preserved. Qed.
Print Assumptions C08_traces_preserved.

(* inputs whose trace numbers satisfy the rules of Batch.Create under the options they carry:
   Create passes those rules on every output batch, changes no entry, and the identities of the
   created entries are those of the inputs *)
Theorem C08_opts_create_ok : forall fs c,
  inputs_trace_valid fs ->
  merge_created_ok (merge_files_o fs c) = true
  /\ (forall g rb, In g (merge_files_o fs c) -> In rb (rfo_batches g) -> rbo_created rb = Some (rbo_entries rb))
  /\ Permutation (ids_created (merge_files_o fs c)) (ids_in (map erase_ifile fs)).
Proof. exact merge_o_create_ok. Qed.
Print Assumptions C08_opts_create_ok.

(* ---------------------------------------------------------------- input order *)

(* the options of the output FILES do not depend on the order of the inputs (nor on the
   conditions), as far as boolean fields, nil-ness and presence of a CheckTransactionCode go *)
Theorem C08_file_opts_order_independent : forall fs fs' c c' g g' i,
  Permutation fs fs' -> In g (merge_files_o fs c) -> In g' (merge_files_o fs' c') ->
  rfo_route g = rfo_route g' ->
  oflag i (rfo_opts g) = oflag i (rfo_opts g') /\ (rfo_opts g = None <-> rfo_opts g' = None)
  /\ (ohas p_ctc (rfo_opts g) = ohas p_ctc (rfo_opts g')).
Proof. exact merge_o_file_flags_order. Qed.
Print Assumptions C08_file_opts_order_independent.

(* REFUTED in general (witnesses replayed on the real code by `c08opts oracle`):
   which CheckTransactionCode function an output file gets depends on the order (the last one
   wins), and so do the boolean fields of output BATCHES when trace numbers collide *)
Theorem C08_opts_order_independent_refuted :
  (exists fs fs' c, Permutation fs fs' /\
     map (fun g => option_map o_ctc (rfo_opts g)) (merge_files_o fs c)
     <> map (fun g => option_map o_ctc (rfo_opts g)) (merge_files_o fs' c))
  /\ (exists fs fs' c i id, Permutation fs fs' /\
        flag_at i id (merge_files_o fs c) = (true :: nil) /\ flag_at i id (merge_files_o fs' c) = (false :: nil)).
Proof. exact opts_order_refuted. Qed.
Print Assumptions C08_opts_order_independent_refuted.

(* PARTIAL (batches): under the extra hypothesis that no two input entries share routing pair,
   header key and trace number (no_collision; the witness above violates exactly this), the
   boolean fields of an output batch are exactly those of the non-empty input batches with its
   routing pair and header key, hence independent of the order of the inputs *)
Theorem C08_opts_batch_exact_partial : forall fs c g rb i,
  no_collision fs -> In g (merge_files_o fs c) -> In rb (rfo_batches g) ->
  (oflag i (rbo_opts rb) = true <->
   exists f ib, In f fs /\ In ib (fo_batches f) /\ fo_route f = rfo_route g
                /\ hkey (ib_header (ibo_batch ib)) = hkey (rbo_header rb)
                /\ ib_entries (ibo_batch ib) <> nil
                /\ oflag i (batch_in_opts (fo_opts f) ib) = true).
Proof. exact merge_o_batch_exact. Qed.
Print Assumptions C08_opts_batch_exact_partial.

Theorem C08_opts_order_independent_partial : forall fs fs' c c' g g' rb rb' i,
  no_collision fs -> Permutation fs fs' ->
  In g (merge_files_o fs c) -> In rb (rfo_batches g) ->
  In g' (merge_files_o fs' c') -> In rb' (rfo_batches g') ->
  rfo_route g = rfo_route g' -> hkey (rbo_header rb) = hkey (rbo_header rb') ->
  oflag i (rbo_opts rb) = oflag i (rbo_opts rb').
Proof. exact merge_o_batch_flags_order. Qed.
Print Assumptions C08_opts_order_independent_partial.

(* ---------------------------------------------------------------- tie to the source of this run *)

Theorem C08_opts_source_tables :
  struct_ok gen_vo_fields = true
  /\ merge_shape_ok gen_vo_fields gen_vo_merge_recv gen_vo_merge_param gen_vo_merge_guards
                    gen_vo_merge_literal gen_vo_merge_post gen_vo_merge_rest = true
  /\ flow_ok gen_opt_flow = true /\ pins_ok gen_trace_pins = true.
Proof. exact (conj opts_struct_ok (conj opts_merge_shape_ok (conj opts_flow_ok opts_trace_pins_ok))). Qed.
Print Assumptions C08_opts_source_tables.

(* ValidateOpts.merge as written in the source of this run computes the model's omerge: every
   boolean field of the struct and the function field, on non-nil operands (the nil cases are
   the two guards of the table and the first two clauses of omerge) *)
Theorem C08_opts_source_merge : forall a b,
  (forall i, (i < length gen_vo_merge_literal)%nat ->
     src_merge_flag gen_vo_merge_literal i (o_flags a) (o_flags b) = oflag i (omerge (Some a) (Some b)))
  /\ Some (src_merge_func gen_vo_merge_recv gen_vo_merge_post (o_ctc a) (o_ctc b))
     = option_map o_ctc (omerge (Some a) (Some b)).
Proof. exact source_merge_is_model. Qed.
Print Assumptions C08_opts_source_merge.

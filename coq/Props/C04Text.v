(* C04 — tampered or truncated files are never accepted as something else: the TEXT level.
   Only statements here; every proof is `exact <lemma>`.

   protected_columns  the table of integrity protected columns (record class, field,
                      columns, kind), Model/TamperText.v
   set_digit l c d    line l with the character in column c replaced by d
   column l lo hi     the characters [lo, hi) of l
   parse / render     Parse / String() of the regenerated layouts (Gen/Layouts.v)
   skel f             the arithmetic skeleton (Model/Arith.v) of a structured list of
                      record lines, each line parsed with the layout the reader uses
   tamper f s c d     f with the line at site s changed by set_digit
   read_text          framing + padding of short lines + record dispatch of a byte text
   T                  the code tables regenerated from the source of this run *)
From Coq Require Import String List NArith ZArith Bool.
From ACH Require Import TamperText TamperTextFacts TamperTextLift TruncBytes TruncCtl NumFacts Tables C03Obl C04TextObl.
Import ListNotations.
Local Open Scope nat_scope.

(* the table agrees with the regenerated layouts: each row names a field that Parse cuts
   from exactly these columns (parseNumField, or kept as a possibly trimmed string), that no
   other cut reads, and that String() writes with numericField / Itoa / stringField / raw *)
Theorem C04_text_columns_ok :
  forallb pcol_ok protected_columns = true /\ forallb (fun p => layout_ok (p_layout p)) protected_columns = true.
Proof. exact (conj protected_columns_ok protected_layouts_ok). Qed.
Print Assumptions C04_text_columns_ok.

(* one digit of a protected column of a record written through its layout: the line still
   has 94 characters, every other field parses as before, the protected field parses to a
   different value (numeric columns: a different number; string columns: a different string) *)
Theorem C04_text_digit_changes_field : forall p r j d,
  In p protected_columns -> fitsb (p_layout p) r = true -> col_value_ok p r ->
  j < p_hi p - p_lo p -> is_digit d = true ->
  let L := p_layout p in
  let line := render L r in
  let text := column line (p_lo p) (p_hi p) in
  nth j text 0%N <> d ->
  let line' := set_digit line (p_lo p + j) d in
  rune_count line' = 94 /\ wf_utf8 line' = true /\
  (forall g, g <> p_field p -> lookup (parse L line') g = lookup (parse L line) g) /\
  field_change (p_kind p) (lookup (parse L line) (p_field p)) (lookup (parse L line') (p_field p))
               text (set_nth j d text).
Proof. exact c04_text_digit_changes_field. Qed.
Print Assumptions C04_text_digit_changes_field.

(* the same for ANY well-formed line of 94 characters whose protected column holds digits
   (not only lines produced by String()) *)
Theorem C04_text_line_digit_changes_field : forall p line j d,
  In p protected_columns -> wf_utf8 line = true -> rune_count line = 94 ->
  j < p_hi p - p_lo p -> is_digit d = true ->
  digitsb (column line (p_lo p) (p_hi p)) = true ->
  nth j (column line (p_lo p) (p_hi p)) 0%N <> d ->
  (p_kind p = CKNum -> (digits_val (column line (p_lo p) (p_hi p)) 0 < max_int64)%Z) ->
  let line' := set_digit line (p_lo p + j) d in
  rune_count line' = 94 /\ wf_utf8 line' = true /\
  (forall g, g <> p_field p -> lookup (parse (p_layout p) line') g = lookup (parse (p_layout p) line) g) /\
  field_change (p_kind p) (lookup (parse (p_layout p) line) (p_field p)) (lookup (parse (p_layout p) line') (p_field p))
               (column line (p_lo p) (p_hi p)) (set_nth j d (column line (p_lo p) (p_hi p))).
Proof. exact c04_text_line_digit_changes_field. Qed.
Print Assumptions C04_text_line_digit_changes_field.

(* C04_tamper_text: a file (any number of batches / entries / addenda, any other content)
   whose lines read as a valid file; one line of it was written through its layout from a
   record that fits; one digit of one protected column of that line is replaced by another
   digit: the re-parsed file fails read_validate.  [batch_regular] = the side conditions of
   the C03/C04 entry theorems (IAT/ADV batches without foreign accounting codes, routing
   numbers stored as 8 digits). *)
Theorem C04_tamper_text_rejected : forall f s p r j d,
  read_validate T (skel f) = ROk -> Forall (batch_regular T) (all_batches (skel f)) ->
  In p protected_columns -> site_class f s = Some (p_class p) ->
  site_line f s = Some (render (p_layout p) r) -> fitsb (p_layout p) r = true -> col_value_ok p r ->
  j < p_hi p - p_lo p -> is_digit d = true ->
  nth j (column (render (p_layout p) r) (p_lo p) (p_hi p)) 0%N <> d ->
  read_validate T (skel (tamper f s (p_lo p + j) d)) <> ROk.
Proof. exact c04_tamper_text_rejected. Qed.
Print Assumptions C04_tamper_text_rejected.

(* ... and for any well-formed 94 character line with digits in the column *)
Theorem C04_tamper_text_line_rejected : forall f s p line j d,
  read_validate T (skel f) = ROk -> Forall (batch_regular T) (all_batches (skel f)) ->
  In p protected_columns -> site_class f s = Some (p_class p) -> site_line f s = Some line ->
  wf_utf8 line = true -> rune_count line = 94 ->
  j < p_hi p - p_lo p -> is_digit d = true ->
  digitsb (column line (p_lo p) (p_hi p)) = true ->
  nth j (column line (p_lo p) (p_hi p)) 0%N <> d ->
  (p_kind p = CKNum -> (digits_val (column line (p_lo p) (p_hi p)) 0 < max_int64)%Z) ->
  read_validate T (skel (tamper f s (p_lo p + j) d)) <> ROk.
Proof. exact c04_tamper_text_line_rejected. Qed.
Print Assumptions C04_tamper_text_line_rejected.

(* C04_truncation at EVERY byte offset k of the written text, LF or CRLF line ends.
   PARTIAL: for files whose record lines are 94 ASCII characters ([ascii_records]); the
   remaining case is a record line containing multi-byte UTF-8 characters, where a cut
   inside a character yields U+FFFD characters (and can spill into a second line).
   The truncated text reads as no file, or as exactly the original, or as the original with
   its file control record cut at a column c (blank from c on) — and then it fails
   read_validate unless every protected field of the cut record still parses to the
   original value. *)
Theorem C04_truncation_bytes_partial : forall f le k,
  le_ok le -> file_typed f = true -> starts99 (f_ctl f) = false -> ascii_records f ->
  read_validate T (skel f) = ROk -> k < length (write le f) ->
  let r := read_text (firstn k (write le f)) in
  r = None \/ r = Some f \/
  exists c, 1 <= c < 94 /\ r = Some (with_ctl f (cut_line (f_ctl f) c)) /\
    (read_validate T (skel (with_ctl f (cut_line (f_ctl f) c))) <> ROk \/
     skel (with_ctl f (cut_line (f_ctl f) c)) = skel f).
Proof. exact c04_truncation_bytes. Qed.
Print Assumptions C04_truncation_bytes_partial.

(* a cut at or after the last significant column (end of the credit total: 55, ADV 71)
   of a file control record written through its layout leaves the record as it was *)
Theorem C04_truncation_blank_tail : forall adv r c, last_significant adv <= c <= 94 ->
  cut_line (render (fctl_layout adv) r) c = render (fctl_layout adv) r.
Proof. exact c04_truncation_blank_tail. Qed.
Print Assumptions C04_truncation_blank_tail.

(* the accepted alternative of the third case: with a non-zero original entry/addenda count
   (its column holding digits) the cut lies behind column 21 and Parse assigns the cut
   control record exactly the values of the original one (block count included): the file
   the reader builds is the original one *)
Theorem C04_truncation_ctl_identical : forall f c,
  ascii_records f -> 1 <= c < 94 -> digitsb (column (f_ctl f) 13 21) = true ->
  fc_count (fl_ctl (skel f)) <> 0%Z ->
  skel (with_ctl f (cut_line (f_ctl f) c)) = skel f ->
  parse (fctl_layout (adv_file f)) (cut_line (f_ctl f) c) = parse (fctl_layout (adv_file f)) (f_ctl f).
Proof. exact c04_truncation_ctl_identical. Qed.
Print Assumptions C04_truncation_ctl_identical.

(* non-vacuity: a PPD file written through the layouts satisfies every hypothesis, one
   replaced digit per kind of protected line is rejected with the expected rule, and the
   truncation verdicts at chosen offsets of the CRLF text (99 = no file, 0 = accepted) *)
Theorem C04_text_example_valid :
  read_validate T (skel tx_file) = ROk /\ Forall (batch_regular T) (all_batches (skel tx_file)) /\
  file_typed tx_file = true /\ starts99 (f_ctl tx_file) = false /\ ascii_records tx_file /\
  length (write CRLF_b tx_file) = 960.
Proof. exact tx_file_ok. Qed.

Theorem C04_text_example_tamper :
  read_validate T (skel (tamper tx_file (SEntry 0 0) 38 55)) = RCredit /\
  read_validate T (skel (tamper tx_file (SEntry 0 1) 5 55)) = RCheckDigit /\
  read_validate T (skel (tamper tx_file (SEntry 0 1) 11 55)) = RCheckDigit /\
  read_validate T (skel (tamper tx_file (SBatchCtl 0) 12 55)) = RHash /\
  read_validate T (skel (tamper tx_file (SBatchCtl 0) 80 55)) = ROdfi /\
  read_validate T (skel (tamper tx_file (SBatchHdr 0) 93 55)) = RNumber /\
  read_validate T (skel (tamper tx_file SFileCtl 6 55)) = RFBatchCount /\
  read_validate T (skel (tamper tx_file SFileCtl 30 55)) = RFHash.
Proof. exact tx_tamper_examples. Qed.

Theorem C04_text_example_truncation :
  map (fun k => verdict_code (firstn k (write CRLF_b tx_file))) [0; 95; 500; 576; 577; 590; 600; 620; 630; 631; 671; 672; 673; 674; 959]
  = [99; 99; 99; 99; 16; 17; 18; 19; 19; 0; 0; 0; 99; 0; 0]%Z /\
  read_text (firstn 631 (write CRLF_b tx_file)) = Some tx_file /\
  read_text (write LF_b tx_file) = Some tx_file.
Proof. exact tx_truncation_examples. Qed.

(* a debits-only file cut inside its all-zero credit total: accepted with an identical parse
   although the line differs; cut one column earlier (last debit digit lost): rejected *)
Theorem C04_text_example_zero_tail :
  read_validate T (skel td_file) = ROk /\ digitsb (column (f_ctl td_file) 13 21) = true /\
  fc_count (fl_ctl (skel td_file)) = 2%Z /\
  skel (with_ctl td_file (cut_line (f_ctl td_file) 44)) = skel td_file /\
  cut_line (f_ctl td_file) 44 <> f_ctl td_file /\
  parse L_FileControl (cut_line (f_ctl td_file) 44) = parse L_FileControl (f_ctl td_file) /\
  read_validate T (skel (with_ctl td_file (cut_line (f_ctl td_file) 42))) = RFDebit.
Proof. exact td_truncation_example. Qed.

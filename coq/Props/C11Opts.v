(* C11, phase 4 — SegmentFile and the ValidateOpts stored on the file and its batches
   (files that are valid ONLY under those options: 9ad8a729, 66a624ee, c60de85d).
   Only statements here; every proof is `exact <lemma>`.

   Model: coq/Model/SegmentOpts.v — for every batch Segment.part / Segment.ipart hand
   to the credit or debit file, the option value it carries: a fresh (split) batch
   f.validateOpts.merge(options of the batch it is split off), a batch handed over whole
   its own; both output files the file's value.  Tie: Gen/OptSites.v (the SetValidation
   statements of SegmentFile and its helpers, reflection) and the correspondence of
   harness/cmd/optsdom with the extracted [segment_opts_view ST] on the real SegmentFile. *)
From Coq Require Import ZArith NArith List Bool String.
From ACH Require Import TxCodes RevTable SegTable Segment SegmentTable C11Obl SegmentOpts SegmentOptsFacts
  OptSitesTable OptSites OptSitesObl C11OptsObl.
From ACH Require MergeOpts MergeOptsFacts.

(* the option lists line up with the batches of the two outputs of Segment.segment *)
Theorem C11_opts_aligned : forall fixed T cr f,
  let '(_, bs, is) := side_opts fixed T cr f in
  List.length bs = List.length (flat_map (part T cr) (map so_batch (sfo_batches f)))
  /\ List.length is = List.length (flat_map (ipart T cr) (map so_batch (sfo_iat f))).
Proof. exact side_opts_aligned. Qed.
Print Assumptions C11_opts_aligned.

(* both output files carry the file's options; every batch of an output holds at least
   the options stored on the input batch its entries come from *)
Theorem C11_opts_kept : forall T cr f,
  let '(fo, bs, is) := side_opts true T cr f in
  fo = sfo_opts f
  /\ (forall o, In o bs -> exists b, In b (sfo_batches f) /\ In o (part_opts true T cr (sfo_opts f) b)
                                     /\ MergeOptsFacts.osub (so_opts b) o)
  /\ (forall o, In o is -> exists b, In b (sfo_iat f) /\ In o (ipart_opts true T cr (sfo_opts f) b)
                                     /\ MergeOptsFacts.osub (so_opts b) o).
Proof. exact side_opts_kept. Qed.
Print Assumptions C11_opts_kept.

(* a batch split off a mixed (or ADV) batch holds exactly file options merged with the
   source batch's, hence also everything the file holds *)
Theorem C11_opts_split : forall T cr fo b o,
  splits_std T b = true -> In o (part_opts true T cr fo b) ->
  MergeOptsFacts.osub fo o /\ o = MergeOpts.omerge fo (so_opts b).
Proof. exact part_opts_split. Qed.
Print Assumptions C11_opts_split.

Theorem C11_opts_split_iat : forall T cr fo b o,
  splits_iat T b = true -> In o (ipart_opts true T cr fo b) ->
  MergeOptsFacts.osub fo o /\ o = MergeOpts.omerge fo (so_opts b).
Proof. exact ipart_opts_split. Qed.
Print Assumptions C11_opts_split_iat.

(* a credits-only / debits-only batch is handed over with exactly its own options *)
Theorem C11_opts_reuse_exact : forall T cr fo b o,
  splits_std T b = false -> In o (part_opts true T cr fo b) -> o = so_opts b.
Proof. exact part_opts_reuse. Qed.
Print Assumptions C11_opts_reuse_exact.

(* nothing is invented *)
Theorem C11_opts_no_invention : forall T cr fo b o i,
  In o (part_opts true T cr fo b) -> MergeOpts.oflag i o = true ->
  MergeOpts.oflag i fo = true \/ MergeOpts.oflag i (so_opts b) = true.
Proof. exact part_opts_no_invention. Qed.
Print Assumptions C11_opts_no_invention.

(* the code before 9ad8a729 (fresh batches without SetValidation): C11_opts_kept is false
   over the tables of this run — the credit half of a mixed batch that carries
   CustomTraceNumbers carries nothing, so Batch.Create renumbers its entries *)
Theorem C11_opts_kept_unfixed_refuted :
  exists f b o, In b (sfo_batches f) /\ In o (part_opts false ST true (sfo_opts f) b)
    /\ MergeOpts.oflag MergeOpts.ix_custom_trace (so_opts b) = true
    /\ ~ MergeOptsFacts.osub (so_opts b) o.
Proof. exact opts_kept_unfixed_refuted. Qed.
Print Assumptions C11_opts_kept_unfixed_refuted.

(* the source of this run stores option values exactly where the model does *)
Theorem C11_opt_sites :
  opt_sites = expected_sites
  /\ In (OSite "setSegmentBatchValidation" "split" "f.validateOpts.merge(batchValidation(from))") opt_sites
  /\ In (OSite "File.segmentFileIATBatches" "creditIATBatch" "f.validateOpts.merge(iatb.validateOpts)") opt_sites
  /\ In (OSite "File.segmentFileIATBatches" "debitIATBatch" "f.validateOpts.merge(iatb.validateOpts)") opt_sites.
Proof.
  exact (conj (proj1 opt_sites_facts) (proj2 (proj2 (proj2 (proj2 opt_sites_facts))))).
Qed.
Print Assumptions C11_opt_sites.

(* C12, phase 4 — FlattenBatches and the ValidateOpts stored on the file and its
   batches (files that are valid ONLY under those options: 41f38276).
   Only statements here; every proof is `exact <lemma>`.

   Model: coq/Model/FlattenOpts.v — the batches of Flatten.v paired with the option
   value stored on them; Consume merges the option values (ValidateOpts.merge of the
   merge model, MergeOpts.omerge), Copy starts from a batch without options, the new
   file takes the file's value.  Tie: Gen/OptSites.v (the SetValidation statements of
   file_flattener.go, reflection) and the correspondence of harness/cmd/optsdom with
   the extracted [flatten_o_stable_view] on the real FlattenBatches. *)
From Coq Require Import List ZArith Bool String.
From ACH Require Import Bytes Flatten FlattenFacts FlattenOpts FlattenOptsFacts OptSitesTable OptSites OptSitesObl C12OptsObl.
From ACH Require MergeOpts MergeOptsFacts.

(* forgetting the options commutes with Flatten: the batches of the result are those of
   the option-free model, so C12_conservation, C12_figures, C12_sorted, C12_maximal,
   C12_idempotent and C12_wellformed hold for files carrying any options *)
Theorem C12_opts_erasure : forall f,
  map bo_batch (fo_batches (flatten_o_stable f)) = flatten_stable (map bo_batch (fo_batches f)).
Proof. exact flatten_o_erasure. Qed.
Print Assumptions C12_opts_erasure.

Theorem C12_opts_erasure_hint : forall f hint,
  option_map (fun g => map bo_batch (fo_batches g)) (flatten_o_hint f hint)
  = flatten_hint (map bo_batch (fo_batches f)) hint.
Proof. exact flatten_o_hint_erasure. Qed.
Print Assumptions C12_opts_erasure_hint.

(* every batch of the input ends up, with all its entries and under its header
   signature, in a batch of the result whose option value holds at least every flag
   (and a CheckTransactionCode, if it had one) of the input batch: the consolidated
   batch's option set contains each consumed batch's *)
Theorem C12_opts_kept : forall f b,
  kinds_consistent (map bo_batch (fo_batches f)) -> In b (fo_batches f) ->
  exists r, In r (fo_batches (flatten_o_stable f)) /\ covers b r.
Proof. exact flatten_opts_kept. Qed.
Print Assumptions C12_opts_kept.

(* ... for every processing order (sort.Slice leaves it open above 12 batches) *)
Theorem C12_opts_kept_any_order : forall order b,
  kinds_consistent (map bo_batch order) -> In b order ->
  exists r, In r (finalize_o (all_batches_o (run_o consume_o order))) /\ covers b r.
Proof. exact flatten_order_opts_kept. Qed.
Print Assumptions C12_opts_kept_any_order.

Theorem C12_opts_kept_hint : forall f hint g b,
  kinds_consistent (map bo_batch (fo_batches f)) -> flatten_o_hint f hint = Some g -> In b (fo_batches f) ->
  fo_opts g = fo_opts f /\ exists r, In r (fo_batches g) /\ covers b r.
Proof. exact flatten_hint_opts_kept. Qed.
Print Assumptions C12_opts_kept_hint.

(* the flattened file carries the options of the file being flattened *)
Theorem C12_file_opts_kept : forall f, fo_opts (flatten_o_stable f) = fo_opts f.
Proof. exact flatten_o_file_opts. Qed.
Print Assumptions C12_file_opts_kept.

(* nothing is invented: a flag of a batch of the result is a flag of an input batch with
   the same header signature *)
Theorem C12_opts_no_invention : forall f r,
  In r (fo_batches (flatten_o_stable f)) -> from_inputs (fo_batches f) r.
Proof. exact flatten_opts_no_invention. Qed.
Print Assumptions C12_opts_no_invention.

(* the code before 41f38276 (Consume without the SetValidation statement): the
   statement C12_opts_kept is false — a batch carrying CustomTraceNumbers is consolidated
   into a batch that carries nothing, so Batch.Create renumbers its entries *)
Theorem C12_opts_kept_unfixed_refuted :
  exists f b, In b (fo_batches f) /\ kinds_consistent (map bo_batch (fo_batches f))
    /\ ~ exists r, In r (fo_batches (flatten_unfixed_stable f)) /\ covers b r.
Proof. exact opts_kept_unfixed_refuted. Qed.
Print Assumptions C12_opts_kept_unfixed_refuted.

(* the source of this run stores option values exactly where the model does *)
Theorem C12_opt_sites :
  opt_sites = expected_sites
  /\ In (OSite "mergeableBatcher.Consume" "m.batcher" "batchValidation(m.batcher).merge(batchValidation(batcherToConsume))") opt_sites
  /\ In (OSite "mergeableIATBatch.Consume" "m.iatBatch" "m.iatBatch.validateOpts.merge(batchToConsume.validateOpts)") opt_sites.
Proof. exact (conj (proj1 opt_sites_facts) (conj (proj1 (proj2 (proj2 opt_sites_facts))) (proj1 (proj2 (proj2 (proj2 opt_sites_facts)))))). Qed.
Print Assumptions C12_opt_sites.

(* C01 — the DEFAULT reader (with validation) accepts what the Writer wrote from a valid file, and
   returns it.  Only statements; proofs in Codec/ReaderValidFacts.v and Oblig/C01ValidObl.v.

   LT / RT / AT          layouts (Gen/Layouts.v), record rules (Gen/RecRules.v), arithmetic tables
                         (Gen/Tables.v) regenerated from the source of this run
   read_file LT          Reader.Read under ValidateOpts{SkipAll} (Codec/Dispatch.v, Props/C01File.v)
   read_file_valid       Reader.Read with default validation (Codec/ReaderValid.v): the same record
                         dispatch; every parsed record must pass rec_validb of its type (x.Validate()),
                         every batch closed by its control record validate_batch on its projection
                         (batch.Validate()); Read does not validate the file as a whole.  Result
                         (f, flag): flag = a batch was left without control record (Go adds it
                         unvalidated) or an unfinished IAT batch was dropped
   read_file_strict      the same machine answering None where the flag would be raised
   read_then_validate    Read followed by File.Validate() (validate_file on the projection)
   rec_passb RT x        the record passes the regenerated reject conditions of its Validate()
   rec_keepsb LT RT x    every term those conditions read has the same value on x and on x as it is
                         read back (for `x.F == ""` the same emptiness)
   batches_okb AT g      every batch of g passes validate_batch
   tree_validb RT AT g   all records rec_passb, all batches validate_batch
   p_file g              the arithmetic skeleton (Model/Arith.v) of the typed tree *)
From Coq Require Import String List NArith ZArith Bool.
From ACH Require Import Arith.
From ACH Require Import ReaderValid ReaderValidFacts ReaderValidCanon ReaderValidProj LayoutRoundtrip FramingFacts DispatchBytes.
From ACH Require Import Layouts RecRules Tables ReaderValidSites C01FileEx C01FileObl C01ValidObl.
Import ListNotations.
Local Open Scope string_scope.
Local Open Scope list_scope.

(* where reader.go validates, as of this run: the regenerated event list (Parse / maybeValidate per
   Reader method, in source order) is the table the model was written against; every Parse is
   directly followed by the validation of the same record; the closed batch is validated in
   parseLine (both branches); Read itself validates nothing *)
Theorem C01_validate_sites_checked :
  gen_validate_events = validate_events /\ gen_maybe_validate = maybe_validate_src
  /\ forallb (fun p => parse_validated (snd p)) gen_validate_events = true
  /\ assoc "parseLine" gen_validate_events = Some ["V:batch"; "V:&batch"]
  /\ assoc "Read" gen_validate_events = Some [].
Proof. exact (conj (proj1 validate_events_ok) (conj (proj2 validate_events_ok) (conj every_parse_validated batch_sites))). Qed.
Print Assumptions C01_validate_sites_checked.

(* the record the model validates is the record Go validates: every field a recognised rule reads is
   assigned by Parse (so NewX() defaults do not matter), and every layout has its rule list *)
Theorem C01_rules_read_assigned :
  forallb (fun L => forallb (fun g => is_some (find_key (l_cuts L) g)) (rules_reads (rules_for RT (l_name L)))) LT = true
  /\ map fst RT = map l_name LT.
Proof. exact (conj rules_read_assigned rules_cover_layouts). Qed.
Print Assumptions C01_rules_read_assigned.

(* validation only rejects: whenever the validating reader returns a file (no batch left open),
   it is the file the reader without validation returns *)
Theorem C01_valid_reader_refines : forall ls f,
  read_file_valid LT RT AT ls = Some (f, false) -> read_file LT ls = Some f.
Proof. exact c01_valid_reader_refines. Qed.
Print Assumptions C01_valid_reader_refines.

(* ... and every record of it passes its rules, every batch the batch arithmetic *)
Theorem C01_valid_reader_sound : forall ls f,
  read_file_valid LT RT AT ls = Some (f, false) -> tree_validb RT AT f = true.
Proof. exact c01_valid_reader_sound. Qed.
Print Assumptions C01_valid_reader_sound.

(* the flag: (f, false) is returned exactly when the machine without the unclosed-batch tolerance returns f *)
Theorem C01_valid_reader_strict : forall ls f,
  read_file_valid LT RT AT ls = Some (f, false) <-> read_file_strict LT RT AT ls = Some f.
Proof. exact c01_valid_strict. Qed.
Print Assumptions C01_valid_reader_strict.

(* parsing a rendered valid record yields a valid record, when the rules read the same values *)
Theorem C01_valid_parsed : forall x,
  rec_passb RT x = true -> rec_keepsb LT RT x = true -> rec_passb RT (parsed_rec LT x) = true.
Proof. exact c01_valid_parsed. Qed.
Print Assumptions C01_valid_parsed.

(* for 24 of the 26 record types [rec_keepsb] follows from the canonical-value condition of the record
   codec proofs ([canonb], Props/C01Records.v): every recognised rule of these types reads only fields
   that String() writes with a simple segment and Parse reads back from its own columns
   ([rules_simple], evaluated on the regenerated rules and layouts) *)
Theorem C01_valid_canon_layouts :
  map l_name canon_layouts =
  [ "ADVBatchControl"; "ADVEntryDetail"; "ADVFileControl"; "Addenda02"; "Addenda05"; "Addenda10"; "Addenda11"; "Addenda12"
  ; "Addenda13"; "Addenda14"; "Addenda15"; "Addenda16"; "Addenda17"; "Addenda18"; "Addenda98"; "Addenda98Refused"
  ; "Addenda99Contested"; "Addenda99Dishonored"; "BatchControl"; "BatchHeader"; "EntryDetail"; "FileControl"
  ; "IATBatchHeader"; "IATEntryDetail" ].
Proof. exact canon_layouts_names. Qed.
Print Assumptions C01_valid_canon_layouts.

Theorem C01_valid_canon_keeps : forall x L,
  layout_of LT (r_kind x) = Some L -> In L canon_layouts ->
  fitsb L (r_val x) = true -> canonb L (r_val x) = true -> rec_keepsb LT RT x = true.
Proof. exact c01_canon_keeps. Qed.
Print Assumptions C01_valid_canon_keeps.

Theorem C01_valid_canon_parsed : forall x L,
  layout_of LT (r_kind x) = Some L -> In L canon_layouts ->
  fitsb L (r_val x) = true -> canonb L (r_val x) = true ->
  rec_passb RT x = true -> rec_passb RT (parsed_rec LT x) = true.
Proof. exact c01_canon_valid_parsed. Qed.
Print Assumptions C01_valid_canon_parsed.

(* the two other record types, and the rules of theirs that read something else (a hand-modelled
   accessor; fields Parse assigns as constants or through its own conversions): there [rec_keepsb]
   stays the hypothesis *)
Theorem C01_valid_other_layouts :
  map (fun L => (l_name L, map fst (filter (fun lc => negb (cond_simple L (snd lc))) (rules_for RT (l_name L))))) other_layouts =
  [ ("Addenda99", ["Addenda99.Validate#3"])
  ; ("FileHeader", [ "FileHeader.fieldInclusion#1"; "FileHeader.fieldInclusion#2"; "FileHeader.fieldInclusion#3"
                   ; "FileHeader.fieldInclusion#5"; "FileHeader.fieldInclusion#6"; "FileHeader.fieldInclusion#7"
                   ; "FileHeader.ValidateWith#10"; "FileHeader.ValidateWith#11"; "FileHeader.ValidateWith#12"
                   ; "FileHeader.ValidateWith#14"; "CheckRoutingNumber#15"; "CheckRoutingNumber#16" ]) ].
Proof. exact other_layouts_rules. Qed.

Theorem C01_valid_canon_example :
  let x := parsed_rec LT (bt_hdr (hd (mkBat a02 [] a02) (fl_iat ex_iat))) in
  layout_of LT (r_kind x) = Some L_IATBatchHeader
  /\ fitsb L_IATBatchHeader (r_val x) = true /\ canonb L_IATBatchHeader (r_val x) = true /\ rec_passb RT x = true
  /\ rec_keepsb LT RT x = true.
Proof. exact canon_example. Qed.

(* write then read WITH validation: any number of filler records *)
Theorem C01_valid_roundtrip : forall f k,
  all_file (rec_fitsb LT) f = true -> dispatchb LT f = true ->
  all_file (rec_passb RT) f = true -> all_file (rec_keepsb LT RT) f = true ->
  batches_okb AT (parsed_file LT f) = true ->
  read_file_valid LT RT AT (write_file LT f ++ repeat nines k) = Some (parsed_file LT f, false).
Proof. exact c01_valid_roundtrip. Qed.
Print Assumptions C01_valid_roundtrip.

(* the arithmetic hypothesis on the file AS WRITTEN: when the batch headers, entries and batch controls come
   back with the same protected values (proj_keepsb), the projection of the file read back is the
   projection of the file written *)
Theorem C01_valid_roundtrip_orig : forall f k,
  all_file (rec_fitsb LT) f = true -> dispatchb LT f = true ->
  all_file (rec_passb RT) f = true -> all_file (rec_keepsb LT RT) f = true ->
  proj_keepsb LT f = true -> batches_okb AT f = true ->
  read_file_valid LT RT AT (write_file LT f ++ repeat nines k) = Some (parsed_file LT f, false).
Proof. exact c01_valid_roundtrip_orig. Qed.
Print Assumptions C01_valid_roundtrip_orig.

Theorem C01_valid_batches_kept : forall f,
  proj_keepsb LT f = true -> batches_okb AT (parsed_file LT f) = batches_okb AT f.
Proof. exact c01_batches_okb_kept. Qed.
Print Assumptions C01_valid_batches_kept.

(* proj_keepsb from canonical values (canonb), record by record, for the seven layouts that carry protected fields *)
Theorem C01_valid_canon_fields_kept : forall x L ss is_,
  layout_of LT (r_kind x) = Some L -> role_simple L ss is_ = true ->
  fitsb L (r_val x) = true -> canonb L (r_val x) = true -> fields_keptb LT ss is_ x = true.
Proof. exact c01_canon_fields_kept. Qed.
Print Assumptions C01_valid_canon_fields_kept.

Theorem C01_valid_proj_roles :
  role_simple L_BatchHeader hdr_str_fields hdr_int_fields = true
  /\ role_simple L_IATBatchHeader hdr_str_fields hdr_int_fields = true
  /\ role_simple L_EntryDetail (entry_str_fields KStd) entry_int_fields = true
  /\ role_simple L_IATEntryDetail (entry_str_fields KIAT) entry_int_fields = true
  /\ role_simple L_ADVEntryDetail (entry_str_fields KADV) entry_int_fields = true
  /\ role_simple L_BatchControl ctl_str_fields ctl_int_fields = true
  /\ role_simple L_ADVBatchControl ctl_str_fields ctl_int_fields = true.
Proof. exact proj_roles_simple. Qed.

(* ... in particular the writer's own blocked output *)
Theorem C01_valid_roundtrip_padded : forall f,
  all_file (rec_fitsb LT) f = true -> dispatchb LT f = true ->
  all_file (rec_passb RT) f = true -> all_file (rec_keepsb LT RT) f = true ->
  batches_okb AT (parsed_file LT f) = true ->
  read_file_valid LT RT AT (write_file_padded LT f) = Some (parsed_file LT f, false).
Proof. exact c01_valid_roundtrip_padded. Qed.
Print Assumptions C01_valid_roundtrip_padded.

(* the same with the validity of the tree AS READ BACK as the hypothesis (no condition on f's own values) *)
Theorem C01_valid_roundtrip_parsed : forall f k,
  all_file (rec_fitsb LT) f = true -> dispatchb LT f = true ->
  tree_validb RT AT (parsed_file LT f) = true ->
  read_file_valid LT RT AT (write_file LT f ++ repeat nines k) = Some (parsed_file LT f, false).
Proof. exact c01_valid_roundtrip_parsed. Qed.
Print Assumptions C01_valid_roundtrip_parsed.

(* bytes: every physical layout of the written records (any separator junk), default validation *)
Theorem C01_valid_text_roundtrip : forall f k j0 recs,
  all_file (rec_fitsb LT) f = true -> dispatchb LT f = true -> all_file (rec_no_nl LT) f = true ->
  tree_validb RT AT (parsed_file LT f) = true ->
  map fst recs = write_file LT f ++ repeat nines k ->
  Forall junk_ok j0 -> Forall (fun p => Forall junk_ok (snd p)) recs ->
  read_text_valid LT RT AT (junk_bytes j0 ++ text_of recs) = Some (parsed_file LT f, false).
Proof. exact c01_valid_text_roundtrip. Qed.
Print Assumptions C01_valid_text_roundtrip.

(* Read + File.Validate() *)
Theorem C01_read_then_validate : forall ls f lg,
  read_then_validate LT RT AT ls = Some (f, lg) <->
  read_file_valid LT RT AT ls = Some (f, lg) /\ validate_file AT (p_file f) = ROk.
Proof. exact c01_read_then_validate. Qed.
Print Assumptions C01_read_then_validate.

(* non-vacuity: the four generated files (standard batches with addenda 05 / 98; returns and a refused
   NOC; an IAT file of 31 records; an ADV file) meet every hypothesis *)
Theorem C01_valid_examples : vhyps ex_std = true /\ vhyps ex_ret = true /\ vhyps ex_iat = true /\ vhyps ex_adv = true.
Proof. exact (conj ex_std_vhyps (conj ex_ret_vhyps (conj ex_iat_vhyps ex_adv_vhyps))). Qed.

Theorem C01_valid_examples_orig :
  proj_keepsb LT ex_std && batches_okb AT ex_std && proj_keepsb LT ex_ret && batches_okb AT ex_ret
  && proj_keepsb LT ex_iat && batches_okb AT ex_iat && proj_keepsb LT ex_adv && batches_okb AT ex_adv = true.
Proof. exact ex_orig_hyps. Qed.

Theorem C01_valid_example_roundtrip :
  read_file_valid LT RT AT (write_file_padded LT ex_iat) = Some (parsed_file LT ex_iat, false).
Proof. exact ex_iat_valid_roundtrip. Qed.

(* [rec_keepsb] is needed, and the statement without it is REFUTED (known finding
   roundtrip:valid:blank-only-mandatory-field:read-error, replayed on the Go code): a company name that
   is a single blank validates, is written as 16 blanks, is read back empty and rejected *)
Theorem C01_valid_roundtrip_blank_field_refuted :
  let f := rename_company " " ex_std in
  all_file (rec_fitsb LT) f = true /\ all_file (rec_stableb LT) f = true /\ dispatchb LT f = true
  /\ all_file (rec_passb RT) f = true /\ batches_okb AT (parsed_file LT f) = true
  /\ all_file (rec_keepsb LT RT) f = false
  /\ rec_passb RT (parsed_rec LT (bt_hdr (hd (mkBat a02 [] a02) (fl_batches f)))) = false
  /\ read_file LT (write_file_padded LT f) = Some (parsed_file LT f)
  /\ read_file_valid LT RT AT (write_file_padded LT f) = None.
Proof. exact blank_company_refuted. Qed.

Theorem C01_valid_parsed_blank_field_refuted :
  rec_fitsb LT a02_blank_city = true /\ rec_passb RT a02_blank_city = true
  /\ rec_keepsb LT RT a02_blank_city = false /\ rec_passb RT (parsed_rec LT a02_blank_city) = false
  /\ rec_passb RT a02 = true /\ rec_keepsb LT RT a02 = true /\ rec_passb RT (parsed_rec LT a02) = true.
Proof. exact blank_city_refuted. Qed.

(* FileHeader: a creation date of six characters that is no calendar date validates (only `!= ""` is
   tested), is written as it is, is blanked by Parse and the header read back is rejected (known finding
   roundtrip:valid:file-creation-date-not-calendar:read-error, replayed on the Go code) *)
Theorem C01_valid_roundtrip_file_creation_date_refuted :
  let f := set_hdr "FileCreationDate" (VS (bstr "250230")) ex_std in
  all_file (rec_fitsb LT) f = true /\ all_file (rec_stableb LT) f = false /\ dispatchb LT f = true
  /\ all_file (rec_passb RT) f = true /\ batches_okb AT (parsed_file LT f) = true
  /\ rec_keepsb LT RT (fl_hdr f) = false /\ rec_passb RT (parsed_rec LT (fl_hdr f)) = false
  /\ read_file LT (write_file_padded LT f) = Some (parsed_file LT f)
  /\ read_file_valid LT RT AT (write_file_padded LT f) = None.
Proof. exact file_creation_date_refuted. Qed.

(* ... while a value that merely comes back padded is fine *)
Theorem C01_valid_padded_name_kept :
  let e := en_rec (hd (mkEnt a02 []) (bt_entries (hd (mkBat a02 [] a02) (fl_batches ex_std)))) in
  rec_keepsb LT RT e = true
  /\ (length (gets (r_val e) "IndividualName") < 22)%nat
  /\ length (gets (r_val (parsed_rec LT e)) "IndividualName") = 22%nat.
Proof. exact padded_name_kept. Qed.

(* the other hypotheses are needed: batch arithmetic, record rules *)
Theorem C01_valid_batch_arith_needed :
  let f := bump_ctl ex_std in
  all_file (rec_fitsb LT) f = true /\ dispatchb LT f = true /\ all_file (rec_passb RT) f = true
  /\ all_file (rec_keepsb LT RT) f = true /\ batches_okb AT (parsed_file LT f) = false
  /\ read_file LT (write_file_padded LT f) = Some (parsed_file LT f)
  /\ read_file_valid LT RT AT (write_file_padded LT f) = None.
Proof. exact batch_arith_needed. Qed.

Theorem C01_valid_record_rules_needed :
  let f := recode_entry 20 ex_std in
  all_file (rec_fitsb LT) f = true /\ dispatchb LT f = true /\ all_file (rec_passb RT) f = false
  /\ read_file LT (write_file_padded LT f) = Some (parsed_file LT f)
  /\ read_file_valid LT RT AT (write_file_padded LT f) = None.
Proof. exact record_rules_needed. Qed.

(* what Read does NOT check: the file control arithmetic (left to File.Validate()), and a batch that
   is never closed by a control record (added to the file without any validation; flag true) *)
Theorem C01_read_skips_file_arith :
  let f := bump_fctl ex_std in
  read_file_valid LT RT AT (write_file_padded LT f) = Some (parsed_file LT f, false)
  /\ validate_file AT (p_file (parsed_file LT f)) = RFCount
  /\ read_then_validate LT RT AT (write_file_padded LT f) = None
  /\ read_then_validate LT RT AT (write_file_padded LT ex_std) = Some (parsed_file LT ex_std, false).
Proof. exact read_skips_file_arith. Qed.

Theorem C01_lingering_batch_accepted :
  let ls := drop_nth 6 (write_file_padded LT ex_std) in
  rtype (nth 6 (write_file_padded LT ex_std) []) = T8
  /\ read_file LT ls = None /\ read_file_strict LT RT AT ls = None
  /\ (exists g, read_file_valid LT RT AT ls = Some (g, true)
        /\ map (fun b => r_val (bt_ctl b)) (fl_batches g) = [[]; r_val (parsed_rec LT (bt_ctl (nth 1 (fl_batches ex_std) (mkBat a02 [] a02))))])
  /\ read_then_validate LT RT AT ls = None.
Proof. exact lingering_batch_accepted. Qed.

(* C13 — Reversal flips every entry and yields a valid reversing file.
   Only statements here; every proof is `exact <lemma>`.  RT bundles the tables
   regenerated from reversal.go / batch.go / validators.go on this run. *)
From Coq Require Import ZArith NArith List Bool.
Import ListNotations.
From ACH Require Import Bytes TxCodes RevTable Reversal ReversalFacts ReversalTable C13Obl.
Open Scope Z_scope.

(* The switch of File.Reversal as it stands in the source: for every code with an
   opposite-direction counterpart (all standard entry codes except 53, 54) the
   new code has the same tens digit (account type), the opposite direction
   (units digit 1..4 credit, 5..9 debit), is again a reversible standard code,
   maps back to the original, the hasCredits/hasDebits flag set by the clause
   is the direction of the new code, and prenote codes stay prenote codes. *)
Theorem C13_code_map : forall c, reversible rev_standard_codes c = true ->
  rev_code reversal_arms c / 10 = c / 10 /\
  digit_dir (rev_code reversal_arms c) = opposite (digit_dir c) /\
  digit_dir c <> TNone /\
  reversible rev_standard_codes (rev_code reversal_arms c) = true /\
  rev_code reversal_arms (rev_code reversal_arms c) = c /\
  arm_flags reversal_arms c = (target_eqb (digit_dir (rev_code reversal_arms c)) TCredit,
                               target_eqb (digit_dir (rev_code reversal_arms c)) TDebit) /\
  memz (rev_code reversal_arms c) rev_prenote_codes = memz c rev_prenote_codes.
Proof. exact (fun c H => match reversal_code_map c H with
                         | Build_code_props _ _ _ _ a b c0 d e f g => conj a (conj b (conj c0 (conj d (conj e (conj f g))))) end). Qed.
Print Assumptions C13_code_map.

Theorem C13_reversible_set :
  filter (reversible rev_standard_codes) rev_standard_codes =
  [21; 22; 23; 24; 26; 27; 28; 29; 31; 32; 33; 34; 36; 37; 38; 39; 41; 42; 43; 44; 46; 47; 48; 49; 51; 52; 55; 56].
Proof. exact reversible_set. Qed.

(* Every valid batch of reversible codes, of any size and mix, that is not described
   PRENOTE: amounts, account tags and traces unchanged, codes flipped within the account
   type, control totals swapped, header and control service class = class of the new
   directions, description REVERSAL, effective date the requested one, and the result
   passes the modelled batch validation (class/direction consistency, control totals =
   re-computed totals, standard codes, amount rule of ValidAmountForCodes). *)
Theorem C13_batch_partial : forall d b,
  rbatch_valid RT b = true -> all_reversible RT b = true -> is_prenote_desc (rb_desc b) = false ->
  batch_reversed RT d b (reversal_batch RT d b).
Proof. exact reversal_batch_ok. Qed.
Print Assumptions C13_batch_partial.

(* without the last hypothesis the statement is false of the code as it stands (known finding
   reversal:prenote-description-zero-amount): a valid credits-only batch described PRENOTE with
   a zero-amount code 22 is reversed into a batch the amount rule rejects *)
Theorem C13_batch_refuted :
  rbatch_valid RT prenote_batch = true /\ all_reversible RT prenote_batch = true
  /\ rbatch_valid RT (reversal_batch RT [50]%N prenote_batch) = false.
Proof. exact reversal_prenote_description. Qed.
Print Assumptions C13_batch_refuted.

Theorem C13_description : reversal_description = [82; 69; 86; 69; 82; 83; 65; 76]%N. (* "REVERSAL" *)
Proof. exact (proj1 (bytes_eqb_eq _ _) reversal_description_ok). Qed.

Theorem C13_twice : forall d1 d2 b, all_reversible RT b = true ->
  codes (reversal_batch RT d2 (reversal_batch RT d1 b)) = codes b.
Proof. exact reversal_twice. Qed.
Print Assumptions C13_twice.

(* Every valid file of such batches (file_reversible: reversible codes only, no batch described
   PRENOTE): Reversal succeeds, every batch is reversed
   as above, file date/time are the requested ones, file totals are swapped and
   the result passes the modelled file validation. *)
Theorem C13_file_partial : forall d t f,
  rfile_valid RT f = true -> file_reversible RT f = true ->
  exists f', reversal_file RT d t f = ROk f' /\ file_reversed RT d t f f'.
Proof. exact reversal_file_ok. Qed.
Print Assumptions C13_file_partial.

(* why 53 and 54 are excluded: the switch sends them to 58 / 59, not transaction codes *)
Theorem C13_loan_prenote_excluded :
  rev_code reversal_arms 53 = 58 /\ rev_code reversal_arms 54 = 59 /\
  memz 58 rev_standard_codes = false /\ memz 59 rev_standard_codes = false.
Proof. exact loan_prenote_not_reversible. Qed.

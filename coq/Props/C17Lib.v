(* C17, phase 2 — the library hypotheses of C17_unchanged_if_tabulated discharged.
   Only statements here; every proof is `exact <lemma>`.

   Proto/ServerLib.v interprets the library symbols of the server model on the states of the
   models that own them: a stored file is (File.ID, the three validateOpts bits File.Create
   reads, Offsets.file — C05's view of batches, entries, controls —, Purity.file — C14's view
   of nil headers / controls and SEC codes).  lcreate is File.Create as coded (guards by
   validateOpts, IsADV, the non-ADV tabulation = Offsets.file_create, createFileADV);
   lop o is Purity.step (Validate, ValidateWith, String, MarshalJSON, Writer.Write);
   lcontents / lbuild / lflatsrc / lsegsrc / lbal compose them as server/service.go does on
   the STORED object; vstep is the handlers on a map ID -> value with every library call they
   make, read-only ones included.  [labels] are the library outcomes outside the two views
   (verdicts of header / file validation, which entries the Batch.Create of a consolidated or
   segmented batch reaches and at which position, decoded bodies, the new objects): every
   theorem holds for ALL labels.  T is the offset table regenerated from batch.go. *)
From Coq Require Import List ZArith NArith Bool.
Import ListNotations.
From ACH Require Import Server ServerFacts ServerLib ServerLibFacts C17LibObl.
From ACH Require Offsets OffsetsFacts OffsetTable Purity.

(* ---- hypothesis 1 of C17_unchanged_if_tabulated: "Create is the identity on what the ID shows" *)

(* File.Create twice = File.Create once — status and object — on EVERY stored value: guards
   failing, tabulating, ADV, or cut short by ErrFileADVOnly (from C05: renumber_idem, the
   lemma behind C05_file_idempotent; from C14: isADV_idem) *)
Theorem C17_create_idempotent_discharged : forall v, lcreate (snd (lcreate v)) = lcreate v.
Proof. exact lcreate_idem. Qed.
Print Assumptions C17_create_idempotent_discharged.

(* so whatever a Create-running endpoint (contents, build, flatten, segment, balance) leaves
   behind satisfies the hypothesis [tabulated] of C17_unchanged_if_tabulated *)
Theorem C17_tabulated_discharged : forall v, tabulated lfile lcreate' (lcreate' v).
Proof. exact tabulated_after_create. Qed.
Print Assumptions C17_tabulated_discharged.

(* "went through Create" = Create succeeds and returns the object as it is; it holds of every
   successful result *)
Theorem C17_created_after_create : forall w v, lcreate w = (SOk, v) -> created v.
Proof. exact create_ok_created. Qed.
Print Assumptions C17_created_after_create.

(* lcreate is C05's file_create wherever that model applies (validateOpts == nil, no ADV batch) *)
Theorem C17_create_is_c05 : forall v f',
  lf_opts v = co_nil -> snd (Purity.isADV (lf_pur v)) = false ->
  Offsets.file_create (lf_off v) = Offsets.Ret true f' ->
  lcreate v = (SOk, mklf (lf_id v) co_nil f' (Purity.install (lf_pur v))).
Proof. exact lcreate_is_file_create. Qed.
Print Assumptions C17_create_is_c05.

(* ---- the read-only calls (C14) *)

(* what a successful Create returns has no nil header / control up to its first ADV batch
   (C14's exact purity condition) ... *)
Theorem C17_created_is_pure : forall w v, lcreate w = (SOk, v) -> Purity.prefix_inv (lf_pur v) = true.
Proof. exact create_result_pure. Qed.
Print Assumptions C17_created_is_pure.

(* ... so every history of Validate / ValidateWith / String / MarshalJSON / Writer.Write calls
   (any flags, any verdicts) leaves a stored file that went through Create exactly as it is *)
Theorem C17_readonly_discharged : forall ops v,
  created v -> fold_left (fun w o => lop o w) ops v = v.
Proof. exact readonly_calls_fixed. Qed.
Print Assumptions C17_readonly_discharged.

(* ---- composed: the store under read requests *)

(* For every labelling, every history of read requests that run neither FlattenBatches nor
   SegmentFile on a stored file (get, list, contents LF|CRLF, validate with any options,
   build, get / list batches, segment of a posted body), every stored file that went through
   Create: what GET returns is unchanged. *)
Theorem C17_reads_preserve_store : forall L rs m j v,
  forallb plainread rs = true -> vold m j -> vshows m j = Some v -> created v ->
  vshows (vrun OffsetTable.offset_table L m rs) j = Some v.
Proof. exact reads_preserve_store. Qed.
Print Assumptions C17_reads_preserve_store.

(* ---- hypotheses 2 and 3: FlattenBatches / SegmentFile and their receiver *)

(* FlattenBatches (after the Create of the service) leaves the stored file alone when
   every entry carries its batch header's ODFI in its trace number — what Batch.Create
   leaves behind (C05_traces_assigned) ... *)
Theorem C17_flatten_built_unchanged : forall L v, created v -> traced v = true -> lflatsrc L v = v.
Proof. exact lflatsrc_built. Qed.
Print Assumptions C17_flatten_built_unchanged.

(* ... and SegmentFile too, for a non-ADV file none of whose batches is a mixed IAT batch
   (whole batches handed to a half keep their numbers: a created file has a number <= 1
   only in front, and it is 1) *)
Theorem C17_segment_built_unchanged : forall L v,
  created v -> traced v = true -> snd (Purity.isADV (lf_pur v)) = false ->
  (forall k, t_reset (l_seg L v) k = false) -> lsegsrc L v = v.
Proof. exact lsegsrc_built. Qed.
Print Assumptions C17_segment_built_unchanged.

(* "tabulated" alone is NOT enough on the code as it is (FlattenBatches gives the
   consolidated batch its own header now, but its Entries are the receiver's *EntryDetail
   pointers and Batch.Create writes trace numbers through them): known finding
   server:flatten-alters-stored-file, the file control and batch numbers no longer change *)
Theorem C17_flatten_tabulated_refuted :
  created v_untraced /\
  traces v_untraced = [[0; 0]]%Z /\
  traces (lflatsrc (lab false) v_untraced) = [[123456780000001; 123456780000002]]%Z /\
  Offsets.f_ctl (lf_off (lflatsrc (lab false) v_untraced)) = Offsets.f_ctl (lf_off v_untraced).
Proof. exact flatten_tabulated_changes. Qed.
Print Assumptions C17_flatten_tabulated_refuted.

(* known finding server:segment-alters-stored-file: the same through the halves ... *)
Theorem C17_segment_tabulated_refuted :
  created v_untraced /\
  traces (lsegsrc (lab false) v_untraced) = [[123456780000001; 123456780000002]]%Z.
Proof. exact segment_tabulated_changes. Qed.
Print Assumptions C17_segment_tabulated_refuted.

(* ... and a mixed IAT batch loses its trace numbers even when they carried the ODFI
   (segmentFileIATBatches: IATEntry.TraceNumber = ""); FlattenBatches leaves that file alone *)
Theorem C17_segment_iat_reset_refuted :
  created v_built_gap /\ traced v_built_gap = true /\
  traces (lsegsrc (lab true) v_built_gap) = [[123456780000001; 123456780000002]]%Z /\
  lflatsrc (lab true) v_built_gap = v_built_gap.
Proof. exact segment_iat_reset_changes. Qed.
Print Assumptions C17_segment_iat_reset_refuted.

(* Partial with respect to "every read request, every tabulated file": with flatten and
   segment of stored files in the history the stored file must be [built] (created, traced,
   not ADV, no mixed IAT batch); the two theorems above show the extra conditions are needed. *)
Theorem C17_reads_preserve_store_partial : forall L rs m j v,
  forallb readonly rs = true -> vold m j -> vshows m j = Some v -> built L v ->
  vshows (vrun OffsetTable.offset_table L m rs) j = Some v.
Proof. exact reads_preserve_store_built. Qed.
Print Assumptions C17_reads_preserve_store_partial.

(* C17_unchanged_if_tabulated for THIS interpretation of the term machine of Server.v, its
   library hypotheses replaced by the lemmas above *)
Theorem C17_unchanged_if_built : forall L rs m j v,
  forallb readonly rs = true -> mold m j ->
  lib_shows OffsetTable.offset_table L m j = Some v -> built L v ->
  lib_shows OffsetTable.offset_table L (fst (grun false m rs)) j = Some v.
Proof. exact unchanged_if_built. Qed.
Print Assumptions C17_unchanged_if_built.

(* ---- the other write paths into the stored object, as coded *)

(* known finding server:contents-alters-stored-file: a stored file that is not a fixed point
   of Create is re-tabulated by GET contents *)
Theorem C17_contents_untabulated_refuted :
  ~ created v_stale /\
  Offsets.fc_batches (Offsets.f_ctl (lf_off v_stale)) = 1%Z /\
  Offsets.fc_batches (Offsets.f_ctl (lf_off (lcontents (fun _ => vf_ok) v_stale))) = 2%Z /\
  map Offsets.b_num (Offsets.f_batches (lf_off (lcontents (fun _ => vf_ok) v_stale))) = [1; 2]%Z.
Proof. exact contents_untabulated_changes. Qed.
Print Assumptions C17_contents_untabulated_refuted.

(* known finding server:balance-overwrites-id: whenever the balance loop succeeds the stored
   object itself carries the new ID ... *)
Theorem C17_balance_new_id_on_stored : forall L v o i,
  fst (lcreate v) = SOk ->
  fst (bal_batches OffsetTable.offset_table (l_offs L o) (l_balv L (snd (lcreate v))) 0 (Offsets.f_batches (lf_off (snd (lcreate v))))) = true ->
  lf_id (lbal OffsetTable.offset_table L v o i) = i.
Proof. exact (lbal_ok_id OffsetTable.offset_table). Qed.
Print Assumptions C17_balance_new_id_on_stored.

(* ... and the offset entries *)
Theorem C17_balance_changes_stored_refuted :
  created v_credit_only /\
  let v' := lbal OffsetTable.offset_table (lab false) v_credit_only 0%N (Gen 7) in
  lf_id v' = Gen 7 /\
  map (fun b => map Offsets.e_off (Offsets.b_entries b)) (Offsets.f_batches (lf_off v')) = [[false; true]] /\
  map Offsets.b_svc (Offsets.f_batches (lf_off v')) = [200]%Z.
Proof. exact balance_appends_offset. Qed.
Print Assumptions C17_balance_changes_stored_refuted.

(* known finding server:failed-balance-alters-stored-file: the loop stops at the first batch
   whose Create fails; the batches before it are already balanced, the ID is the old one *)
Theorem C17_failed_balance_refuted :
  created v_second_bad /\
  let v' := lbal OffsetTable.offset_table (lab false) v_second_bad 0%N (Gen 7) in
  lf_id v' = Client 1 /\
  map (fun b => length (Offsets.b_entries b)) (Offsets.f_batches (lf_off v')) = [2%nat; 1%nat] /\
  v' <> v_second_bad.
Proof. exact failed_balance_changes_stored. Qed.
Print Assumptions C17_failed_balance_refuted.

(* the Batch.Create inside the balance loop always returns (C05_build_total) *)
Theorem C17_balance_build_returns : forall o b,
  exists ok b', Offsets.build OffsetTable.offset_table (with_offcfg b o) = Offsets.Ret ok b'.
Proof. exact balance_build_returns. Qed.
Print Assumptions C17_balance_build_returns.

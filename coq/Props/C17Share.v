(* C17, phase 4 — records shared BETWEEN stored files.  Only statements here; every proof is
   `exact <lemma>`.

   Proto/ServerShare.v is the store as the pointer graph the code builds:
   ID -> file object -> batch cells -> entry cells.  POST flatten stores a new file object whose
   new batch cells hold the ENTRY CELLS of the file it was made from; POST segment stores up to two
   new file objects that hold new batch cells over the receiver's entry cells (a mixed batch) or
   the receiver's BATCH CELL itself (a credits-only / debits-only batch); POST balance binds a second
   ID to the SAME file object.  Every route is the heap writes of its library calls: File.Create
   writes batch numbers into the batch cells and the file control, Batch.build trace numbers into
   the entry cells.  [shows s i] is what GET /files/i returns of the modelled fields.  Labels
   (how bodies decode, which entries a consolidated / split batch holds, control records,
   verdicts) are arbitrary in every theorem unless [wf_label] is named.  [fo_fam] etc. are ghost
   fields: the create request (or posted segment body) an object descends from. *)
From Coq Require Import List ZArith NArith Bool.
Import ListNotations.
From ACH Require Import Server ServerFacts ServerLib ServerShare ServerShareFacts ServerShareStable ServerShareDerived ShareTable ServerShareGen C17ShareObl.
From ACH Require Offsets.
Open Scope N_scope.

(* ---- which files may share which cells *)

(* Separation invariant, every request history: pointers are allocated; every batch cell a file
   object holds and every entry cell a batch cell holds is of the object's family.  So two file
   objects of different families — two create requests — have no batch cell and no entry cell in
   common; sharing exists only between a file and what flatten / segment / balance made of it. *)
Theorem C17_share_inv : forall rs, sinv (srun sinit rs).
Proof. exact sinv_reachable. Qed.
Print Assumptions C17_share_inv.

Theorem C17_share_inv_step : forall s r, sinv s -> sinv (fst (sstep s r)).
Proof. exact sinv_step. Qed.
Print Assumptions C17_share_inv_step.

(* a request works in one family: cells of any other family, and what IDs bound to files of another
   family show, are as before — for every request, every label *)
Theorem C17_share_frame : forall s r j p,
  sinv s -> lookup (ss_store s) j = Some p -> fo_fam (ss_file s p) <> req_fam s r ->
  shows (fst (sstep s r)) j = shows s j.
Proof. exact other_family_unchanged. Qed.
Print Assumptions C17_share_frame.

(* the flattened file holds new batch cells only (it shares entry cells, never a batch cell), and
   the Batches lists of the objects that existed are as they were *)
Theorem C17_flatten_result_cells : forall s p gs hdr s1,
  sinv s -> p < ss_nf s -> s_create s p = (s1, SOk) ->
  let s' := s_flatten s p (FlatOk gs hdr) in
  ss_store s' = (Gen (ss_nid s), ss_nf s) :: ss_store s /\
  (forall q, In q (all_bats (ss_file s' (ss_nf s))) -> ss_nb s <= q) /\
  lkept s s'.
Proof. exact flatten_result_cells. Qed.
Print Assumptions C17_flatten_result_cells.

(* ---- which requests on one file object change what another one shows *)

(* create, list, segment of a posted body, and the handlers that only marshal / validate: nothing *)
Theorem C17_pure_requests_change_nothing : forall s r j p',
  sinv s -> lookup (ss_store s) j = Some p' -> (rclass_of r = KNone \/ rclass_of r = KPure) ->
  shows (fst (sstep s r)) j = shows s j.
Proof. exact pure_requests_change_nothing. Qed.
Print Assumptions C17_pure_requests_change_nothing.

(* delete, add batch, delete batch: only the object addressed *)
Theorem C17_edit_stays_in_object : forall s r i p j p',
  sinv s -> rclass_of r = KEdit -> target r = Some i -> lookup (ss_store s) i = Some p ->
  lookup (ss_store s) j = Some p' -> p' <> p ->
  shows (fst (sstep s r)) j = shows s j.
Proof. exact edit_stays_in_object. Qed.
Print Assumptions C17_edit_stays_in_object.

(* contents, build (File.Create): only objects that hold one of its batch cells *)
Theorem C17_create_stays_in_batches : forall s r i p j p',
  sinv s -> rclass_of r = KCreate -> target r = Some i -> lookup (ss_store s) i = Some p ->
  lookup (ss_store s) j = Some p' -> p' <> p -> ~ share_bat s p p' ->
  shows (fst (sstep s r)) j = shows s j.
Proof. exact create_stays_in_batches. Qed.
Print Assumptions C17_create_stays_in_batches.

(* flatten, segment, balance (Batch.Create through shared entry cells): only objects of its family *)
Theorem C17_derive_stays_in_family : forall s r i p j p',
  sinv s -> target r = Some i -> lookup (ss_store s) i = Some p ->
  lookup (ss_store s) j = Some p' -> fo_fam (ss_file s p') <> fo_fam (ss_file s p) ->
  shows (fst (sstep s r)) j = shows s j.
Proof. exact derive_stays_in_family. Qed.
Print Assumptions C17_derive_stays_in_family.

(* ---- GET of a file after flatten / segment *)

(* After POST /files/A/flatten stored g: every get / validate / batch lookup / delete / add batch /
   delete batch / contents / build addressed to g leaves every other file object — A included —
   showing what it showed.  No hypothesis on A, on the labels, or on the history before. *)
Theorem C17_get_after_derive_partial : forall s i p gs hdr s1 r j p',
  sinv s -> lookup (ss_store s) i = Some p -> s_create s p = (s1, SOk) ->
  let s' := fst (sstep s (SFlatten i (FlatOk gs hdr))) in
  target r = Some (Gen (ss_nid s)) ->
  (rclass_of r = KPure \/ rclass_of r = KEdit \/ rclass_of r = KCreate) ->
  lookup (ss_store s') j = Some p' -> p' <> ss_nf s ->
  shows (fst (sstep s' r)) j = shows s' j.
Proof. exact plain_requests_on_flattened_file. Qed.
Print Assumptions C17_get_after_derive_partial.

(* The full statement "GET of A after flatten / segment of A returns what it returned before" is
   false on the code as it is — known finding server:flatten-alters-stored-file: the consolidated
   batch holds A's entry cells and its Batch.Create writes trace numbers through them ... *)
Theorem C17_get_after_derive_refuted :
  traces (srun sinit h_untraced) c1 = Some [[0; 0]]%Z /\
  traces (srun sinit (h_untraced ++ [SFlatten c1 (FlatOk [g_all] true)])) c1 = Some [[tr 1; tr 2]] /\
  traces (srun sinit (h_untraced ++ [SFlatten c1 (FlatOk [g_all] true)])) (Gen 0) = Some [[tr 1; tr 2]].
Proof. exact flatten_changes_untraced_source. Qed.
Print Assumptions C17_get_after_derive_refuted.

(* ... and these are the requests on the DERIVED file that change A (the remaining class of the
   partial theorem, KDerive, and KCreate through a shared batch cell):
   POST segment of the flattened file blanks and renumbers the IAT entry cells it shares with A
   (A ends up with the same trace number twice), *)
Theorem C17_segment_of_derived_changes_source_refuted :
  traces (srun sinit [SCreate (Some 1) None pf_iat]) c1 = Some [[tr 1; tr 2]] /\
  traces (srun sinit h_iat) c1 = Some [[tr 1; tr 2]] /\
  traces (srun sinit (h_iat ++ [SSegment (Gen 0) (SegOk [sp_cd] true true)])) c1 = Some [[tr 1; tr 1]].
Proof. exact segment_of_flattened_changes_source. Qed.
Print Assumptions C17_segment_of_derived_changes_source_refuted.

(* POST balance of the credit file puts the offset entry into A's own credits-only batch (the
   credit file holds that batch cell), *)
Theorem C17_balance_of_half_changes_source_refuted :
  traces (srun sinit h_credit) c1 = Some [[tr 1]] /\ svcs (srun sinit h_credit) c1 = Some [220]%Z /\
  traces (srun sinit (h_credit ++ [SBalance (Gen 0) 0 [bl_off]])) c1 = Some [[tr 1; tr 2]] /\
  svcs (srun sinit (h_credit ++ [SBalance (Gen 0) 0 [bl_off]])) c1 = Some [200]%Z.
Proof. exact balance_of_half_changes_source. Qed.
Print Assumptions C17_balance_of_half_changes_source_refuted.

(* GET build of the debit file, after a batch was added to it, renumbers A's debits-only IAT batch *)
Theorem C17_build_of_half_renumbers_source_refuted :
  nums (srun sinit h_iatd) c1 = Some [1]%Z /\
  nums (srun sinit (h_iatd ++ [SBuild (Gen 0)])) c1 = Some [2]%Z /\
  nums (srun sinit (h_iatd ++ [SBuild (Gen 0)])) (Gen 0) = Some [1; 2]%Z.
Proof. exact build_of_half_renumbers_source. Qed.
Print Assumptions C17_build_of_half_renumbers_source_refuted.

(* ---- DELETE *)

(* DELETE of the derived file keeps the source, DELETE of the source keeps the derived files,
   DELETE of one ID of a balanced file keeps the other: every other ID shows what it showed *)
Theorem C17_delete_derived_keeps_source : forall s i j, j <> i -> shows (fst (sstep s (SDelete i))) j = shows s j.
Proof. exact delete_keeps_others. Qed.
Print Assumptions C17_delete_derived_keeps_source.

Theorem C17_delete_then_not_shown : forall s i, shows (fst (sstep s (SDelete i))) i = None.
Proof. exact delete_then_not_shown. Qed.
Print Assumptions C17_delete_then_not_shown.

(* ---- the stored files the read routes leave alone: a decidable class, closed under reads *)

(* [file_stable s p] (a boolean on the state): File.Create on the object writes nothing new
   (its guards refuse, or every batch number is one it keeps and the file control is the one it
   computes), every entry carries its batch's ODFI (or the batch's options keep trace numbers),
   no mixed IAT batch, no ADV batch, no batch twice, IAT batches in IATBatches.  One read request
   (get, list, contents, validate, build, batch lookups, flatten, segment — labels well formed)
   addressed to a stable file: every cell that existed is as it was, and every file it stores is
   stable again. *)
Theorem C17_read_of_stable : forall s r i p,
  sinv s -> target r = Some i -> lookup (ss_store s) i = Some p -> file_stable s p = true ->
  sread_stored r = true -> wf_label s r = true -> grows_stable s (fst (sstep s r)).
Proof. exact read_of_stable. Qed.
Print Assumptions C17_read_of_stable.

Theorem C17_read_of_stable_shows : forall s r i p j p',
  sinv s -> target r = Some i -> lookup (ss_store s) i = Some p -> file_stable s p = true ->
  sread_stored r = true -> wf_label s r = true -> lookup (ss_store s) j = Some p' ->
  shows (fst (sstep s r)) j = shows s j.
Proof. exact read_of_stable_shows. Qed.
Print Assumptions C17_read_of_stable_shows.

(* the class "every stored file is stable" is closed: the files flatten / segment store are stable *)
Theorem C17_stable_class_closed : forall s r,
  sinv s -> all_stable s = true -> sread_stored r = true -> wf_label s r = true ->
  grows_stable s (fst (sstep s r)) /\ all_stable (fst (sstep s r)) = true.
Proof. exact all_stable_step. Qed.
Print Assumptions C17_stable_class_closed.

(* C17_reads_preserve_store without [built] as a hypothesis on the stored value: from any state of
   the class, every history of read requests on stored files (flatten and segment of stored
   files, of their results, of the results' results ... included) leaves what every ID shows *)
Theorem C17_reads_preserve_store_stable : forall rs s,
  sinv s -> all_stable s = true -> forallb sread_stored rs = true -> wf_run s rs = true ->
  (forall j p', lookup (ss_store s) j = Some p' -> shows (srun s rs) j = shows s j) /\
  all_stable (srun s rs) = true.
Proof. exact stable_reads_preserve. Qed.
Print Assumptions C17_reads_preserve_store_stable.

(* What POST /files/{id}/flatten stores is stable WHATEVER the file it was made from looked like
   (no [built], no [file_stable] of the source): every entry went through the Batch.Create of its
   consolidated batch, the new file through File.Create.  The label must be one FlattenBatches
   can produce: every entry in one consolidated batch, headers that validate (the Create
   succeeded), no ADV / mixed IAT header, eight digit ODFI. *)
Theorem C17_flatten_result_stable : forall s p gs hdr s1,
  sinv s -> p < ss_nf s -> s_create s p = (s1, SOk) -> wf_flat_result s p gs = true ->
  file_stable (s_flatten s p (FlatOk gs hdr)) (ss_nf s) = true.
Proof. exact flatten_result_stable. Qed.
Print Assumptions C17_flatten_result_stable.

(* ... hence every READ request addressed to the flattened file g (flatten and segment of g
   included) leaves what every ID shows — the file g was made from among them *)
Theorem C17_get_after_flatten_reads : forall s i p gs hdr s1 r j p',
  sinv s -> lookup (ss_store s) i = Some p -> s_create s p = (s1, SOk) -> wf_flat_result s p gs = true ->
  let s' := fst (sstep s (SFlatten i (FlatOk gs hdr))) in
  target r = Some (Gen (ss_nid s)) -> sread_stored r = true -> wf_label s' r = true ->
  lookup (ss_store s') j = Some p' ->
  shows (fst (sstep s' r)) j = shows s' j.
Proof. exact reads_on_flattened_file. Qed.
Print Assumptions C17_get_after_flatten_reads.

(* ---- ties *)

(* the object flow of endpoints, service, repository, FlattenBatches and SegmentFile regenerated
   from the source is the one the model was written against (reflection) *)
Theorem C17_share_table : share_facts = expected_share_facts.
Proof. exact share_facts_expected. Qed.
Print Assumptions C17_share_table.

(* the file control of the model is C05's *)
Theorem C17_share_file_control_is_c05 : forall bs, fctl_of (map Offsets.b_ctl bs) = Offsets.file_control bs.
Proof. exact fctl_of_file_control. Qed.
Print Assumptions C17_share_file_control_is_c05.

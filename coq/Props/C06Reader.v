(* C06 (phase 5) — No input makes the library or the HTTP server panic: the READER.
   The state machine of ach.Reader.Read on shapes (coq/Model/ReaderShape.v): which pointers the reader
   keeps between lines are nil (r.currentBatch, the header / control / Entries of r.IATCurrentBatch, the
   header / control / entries / addenda of the batch being built), one transition per record type as
   parseLine / parseBH / parseED / parseEDAddenda / parseAddenda / parseADVAddenda / parseIATAddenda /
   parseBatchControl / parseFileControl perform it, every data-dependent decision a bit.  Only statements
   here; every proof is `exact <lemma>`.

   Line sequences are arbitrary lists of lines (any order of the record types, any data the control flow
   reads from a line); answers and oracles are arbitrary.  This closes the two gaps phase 2 left open: the
   reader's own dereference / index sites (Gen/OpSites.v lists them: 40 places in 8 functions, 16 entries of
   PartialAccounted.v) and the assumption of C06_handlers_total_partial that NACHA-text bodies parse to
   well-formed files. *)
From Coq Require Import String List Bool Arith.
Import ListNotations.
From ACH Require Import PartialTable PartialAccounted OpSiteTable OpSites TotalOps TotalOpsFacts TotalJson TotalJsonFacts
  ReaderShape ReaderShapeFacts ReaderSiteTable ReaderEffectsTable ReaderEffects ReaderText ReaderTextFacts C06ReaderObl.
From ACH Require Totality.

(* ---- the invariant *)

(* every clause holds in every state the reader can be in between two lines, for every line sequence,
   every answer and every oracle (any prefix of the input may be all that is read: r.maxLines) *)
Theorem C06_reader_inv : forall s : rstate, reachable s -> inv s = true.
Proof. exact reader_inv. Qed.
Print Assumptions C06_reader_inv.

(* each dereference / index site of the reader is safe by the clauses named for it, under the test the
   code has made when it reaches the site *)
Theorem C06_reader_site_safe : forall (k : rsite) (s : rstate),
  (forall c, In c (site_clauses k) -> holds c s = true) -> site_guard k s = true -> site_ok k s = true.
Proof. exact site_safe. Qed.
Print Assumptions C06_reader_site_safe.

(* hence: in every reachable state every one of the seven site kinds is safe under its guard (all [deref]s
   of a transition are evaluated in the state the transition starts from) *)
Theorem C06_reader_sites_total : forall (s : rstate) (k : rsite),
  reachable s -> site_guard k s = true -> site_ok k s = true.
Proof. exact reader_sites_total. Qed.
Print Assumptions C06_reader_sites_total.

(* ---- totality *)

(* no transition panics from a reachable state: neither one of the seven site kinds (the only places where
   the model of reader.go itself can panic are [deref k]) nor an operation the reader calls on the batch it
   built (File.AddBatch → Batch.Category, setOffsetCategory, Batch.Validate, IATBatch.Validate, File.IsADV) *)
Theorem C06_reader_step_total : forall (s : rstate) (x : rline) (o : list bool),
  reachable s -> panics (step x s o) = false.
Proof. exact reader_step_total. Qed.
Print Assumptions C06_reader_step_total.

(* Reader.Read as a whole: every line sequence, every answer, every oracle, with and without
   skipBatchAccumulation *)
Theorem C06_reader_total : forall (skip : bool) (ls : list rline) (fin : ans) (o : list bool),
  panics (reader_read ls fin (init skip) o) = false.
Proof. exact reader_total. Qed.
Print Assumptions C06_reader_total.

(* … also when every line draws from an oracle of its own (the form the correspondence runs) *)
Theorem C06_reader_hinted_total : forall (skip : bool) (ls : list (rline * list bool)),
  read_hinted ls (init skip) <> None.
Proof. exact reader_hinted_total. Qed.
Print Assumptions C06_reader_hinted_total.

(* ---- what Read returns *)

(* the file Read returns — it returns r.File also when it reports errors, and callers and the server keep
   using it — is well-formed (TotalOps.wf_file), even strictly (every SEC code is one NewBatch accepts) *)
Theorem C06_reader_result_wf : forall (skip : bool) (ls : list rline) (fin : ans) (o : list bool) v s o',
  reader_read ls fin (init skip) o = OK v s o' -> wf_file_strict (r_file s) = true /\ wf_file (r_file s) = true.
Proof. exact reader_result_wf. Qed.
Print Assumptions C06_reader_result_wf.

(* … and so is r.File after any prefix of the lines (ErrFileTooLong returns it as it is) *)
Theorem C06_reader_file_wf : forall s : rstate, reachable s -> wf_file_strict (r_file s) = true.
Proof. exact reader_file_wf. Qed.
Print Assumptions C06_reader_file_wf.

(* the model has no outcome "Read panicked or returned nothing" *)
Theorem C06_reader_never_err : forall (skip : bool) (ls : list rline) (fin : ans) (o : list bool) s o',
  reader_read ls fin (init skip) o <> ERR s o'.
Proof. exact reader_never_err. Qed.
Print Assumptions C06_reader_never_err.

(* read any text, then run any sequence of operations (Validate, Create, Write, MarshalJSON, SegmentFile,
   FlattenBatches, MergeFiles, Reversal, Batch.Create, Batch.Validate) on the file Read returned, each
   continuing after errors: no panic *)
Theorem C06_text_then_ops_total : forall (skip : bool) (ls : list rline) (fin : ans) (xs : list op) (o : list bool),
  panics (read_then_ops ls fin xs (init skip) o) = false.
Proof. exact text_then_ops_total. Qed.
Print Assumptions C06_text_then_ops_total.

(* ---- bytes to shapes *)

(* phase 1 and phase 5 composed.  Any list of physical lines (byte strings; the first one of at most 94
   runes — the loop of Read cuts lines at 94 runes, which is a hypothesis here as in C06_read_total_partial,
   hence _partial): the byte level (readLine, parseLine, parseBH, the addenda code slices) does not panic and
   yields the dispatched records; whatever data these records carry — every shape-level line sequence of
   the same record types, every answer, every oracle — the state machine does not panic and returns a
   well-formed file *)
Theorem C06_read_text_total_partial : forall bs : list Bytes.bytes,
  match bs with l :: _ => Utf8.rune_count l <= Totality.record_length | [] => True end ->
  exists recs, Totality.read_lines true bs = Totality.Ok recs /\
    forall (skip : bool) (ls : list rline) (fin : ans) (o : list bool),
      refines_all (dispatched recs) ls = true ->
      panics (reader_read ls fin (init skip) o) = false /\
      forall v s o', reader_read ls fin (init skip) o = OK v s o' -> wf_file_strict (r_file s) = true.
Proof. exact read_text_total. Qed.
Print Assumptions C06_read_text_total_partial.

(* ---- server *)

(* request lists over the 18 routes against a repository of well-formed files, NACHA-text bodies being ANY
   line sequence read by the reader model: the hypothesis of C06_handlers_total_partial about text bodies
   is gone (troute_ok only restricts JSON documents / flatten under [strict], as before) *)
Theorem C06_handlers_total : forall (strict : bool) (r : repo) (xs : list troute) (o : list bool),
  Forall (fun p => wf_file_s strict (snd p) = true) r ->
  forallb (troute_ok strict) xs = true ->
  panics (serve_t xs r o) = false.
Proof. exact handlers_total_text. Qed.
Print Assumptions C06_handlers_total.

(* ---- ties to the source *)

Theorem C06_reader_sites_covered : reader_covered_ok reader_functions reader_cover op_sites = true.
Proof. exact reader_sites_covered. Qed.
Print Assumptions C06_reader_sites_covered.

Theorem C06_reader_sites_covered_meaning : forall s,
  In s op_sites -> In (o_func s) reader_functions -> needs_invariant s = true ->
  exists c, In c reader_cover /\ rc_func c = o_func s /\ rc_path c = o_path s.
Proof. exact reader_sites_covered_meaning. Qed.
Print Assumptions C06_reader_sites_covered_meaning.

Theorem C06_reader_cover_exact : reader_cover_exact reader_functions reader_cover op_sites = true.
Proof. exact reader_cover_exact_ok. Qed.
Print Assumptions C06_reader_cover_exact.

Theorem C06_reader_accounted : reader_accounted_ok reader_cover accounted op_sites = true.
Proof. exact reader_accounted. Qed.
Print Assumptions C06_reader_accounted.

Theorem C06_reader_effects_pinned :
  effects_eqb reader_effects gen_reader_effects = true /\ effects_eqb reader_ctors gen_reader_ctors = true.
Proof. exact (conj reader_effects_pinned reader_ctors_pinned). Qed.
Print Assumptions C06_reader_effects_pinned.

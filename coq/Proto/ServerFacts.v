(* C17 — proofs about the server machines of Server.v. *)
From Coq Require Import List NArith Bool Lia.
From ACH Require Import Server.
Import ListNotations.
Open Scope N_scope.

(* ---------------------------------------------------------------- ids, association lists *)

Lemma id_eqb_eq a b : id_eqb a b = true <-> a = b.
Proof.
  destruct a as [x|x], b as [y|y]; simpl; split; intro H; try discriminate; try congruence.
  - apply N.eqb_eq in H. now subst.
  - inversion H. apply N.eqb_refl.
  - apply N.eqb_eq in H. now subst.
  - inversion H. apply N.eqb_refl.
Qed.

Lemma id_eqb_refl a : id_eqb a a = true.
Proof. now apply id_eqb_eq. Qed.

Lemma id_eqb_neq a b : id_eqb a b = false <-> a <> b.
Proof.
  split.
  - intros H E. apply id_eqb_eq in E. congruence.
  - intro H. destruct (id_eqb a b) eqn:E; [|reflexivity]. apply id_eqb_eq in E. contradiction.
Qed.

Lemma id_eqb_sym a b : id_eqb a b = id_eqb b a.
Proof.
  destruct (id_eqb a b) eqn:E.
  - apply id_eqb_eq in E. subst. symmetry. apply id_eqb_refl.
  - apply id_eqb_neq in E. symmetry. apply id_eqb_neq. congruence.
Qed.

Section AssocFacts.
  Context {A : Type}.
  Implicit Types l : list (id * A).

  Lemma lookup_update_eq l i a : lookup l i <> None -> lookup (update l i a) i = Some a.
  Proof.
    induction l as [|[j b] r IH]; simpl; [congruence|].
    destruct (id_eqb j i) eqn:E; simpl; rewrite E; auto.
  Qed.

  Lemma lookup_update_neq l i j a : i <> j -> lookup (update l i a) j = lookup l j.
  Proof.
    intro N. induction l as [|[k b] r IH]; simpl; [reflexivity|].
    destruct (id_eqb k i) eqn:E; simpl.
    - apply id_eqb_eq in E. subst k. apply id_eqb_neq in N. now rewrite N.
    - destruct (id_eqb k j); auto.
  Qed.

  Lemma lookup_remove_eq l i : lookup (remove l i) i = None.
  Proof.
    induction l as [|[j b] r IH]; simpl; [reflexivity|].
    destruct (id_eqb j i) eqn:E; simpl; [assumption|]. now rewrite E.
  Qed.

  Lemma lookup_remove_neq l i j : i <> j -> lookup (remove l i) j = lookup l j.
  Proof.
    intro N. induction l as [|[k b] r IH]; simpl; [reflexivity|].
    destruct (id_eqb k i) eqn:E; simpl.
    - apply id_eqb_eq in E. subst k. apply id_eqb_neq in N. now rewrite N.
    - destruct (id_eqb k j); auto.
  Qed.

  Lemma lookup_In l i a : lookup l i = Some a -> In (i, a) l.
  Proof.
    induction l as [|[j b] r IH]; simpl; [discriminate|].
    destruct (id_eqb j i) eqn:E; intro H.
    - apply id_eqb_eq in E. inversion H. subst. now left.
    - right. auto.
  Qed.

  Lemma lookup_None_notin l i : lookup l i = None -> forall a, ~ In (i, a) l.
  Proof.
    induction l as [|[j b] r IH]; simpl; intros H a; [tauto|].
    destruct (id_eqb j i) eqn:E; [discriminate|].
    intros [X|X].
    - inversion X. subst. rewrite id_eqb_refl in E. discriminate.
    - now apply (IH H a).
  Qed.

  Lemma update_absent l i a : lookup l i = None -> update l i a = l.
  Proof.
    induction l as [|[j b] r IH]; simpl; [reflexivity|].
    destruct (id_eqb j i); [discriminate|]. intro H. now rewrite IH.
  Qed.
End AssocFacts.

(* ---------------------------------------------------------------- abstraction of the heap *)

Definition F (h : N -> term) (ip : id * N) : id * term := (fst ip, h (snd ip)).

Lemma abs_F c : abs c = map (F (heap c)) (store c).
Proof. reflexivity. Qed.

Lemma lookup_map_F h l i : lookup (map (F h) l) i = option_map h (lookup l i).
Proof.
  induction l as [|[j q] r IH]; simpl; [reflexivity|].
  destruct (id_eqb j i); simpl; auto.
Qed.

Lemma lookup_abs c i : lookup (abs c) i = option_map (heap c) (lookup (store c) i).
Proof. apply lookup_map_F. Qed.

Lemma map_hset_notin h p t l : ~ In p (map snd l) -> map (F (hset h p t)) l = map (F h) l.
Proof.
  induction l as [|[j q] r IH]; simpl; intro H; [reflexivity|].
  rewrite IH by tauto. unfold F at 1 3, hset. simpl.
  destruct (N.eqb_spec q p); [subst; tauto|reflexivity].
Qed.

Lemma lookup_In_snd (l : list (id * N)) i p : lookup l i = Some p -> In p (map snd l).
Proof. intro H. apply lookup_In in H. now apply (in_map snd) in H. Qed.

Lemma map_hset_update h p t l i :
  NoDup (map snd l) -> lookup l i = Some p ->
  map (F (hset h p t)) l = update (map (F h) l) i t.
Proof.
  induction l as [|[j q] r IH]; simpl; intros ND H; [discriminate|].
  inversion ND as [|x xs Hnotin ND']. subst.
  destruct (id_eqb j i) eqn:E.
  - inversion H. subst q. rewrite map_hset_notin by assumption.
    unfold F at 1, hset. simpl. now rewrite N.eqb_refl.
  - rewrite IH by assumption. unfold F at 1, hset. simpl.
    destruct (N.eqb_spec q p); [|reflexivity].
    subst q. exfalso. apply Hnotin. now apply lookup_In_snd with i.
Qed.

Lemma map_F_remove h l i : map (F h) (remove l i) = remove (map (F h) l) i.
Proof.
  induction l as [|[j q] r IH]; simpl; [reflexivity|].
  destruct (id_eqb j i); simpl; now rewrite IH.
Qed.

(* ---------------------------------------------------------------- invariant *)

Record Inv (c : cstate) : Prop := {
  inv_nodup : NoDup (map snd (store c));
  inv_ptr : forall i p, In (i, p) (store c) -> p < nptr c;
  inv_gen : forall k p, In (Gen k, p) (store c) -> k < nid c
}.

Lemma Inv_init : Inv cinit.
Proof. split; simpl; [constructor| |]; intros; tauto. Qed.

Lemma nptr_notin c : Inv c -> ~ In (nptr c) (map snd (store c)).
Proof.
  intros I H. apply in_map_iff in H. destruct H as [[i p] [E H]]. simpl in E. subst p.
  apply (inv_ptr c I) in H. lia.
Qed.

Lemma Inv_set_heap c p t : Inv c -> Inv (set_heap c p t).
Proof. intros [A B C]. split; simpl; assumption. Qed.

Lemma absm_set_heap c i p t :
  Inv c -> lookup (store c) i = Some p -> absm (set_heap c p t) = mset (absm c) i t.
Proof.
  intros I H. unfold absm, mset, set_heap, abs. simpl. f_equal.
  apply (map_hset_update (heap c) p t (store c) i); [apply (inv_nodup c I)|assumption].
Qed.

Lemma Inv_alloc c t : Inv c -> Inv (alloc c t).
Proof.
  intros I. split; simpl.
  - constructor; [now apply nptr_notin|apply (inv_nodup c I)].
  - intros i p [E|H]; [inversion E; lia|]. apply (inv_ptr c I) in H. lia.
  - intros k p [E|H]; [inversion E; lia|]. apply (inv_gen c I) in H. lia.
Qed.

Lemma absm_alloc c t : Inv c -> absm (alloc c t) = malloc (absm c) t.
Proof.
  intros I. unfold absm, malloc, alloc, abs. simpl. f_equal. f_equal.
  - unfold hset. now rewrite N.eqb_refl.
  - apply (map_hset_notin (heap c) (nptr c) _ (store c)). now apply nptr_notin.
Qed.

Lemma Inv_alloc_if b c t : Inv c -> Inv (alloc_if b c t).
Proof. destruct b; simpl; [apply Inv_alloc|auto]. Qed.

Lemma absm_alloc_if b c t : Inv c -> absm (alloc_if b c t) = malloc_if b (absm c) t.
Proof. destruct b; simpl; [apply absm_alloc|auto]. Qed.

Lemma gen_fresh c : Inv c -> lookup (store c) (Gen (nid c)) = None.
Proof.
  intro I. destruct (lookup (store c) (Gen (nid c))) eqn:E; [|reflexivity].
  apply lookup_In in E. apply (inv_gen c I) in E. lia.
Qed.

(* ---------------------------------------------------------------- one step: pointers refine the map *)

Definition step_rel (c : cstate) (r : request) : Prop :=
  absm (fst (cstep c r)) = fst (mstep (absm c) r) /\
  snd (cstep c r) = snd (mstep (absm c) r) /\
  Inv (fst (cstep c r)).

Ltac look c i :=
  rewrite (lookup_abs c i); destruct (lookup (store c) i) as [p|] eqn:L; simpl.

Ltac fin := split; [|split]; simpl; auto using Inv_set_heap.

Lemma cstep_refines c r : Inv c -> is_balance_ok r = false -> step_rel c r.
Proof.
  intros I NB. unfold step_rel, mstep.
  destruct r as [f b o url bodyid|i| |i l|i o|i|i|i b decodes dup|i k|i|i k|i ok|i ok hc hd|f b ok hc hd|i o ok];
    unfold cstep, gstep; cbn [mfiles mnid absm ret ret2].
  - (* create *)
    destruct (resolve url bodyid (nid c)) as [i n'] eqn:R.
    rewrite (lookup_abs c i). destruct (lookup (store c) i) as [p|] eqn:L; simpl.
    + assert (nid c <= n').
      { unfold resolve in R. destruct url; [inversion R; lia|]. destruct bodyid; inversion R; lia. }
      split; [reflexivity|]. split; [reflexivity|]. destruct I as [A B C]. split; simpl; auto.
      intros k q H'. apply C in H'. lia.
    + repeat split; simpl.
      * unfold absm, abs. simpl. f_equal. f_equal.
        -- unfold hset. now rewrite N.eqb_refl.
        -- apply (map_hset_notin (heap c) (nptr c) _ (store c)). now apply nptr_notin.
      * constructor; [now apply nptr_notin|apply (inv_nodup c I)].
      * intros j q [E|H]; [inversion E; lia|]. apply (inv_ptr c I) in H. lia.
      * intros k q [E|H].
        -- inversion E. subst. unfold resolve in R.
           destruct url; [inversion R|]. destruct bodyid; [inversion R|]. inversion R. lia.
        -- apply (inv_gen c I) in H. unfold resolve in R.
           destruct url; [inversion R; lia|]. destruct bodyid; inversion R; lia.
  - look c i; fin.
  - fin.
  - look c i; fin. now apply absm_set_heap.
  - look c i; fin.
  - look c i; fin. now apply absm_set_heap.
  - (* delete *)
    repeat split; simpl.
    + unfold absm, abs. simpl. f_equal. apply map_F_remove.
    + assert (S : forall l : list (id * N), incl (remove l i) l).
      { induction l as [|[j q] r IH]; simpl; [apply incl_refl|].
        destruct (id_eqb j i); [now apply incl_tl|]. apply incl_cons; [now left|now apply incl_tl]. }
      assert (ND : forall l : list (id * N), NoDup (map snd l) -> NoDup (map snd (remove l i))).
      { induction l as [|[j q] r IH]; simpl; intro H; [constructor|].
        inversion H; subst. destruct (id_eqb j i); simpl; auto.
        constructor; auto. intro X. apply in_map_iff in X. destruct X as [[a b'] [E X]].
        apply S in X. simpl in E. subst. apply H2. now apply (in_map snd) in X. }
      apply ND, (inv_nodup c I).
    + intros j q H. apply (inv_ptr c I j).
      revert H. generalize (store c). induction l as [|[a b'] r IH]; simpl; [tauto|].
      destruct (id_eqb a i); simpl; intuition.
    + intros k q H. apply (inv_gen c I k q).
      revert H. generalize (store c). induction l as [|[a b'] r IH]; simpl; [tauto|].
      destruct (id_eqb a i); simpl; intuition.
  - (* add batch *)
    destruct decodes; simpl; [|fin].
    look c i; [|fin].
    destruct dup; simpl; fin. now apply absm_set_heap.
  - look c i; fin.
  - look c i; fin.
  - look c i; fin. now apply absm_set_heap.
  - (* flatten *)
    look c i; [|fin].
    assert (I1 := Inv_set_heap c p (FlatSrc (heap c p)) I).
    rewrite <- (absm_set_heap c i p _ I L).
    split; [|split; [reflexivity|]].
    + now apply absm_alloc_if.
    + now apply Inv_alloc_if.
  - (* segment by id *)
    look c i; [|fin].
    assert (I1 := Inv_set_heap c p (SegSrc (heap c p)) I).
    rewrite <- (absm_set_heap c i p _ I L).
    set (c1 := set_heap c p (SegSrc (heap c p))) in *.
    assert (I2 := Inv_alloc_if (ok && hc) c1 (fun n => CreditOf (Created (heap c p)) (Gen n)) I1).
    rewrite <- (absm_alloc_if (ok && hc) c1 _ I1).
    set (c2 := alloc_if (ok && hc) c1 _) in *.
    split; [|split; [reflexivity|]].
    + now apply absm_alloc_if.
    + now apply Inv_alloc_if.
  - (* segment by body *)
    assert (I2 := Inv_alloc_if (ok && hc) c (fun n => CreditOf (Created (ParsedBody f b)) (Gen n)) I).
    change (MState (abs c) (nid c)) with (absm c).
    rewrite <- (absm_alloc_if (ok && hc) c _ I).
    set (c2 := alloc_if (ok && hc) c _) in *.
    split; [|split; [reflexivity|]].
    + now apply absm_alloc_if.
    + now apply Inv_alloc_if.
  - (* balance (failed) *)
    simpl in NB. destruct ok; [discriminate|].
    look c i; fin. now apply absm_set_heap.
Qed.

(* ---------------------------------------------------------------- all histories *)

Lemma crun_refines rs : forall c,
  Inv c -> forallb (fun r => negb (is_balance_ok r)) rs = true ->
  absm (fst (crun c rs)) = fst (grun false (absm c) rs) /\
  snd (crun c rs) = snd (grun false (absm c) rs) /\
  Inv (fst (crun c rs)).
Proof.
  induction rs as [|r rs IH]; intros c I NB; simpl.
  - auto.
  - simpl in NB. apply andb_true_iff in NB. destruct NB as [NB1 NB2].
    apply negb_true_iff in NB1.
    destruct (cstep_refines c r I NB1) as [A [B C]]. unfold mstep in *.
    destruct (cstep c r) as [c' a]. destruct (gstep false (absm c) r) as [m' a'].
    simpl in A, B, C. subst m' a'.
    destruct (IH c' C NB2) as [A' [B' C']].
    destruct (crun c' rs) as [c'' l]. destruct (grun false (absm c') rs) as [m'' l'].
    simpl in *. subst. auto.
Qed.

Lemma refines_from_init rs :
  forallb (fun r => negb (is_balance_ok r)) rs = true ->
  snd (crun cinit rs) = snd (grun false minit rs) /\
  absm (fst (crun cinit rs)) = fst (grun false minit rs).
Proof.
  intro NB. destruct (crun_refines rs cinit Inv_init NB) as [A [B _]].
  change (absm cinit) with minit in *. auto.
Qed.

(* balance breaks the refinement: the balanced object is reachable from two IDs, a batch
   added through one of them shows up under the other *)
Definition alias_witness : list request :=
  [RCreate Text 1 0 (Some 1) None; RBalance (Client 1) 0 true; RAddBatch (Client 1) 2 true false; RGet (Gen 0)].

Lemma balance_aliasing :
  snd (crun cinit alias_witness) <> snd (grun false minit alias_witness) /\
  nth 3 (snd (crun cinit alias_witness)) (Resp BadBody 0 PNone)
  = Resp Found 200 (PFile (WithBatch (Balanced (WithID (Parsed Text 1 0) (Client 1)) 0 (Gen 0)) 2)).
Proof. split; [vm_compute; discriminate|vm_compute; reflexivity]. Qed.

(* and GET of the ORIGINAL id returns a file whose ID is the new one *)
Lemma balance_overwrites_id :
  snd (crun cinit [RCreate Text 1 0 (Some 1) None; RBalance (Client 1) 0 true; RGet (Client 1)])
  = [Resp Found 0 (PFile (WithID (Parsed Text 1 0) (Client 1)));
     Resp Found 0 (PBal (WithID (Parsed Text 1 0) (Client 1)) 0 (Gen 0));
     Resp Found 200 (PFile (Balanced (WithID (Parsed Text 1 0) (Client 1)) 0 (Gen 0)))].
Proof. vm_compute. reflexivity. Qed.

(* ---------------------------------------------------------------- delete, create on existing id *)

Lemma delete_then_get c i : rcls (snd (cstep (fst (cstep c (RDelete i))) (RGet i))) = NotFound.
Proof. simpl. now rewrite lookup_remove_eq. Qed.

(* the file-addressed requests and the ID they address *)
Definition target (r : request) : option id :=
  match r with
  | RGet i | RContents i _ | RValidate i _ | RBuild i | RGetBatch i _ | RDeleteBatch i _
  | RFlatten i _ | RSegment i _ _ _ | RBalance i _ _ => Some i
  | RAddBatch i _ true _ => Some i
  | _ => None
  end.

Lemma absent_not_found c r i :
  target r = Some i -> lookup (store c) i = None ->
  rcls (snd (cstep c r)) = NotFound /\ fst (cstep c r) = c.
Proof.
  destruct r; simpl; intros T L; try discriminate; try (inversion T; subst; rewrite L; auto).
  destruct decodes; [|discriminate]. inversion T; subst. simpl. rewrite L. auto.
Qed.

Lemma delete_then_any c r i :
  target r = Some i -> rcls (snd (cstep (fst (cstep c (RDelete i))) r)) = NotFound.
Proof. intro T. apply (absent_not_found _ r i T). simpl. apply lookup_remove_eq. Qed.

(* an ID stays absent as long as no create names it: IDs of derived files and generated
   IDs are fresh *)
Definition names (r : request) (i : id) : bool :=
  match r with
  | RCreate _ _ _ (Some u) _ => id_eqb (Client u) i
  | RCreate _ _ _ None (Some u) => id_eqb (Client u) i
  | _ => false
  end.

Definition old (c : cstate) (i : id) : Prop := match i with Gen k => k < nid c | Client _ => True end.

Lemma nid_alloc_if b c t : nid c <= nid (alloc_if b c t).
Proof. destruct b; simpl; lia. Qed.

Lemma lookup_alloc_if b c t i : old c i -> lookup (store (alloc_if b c t)) i = lookup (store c) i.
Proof.
  intro O. destruct b; simpl; [|reflexivity].
  destruct i as [u|k]; simpl; [reflexivity|]. simpl in O.
  destruct (N.eqb_spec (nid c) k); [lia|reflexivity].
Qed.

Lemma old_alloc_if b c t i : old c i -> old (alloc_if b c t) i.
Proof. destruct i; simpl; auto. intro. pose proof (nid_alloc_if b c t). lia. Qed.

Lemma absent_preserved c r i :
  old c i -> names r i = false -> lookup (store c) i = None ->
  lookup (store (fst (cstep c r))) i = None /\ old (fst (cstep c r)) i.
Proof.
  intros O Nm L.
  destruct r as [f b o url bodyid|j| |j l|j o|j|j|j b decodes dup|j k|j|j k|j ok|j ok hc hd|f b ok hc hd|j o ok];
    unfold cstep.
  - destruct (resolve url bodyid (nid c)) as [j n'] eqn:R.
    assert (J : id_eqb j i = false /\ nid c <= n').
    { unfold resolve in R. simpl in Nm. destruct url as [u|].
      - inversion R. subst. split; [assumption|lia].
      - destruct bodyid as [u|]; inversion R; subst.
        + split; [assumption|lia].
        + split; [|lia]. destruct i as [u|k]; simpl; [reflexivity|]. simpl in O.
          destruct (N.eqb_spec (nid c) k); [lia|reflexivity]. }
    destruct J as [J1 J2].
    destruct (lookup (store c) j); simpl; [|rewrite J1]; split; auto; destruct i; simpl in *; auto; lia.
  - destruct (lookup (store c) j); simpl; auto.
  - simpl; auto.
  - destruct (lookup (store c) j); simpl; auto.
  - destruct (lookup (store c) j); simpl; auto.
  - destruct (lookup (store c) j); simpl; auto.
  - simpl. split; [|assumption].
    destruct (id_eqb j i) eqn:E.
    + apply id_eqb_eq in E. subst. apply lookup_remove_eq.
    + apply id_eqb_neq in E. now rewrite lookup_remove_neq.
  - destruct decodes; simpl; auto. destruct (lookup (store c) j); simpl; auto. destruct dup; simpl; auto.
  - destruct (lookup (store c) j); simpl; auto.
  - destruct (lookup (store c) j); simpl; auto.
  - destruct (lookup (store c) j); simpl; auto.
  - destruct (lookup (store c) j) as [p|]; simpl; auto.
    split; [rewrite lookup_alloc_if; auto|apply old_alloc_if; auto].
  - destruct (lookup (store c) j) as [p|]; simpl; auto.
    set (c1 := set_heap c p (SegSrc (heap c p))).
    assert (O1 : old c1 i) by exact O.
    assert (O2 := old_alloc_if (ok && hc) c1 (fun n => CreditOf (Created (heap c p)) (Gen n)) i O1).
    split; [|now apply old_alloc_if].
    rewrite lookup_alloc_if by assumption. rewrite lookup_alloc_if by assumption. exact L.
  - simpl.
    assert (O2 := old_alloc_if (ok && hc) c (fun n => CreditOf (Created (ParsedBody f b)) (Gen n)) i O).
    split; [|now apply old_alloc_if].
    rewrite lookup_alloc_if by assumption. rewrite lookup_alloc_if by assumption. exact L.
  - destruct (lookup (store c) j) as [p|]; simpl; auto.
    destruct ok; simpl; auto. split.
    + destruct i as [u|k]; simpl; [assumption|]. simpl in O.
      destruct (N.eqb_spec (nid c) k); [lia|assumption].
    + destruct i; simpl in *; auto; lia.
Qed.

Lemma absent_run rs : forall c i,
  old c i -> forallb (fun r => negb (names r i)) rs = true -> lookup (store c) i = None ->
  lookup (store (fst (crun c rs))) i = None.
Proof.
  induction rs as [|r rs IH]; intros c i O Nm L; simpl; [assumption|].
  simpl in Nm. apply andb_true_iff in Nm. destruct Nm as [N1 N2]. apply negb_true_iff in N1.
  destruct (absent_preserved c r i O N1 L) as [L' O'].
  destruct (cstep c r) as [c' a]. simpl in *.
  specialize (IH c' i O' N2 L'). destruct (crun c' rs). exact IH.
Qed.

(* after DELETE the id is not found, whatever happens in between, until a create names it *)
Lemma delete_then_history c i rs r :
  old c i -> forallb (fun r => negb (names r i)) rs = true -> target r = Some i ->
  rcls (snd (cstep (fst (crun (fst (cstep c (RDelete i))) rs)) r)) = NotFound.
Proof.
  intros O Nm T. apply (absent_not_found _ r i T).
  apply absent_run; auto. simpl. apply lookup_remove_eq.
Qed.

(* create on an existing id: refused, nothing changes *)
Lemma create_existing_refused c f b o url bodyid :
  Inv c -> lookup (store c) (fst (resolve url bodyid (nid c))) <> None ->
  rcls (snd (cstep c (RCreate f b o url bodyid))) = Refused /\
  fst (cstep c (RCreate f b o url bodyid)) = c.
Proof.
  intros I H. unfold cstep.
  destruct (resolve url bodyid (nid c)) as [i n'] eqn:R. simpl in H.
  destruct (lookup (store c) i) eqn:L; [|congruence]. simpl. split; [reflexivity|].
  assert (n' = nid c).
  { unfold resolve in R. destruct url; [inversion R; auto|]. destruct bodyid; inversion R; auto.
    subst. rewrite (gen_fresh c I) in L. discriminate. }
  subst. destruct c; reflexivity.
Qed.

Lemma create_fresh_stored c f b o url bodyid :
  lookup (store c) (fst (resolve url bodyid (nid c))) = None ->
  let c' := fst (cstep c (RCreate f b o url bodyid)) in
  let i := fst (resolve url bodyid (nid c)) in
  rcls (snd (cstep c (RCreate f b o url bodyid))) = Found /\
  snd (cstep c' (RGet i)) = Resp Found 200 (PFile (WithID (Parsed f b o) i)).
Proof.
  intros L. unfold cstep at 1 2.
  destruct (resolve url bodyid (nid c)) as [i n'] eqn:R. simpl in L. rewrite L. simpl.
  split; [reflexivity|]. rewrite id_eqb_refl. simpl. unfold hset. now rewrite N.eqb_refl.
Qed.

(* a generated id never collides *)
Lemma create_generated_never_refused c f b o :
  Inv c -> rcls (snd (cstep c (RCreate f b o None None))) = Found.
Proof. intro I. unfold cstep. simpl. now rewrite (gen_fresh c I). Qed.

(* ---------------------------------------------------------------- semantic layer *)

(* the library as functions on an arbitrary value type; [den] interprets a term *)
Section Interp.
  Variable V : Type.
  Variable parse : fmt -> body -> opts -> V.
  Variable parseb : fmt -> body -> V.
  Variable setid : V -> id -> V.
  Variable create flatsrc segsrc : V -> V.
  Variable addb : V -> body -> V.
  Variable delb : V -> bid -> V.
  Variable flat cred deb : V -> id -> V.
  Variable bal : V -> offs -> id -> V.

  Fixpoint den (t : term) : V :=
    match t with
    | Parsed f b o => parse f b o
    | ParsedBody f b => parseb f b
    | WithID t i => setid (den t) i
    | Created t => create (den t)
    | FlatSrc t => flatsrc (den t)
    | SegSrc t => segsrc (den t)
    | WithBatch t b => addb (den t) b
    | WithoutBatch t k => delb (den t) k
    | Flattened t i => flat (den t) i
    | CreditOf t i => cred (den t) i
    | DebitOf t i => deb (den t) i
    | Balanced t o i => bal (den t) o i
    end.

  Definition tabulated (v : V) : Prop := create v = v.

  (* purity of FlattenBatches / SegmentFile with respect to their receiver (C14), after the
     Create that precedes them in the service *)
  Hypothesis flat_pure : forall v, tabulated v -> flatsrc v = v.
  Hypothesis seg_pure : forall v, tabulated v -> segsrc v = v.

  (* what GET i shows, semantically *)
  Definition shows (m : mstate) (i : id) : option V := option_map den (lookup (mfiles m) i).

  Definition mold (m : mstate) (i : id) : Prop := match i with Gen k => k < mnid m | Client _ => True end.

  Lemma shows_mset_eq m i t : lookup (mfiles m) i <> None -> shows (mset m i t) i = Some (den t).
  Proof. intro H. unfold shows, mset. simpl. now rewrite lookup_update_eq. Qed.

  Lemma shows_mset_neq m i j t : i <> j -> shows (mset m i t) j = shows m j.
  Proof. intro H. unfold shows, mset. simpl. now rewrite lookup_update_neq. Qed.

  Lemma shows_malloc_if b m t j : mold m j -> shows (malloc_if b m t) j = shows m j.
  Proof.
    intro O. destruct b; simpl; [|reflexivity]. unfold shows. simpl.
    destruct j as [u|k]; simpl; [reflexivity|]. simpl in O.
    destruct (N.eqb_spec (mnid m) k); [lia|reflexivity].
  Qed.

  Lemma mold_malloc_if b m t j : mold m j -> mold (malloc_if b m t) j.
  Proof. destruct j; simpl; auto. destruct b; simpl; lia. Qed.

  Lemma mold_mset m i t j : mold m j -> mold (mset m i t) j.
  Proof. destruct j; simpl; auto. Qed.

  (* one read request of the code as it is: every stored file that is tabulated still
     shows the same value *)
  Lemma read_step_preserves m r j v :
    readonly r = true -> mold m j -> shows m j = Some v -> tabulated v ->
    shows (fst (mstep m r)) j = Some v /\ mold (fst (mstep m r)) j.
  Proof.
    intros RO O S T. unfold mstep.
    assert (KT : forall i t, lookup (mfiles m) i = Some t -> i = j -> tabulated (den t)).
    { intros i t L E. subst i. unfold shows in S. rewrite L in S. simpl in S. inversion S. now subst v. }
    assert (K : forall i t k, lookup (mfiles m) i = Some t -> (i = j -> den (k t) = den t) ->
                shows (mset m i (k t)) j = Some v).
    { intros i t k L Hk. destruct (id_eqb i j) eqn:E.
      - apply id_eqb_eq in E. subst i. rewrite shows_mset_eq by congruence.
        unfold shows in S. rewrite L in S. simpl in S. inversion S. subst v. now rewrite (Hk eq_refl).
      - apply id_eqb_neq in E. now rewrite shows_mset_neq. }
    assert (KC : forall i t, lookup (mfiles m) i = Some t -> shows (mset m i (Created t)) j = Some v).
    { intros i t L. apply K; [assumption|]. intro E. simpl. apply (KT i t L E). }
    assert (KF : forall i t, lookup (mfiles m) i = Some t -> shows (mset m i (FlatSrc t)) j = Some v).
    { intros i t L. apply K; [assumption|]. intro E. simpl. apply flat_pure, (KT i t L E). }
    assert (KS : forall i t, lookup (mfiles m) i = Some t -> shows (mset m i (SegSrc t)) j = Some v).
    { intros i t L. apply K; [assumption|]. intro E. simpl. apply seg_pure, (KT i t L E). }
    destruct r as [f b o url bodyid|i| |i l|i o|i|i|i b decodes dup|i k|i|i k|i ok|i ok hc hd|f b ok hc hd|i o ok];
      try discriminate; unfold gstep; cbn [ret ret2].
    - destruct (lookup (mfiles m) i); simpl; auto.
    - simpl; auto.
    - destruct (lookup (mfiles m) i) eqn:L; simpl; [split; [now apply KC|now apply mold_mset]|auto].
    - destruct (lookup (mfiles m) i); simpl; auto.
    - destruct (lookup (mfiles m) i) eqn:L; simpl; [split; [now apply KC|now apply mold_mset]|auto].
    - destruct (lookup (mfiles m) i); simpl; auto.
    - destruct (lookup (mfiles m) i); simpl; auto.
    - destruct (lookup (mfiles m) i) eqn:L; simpl; [|auto].
      split; [rewrite shows_malloc_if; [now apply KF|now apply mold_mset]|now apply mold_malloc_if, mold_mset].
    - destruct (lookup (mfiles m) i) eqn:L; simpl; [|auto].
      set (m1 := mset m i (SegSrc t)).
      assert (O1 : mold m1 j) by now apply mold_mset.
      assert (O2 := mold_malloc_if (ok && hc) m1 (fun n => CreditOf (Created t) (Gen n)) j O1).
      split; [|now apply mold_malloc_if].
      rewrite shows_malloc_if by assumption. rewrite shows_malloc_if by assumption. now apply KS.
    - simpl.
      assert (O2 := mold_malloc_if (ok && hc) m (fun n => CreditOf (Created (ParsedBody f b)) (Gen n)) j O).
      split; [|now apply mold_malloc_if].
      rewrite shows_malloc_if by assumption. now rewrite shows_malloc_if by assumption.
  Qed.

  (* any history of read requests *)
  Lemma read_run_preserves rs : forall m j v,
    forallb readonly rs = true -> mold m j -> shows m j = Some v -> tabulated v ->
    shows (fst (grun false m rs)) j = Some v.
  Proof.
    induction rs as [|r rs IH]; intros m j v RO O S T; simpl; [assumption|].
    simpl in RO. apply andb_true_iff in RO. destruct RO as [R1 R2].
    destruct (read_step_preserves m r j v R1 O S T) as [S' O']. unfold mstep in *.
    destruct (gstep false m r) as [m' a]. simpl in *.
    specialize (IH m' j v R2 O' S' T). destruct (grun false m' rs). exact IH.
  Qed.

  (* the ideal store never changes what a read shows, tabulated or not *)
  Lemma ideal_read_step m r j :
    readonly r = true -> mold m j ->
    (r = RBuild j -> forall v, shows m j = Some v -> tabulated v) ->
    shows (fst (istep m r)) j = shows m j /\ mold (fst (istep m r)) j.
  Proof.
    intros RO O B. unfold istep.
    assert (K : forall i t, lookup (mfiles m) i = Some t -> shows (mset m i t) j = shows m j).
    { intros i t L. destruct (id_eqb i j) eqn:E.
      - apply id_eqb_eq in E. subst i. rewrite shows_mset_eq by congruence. unfold shows. now rewrite L.
      - apply id_eqb_neq in E. now rewrite shows_mset_neq. }
    destruct r as [f b o url bodyid|i| |i l|i o|i|i|i b decodes dup|i k|i|i k|i ok|i ok hc hd|f b ok hc hd|i o ok];
      try discriminate; unfold gstep; cbn [ret ret2].
    - destruct (lookup (mfiles m) i); simpl; auto.
    - simpl; auto.
    - destruct (lookup (mfiles m) i) eqn:L; simpl; [split; [now apply K|now apply mold_mset]|auto].
    - destruct (lookup (mfiles m) i); simpl; auto.
    - destruct (lookup (mfiles m) i) eqn:L; simpl; [|auto]. split; [|now apply mold_mset].
      destruct (id_eqb i j) eqn:E.
      + apply id_eqb_eq in E. subst i. rewrite shows_mset_eq by congruence.
        unfold shows. rewrite L. simpl. f_equal. apply (B eq_refl). unfold shows. now rewrite L.
      + apply id_eqb_neq in E. now rewrite shows_mset_neq.
    - destruct (lookup (mfiles m) i); simpl; auto.
    - destruct (lookup (mfiles m) i); simpl; auto.
    - destruct (lookup (mfiles m) i) eqn:L; simpl; [|auto].
      split; [rewrite shows_malloc_if; [now apply K|now apply mold_mset]|now apply mold_malloc_if, mold_mset].
    - destruct (lookup (mfiles m) i) eqn:L; simpl; [|auto].
      set (m1 := mset m i t).
      assert (O1 : mold m1 j) by now apply mold_mset.
      assert (O2 := mold_malloc_if (ok && hc) m1 (fun n => CreditOf (Created t) (Gen n)) j O1).
      split; [|now apply mold_malloc_if].
      rewrite shows_malloc_if by assumption. rewrite shows_malloc_if by assumption. now apply K.
    - simpl.
      assert (O2 := mold_malloc_if (ok && hc) m (fun n => CreditOf (Created (ParsedBody f b)) (Gen n)) j O).
      split; [|now apply mold_malloc_if].
      rewrite shows_malloc_if by assumption. now rewrite shows_malloc_if by assumption.
  Qed.
End Interp.

(* ---------------------------------------------------------------- a toy library: the hypothesis is needed *)

(* value = (number of batches, batch count in the file control); Create recomputes the control *)
Definition toyV := (N * N)%type.
Definition tparse (_ : fmt) (b : body) (_ : opts) : toyV := (b, b).
Definition tparseb (_ : fmt) (b : body) : toyV := (b, b).
Definition tsetid (v : toyV) (_ : id) : toyV := v.
Definition tcreate (v : toyV) : toyV := (fst v, fst v).
Definition taddb (v : toyV) (_ : body) : toyV := (fst v + 1, snd v).
Definition tdelb (v : toyV) (_ : bid) : toyV := (fst v - 1, snd v).
Definition tder (v : toyV) (_ : id) : toyV := v.
Definition tbal (v : toyV) (_ : offs) (_ : id) : toyV := v.
Definition tpure (v : toyV) : toyV := v.
Definition toy_shows : mstate -> id -> option toyV :=
  shows toyV tparse tparseb tsetid tcreate tpure tpure taddb tdelb tder tder tder tbal.

(* a library whose FlattenBatches renumbers its receiver, as the real one does *)
Definition timpure (v : toyV) : toyV := (fst v, 0).
Definition toy_shows_impure : mstate -> id -> option toyV :=
  shows toyV tparse tparseb tsetid tcreate timpure tpure taddb tdelb tder tder tder tbal.

Definition retab_witness_state : mstate := MState [(Client 1, WithBatch (Parsed Text 1 0) 2)] 0.

Lemma toy_create_idempotent : forall v : toyV, tcreate (tcreate v) = tcreate v.
Proof. reflexivity. Qed.

(* a stored file that is not tabulated: GET contents changes what GET shows *)
Lemma read_changes_untabulated :
  toy_shows retab_witness_state (Client 1) = Some (2, 1) /\
  ~ tabulated toyV tcreate (2, 1) /\
  toy_shows (fst (mstep retab_witness_state (RContents (Client 1) LF))) (Client 1) = Some (2, 2).
Proof. split; [vm_compute; reflexivity|]. split; [vm_compute; discriminate|vm_compute; reflexivity]. Qed.

(* a tabulated stored file, but a FlattenBatches that is not pure: POST flatten changes what GET shows *)
Lemma flatten_changes_if_impure :
  let m := MState [(Client 1, Parsed Text 1 0)] 0 in
  toy_shows_impure m (Client 1) = Some (1, 1) /\ tabulated toyV tcreate (1, 1) /\
  toy_shows_impure (fst (mstep m (RFlatten (Client 1) true))) (Client 1) = Some (1, 0).
Proof. vm_compute. repeat split; reflexivity. Qed.

Lemma toy_pure : forall v : toyV, tabulated toyV tcreate v -> tpure v = v.
Proof. reflexivity. Qed.

(* non-vacuity of the tabulated hypothesis in the same toy library *)
Lemma read_preserves_example :
  let m := MState [(Client 1, Parsed Text 1 0)] 0 in
  toy_shows m (Client 1) = Some (1, 1) /\ tabulated toyV tcreate (1, 1) /\
  toy_shows (fst (grun false m [RContents (Client 1) CRLF; RFlatten (Client 1) true; RGet (Client 1)])) (Client 1) = Some (1, 1).
Proof. vm_compute. repeat split; reflexivity. Qed.
